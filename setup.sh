#!/bin/bash
# Offline build of the whole framework: generated models, every .vo, nothing else.
set -e
cd "$(dirname "$0")"
export VERIF_REPO="${VERIF_REPO:-/repo}"
export PYTHONPATH="$VERIF_REPO" PYTHONHASHSEED=0 PYTHONDONTWRITEBYTECODE=1
ulimit -s unlimited 2>/dev/null || true
/venv/bin/python -W ignore -c "import problog; print('problog from', problog.__file__)"
mkdir -p .build evidence replays
# 1. regenerate every translated model from /repo
/venv/bin/python -W ignore harness/genall.py
# 2. full .vo build (never -vos)
cd coq
/venv/bin/python -W ignore -c "import sys; sys.path.insert(0,'../harness'); import vf; vf.refresh_makefile()"
timeout 3000 make -j16 2>&1 | tail -40
test "${PIPESTATUS[0]}" = 0
echo "setup ok"
