#!/bin/bash
# Offline build of the whole framework: generated models, every .vo, nothing else.
set -e
cd "$(dirname "$0")"
export VERIF_REPO="${VERIF_REPO:-/repo}"
export PYTHONPATH="$VERIF_REPO" PYTHONHASHSEED=0 PYTHONDONTWRITEBYTECODE=1
ulimit -s unlimited 2>/dev/null || true
/venv/bin/python -W ignore -c "import problog; print('problog from', problog.__file__)"
mkdir -p .build evidence replays
# 1. regenerate every translated model from /repo
/venv/bin/python -W ignore harness/genall.py
# 2. full .vo build (never -vos)
cd coq
/venv/bin/python -W ignore -c "import sys; sys.path.insert(0,'../harness'); import vf; vf.refresh_makefile()"
# -k: one property's broken file must not keep the others from building; each
# check rebuilds and audits its own cone anyway and reports what does not build.
timeout 3000 make -k -j16 > ../.build/setup-make.log 2>&1 || { echo "WARNING: some files did not build:"; grep -B2 -A8 "Error" ../.build/setup-make.log | head -60; }
echo "setup done"
