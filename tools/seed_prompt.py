import json, sys
pid = sys.argv[1]
for l in open('/verif/properties.jsonl'):
    d = json.loads(l)
    if d['id'] == pid:
        break
print(f"""You are a software engineer helping to evaluate a verification effort by playing the adversary. You work ONLY inside the scratch git worktree /tmp/seed-{pid} (a checkout of the Python project ML-KULeuven/problog, a probabilistic Prolog) and write your deliverables to /tmp/seed-out/{pid}/. Do not read or write anything under /verif or /repo, do not commit, and do not look at other /tmp/seed-* directories.

Here is a semantic property the project is supposed to satisfy (JSON record):

{json.dumps(d, indent=1)}

Task: produce a realistic, subtle change to the project's source (not to its tests) that BREAKS this property while the code still imports/compiles and the existing test suite still passes. The kind of change a plausible refactoring, optimisation or "small cleanup" commit could introduce. It must need something specific to manifest — a particular multi-step sequence of operations, an unusual input shape, a boundary value, a specific interleaving/order, or two cooperating sites that each look fine alone — not something ordinary use (or the shipped tests) would expose at once. Do not add dead giveaways (no comments saying it is a bug, no env-var switches, no randomness).

Steps:
1. Read the code the property is anchored in (paths in the record are relative to the worktree root).
2. Make the change in the worktree (one or a few small edits).
3. Run the existing test suite in the worktree and make sure it still passes exactly as before:
   cd /tmp/seed-{pid} && PYTHONPATH=/tmp/seed-{pid} /venv/bin/python -m pytest -q -p no:cacheprovider --timeout=900 -x problog/test 2>&1 | tail -5
   (takes about 2 minutes; 273 tests pass on the unmodified tree; make sure PYTHONPATH points to the worktree so your modified code is what gets tested).
4. Write a demonstration: a small standalone Python script /tmp/seed-out/{pid}/demo.py that, run as `PYTHONPATH=<tree> /venv/bin/python -W ignore /tmp/seed-out/{pid}/demo.py`, exits 0 on the unmodified tree and exits 1 (printing what went wrong) on the modified tree — by exhibiting a concrete violation of the property above (not merely a difference in internals).
5. Save `git diff` of your change to /tmp/seed-out/{pid}/patch.diff (must apply with `git apply` to the unmodified tree), verify the demo on both trees (use `git stash` / `git stash pop` or `git apply -R` in the worktree to flip), and write /tmp/seed-out/{pid}/README.md: what the change is, why it breaks the property, what it needs in order to manifest, the exact commands you ran and their outcomes (test-suite summary line for the modified tree, demo exit codes on both trees).
Leave the worktree with your change applied. If your first idea is caught by the test suite, try another. Final message: a 5-line summary (change, trigger, test-suite result, demo results).""")
