"""usage: addkf.py PROP CLASS WHAT [INPUT]  -- append a status=known entry"""
import json, sys
p='/verif/known_findings.json'
d=json.load(open(p))
prop, klass, what = sys.argv[1:4]
inp = sys.argv[4] if len(sys.argv) > 4 else ""
if not any(k['property']==prop and k['class']==klass for k in d['findings']):
    d['findings'].append({"property":prop,"class":klass,"status":"known","what":what,"input":{"witness":inp}})
json.dump(d,open(p,'w'),indent=1)
