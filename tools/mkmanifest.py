"""Regenerate MANIFEST.json from harness/props/*.py META + tools/not_applicable.json."""
import importlib
import json
import os
import sys

ROOT = os.path.dirname(os.path.dirname(os.path.abspath(__file__)))
sys.path.insert(0, os.path.join(ROOT, "harness"))
ids = [json.loads(l)["id"] for l in open(os.path.join(ROOT, "properties.jsonl"))]
na_reasons = json.load(open(os.path.join(ROOT, "tools", "not_applicable.json")))
claimed = json.load(open(os.path.join(ROOT, "tools", "claimed.json")))
checks, na = [], []
for pid in ids:
    path = os.path.join(ROOT, "harness", "props", pid + ".py")
    if os.path.exists(path) and pid in claimed:
        m = importlib.import_module("props." + pid).META
        checks.append({
            "property_id": pid,
            "quick_cmd": "./check %s --tier quick" % pid,
            "thorough_cmd": "./check %s --tier thorough" % pid,
            "evidence_file": "/verif/evidence/%s.json" % pid,
            "replay_cmd_template": "./check %s --replay {path}" % pid,
            "engine": "coq",
            "level_claimed": {"category": m["level"], "text": m["text"], "design_ref": m.get("design_ref", "DESIGN.md §5 " + pid)},
            "level_note": m["note"],
            "technique": m["technique"],
        })
    else:
        na.append({"property_id": pid, "reason": na_reasons.get(pid, "check not built yet (see DESIGN.md §9 build order); no claim is made")})
man = {
    "version": 1,
    "setup_cmd": "./setup.sh",
    "hooks": {
        "guard": "ML_KULEUVEN_PROBLOG_VERIF",
        "enable": "checks export ML_KULEUVEN_PROBLOG_VERIF=1 (see ./check); /repo is pure Python, nothing to rebuild",
        "baseline_off_cmd": "cd /repo && env -u ML_KULEUVEN_PROBLOG_VERIF /venv/bin/python -m pytest -ra -q -p no:cacheprovider --timeout=900 --continue-on-collection-errors",
        "source_commits": json.load(open(os.path.join(ROOT, "tools", "hook_commits.json"))),
        "add_only": True,
    },
    "engines": [{"name": "coq", "path": "/verif/coq", "serves_properties": [c["property_id"] for c in checks],
                 "kind_free_text": "Coq 8.16.1 development (models, proofs, property theorems) + Python correspondence harness under /verif/harness"}],
    "checks": checks,
    "not_applicable": na,
    "notes": "Every check: regenerate translated models from /repo, rebuild + audit the Coq cone of theories/<id>/Props.v (Print Assumptions, forbidden-word scan), run the model/implementation correspondence, search for a concrete failing input when either breaks. See DESIGN.md.",
}
json.dump(man, open(os.path.join(ROOT, "MANIFEST.json"), "w"), indent=1)
print("checks:", [c["property_id"] for c in checks])
