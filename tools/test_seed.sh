#!/bin/bash
# usage: tools/test_seed.sh Cxx [check-id ...]   -- apply seeded/Cxx/patch.diff to a scratch worktree of /repo HEAD,
# run the given checks (default: Cxx) against it, report VIOLATION lines, remove the worktree.
P=$1; shift; CH=${@:-$P}
WT=/tmp/st-$P
git -C /repo worktree remove --force $WT 2>/dev/null
git -C /repo worktree add -q --detach $WT HEAD || exit 2
if ! git -C $WT apply /verif/seeded/$P/patch.diff; then echo "SEED $P: patch does not apply to HEAD"; git -C /repo worktree remove --force $WT; exit 3; fi
PYTHONPATH=$WT /venv/bin/python -W ignore /verif/seeded/$P/demo.py > /tmp/st-$P.demo.log 2>&1; echo "SEED $P: demo on seeded tree rc=$?"
PYTHONPATH=/repo /venv/bin/python -W ignore /verif/seeded/$P/demo.py > /tmp/st-$P.demo0.log 2>&1; echo "SEED $P: demo on clean tree rc=$?"
cd /verif
for c in $CH; do
  VERIF_REPO=$WT ./check $c > /tmp/st-$P.$c.log 2>&1; rc=$?
  echo "SEED $P: check $c rc=$rc violations=$(grep -c '^VIOLATION' /tmp/st-$P.$c.log) nofailinginput=$(grep -c 'no-failing-input-found' /tmp/st-$P.$c.log)"
  grep -A1 '^VIOLATION' /tmp/st-$P.$c.log | head -6
done
git -C /repo worktree remove --force $WT
