"""usage: adopt_classes.py PROP  -- add every classified (non-None) violation class found in replays/PROP-*.json
as a status=known entry (what = first line of the violation text).  Used by the lead after reviewing a builder's notes."""
import json, sys, glob
prop=sys.argv[1]
p='/verif/known_findings.json'
d=json.load(open(p))
have={(k['property'],k['class']) for k in d['findings']}
n=0
for f in sorted(glob.glob('/verif/replays/%s-*.json'%prop)):
    r=json.load(open(f))
    k=r.get('class')
    if not k or not r.get('concrete_failing_input') or (prop,k) in have: continue
    d['findings'].append({"property":prop,"class":k,"status":"known","what":" ".join(r['what'].split())[:300],"input":r['replay']})
    have.add((prop,k)); n+=1; print('added',k)
json.dump(d,open(p,'w'),indent=1,default=str)
print(n,'added')
