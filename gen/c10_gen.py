"""Generators shared by C10 and C05: small ProbLog programs (mostly propositional, with
annotated disjunctions, stratified negation, positive recursion, evidence) and
direct random CNFs.  Every random choice comes from the rng passed in.

Probabilities are short decimals, so that `fractions.Fraction(str(p))` is the exact
value the model computes with (the float ProbLog uses differs by < 1e-16)."""

PROBS = ["0.1", "0.2", "0.25", "0.3", "0.4", "0.5", "0.6", "0.7", "0.75", "0.8", "0.9"]


def gen_program(rng, big=False):
    """Return ProbLog source text."""
    kind = rng.random()
    if kind < 0.12:
        return gen_graph_program(rng)
    lines = []
    atoms = []          # atoms usable in bodies (facts, AD heads, derived so far)
    nf = rng.randint(1, 5 if big else 4)
    for i in range(nf):
        lines.append("%s::f%d." % (rng.choice(PROBS), i))
        atoms.append("f%d" % i)
    nad = rng.choice([0, 0, 1, 1, 2])
    for j in range(nad):
        k = rng.choice([2, 2, 3])
        ps = []
        budget = 10
        for _ in range(k):
            c = rng.choice([1, 2, 3, 4])
            c = min(c, budget - (k - len(ps) - 1))
            c = max(c, 1)
            ps.append(c)
            budget -= c
        if rng.random() < 0.25:           # make the AD sum to exactly one
            ps[-1] += budget
        heads = ["a%d_%d" % (j, h) for h in range(k)]
        body = ""
        if rng.random() < 0.4 and atoms:
            body = " :- " + ", ".join(_lits(rng, atoms, rng.choice([1, 1, 2])))
        lines.append("; ".join("%s::%s" % (_dec(p), h) for p, h in zip(ps, heads)) + body + ".")
        atoms.extend(heads)
    nd = rng.randint(1, 5 if big else 4)
    derived = []
    for j in range(nd):
        name = "d%d" % j
        for _ in range(rng.choice([1, 1, 2, 2, 3])):
            body = _lits(rng, atoms, rng.choice([1, 2, 2, 3]))
            lines.append("%s :- %s." % (name, ", ".join(body)))
        derived.append(name)
        atoms.append(name)
    if rng.random() < 0.15 and len(derived) >= 2:
        # positive recursion between two derived atoms (cycle breaking runs before the CNF)
        x, y = rng.sample(derived, 2)
        lines.append("%s :- %s." % (x, y))
        lines.append("%s :- %s." % (y, x))
    qs = []
    for _ in range(rng.choice([1, 2, 2, 3])):      # queries prefer derived atoms
        q = rng.choice(derived) if rng.random() < 0.7 else rng.choice(atoms)
        if q not in qs:
            qs.append(q)
    for q in qs:
        lines.append("query(%s)." % q)
    if rng.random() < 0.5:
        for e in rng.sample(atoms, min(len(atoms), rng.choice([1, 1, 2]))):
            if e in qs and rng.random() < 0.7:
                continue
            lines.append("evidence(%s,%s)." % (e, rng.choice(["true", "false"])))
    return "\n".join(lines) + "\n"


def _dec(tenths):
    return "%.1f" % (tenths / 10.0) if tenths < 10 else "1.0"


def _lits(rng, atoms, k):
    chosen = rng.sample(atoms, min(k, len(atoms)))
    return [("\\+" + a) if rng.random() < 0.3 else a for a in chosen]


def gen_graph_program(rng):
    n = rng.choice([3, 3, 4])
    edges = set()
    for _ in range(rng.randint(2, 5)):
        a, b = rng.sample(range(1, n + 1), 2)
        edges.add((a, b))
    lines = ["%s::e(%d,%d)." % (rng.choice(PROBS), a, b) for a, b in sorted(edges)]
    lines.append("p(X,Y) :- e(X,Y).")
    lines.append("p(X,Y) :- e(X,Z), p(Z,Y).")
    a, b = rng.sample(range(1, n + 1), 2)
    lines.append("query(p(%d,%d))." % (a, b))
    if rng.random() < 0.4:
        c, d = rng.sample(range(1, n + 1), 2)
        lines.append("evidence(p(%d,%d),%s)." % (c, d, rng.choice(["true", "false"])))
    return "\n".join(lines) + "\n"


def gen_cnf(rng):
    """A direct CNF description: dict(n, clauses, weights{var: decimal str}, names[(name, key, label)]).
    key: int literal, 0 (TRUE) or None (FALSE).  Includes shapes Clark's completion never
    produces (unit clauses, unsatisfiable sets, variables occurring in no clause)."""
    n = rng.randint(1, 7)
    m = rng.choice([1, 1, 2, 3, 4, 6, 9])
    clauses = []
    for _ in range(m):
        k = rng.choice([1, 2, 2, 3, 3, 4])
        vs = rng.sample(range(1, n + 1), min(k, n))
        clauses.append([v if rng.random() < 0.5 else -v for v in vs])
    weights = {}
    for v in range(1, n + 1):
        if rng.random() < 0.7:
            weights[v] = rng.choice(PROBS)
    names = []
    for i in range(rng.randint(1, 4)):
        r = rng.random()
        if r < 0.08:
            key = 0
        elif r < 0.16:
            key = None
        else:
            v = rng.randint(1, n)
            key = v if rng.random() < 0.65 else -v
        names.append(("q%d" % i, key, "query"))
    if rng.random() < 0.35:
        v = rng.randint(1, n)
        names.append(("ev0", v if rng.random() < 0.7 else -v, rng.choice(["evidence+", "evidence-"])))
    return {"n": n, "clauses": clauses, "weights": weights, "names": names}
