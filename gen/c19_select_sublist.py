"""Fail-closed translator: problog/engine_builtin.py `_select_sublist(lst, target)` (a generator)
and problog/formula.py `BaseFormula.negate` / `TRUE` / `FALSE`  ->  Gallina
(coq/theories/C19/GenSelectSublist.v, vocabulary of ModelSelectSublist.v + SelectPrelude.v).

Python subset understood (anything else raises TranslationError):
  statements (function body)
      docstring | x = e | x += e | x -= e
      for i in range(0, ln): BODY           ln = len(L): fold over `indexed L`; state = names BODY re-binds
          BODY:  if c: B [else: B] | V[i] = e | x = e | x += e
      while n >= 0: BODY; yield e; n -= 1   last statement of the generator: map over `zdown n`
          BODY:  x = e | if c: a, b = e1 else: a, b = e2
      if c: return e elif ... else: return e   (negate)
  expressions
      names, int literals, None (only next to `is` / `[None] * ln`), target.TRUE / target.FALSE / target.negate(e),
      len(L), tuple(e), zip(*e) (unpacked into two names: List.split), L[i] / V[i] for the loop index i,
      e[0] / e[1] on an element (term, node), + - << & on ints, + on lists/tuples, unary - on a key,
      == on keys, `k not in (a, b)` on keys, >= on ints, `e is None` / `e is not None`, not / and / or
      (`e is [not] None and B`: B is translated under the refinement e = Some v / None: Python's short circuit),
      ints and lists in boolean position (truthy_int / truthy_list),
      [e for i in range(0, ln) if c], tuple literals (a list; a pair where two names are unpacked / yielded).
Types are inferred (int, key, bool, elem, term, opt int, list t, pair); an int literal in a list of keys
is the key `Some z` (TRUE = 0).  The generated function returns the list of yielded pairs.
"""
import ast
import hashlib
import os


class TranslationError(Exception):
    pass


def fail(node, msg):
    raise TranslationError("line %s: %s: %s" % (getattr(node, "lineno", "?"), msg,
                                                 ast.dump(node)[:300] if isinstance(node, ast.AST) else node))


INT, KEY, BOOL, ELEM, TERM, NONE = "int", "key", "bool", "elem", "term", "none"
OPTINT = ("opt", INT)


def LIST(t):
    return ("list", t)


def is_list(t):
    return isinstance(t, tuple) and t[0] == "list"


class Var:
    def __init__(self, term, ty, lenof=None, index_of=None):
        self.term, self.ty, self.lenof, self.index_of = term, ty, lenof, index_of


def is_name(e, name=None):
    return isinstance(e, ast.Name) and (name is None or e.id == name)


def is_range_len(e, env):
    """range(0, ln) with ln = len(L)  ->  L"""
    if not (isinstance(e, ast.Call) and is_name(e.func, "range") and len(e.args) == 2 and not e.keywords):
        return None
    a, b = e.args
    if not (isinstance(a, ast.Constant) and a.value == 0 and type(a.value) is int and is_name(b)):
        return None
    v = env.get(b.id)
    if v is None or v.ty != "len":
        return None
    return v.lenof


class Tr:
    def __init__(self):
        self.fresh = 0
        self.refine = {}      # ast.dump(expr of type opt int) -> ("some", var) | ("none",)

    def new(self, base):
        self.fresh += 1
        return "%s%d" % (base, self.fresh)

    # ------------------------------------------------------------ coercions
    def as_bool(self, e, t, ty):
        if ty == BOOL:
            return t
        if ty == INT:
            return "(truthy_int %s)" % t
        if is_list(ty):
            return "(truthy_list %s)" % t
        fail(e, "value of type %s in boolean position" % (ty,))

    def unify_list(self, e, a, b):
        """(term, list type) x 2 -> both terms at a common list type"""
        (ta, tya), (tb, tyb) = a, b
        if not (is_list(tya) and is_list(tyb)):
            fail(e, "+ on %s and %s" % (tya, tyb))
        ea, eb = tya[1], tyb[1]
        if ea == eb or eb == "?":
            return ta, tb, tya
        if ea == "?":
            return ta, tb, tyb
        if ea == KEY and eb == INT:
            return ta, "(map (@Some Z) %s)" % tb, tya
        if ea == INT and eb == KEY:
            return "(map (@Some Z) %s)" % ta, tb, tyb
        fail(e, "lists of %s and %s" % (ea, eb))

    # ------------------------------------------------------------ expressions
    def expr(self, e, env):
        d = ast.dump(e)
        if d in self.refine:
            r = self.refine[d]
            if r[0] == "some":
                return r[1], INT
            fail(e, "use of a value known to be None")
        if isinstance(e, ast.Constant):
            if type(e.value) is int:
                return "(%d)%%Z" % e.value, INT
            if e.value is None:
                return "None", NONE
            fail(e, "constant")
        if isinstance(e, ast.Name):
            if e.id not in env:
                fail(e, "unknown name")
            v = env[e.id]
            if v.ty in ("len", "idx", "target"):
                fail(e, "bare use of a %s value" % v.ty)
            return v.term, v.ty
        if isinstance(e, ast.Attribute):
            if is_name(e.value) and env.get(e.value.id) is not None and env[e.value.id].ty == "target":
                if e.attr == "TRUE":
                    return "kTRUE_gen", KEY
                if e.attr == "FALSE":
                    return "kFALSE_gen", KEY
            fail(e, "attribute")
        if isinstance(e, ast.Subscript):
            return self.subscript(e, env)
        if isinstance(e, ast.Call):
            return self.call(e, env)
        if isinstance(e, ast.UnaryOp):
            if isinstance(e.op, ast.Not):
                t, ty = self.expr(e.operand, env)
                return "(negb %s)" % self.as_bool(e.operand, t, ty), BOOL
            if isinstance(e.op, ast.USub):
                t, ty = self.expr(e.operand, env)
                if ty == KEY:
                    return "(key_opp %s)" % t, KEY
                if ty == INT:
                    return "(- %s)%%Z" % t, INT
            fail(e, "unary operator")
        if isinstance(e, ast.BinOp):
            return self.binop(e, env)
        if isinstance(e, ast.Compare):
            return self.compare(e, env)
        if isinstance(e, ast.BoolOp):
            return self.boolop(e, env)
        if isinstance(e, ast.ListComp):
            return self.listcomp(e, env)
        if isinstance(e, ast.Tuple) or isinstance(e, ast.List):
            if any(isinstance(x, ast.Starred) for x in e.elts):
                fail(e, "starred element")
            parts = [self.expr(x, env) for x in e.elts]
            if not parts:
                return "[]", LIST("?")
            tys = {ty for _, ty in parts}
            if len(tys) != 1 or next(iter(tys)) not in (INT, KEY):
                fail(e, "tuple/list literal of %s" % (sorted(map(str, tys)),))
            return "[%s]" % "; ".join(t for t, _ in parts), LIST(parts[0][1])
        fail(e, "expression")

    def subscript(self, e, env):
        base, idx = e.value, e.slice
        if is_name(idx) and idx.id in env and env[idx.id].ty == "idx":
            iv = env[idx.id]
            if not is_name(base) or base.id not in env:
                fail(e, "indexing something else than a named list")
            lv = env[base.id]
            if not is_list(lv.ty):
                fail(e, "indexing a non-list")
            if base.id == iv.index_of:
                return iv.term + "_elem", lv.ty[1]
            if lv.lenof == iv.index_of and lv.ty == LIST(OPTINT):
                return "(get_nth %s %s)" % (lv.term, iv.term), OPTINT
            fail(e, "index %s does not range over the length of %s" % (idx.id, base.id))
        if isinstance(idx, ast.Constant) and type(idx.value) is int and idx.value in (0, 1):
            t, ty = self.expr(base, env)
            if ty != ELEM:
                fail(e, "[0]/[1] on a value of type %s" % (ty,))
            return ("(fst %s)" % t, TERM) if idx.value == 0 else ("(snd %s)" % t, KEY)
        fail(e, "subscript")

    def call(self, e, env):
        f = e.func
        if e.keywords:
            fail(e, "keyword arguments")
        if is_name(f, "len") and len(e.args) == 1:
            fail(e, "len() outside `ln = len(lst)`")
        if is_name(f, "tuple") and len(e.args) == 1:
            t, ty = self.expr(e.args[0], env)
            if not is_list(ty):
                fail(e, "tuple() of a non-list")
            return t, ty
        if isinstance(f, ast.Attribute) and is_name(f.value) and f.value.id in env and env[f.value.id].ty == "target" \
                and f.attr == "negate" and len(e.args) == 1:
            t, ty = self.expr(e.args[0], env)
            if ty != KEY:
                fail(e, "negate of a non-key")
            return "(negate_gen %s)" % t, KEY
        fail(e, "call")

    def binop(self, e, env):
        op = e.op
        if isinstance(op, ast.Mult):
            # [None] * ln
            l, r = e.left, e.right
            if isinstance(l, ast.List) and len(l.elts) == 1 and isinstance(l.elts[0], ast.Constant) and l.elts[0].value is None \
                    and is_name(r) and r.id in env and env[r.id].ty == "len":
                return "(repeat (@None Z) %s)" % env[r.id].term, (LIST(OPTINT), env[r.id].lenof)
            fail(e, "multiplication")
        a = self.expr(e.left, env)
        b = self.expr(e.right, env)
        if a[1] == INT and b[1] == INT:
            fmt = {ast.Add: "(%s + %s)%%Z", ast.Sub: "(%s - %s)%%Z", ast.LShift: "(Z.shiftl %s %s)", ast.BitAnd: "(Z.land %s %s)"}
            for k, v in fmt.items():
                if isinstance(op, k):
                    return v % (a[0], b[0]), INT
            fail(e, "integer operator")
        if isinstance(op, ast.Add):
            ta, tb, ty = self.unify_list(e, a, b)
            return "(%s ++ %s)" % (ta, tb), ty
        fail(e, "binary operator")

    def compare(self, e, env):
        if len(e.ops) != 1:
            fail(e, "chained comparison")
        op, l, r = e.ops[0], e.left, e.comparators[0]
        if isinstance(op, (ast.Is, ast.IsNot)):
            if not (isinstance(r, ast.Constant) and r.value is None):
                fail(e, "is")
            d = ast.dump(l)
            if d in self.refine:
                known_none = self.refine[d][0] == "none"
                return ("true" if known_none == isinstance(op, ast.Is) else "false"), BOOL
            t, ty = self.expr(l, env)
            if ty != OPTINT:
                fail(e, "`is None` on a value of type %s" % (ty,))
            if isinstance(op, ast.Is):
                return "(match %s with None => true | Some _ => false end)" % t, BOOL
            return "(match %s with None => false | Some _ => true end)" % t, BOOL
        if isinstance(op, ast.Eq):
            a, b = self.expr(l, env), self.expr(r, env)
            if a[1] == KEY and b[1] == KEY:
                return "(key_eqb %s %s)" % (a[0], b[0]), BOOL
            fail(e, "== on %s and %s" % (a[1], b[1]))
        if isinstance(op, ast.GtE):
            a, b = self.expr(l, env), self.expr(r, env)
            if a[1] == INT and b[1] == INT:
                return "(Z.leb %s %s)" % (b[0], a[0]), BOOL
            fail(e, ">=")
        if isinstance(op, ast.NotIn):
            a = self.expr(l, env)
            if a[1] != KEY or not isinstance(r, ast.Tuple) or not r.elts:
                fail(e, "not in")
            alts = []
            for x in r.elts:
                t, ty = self.expr(x, env)
                if ty != KEY:
                    fail(e, "not in (non-key)")
                alts.append("key_eqb %s %s" % (a[0], t))
            return "(negb (%s))" % " || ".join(alts), BOOL
        fail(e, "comparison")

    def none_test(self, e):
        """`X is None` / `X is not None` -> (X, is_none)"""
        if isinstance(e, ast.Compare) and len(e.ops) == 1 and isinstance(e.ops[0], (ast.Is, ast.IsNot)) \
                and isinstance(e.comparators[0], ast.Constant) and e.comparators[0].value is None:
            return e.left, isinstance(e.ops[0], ast.Is)
        return None

    def boolop(self, e, env):
        vals = list(e.values)
        if isinstance(e.op, ast.Or):
            parts = []
            for v in vals:
                t, ty = self.expr(v, env)
                parts.append(self.as_bool(v, t, ty))
            return "(%s)" % " || ".join(parts), BOOL
        # and: right-nested; a leading None-test refines the rest (short circuit)
        first, rest = vals[0], vals[1:]
        if len(rest) > 1:
            rest_e = ast.BoolOp(op=ast.And(), values=rest)
            ast.copy_location(rest_e, rest[0])
        else:
            rest_e = rest[0]
        nt = self.none_test(first)
        if nt is not None and ast.dump(nt[0]) not in self.refine:
            x, is_none = nt
            t, ty = self.expr(x, env)
            if ty != OPTINT:
                fail(e, "None-test on a value of type %s" % (ty,))
            d = ast.dump(x)
            v = self.new("b")
            self.refine[d] = ("none",) if is_none else ("some", v)
            try:
                tr, tyr = self.expr(rest_e, env)
                tr = self.as_bool(rest_e, tr, tyr)
            finally:
                del self.refine[d]
            if is_none:
                return "(match %s with None => %s | Some _ => false end)" % (t, tr), BOOL
            return "(match %s with Some %s => %s | None => false end)" % (t, v, tr), BOOL
        t, ty = self.expr(first, env)
        tr, tyr = self.expr(rest_e, env)
        return "(%s && %s)" % (self.as_bool(first, t, ty), self.as_bool(rest_e, tr, tyr)), BOOL

    def listcomp(self, e, env):
        if len(e.generators) != 1:
            fail(e, "comprehension generators")
        g = e.generators[0]
        if g.is_async or not is_name(g.target) or len(g.ifs) != 1:
            fail(e, "comprehension shape")
        base = is_range_len(g.iter, env)
        if base is None:
            fail(e, "comprehension not over range(0, len(list))")
        i = g.target.id
        if i in env:
            fail(e, "comprehension variable shadows %s" % i)
        env2 = dict(env)
        env2[i] = Var(i, "idx", index_of=base)
        c, cty = self.expr(g.ifs[0], env2)
        c = self.as_bool(g.ifs[0], c, cty)
        el, elty = self.expr(e.elt, env2)
        if elty not in (ELEM, KEY, TERM, INT):
            fail(e, "comprehension element of type %s" % (elty,))
        pat = "'(%s, %s_elem)" % (i, i)
        return ("(map (fun %s => %s)\n        (filter (fun %s => %s)\n           (indexed %s)))"
                % (pat, el, pat, c, env[base].term)), LIST(elty)

    # ------------------------------------------------------------ statements
    def assigned(self, stmts, env):
        out = []
        for st in stmts:
            for n in ast.walk(st):
                tg = None
                if isinstance(n, ast.Assign):
                    if len(n.targets) != 1:
                        fail(n, "multiple targets")
                    tg = n.targets[0]
                elif isinstance(n, ast.AugAssign):
                    tg = n.target
                if tg is None:
                    continue
                if isinstance(tg, ast.Subscript):
                    tg = tg.value
                if not is_name(tg):
                    fail(n, "assignment target")
                if tg.id not in out:
                    out.append(tg.id)
        for v in out:
            if v not in env:
                fail(stmts[0], "loop body defines a new name %s" % v)
        return out

    def simple_assign(self, st, env):
        """x = e | x += e | x -= e | V[i] = e  ->  (name, term, Var) or None"""
        if isinstance(st, ast.AugAssign) and is_name(st.target):
            if not isinstance(st.op, (ast.Add, ast.Sub)):
                fail(st, "augmented assignment operator")
            x = st.target.id
            if x not in env or env[x].ty != INT:
                fail(st, "augmented assignment to a non-int")
            t, ty = self.expr(st.value, env)
            if ty != INT:
                fail(st, "augmented assignment of a non-int")
            return x, "(%s %s %s)%%Z" % (env[x].term, "+" if isinstance(st.op, ast.Add) else "-", t), Var(x, INT)
        if isinstance(st, ast.Assign) and len(st.targets) == 1:
            tg = st.targets[0]
            if is_name(tg):
                r = self.expr(st.value, env)
                t, ty = r[0], r[1]
                lenof = None
                if isinstance(ty, tuple) and len(ty) == 2 and is_list(ty[0]):      # ([None] * ln) carries its length
                    ty, lenof = ty
                if ty in (NONE, "len", "idx", "target") or ty == LIST("?"):
                    fail(st, "assignment of a value of type %s" % (ty,))
                if tg.id in env and env[tg.id].ty != ty:
                    fail(st, "re-binding %s at another type" % tg.id)
                return tg.id, t, Var(tg.id, ty, lenof=lenof)
            if isinstance(tg, ast.Subscript) and is_name(tg.value) and is_name(tg.slice):
                v, i = tg.value.id, tg.slice.id
                if v not in env or i not in env or env[i].ty != "idx" or env[v].ty != LIST(OPTINT) \
                        or env[v].lenof != env[i].index_of:
                    fail(st, "subscript store")
                t, ty = self.expr(st.value, env)
                if ty != INT:
                    fail(st, "store of a non-int into a list of optional ints")
                return v, "(set_nth %s %s (Some %s))" % (env[v].term, env[i].term, t), env[v]
        return None

    def loop_block(self, stmts, env, state):
        """body of a for loop -> term of the state tuple's type"""
        if not stmts:
            return tuple_of(state)
        st, rest = stmts[0], stmts[1:]
        if isinstance(st, ast.If):
            t, ty = self.expr(st.test, env)
            then = self.loop_block(list(st.body) + rest, env, state)
            els = self.loop_block(list(st.orelse) + rest, env, state)
            return "if %s\n      then %s\n      else %s" % (self.as_bool(st.test, t, ty), then, els)
        sa = self.simple_assign(st, env)
        if sa is None:
            fail(st, "statement in a for body")
        name, term, var = sa
        if name not in state:
            fail(st, "assignment to a name outside the loop state")
        env2 = dict(env)
        env2[name] = var
        return "let %s := %s in\n      %s" % (name, term, self.loop_block(rest, env2, state))

    def for_loop(self, st, env):
        if st.orelse or not is_name(st.target):
            fail(st, "for shape")
        base = is_range_len(st.iter, env)
        if base is None:
            fail(st, "for not over range(0, len(list))")
        i = st.target.id
        if i in env:
            fail(st, "loop variable shadows %s" % i)
        state = self.assigned(st.body, env)
        if not state:
            fail(st, "loop without state")
        env2 = dict(env)
        env2[i] = Var(i, "idx", index_of=base)
        body = self.loop_block(list(st.body), env2, state)
        return state, ("fold_left (fun %s '(%s, %s_elem) =>\n      %s)\n    (indexed %s) %s"
                       % (pat_of(state), i, i, body, env[base].term, tuple_of(state)))

    def pair_value(self, e, env):
        """an expression that is unpacked into / yielded as two values -> (term, ty1, ty2)"""
        if isinstance(e, ast.Tuple) and len(e.elts) == 2:
            (a, ta), (b, tb) = self.expr(e.elts[0], env), self.expr(e.elts[1], env)
            return "(%s, %s)" % (a, b), ta, tb
        if isinstance(e, ast.Call) and is_name(e.func, "zip") and len(e.args) == 1 and not e.keywords \
                and isinstance(e.args[0], ast.Starred):
            t, ty = self.expr(e.args[0].value, env)
            if ty != LIST(ELEM):
                fail(e, "zip(*x) on a value of type %s" % (ty,))
            return "(split %s)" % t, LIST(TERM), LIST(KEY)
        fail(e, "expression unpacked into two names")

    def while_block(self, stmts, env, counter):
        """body of the while loop (without the final decrement) -> term of the yielded pair"""
        if not stmts:
            fail(counter, "while body without a yield")
        st, rest = stmts[0], stmts[1:]
        if isinstance(st, ast.Expr) and isinstance(st.value, ast.Yield):
            if rest or st.value.value is None:
                fail(st, "yield must be the last statement before the decrement")
            t, ta, tb = self.pair_value(st.value.value, env)
            if ta not in (LIST(TERM), LIST("?")) or tb != LIST(KEY):
                fail(st, "yield of (%s, %s)" % (ta, tb))
            return t
        if isinstance(st, ast.If):
            # if c: a, b = e1  else: a, b = e2
            def two(b):
                if len(b) == 1 and isinstance(b[0], ast.Assign) and len(b[0].targets) == 1 \
                        and isinstance(b[0].targets[0], ast.Tuple) and len(b[0].targets[0].elts) == 2 \
                        and all(is_name(x) for x in b[0].targets[0].elts):
                    return [x.id for x in b[0].targets[0].elts], b[0].value
                fail(st, "if arm is not a two-name unpacking")
            n1, v1 = two(st.body)
            n2, v2 = two(st.orelse)
            if n1 != n2 or n1[0] == n1[1] or counter in n1 or any(n in env for n in n1):
                fail(st, "if arms bind different / existing names")
            c, cty = self.expr(st.test, env)
            p1, p2 = self.pair_value(v1, env), self.pair_value(v2, env)

            def join(a, b):
                if a == b or b == LIST("?"):
                    return a
                if a == LIST("?"):
                    return b
                fail(st, "if arms of types %s and %s" % (a, b))
            env2 = dict(env)
            env2[n1[0]] = Var(n1[0], join(p1[1], p2[1]))
            env2[n1[1]] = Var(n1[1], join(p1[2], p2[2]))
            return "let '(%s, %s) := if %s then %s else %s in\n    %s" % (
                n1[0], n1[1], self.as_bool(st.test, c, cty), p1[0], p2[0], self.while_block(rest, env2, counter))
        sa = self.simple_assign(st, env)
        if sa is None:
            fail(st, "statement in the while body")
        name, term, var = sa
        if name == counter or name in env:
            fail(st, "while body re-binds %s" % name)
        env2 = dict(env)
        env2[name] = var
        return "let %s :=\n      %s in\n    %s" % (name, term, self.while_block(rest, env2, counter))

    def top(self, stmts, env):
        if not stmts:
            fail("end", "generator without a while loop")
        st, rest = stmts[0], stmts[1:]
        if isinstance(st, ast.Expr) and isinstance(st.value, ast.Constant) and isinstance(st.value.value, str):
            return self.top(rest, env)
        if isinstance(st, ast.Assign) and len(st.targets) == 1 and is_name(st.targets[0]) and isinstance(st.value, ast.Call) \
                and is_name(st.value.func, "len") and len(st.value.args) == 1 and not st.value.keywords and is_name(st.value.args[0]):
            lst = st.value.args[0].id
            if lst not in env or not is_list(env[lst].ty) or st.targets[0].id in env:
                fail(st, "len of a non-list")
            env2 = dict(env)
            env2[st.targets[0].id] = Var(st.targets[0].id, "len", lenof=lst)
            return "let %s := length %s in\n  %s" % (st.targets[0].id, env[lst].term, self.top(rest, env2))
        if isinstance(st, ast.For):
            state, term = self.for_loop(st, env)
            return "let %s :=\n    %s in\n  %s" % (pat_of(state), term, self.top(rest, env))
        if isinstance(st, ast.While):
            if rest or st.orelse:
                fail(st, "the while loop must be the last statement")
            tst = st.test
            if not (isinstance(tst, ast.Compare) and len(tst.ops) == 1 and isinstance(tst.ops[0], ast.GtE) and is_name(tst.left)
                    and isinstance(tst.comparators[0], ast.Constant) and tst.comparators[0].value == 0
                    and type(tst.comparators[0].value) is int):
                fail(st, "while test is not `n >= 0`")
            n = tst.left.id
            if n not in env or env[n].ty != INT:
                fail(st, "while counter")
            last = st.body[-1] if st.body else None
            if not (isinstance(last, ast.AugAssign) and is_name(last.target, n) and isinstance(last.op, ast.Sub)
                    and isinstance(last.value, ast.Constant) and last.value.value == 1 and type(last.value.value) is int):
                fail(st, "while body does not end in `n -= 1`")
            for x in st.body[:-1]:
                for y in ast.walk(x):
                    if isinstance(y, (ast.Assign, ast.AugAssign)):
                        tgs = y.targets if isinstance(y, ast.Assign) else [y.target]
                        for tg in tgs:
                            for z in ast.walk(tg):
                                if is_name(z, n):
                                    fail(y, "while body assigns the counter")
                    if isinstance(y, (ast.Break, ast.Continue, ast.Return)):
                        fail(y, "control flow inside the while body")
            body = self.while_block(list(st.body[:-1]), env, n)
            return "map (fun %s =>\n    %s)\n  (zdown %s)" % (n, body, env[n].term)
        sa = self.simple_assign(st, env)
        if sa is None:
            fail(st, "statement")
        name, term, var = sa
        env2 = dict(env)
        env2[name] = var
        return "let %s := %s in\n  %s" % (name, term, self.top(rest, env2))

    # ------------------------------------------------------------ negate: if/elif/else of returns
    def ret_chain(self, stmts, env):
        stmts = [s for s in stmts if not (isinstance(s, ast.Expr) and isinstance(s.value, ast.Constant) and isinstance(s.value.value, str))]
        if len(stmts) != 1:
            fail(stmts[0] if stmts else "end", "body is not a single if/return")
        st = stmts[0]
        if isinstance(st, ast.Return) and st.value is not None:
            t, ty = self.expr(st.value, env)
            if ty != KEY:
                fail(st, "return of a non-key")
            return t
        if isinstance(st, ast.If) and st.orelse:
            c, cty = self.expr(st.test, env)
            return "if %s then %s\n  else %s" % (self.as_bool(st.test, c, cty), self.ret_chain(st.body, env), self.ret_chain(st.orelse, env))
        fail(st, "statement in negate")


def tuple_of(names):
    return names[0] if len(names) == 1 else "(" + ", ".join(names) + ")"


def pat_of(names):
    return names[0] if len(names) == 1 else "'(" + ", ".join(names) + ")"


def coq_comment(text):
    """source text inside a Coq comment: break comment delimiters and string quotes"""
    return text.replace("(*", "( *").replace("*)", "* )").replace('"', "'")


def span(src_lines, node):
    return "\n".join("   %4d| %s" % (i, src_lines[i - 1]) for i in range(node.lineno, node.end_lineno + 1))


HEADER = """(* GENERATED by gen/c19_select_sublist.py - do not edit.
   %(p1)s (sha1 %(s1)s): _select_sublist, lines %(a1)d-%(b1)d
   %(p2)s (sha1 %(s2)s): BaseFormula.TRUE / FALSE (lines %(lt)d, %(lf)d), BaseFormula.negate, lines %(a2)d-%(b2)d
   Python ints = Z, node keys = key (option Z), lists and tuples = list, unpacked 2-tuples = pairs;
   the generator is the list of the pairs it yields.  `target` is a formula object: only its
   TRUE / FALSE / negate members are used (resolved in class BaseFormula). *)
From Coq Require Import ZArith List Bool.
From PL.C19 Require Import ModelSelectSublist SelectPrelude.
Import ListNotations.

"""


def find_class(tree, name):
    for st in tree.body:
        if isinstance(st, ast.ClassDef) and st.name == name:
            return st
    raise TranslationError("class %s not found" % name)


def translate(repo):
    p1 = os.path.join("problog", "engine_builtin.py")
    p2 = os.path.join("problog", "formula.py")
    with open(os.path.join(repo, p1)) as f:
        src1 = f.read()
    with open(os.path.join(repo, p2)) as f:
        src2 = f.read()
    t1, t2 = ast.parse(src1), ast.parse(src2)
    l1, l2 = src1.split("\n"), src2.split("\n")

    # ---- BaseFormula.TRUE / FALSE / negate (no subclass may override them)
    base = find_class(t2, "BaseFormula")
    consts, neg = {}, None
    for st in base.body:
        if isinstance(st, ast.Assign) and len(st.targets) == 1 and is_name(st.targets[0]) and st.targets[0].id in ("TRUE", "FALSE"):
            if st.targets[0].id in consts or not isinstance(st.value, ast.Constant):
                fail(st, "definition of TRUE/FALSE")
            consts[st.targets[0].id] = st
        if isinstance(st, ast.FunctionDef) and st.name == "negate":
            if neg is not None:
                fail(st, "second definition of negate")
            neg = st
    if set(consts) != {"TRUE", "FALSE"} or neg is None:
        raise TranslationError("BaseFormula.TRUE / FALSE / negate not found")
    vt, vf_ = consts["TRUE"].value.value, consts["FALSE"].value.value
    if type(vt) is not int or vf_ is not None:
        fail(consts["TRUE"], "TRUE must be an int literal and FALSE must be None")
    for tree, path in ((t1, p1), (t2, p2)):
        for n in ast.walk(tree):
            if isinstance(n, ast.ClassDef) and n is not base:
                for st in n.body:
                    names = []
                    if isinstance(st, ast.FunctionDef):
                        names = [st.name]
                    elif isinstance(st, ast.Assign):
                        names = [x.id for tg in st.targets for x in ast.walk(tg) if isinstance(x, ast.Name)]
                    if set(names) & {"TRUE", "FALSE", "negate"}:
                        fail(st, "class %s in %s overrides TRUE/FALSE/negate" % (n.name, path))
    if [a.arg for a in neg.args.args] != ["self", "key"] or neg.args.defaults or neg.args.vararg or neg.args.kwarg \
            or neg.args.kwonlyargs or neg.decorator_list:
        fail(neg, "signature of negate")
    tr = Tr()
    nbody = tr.ret_chain(neg.body, {"self": Var("self", "target"), "key": Var("k", KEY)})

    # ---- _select_sublist
    fns = [st for st in t1.body if isinstance(st, ast.FunctionDef) and st.name == "_select_sublist"]
    if len(fns) != 1:
        raise TranslationError("_select_sublist: %d definitions" % len(fns))
    fn = fns[0]
    if [a.arg for a in fn.args.args] != ["lst", "target"] or fn.args.defaults or fn.args.vararg or fn.args.kwarg \
            or fn.args.kwonlyargs or fn.decorator_list:
        fail(fn, "signature of _select_sublist")
    nyield = sum(isinstance(n, (ast.Yield, ast.YieldFrom)) for n in ast.walk(fn))
    if nyield != 1 or any(isinstance(n, (ast.Return, ast.Try, ast.With, ast.Lambda, ast.FunctionDef)) and n is not fn for n in ast.walk(fn)):
        fail(fn, "generator with %d yields / unexpected control flow" % nyield)
    tr = Tr()
    body = tr.top(list(fn.body), {"lst": Var("lst", LIST(ELEM)), "target": Var("target", "target")})

    out = [HEADER % {"p1": p1, "s1": hashlib.sha1(src1.encode()).hexdigest()[:12], "a1": fn.lineno, "b1": fn.end_lineno,
                     "p2": p2, "s2": hashlib.sha1(src2.encode()).hexdigest()[:12], "a2": neg.lineno, "b2": neg.end_lineno,
                     "lt": consts["TRUE"].lineno, "lf": consts["FALSE"].lineno}]
    out.append("(* source consumed:\n%s\n%s\n*)" % (coq_comment(span(l2, consts["TRUE"])), coq_comment(span(l2, consts["FALSE"]))))
    out.append("Definition kTRUE_gen : key := Some (%d)%%Z.\nDefinition kFALSE_gen : key := None.\n" % vt)
    out.append("(* source consumed:\n%s\n*)" % coq_comment(span(l2, neg)))
    out.append("Definition negate_gen (k : key) : key :=\n  %s.\n" % nbody)
    out.append("(* source consumed:\n%s\n*)" % coq_comment(span(l1, fn)))
    out.append("Definition select_sublist_gen {T : Type} (lst : list (T * key)) : list (list T * list key) :=\n  %s.\n" % body)
    return "\n".join(out)


def stub(reason):
    """what generate() writes when the translator failed closed: no definitions, so that the proofs
    about the generated model cannot be discharged against a stale file"""
    return "(* gen/c19_select_sublist.py FAILED CLOSED: %s *)\n" % coq_comment(reason)


if __name__ == "__main__":
    import sys
    print(translate(sys.argv[1] if len(sys.argv) > 1 else os.environ.get("VERIF_REPO", "/repo")))
