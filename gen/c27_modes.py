"""C27 translator: problog/engine_builtin.py  ->  coq/theories/C27/GenModes.v   (fail-closed)

What is translated (Python `ast` -> Gallina):
  * every `_is_*` type predicate reachable from the `mode_types` table (bodies translated
    expression by expression into the partial-boolean combinators of ModelTerms.v, so that the
    *short-circuit guarding* of `.arity`, `.functor`, `.args[0]`, `.is_float()` ... is visible);
  * the `mode_types` table itself (letter -> (name, predicate));
  * every `check_mode(...)` call site of the module: enclosing function, line, argument tuple
    (as indices into the enclosing function's parameters), the literal list of mode strings and the
    `functor=` keyword;  the number of sites is cross-checked against a token-level count;
  * the registration table: a symbolic walk of `add_standard_builtins` (+ the decorator registry);
  * for every registered builtin the check_mode sites reachable through direct calls of module
    functions (delegation such as findall -> findall_base, calln -> call);
  * a syntactic inventory of the partial Python primitives (`int(x)`, `float(x.functor)`,
    `x.args`, subscripts, `round`, `raise`) in the body of each hand-modelled builtin.
What is pinned (compared with an expected AST, any difference raises): `check_mode`,
`list_tail`, `list_elements` (hand-modelled loops), `logic.is_variable`, `logic.is_ground`.

Anything the translator does not recognise raises TranslationError.
"""
import ast
import io
import os
import tokenize


class TranslationError(Exception):
    pass


def fail(node, msg):
    line = getattr(node, "lineno", "?")
    raise TranslationError("c27_modes: line %s: %s" % (line, msg))


# ----------------------------------------------------------------------------- pinned shapes
PINNED_BUILTIN = {
    "check_mode": '''
def check_mode(args, accepted, functor=None, location=None, database=None, **kwdargs):
    for i, mode in enumerate(accepted):
        correct = True
        for a, t in zip(args, mode):
            name, test = mode_types[t]
            if not test(a):
                correct = False
                break
        if correct:
            return i
    if database and location:
        location = database.lineno(location)
    else:
        location = None
    raise CallModeError(functor, args, accepted, location=location)
''',
    "list_elements": '''
def list_elements(term):
    elements = []
    tail = term
    while _is_list_maybe(tail):
        elements.append(tail.args[0])
        tail = tail.args[1]
    return elements, tail
''',
    "list_tail": '''
def list_tail(term):
    tail = term
    while _is_list_maybe(tail):
        tail = tail.args[1]
    return tail
''',
}
PINNED_LOGIC = {
    "is_variable": '''
def is_variable(term):
    return term is None or type(term) == int or term.is_var()
''',
    "is_ground": '''
def is_ground(*terms):
    for term in terms:
        if is_variable(term):
            return False
        elif not term.is_ground():
            return False
    return True
''',
}


PINNED_LOGIC["compute_function"] = '''
def compute_function(func, args, extra_functions=None):
    if extra_functions is None:
        extra_functions = {}

    function = _arithmetic_functions.get((unquote(func), len(args)))
    if function is None:
        function = extra_functions.get((unquote(func), len(args)))
        if function is None:
            raise ArithmeticError("Unknown function '%s'/%s" % (func, len(args)))
    try:
        values = [arg.compute_value(extra_functions) for arg in args]
        if None in values:
            return None
        else:
            return function(*values)
    except HANDLERS:
        pass
'''
PINNED_LOGIC["unquote"] = '''
def unquote(s):
    return s.strip("'")
'''

# integer-fragment operators whose Python definition the hand model (ModelBuiltins.v, `bin_op`/`un_op`) relies on
PINNED_LAMBDAS = {
    ("+", 2): "lambda a, b: a + b", ("-", 2): "lambda a, b: a - b", ("*", 2): "lambda a, b: a * b",
    ("/\\", 2): "lambda a, b: a & b", ("\\/", 2): "lambda a, b: a | b", ("xor", 2): "lambda a, b: a ^ b",
    ("#", 2): "lambda a, b: a ^ b", ("><", 2): "lambda a, b: a ^ b", ("/", 2): "lambda a, b: a / b",
    ("//", 2): "lambda a, b: (a // b if b > 0 else -(a // -b)) if a >= 0 else -(-a // b) if b > 0 else -a // -b",   # truncating (commit 0b983d1) ("<<", 2): "lambda a, b: a << b", (">>", 2): "lambda a, b: a >> b",
    ("mod", 2): "lambda a, b: a % b", ("rem", 2): "lambda a, b: a % b", ("div", 2): "lambda a, b: (a - a % b) // b",
    ("**", 2): "lambda a, b: a ** b", ("^", 2): "lambda a, b: a ** b", ("+", 1): "lambda a: a", ("-", 1): "lambda a: -a",
    ("\\", 1): "lambda a: ~a", ("integer", 1): "int", ("float", 1): "float", ("float_integer_part", 1): "lambda f: int(f)",
    ("float_fractional_part", 1): "lambda f: f - int(f)", ("abs", 1): "abs", ("ceiling", 1): "lambda x: int(math.ceil(x))",
    ("round", 1): "lambda x: int(round(x))", ("floor", 1): "lambda x: int(math.floor(x))",
    ("truncate", 1): "lambda x: int(math.trunc(x))", ("min", 2): "min", ("max", 2): "max",
    ("sign", 1): "lambda x: 1 if x > 0 else -1 if x < 0 else 0",
}


def translate_arith(ltree):
    """Keys of logic._arithmetic_functions (name, arity); fail-closed on any other way of filling the table."""
    table = {}
    recognised = 0
    mentions = 0
    for node in ast.walk(ltree):
        if isinstance(node, ast.Name) and node.id == "_arithmetic_functions":
            mentions += 1
    math1 = None
    for n in ltree.body:
        if isinstance(n, ast.Assign) and len(n.targets) == 1 and isinstance(n.targets[0], ast.Name):
            if n.targets[0].id == "_arithmetic_functions":
                if not isinstance(n.value, ast.Dict):
                    fail(n, "_arithmetic_functions is not a dict literal")
                recognised += 1
                for k, v in zip(n.value.keys, n.value.values):
                    if not (isinstance(k, ast.Tuple) and len(k.elts) == 2 and isinstance(k.elts[0], ast.Constant)
                            and type(k.elts[0].value) is str and isinstance(k.elts[1], ast.Constant) and type(k.elts[1].value) is int):
                        fail(n, "_arithmetic_functions key is not (str, int)")
                    table[(k.elts[0].value, k.elts[1].value)] = ast.unparse(v)     # later duplicates overwrite, as in Python
            elif n.targets[0].id == "_from_math_1":
                if not (isinstance(n.value, ast.List) and all(isinstance(x, ast.Constant) and type(x.value) is str for x in n.value.elts)):
                    fail(n, "_from_math_1 is not a list of strings")
                math1 = [x.value for x in n.value.elts]
        elif isinstance(n, ast.For) and ast.unparse(n.iter) == "_from_math_1":
            if ast.unparse(n) != "for _f in _from_math_1:\n    _arithmetic_functions[_f, 1] = getattr(math, _f)":
                fail(n, "loop over _from_math_1 has an unknown shape")
            if math1 is None:
                fail(n, "_from_math_1 used before its definition")
            recognised += 1
            for f in math1:
                table[(f, 1)] = "math." + f
        elif (isinstance(n, ast.Assign) and len(n.targets) == 1 and isinstance(n.targets[0], ast.Subscript)
              and isinstance(n.targets[0].value, ast.Name) and n.targets[0].value.id == "_arithmetic_functions"):
            k = n.targets[0].slice
            if not (isinstance(k, ast.Tuple) and len(k.elts) == 2 and isinstance(k.elts[0], ast.Constant) and type(k.elts[0].value) is str
                    and isinstance(k.elts[1], ast.Constant) and type(k.elts[1].value) is int):
                fail(n, "_arithmetic_functions[...] key is not (str, int)")
            recognised += 1
            table[(k.elts[0].value, k.elts[1].value)] = ast.unparse(n.value)
    # the remaining mention is the lookup in compute_function (pinned)
    if mentions != recognised + 1:
        raise TranslationError("c27_modes: %d mentions of _arithmetic_functions, %d understood" % (mentions, recognised + 1))
    for key, want in PINNED_LAMBDAS.items():
        if table.get(key) != want:
            raise TranslationError("c27_modes: arithmetic function %r is %r, the hand model assumes %r" % (key, table.get(key), want))
    return table


def strip_doc(fn):
    body = list(fn.body)
    if body and isinstance(body[0], ast.Expr) and isinstance(body[0].value, ast.Constant) and isinstance(body[0].value.value, str):
        body = body[1:]
    return body


def norm_dump(fn):
    clone = ast.FunctionDef(name=fn.name, args=fn.args, body=strip_doc(fn), decorator_list=[], returns=None,
                            type_comment=None)
    return ast.dump(clone, annotate_fields=True, include_attributes=False)


def handler_names(h):
    """except <Name | (Name, ...)> [as x]: raise ArithmeticError(...)   ->  exception names"""
    if h.type is None:
        fail(h, "bare except in compute_function")
    elts = h.type.elts if isinstance(h.type, ast.Tuple) else [h.type]
    if not all(isinstance(e, ast.Name) for e in elts):
        fail(h, "except clause is not a name or tuple of names")
    if not (len(h.body) == 1 and isinstance(h.body[0], ast.Raise) and isinstance(h.body[0].exc, ast.Call)
            and isinstance(h.body[0].exc.func, ast.Name) and h.body[0].exc.func.id == "ArithmeticError"):
        fail(h, "except clause of compute_function does not re-raise as ArithmeticError")
    return [e.id for e in elts]


def strip_handlers(fn):
    """Copy of a function whose (single, last) try statement has its handlers replaced by a fixed placeholder."""
    import copy
    fn = copy.deepcopy(fn)
    names = []
    for node in ast.walk(fn):
        if isinstance(node, ast.Try):
            for h in node.handlers:
                names.extend(handler_names(h))
            node.handlers = ast.parse("try:\n    pass\nexcept HANDLERS:\n    pass").body[0].handlers
    return fn, names


def check_pinned(funcs, pinned, where):
    for name, text in pinned.items():
        if name not in funcs:
            raise TranslationError("c27_modes: %s.%s not found" % (where, name))
        want = norm_dump(ast.parse(text).body[0])
        got = norm_dump(strip_handlers(funcs[name])[0] if name == "compute_function" else funcs[name])
        if want != got:
            raise TranslationError("c27_modes: %s.%s no longer has the shape the hand model describes" % (where, name))


# ----------------------------------------------------------------------------- Coq text helpers
def coq_str(s):
    return '"' + s.replace('"', '""') + '"'


def coq_char(c):
    if len(c) != 1 or ord(c) > 126 or ord(c) < 32:
        raise TranslationError("c27_modes: mode letter %r is not printable ASCII" % (c,))
    if c == '"':
        return '""""%char'
    return '"%s"%%char' % c


def coq_name(pyname):
    if pyname.startswith("_is_"):
        return "py" + pyname
    raise TranslationError("c27_modes: no Coq name for %r" % pyname)


def coq_list(xs):
    return "[" + "; ".join(xs) + "]"


# ----------------------------------------------------------------------------- predicate translation
# external total predicates with hand models in ModelTerms.v (logic.py, pinned above)
EXTERNAL_PRED = {"is_variable": "py_is_variable", "is_ground": "py_is_ground"}
METHOD_PRED = {"is_var": "m_is_var", "is_constant": "m_is_constant", "is_float": "m_is_float",
               "is_integer": "m_is_integer", "is_string": "m_is_string"}
ISINSTANCE = {"Var": "isinstance_Var", "Object": "isinstance_Object"}
TERM_FUNCS = {"list_tail": "list_tail"}          # total term -> term helpers (pinned loops)


class PredTranslator:
    def __init__(self, funcs):
        self.funcs = funcs
        self.done = {}          # python name -> Gallina definition text
        self.order = []
        self.visiting = set()

    # term-valued expressions: Gallina of type `option pterm`
    def term_expr(self, e, env):
        if isinstance(e, ast.Name):
            if e.id not in env:
                fail(e, "unknown term variable %s" % e.id)
            return "(Some %s)" % env[e.id]
        if (isinstance(e, ast.Subscript) and isinstance(e.value, ast.Attribute) and e.value.attr == "args"
                and isinstance(e.slice, ast.Constant) and type(e.slice.value) is int and e.slice.value >= 0):
            return "(obind %s (a_args_nth %d))" % (self.term_expr(e.value.value, env), e.slice.value)
        if isinstance(e, ast.Call) and isinstance(e.func, ast.Name) and e.func.id in TERM_FUNCS and len(e.args) == 1 and not e.keywords:
            return "(omap %s %s)" % (TERM_FUNCS[e.func.id], self.term_expr(e.args[0], env))
        fail(e, "term expression not understood: %s" % ast.dump(e))

    # boolean expressions: Gallina of type `option bool` (None = the Python expression raises)
    def bool_expr(self, e, env):
        if isinstance(e, ast.Constant) and type(e.value) is bool:
            return "(Some %s)" % ("true" if e.value else "false")
        if isinstance(e, ast.BoolOp):
            op = "pand" if isinstance(e.op, ast.And) else "por" if isinstance(e.op, ast.Or) else None
            if op is None:
                fail(e, "boolean operator")
            parts = [self.bool_expr(v, env) for v in e.values]
            out = parts[-1]
            for p in reversed(parts[:-1]):
                out = "(%s %s %s)" % (op, p, out)
            return out
        if isinstance(e, ast.UnaryOp) and isinstance(e.op, ast.Not):
            return "(pnot %s)" % self.bool_expr(e.operand, env)
        if isinstance(e, ast.Call) and not e.keywords:
            f = e.func
            if isinstance(f, ast.Name) and f.id == "isinstance":
                if len(e.args) == 2 and isinstance(e.args[1], ast.Name) and e.args[1].id in ISINSTANCE:
                    return "(omap %s %s)" % (ISINSTANCE[e.args[1].id], self.term_expr(e.args[0], env))
                fail(e, "isinstance form")
            if isinstance(f, ast.Name) and len(e.args) == 1:
                if f.id in EXTERNAL_PRED:
                    return "(obind %s %s)" % (self.term_expr(e.args[0], env), EXTERNAL_PRED[f.id])
                if f.id in self.funcs and f.id.startswith("_is_"):
                    self.translate(f.id)
                    return "(obind %s %s)" % (self.term_expr(e.args[0], env), coq_name(f.id))
                fail(e, "call of unknown predicate %s" % f.id)
            if isinstance(f, ast.Attribute) and f.attr in METHOD_PRED and not e.args:
                return "(obind %s %s)" % (self.term_expr(f.value, env), METHOD_PRED[f.attr])
            fail(e, "call not understood: %s" % ast.dump(e))
        if isinstance(e, ast.Compare) and len(e.ops) == 1 and isinstance(e.left, ast.Attribute):
            obj = self.term_expr(e.left.value, env)
            op, rhs = e.ops[0], e.comparators[0]
            if e.left.attr == "arity" and isinstance(rhs, ast.Constant) and type(rhs.value) is int:
                cmpf = {ast.Eq: "Z.eqb", ast.Gt: "Z.gtb", ast.Lt: "Z.ltb", ast.GtE: "Z.geb", ast.LtE: "Z.leb"}.get(type(op))
                if cmpf is None:
                    fail(e, "arity comparison operator")
                return "(obind %s (fun t_ => omap (fun n_ => %s n_ (%d)%%Z) (a_arity t_)))" % (obj, cmpf, rhs.value)
            if e.left.attr == "functor" and isinstance(op, ast.Eq) and isinstance(rhs, ast.Constant) and type(rhs.value) is str:
                return "(obind %s (fun t_ => a_functor_eq t_ %s))" % (obj, coq_str(rhs.value))
            if (e.left.attr == "functor" and isinstance(op, ast.In) and isinstance(rhs, ast.Tuple)
                    and all(isinstance(x, ast.Constant) and type(x.value) is str for x in rhs.elts)):
                return "(obind %s (fun t_ => a_functor_in t_ %s))" % (obj, coq_list([coq_str(x.value) for x in rhs.elts]))
            fail(e, "comparison not understood")
        fail(e, "boolean expression not understood: %s" % ast.dump(e))

    def body(self, stmts, env):
        """Statement list ending in a return -> Gallina `option bool`."""
        if not stmts:
            fail(None, "function body falls off the end")
        s = stmts[0]
        if isinstance(s, ast.Return):
            if len(stmts) != 1:
                fail(s, "code after return")
            return self.bool_expr(s.value, env)
        if isinstance(s, ast.Assign) and len(s.targets) == 1 and isinstance(s.targets[0], ast.Name):
            v = s.targets[0].id
            coqv = "v_" + v
            rhs = self.term_expr(s.value, env)
            env2 = dict(env)
            env2[v] = coqv
            return "(obind %s (fun %s => %s))" % (rhs, coqv, self.body(stmts[1:], env2))
        if isinstance(s, ast.If) and not s.orelse:
            # `if c: ...return` followed by the fall-through code
            then = self.body(s.body, env)
            rest = self.body(stmts[1:], env)
            return "(pif %s %s %s)" % (self.bool_expr(s.test, env), then, rest)
        fail(s, "statement not understood in a predicate: %s" % type(s).__name__)

    def translate(self, name):
        if name in self.done:
            return
        if name in self.visiting:
            raise TranslationError("c27_modes: recursive predicate %s" % name)
        self.visiting.add(name)
        fn = self.funcs[name]
        a = fn.args
        if a.vararg or a.kwarg or a.kwonlyargs or a.defaults or len(a.args) != 1 or fn.decorator_list:
            fail(fn, "predicate %s must take exactly one positional parameter" % name)
        p = a.args[0].arg
        text = "Definition %s (%s : pterm) : option bool :=\n  %s." % (coq_name(name), "a_" + p,
                                                                        self.body(strip_doc(fn), {p: "a_" + p}))
        self.visiting.discard(name)
        self.done[name] = text
        self.order.append(name)

    def lambda_pred(self, lam):
        a = lam.args
        if a.vararg or a.kwarg or a.kwonlyargs or a.defaults or len(a.args) != 1:
            fail(lam, "lambda predicate must take one parameter")
        p = a.args[0].arg
        return "(fun a_%s : pterm => %s)" % (p, self.bool_expr(lam.body, {p: "a_" + p}))


# ----------------------------------------------------------------------------- module walk
def module_functions(tree):
    return {n.name: n for n in tree.body if isinstance(n, ast.FunctionDef)}


def all_functiondefs(tree):
    """(qualified name, FunctionDef, enclosing top-level function name)"""
    out = []

    def walk(node, top):
        for ch in ast.iter_child_nodes(node):
            if isinstance(ch, (ast.FunctionDef, ast.AsyncFunctionDef)):
                out.append((ch, top or ch.name))
                walk(ch, top or ch.name)
            else:
                walk(ch, top)
    walk(tree, None)
    return out


def positional_params(fn):
    return [a.arg for a in fn.args.posonlyargs + fn.args.args]


def find_mode_types(tree, pt):
    for n in tree.body:
        if isinstance(n, ast.Assign) and len(n.targets) == 1 and isinstance(n.targets[0], ast.Name) and n.targets[0].id == "mode_types":
            if not isinstance(n.value, ast.Dict):
                fail(n, "mode_types is not a dict literal")
            rows = []
            for k, v in zip(n.value.keys, n.value.values):
                if not (isinstance(k, ast.Constant) and type(k.value) is str and len(k.value) == 1):
                    fail(n, "mode_types key is not a one-letter string")
                if not (isinstance(v, ast.Tuple) and len(v.elts) == 2 and isinstance(v.elts[0], ast.Constant) and type(v.elts[0].value) is str):
                    fail(v, "mode_types value is not (name, predicate)")
                pred = v.elts[1]
                if isinstance(pred, ast.Name):
                    if pred.id in EXTERNAL_PRED:
                        g = EXTERNAL_PRED[pred.id]
                    elif pred.id in pt.funcs:
                        pt.translate(pred.id)
                        g = coq_name(pred.id)
                    else:
                        fail(pred, "unknown predicate %s" % pred.id)
                elif isinstance(pred, ast.Lambda):
                    g = pt.lambda_pred(pred)
                else:
                    fail(pred, "predicate is neither a name nor a lambda")
                rows.append((k.value, v.elts[0].value, g))
            if len(set(r[0] for r in rows)) != len(rows):
                fail(n, "duplicate letter in mode_types")
            return rows
    raise TranslationError("c27_modes: mode_types not found")


def count_check_mode_tokens(src):
    """Token-level count of `check_mode (` occurrences that are calls (not the def)."""
    toks = list(tokenize.generate_tokens(io.StringIO(src).readline))
    n = 0
    for i, t in enumerate(toks):
        if t.type == tokenize.NAME and t.string == "check_mode":
            prev = toks[i - 1] if i else None
            nxt = toks[i + 1] if i + 1 < len(toks) else None
            if prev is not None and prev.type == tokenize.NAME and prev.string == "def":
                continue
            if nxt is not None and nxt.string == "(":
                n += 1
            else:
                raise TranslationError("c27_modes: line %d: check_mode used other than as a direct call" % t.start[0])
    return n


def find_sites(tree):
    sites = []
    seen_calls = 0
    fdefs = all_functiondefs(tree)
    owner = {}
    for fn, top in fdefs:
        for node in ast.walk(fn):
            if isinstance(node, ast.Call):
                # innermost owner wins: later (nested) defs overwrite
                owner[id(node)] = (fn, top)
    for node in ast.walk(tree):
        if isinstance(node, ast.Call) and isinstance(node.func, ast.Name) and node.func.id == "check_mode":
            seen_calls += 1
            if id(node) not in owner:
                fail(node, "check_mode call outside any function")
            fn, top = owner[id(node)]
            if fn.name != top:
                fail(node, "check_mode call inside a nested function")
            if len(node.args) != 2:
                fail(node, "check_mode call without exactly two positional arguments")
            a0, a1 = node.args
            if not isinstance(a0, (ast.Tuple, ast.List)) or not all(isinstance(x, ast.Name) for x in a0.elts):
                fail(node, "first argument of check_mode is not a tuple/list of names")
            params = positional_params(fn)
            idx = []
            for x in a0.elts:
                if x.id not in params:
                    fail(node, "check_mode argument %s is not a positional parameter of %s" % (x.id, fn.name))
                idx.append(params.index(x.id))
            if not isinstance(a1, ast.List) or not a1.elts or not all(isinstance(x, ast.Constant) and type(x.value) is str for x in a1.elts):
                fail(node, "second argument of check_mode is not a non-empty list of string literals")
            functor = None
            for kw in node.keywords:
                if kw.arg == "functor":
                    if not (isinstance(kw.value, ast.Constant) and type(kw.value.value) is str):
                        # `functor=functor` where functor is a local string constant
                        if isinstance(kw.value, ast.Name):
                            val = local_string_constant(fn, kw.value.id)
                            if val is None:
                                fail(node, "functor= keyword is not a string literal")
                            functor = val
                        else:
                            fail(node, "functor= keyword is not a string literal")
                    else:
                        functor = kw.value.value
                elif kw.arg in ("database", "location"):
                    pass
                elif kw.arg is None:
                    if not isinstance(kw.value, ast.Name):
                        fail(node, "**kwargs form")
                else:
                    fail(node, "unexpected keyword %s" % kw.arg)
            sites.append({"func": fn.name, "line": node.lineno, "args": [x.id for x in a0.elts], "argidx": idx,
                          "modes": [x.value for x in a1.elts], "functor": functor, "vararg": fn.args.vararg is not None,
                          "nparams": len(params), "ndefaults": len(fn.args.defaults)})
    sites.sort(key=lambda s: s["line"])
    return sites, seen_calls


def local_string_constant(fn, name):
    vals = []
    for node in ast.walk(fn):
        if isinstance(node, ast.Assign) and any(isinstance(t, ast.Name) and t.id == name for t in node.targets):
            if isinstance(node.value, ast.Constant) and type(node.value.value) is str:
                vals.append(node.value.value)
            else:
                return None
    if len(vals) == 1 and name not in positional_params(fn):
        return vals[0]
    return None


KINDS = {"b": "KBool", "s": "KDet", "sp": "KProb"}
DECORATOR_KINDS = {"builtin_boolean": "KBool", "builtin_simple": "KDet", "builtin_probabilistic": "KProb", "builtin_raw": "KRaw"}


def eval_int(e, env):
    if isinstance(e, ast.Constant) and type(e.value) is int:
        return e.value
    if isinstance(e, ast.Name) and e.id in env:
        return env[e.id]
    if isinstance(e, ast.BinOp) and isinstance(e.op, (ast.Add, ast.Sub)):
        a, b = eval_int(e.left, env), eval_int(e.right, env)
        return a + b if isinstance(e.op, ast.Add) else a - b
    fail(e, "integer expression not understood in add_standard_builtins")


def find_registrations(tree, funcs):
    if "add_standard_builtins" not in funcs:
        raise TranslationError("c27_modes: add_standard_builtins not found")
    fn = funcs["add_standard_builtins"]
    regs = []
    registry_added = [False]

    def reg_call(call, env):
        if not (isinstance(call.func, ast.Attribute) and isinstance(call.func.value, ast.Name)):
            fail(call, "statement in add_standard_builtins is not engine.add_builtin(...)")
        if call.func.value.id == "builtin" and call.func.attr == "add_builtins":
            registry_added[0] = True
            return
        if call.func.value.id != "engine" or call.func.attr != "add_builtin" or call.keywords or len(call.args) != 3:
            fail(call, "statement in add_standard_builtins is not engine.add_builtin(name, arity, f)")
        name, arity, f = call.args
        if not (isinstance(name, ast.Constant) and type(name.value) is str):
            fail(call, "builtin name is not a string literal")
        ar = eval_int(arity, env)
        if isinstance(f, ast.Name):
            kind, pyf = "KRaw", f.id
        elif (isinstance(f, ast.Call) and isinstance(f.func, ast.Name) and f.func.id in KINDS and len(f.args) == 1
              and isinstance(f.args[0], ast.Name) and not f.keywords):
            kind, pyf = KINDS[f.func.id], f.args[0].id
        else:
            fail(call, "builtin function expression not understood")
        if pyf not in funcs:
            fail(call, "builtin function %s is not a module-level function" % pyf)
        regs.append((name.value, ar, kind, pyf))

    def stmts(body, env):
        for s in body:
            if isinstance(s, ast.Expr) and isinstance(s.value, ast.Constant):
                continue
            if isinstance(s, ast.Expr) and isinstance(s.value, ast.Call):
                reg_call(s.value, env)
                continue
            if (isinstance(s, ast.For) and isinstance(s.target, ast.Name) and not s.orelse and isinstance(s.iter, ast.Call)
                    and isinstance(s.iter.func, ast.Name) and s.iter.func.id == "range" and len(s.iter.args) == 2 and not s.iter.keywords):
                lo, hi = eval_int(s.iter.args[0], env), eval_int(s.iter.args[1], env)
                for i in range(lo, hi):
                    env2 = dict(env)
                    env2[s.target.id] = i
                    stmts(s.body, env2)
                continue
            fail(s, "statement not understood in add_standard_builtins: %s" % type(s).__name__)
    stmts(fn.body, {})
    if not registry_added[0]:
        raise TranslationError("c27_modes: add_standard_builtins no longer calls builtin.add_builtins")
    # decorator registry, in source order
    for n in tree.body:
        if isinstance(n, ast.FunctionDef):
            for d in n.decorator_list:
                if (isinstance(d, ast.Call) and isinstance(d.func, ast.Name) and d.func.id in DECORATOR_KINDS and len(d.args) == 2
                        and isinstance(d.args[0], ast.Constant) and type(d.args[0].value) is str
                        and isinstance(d.args[1], ast.Constant) and type(d.args[1].value) is int and not d.keywords):
                    regs.append((d.args[0].value, d.args[1].value, DECORATOR_KINDS[d.func.id], n.name))
                else:
                    fail(d, "decorator not understood on %s" % n.name)
    # later registrations of the same signature overwrite the index entry
    return regs


def call_graph(funcs):
    g = {}
    for name, fn in funcs.items():
        callees = set()
        for node in ast.walk(fn):
            if isinstance(node, ast.Call) and isinstance(node.func, ast.Name) and node.func.id in funcs and node.func.id != name:
                callees.add(node.func.id)
        g[name] = callees
    return g


def reachable(g, start):
    seen, todo = [], [start]
    while todo:
        x = todo.pop()
        if x in seen:
            continue
        seen.append(x)
        todo.extend(sorted(g.get(x, ())))
    return seen


def try_guards(fn, target_pred, exc_names):
    """Is every node satisfying target_pred lexically inside the body of a `try` with a handler for one of exc_names?"""
    guarded, total = 0, 0

    def walk(node, inside):
        nonlocal guarded, total
        if isinstance(node, ast.Try):
            caught = set()
            for h in node.handlers:
                if h.type is None:
                    caught.add("*")
                else:
                    for e in (h.type.elts if isinstance(h.type, ast.Tuple) else [h.type]):
                        if isinstance(e, ast.Name):
                            caught.add(e.id)
            ins = inside or bool(caught & set(exc_names)) or "*" in caught
            for ch in node.body:
                walk(ch, ins)
            for ch in node.handlers + node.orelse + node.finalbody:
                walk(ch, inside)
            return
        if target_pred(node):
            total += 1
            if inside:
                guarded += 1
        for ch in ast.iter_child_nodes(node):
            walk(ch, inside)
    walk(fn, False)
    return total, guarded


def is_call_named(name):
    return lambda n: isinstance(n, ast.Call) and isinstance(n.func, ast.Name) and n.func.id == name


def is_ordering_compare(n):
    return isinstance(n, ast.Compare) and any(isinstance(o, (ast.Lt, ast.Gt, ast.LtE, ast.GtE)) for o in n.ops)


# ----------------------------------------------------------------------------- partial-primitive inventory
PARTIAL_CALLS = {"int", "float", "round", "sorted", "set", "range"}
PARTIAL_ATTRS = {"args", "functor", "arity", "compute_value", "with_args", "variables", "apply", "apply_term"}


def primitive_inventory(fn):
    out = []
    for node in ast.walk(fn):
        if isinstance(node, ast.Call) and isinstance(node.func, ast.Name) and node.func.id in PARTIAL_CALLS:
            out.append(ast.unparse(node))
        elif isinstance(node, ast.Attribute) and node.attr in PARTIAL_ATTRS:
            out.append(ast.unparse(node))
        elif isinstance(node, ast.Subscript):
            out.append(ast.unparse(node))
        elif isinstance(node, ast.Call) and not isinstance(node.func, (ast.Name, ast.Attribute)):
            out.append("call:" + ast.unparse(node.func))
        elif isinstance(node, ast.Compare) and any(isinstance(o, (ast.Lt, ast.Gt, ast.LtE, ast.GtE)) for o in node.ops):
            out.append("cmp:" + ast.unparse(node))
        elif isinstance(node, ast.Call) and isinstance(node.func, ast.Name) and node.func.id == "unify_value":
            pass
        elif isinstance(node, ast.Raise):
            out.append("raise " + (ast.unparse(node.exc.func) if isinstance(node.exc, ast.Call) else ast.unparse(node.exc) if node.exc else ""))
    tot, g = try_guards(fn, is_call_named("unify_value"), ["UnifyError"])
    if tot != g:
        out.append("unguarded:unify_value")
    return sorted(set(out))


MODELLED = ["_builtin_between", "_builtin_succ", "_builtin_plus", "_builtin_length", "_builtin_functor", "_builtin_arg",
            "_builtin_split_call", "_builtin_sort", "_builtin_compare", "_builtin_atom_number", "_builtin_is",
            "_builtin_gt", "_builtin_lt", "_builtin_le", "_builtin_ge", "_builtin_val_neq", "_builtin_val_eq",
            "_builtin_nocache", "_builtin_numbervars"]


# ----------------------------------------------------------------------------- main entry
def translate(repo):
    path = os.path.join(repo, "problog", "engine_builtin.py")
    with open(path) as f:
        src = f.read()
    import warnings
    warnings.simplefilter("ignore")
    tree = ast.parse(src)
    funcs = module_functions(tree)
    check_pinned(funcs, PINNED_BUILTIN, "engine_builtin")
    with open(os.path.join(repo, "problog", "logic.py")) as f:
        ltree = ast.parse(f.read())
    check_pinned(module_functions(ltree), PINNED_LOGIC, "logic")
    arith = translate_arith(ltree)
    arith_caught = strip_handlers(module_functions(ltree)["compute_function"])[1]

    pt = PredTranslator(funcs)
    rows = find_mode_types(tree, pt)
    # type-test builtins are one-line wrappers of the predicates: translate them too
    type_tests = []
    for name, fn in funcs.items():
        if name.startswith("_is_") and name not in pt.done:
            pt.translate(name)
    sites, ncalls = find_sites(tree)
    ntok = count_check_mode_tokens(src)
    if ncalls != ntok or len(sites) != ncalls:
        raise TranslationError("c27_modes: %d check_mode call tokens but %d call nodes / %d translated sites" % (ntok, ncalls, len(sites)))
    known_letters = set(r[0] for r in rows)
    regs = find_registrations(tree, funcs)
    g = call_graph(funcs)
    by_func = {}
    for i, s in enumerate(sites):
        by_func.setdefault(s["func"], []).append(i)

    # type-test builtins: `def _builtin_X(term, **k): return <bool expr over _is_*>`
    tt = PredTranslator(funcs)
    tt.done, tt.order = pt.done, pt.order
    for (name, ar, kind, pyf) in regs:
        fn = funcs[pyf]
        body = strip_doc(fn)
        if (kind == "KBool" and ar == 1 and len(body) == 1 and isinstance(body[0], ast.Return) and len(fn.args.args) == 1
                and fn.args.vararg is None and pyf not in by_func):
            try:
                p = fn.args.args[0].arg
                expr = tt.bool_expr(body[0].value, {p: "a_" + p})
            except TranslationError:
                continue
            type_tests.append((name, pyf, "(fun a_%s : pterm => %s)" % (p, expr)))

    out = []
    w = out.append
    w("(* GENERATED by gen/c27_modes.py from problog/engine_builtin.py -- do not edit. *)")
    w("From Coq Require Import ZArith List Bool String Ascii.")
    w("From PL.C27 Require Import ModelTerms.")
    w("Import ListNotations.")
    w("Open Scope string_scope.")
    w("")
    w("(* ---- type predicates (None = the Python expression would raise) *)")
    for name in pt.order:
        w(pt.done[name])
    w("")
    w("(* ---- mode_types: letter -> (name, predicate) *)")
    w("Definition mode_types : list (ascii * (string * (pterm -> option bool))) :=")
    w("  " + coq_list(["(%s, (%s, %s))" % (coq_char(l), coq_str(n), p) for (l, n, p) in rows]) + ".")
    w("")
    w("(* ---- check_mode call sites *)")
    w("Definition check_sites : list site :=")
    w("  " + coq_list(["mk_site %s %d%%N %s %s %s %s" % (coq_str(s["func"]), s["line"], coq_list(["%d%%nat" % i for i in s["argidx"]]),
                                                        coq_list([coq_str(m) for m in s["modes"]]),
                                                        "None" if s["functor"] is None else "(Some %s)" % coq_str(s["functor"]),
                                                        "true" if s["vararg"] else "false")
                       for s in sites]) + ".")
    w("")
    w("(* ---- registrations, in registration order: (name, arity, wrapper kind, python function) *)")
    w("Definition registrations : list (string * nat * bkind * string) :=")
    w("  " + coq_list(["(%s, %d%%nat, %s, %s)" % (coq_str(n), a, k, coq_str(f)) for (n, a, k, f) in regs]) + ".")
    w("")
    w("(* ---- for every registered builtin: indices (into check_sites) of the sites reachable from its function *)")
    rows2 = []
    for (n, a, k, f) in regs:
        idx = []
        for fn_name in reachable(g, f):
            idx.extend(by_func.get(fn_name, []))
        rows2.append("(%s, %d%%nat, %s)" % (coq_str(n), a, coq_list(["%d%%nat" % i for i in sorted(idx)])))
    w("Definition builtin_sites : list (string * nat * list nat) :=")
    w("  " + coq_list(rows2) + ".")
    w("")
    w("(* ---- type-test builtins: registered name -> translated body *)")
    w("Definition type_tests : list (string * (pterm -> option bool)) :=")
    w("  " + coq_list(["(%s, %s)" % (coq_str(n), e) for (n, f, e) in type_tests]) + ".")
    w("")
    w("(* ---- logic._arithmetic_functions: the (name, arity) keys; the integer-fragment entries are pinned by the translator *)")
    w("Definition arith_functions : list (string * nat) :=")
    w("  " + coq_list(["(%s, %d%%nat)" % (coq_str(k[0]), k[1]) for k in sorted(arith)]) + ".")
    w("")
    w("(* ---- exceptions that logic.compute_function converts into ArithmeticError (its `except` clauses) *)")
    w("Definition arith_caught : list string := %s." % coq_list([coq_str(x) for x in arith_caught]))
    w("(* ---- ordering comparison builtins whose `a_value < b_value` sits inside a try that handles TypeError *)")
    guarded_cmp = []
    for f in ["_builtin_gt", "_builtin_lt", "_builtin_le", "_builtin_ge"]:
        tot, gok = try_guards(funcs[f], is_ordering_compare, ["TypeError"])
        if tot == 0:
            raise TranslationError("c27_modes: %s no longer contains an ordering comparison" % f)
        if tot == gok:
            guarded_cmp.append(f)
    w("Definition cmp_type_guarded : list string := %s." % coq_list([coq_str(x) for x in guarded_cmp]))
    w("(* ---- does _builtin_atom_number test math.isfinite / math.isinf / math.isnan before round()? *)")
    fin = any(isinstance(n, ast.Attribute) and isinstance(n.value, ast.Name) and n.value.id == "math" and n.attr in ("isfinite", "isinf", "isnan")
              for n in ast.walk(funcs["_builtin_atom_number"]))
    tot, gok = try_guards(funcs["_builtin_atom_number"], is_call_named("round"), ["OverflowError"])
    tot2, gok2 = try_guards(funcs["_builtin_atom_number"], is_call_named("round"), ["ValueError"])
    w("Definition atom_number_round_guarded : bool := %s." % ("true" if (fin or (tot == gok and tot2 == gok2)) else "false"))
    w("")
    w("(* ---- syntactic inventory of partial Python primitives in the hand-modelled builtin bodies *)")
    for f in MODELLED:
        if f not in funcs:
            raise TranslationError("c27_modes: modelled builtin %s not found" % f)
        w("Definition prims%s : list string := %s." % (f, coq_list([coq_str(x) for x in primitive_inventory(funcs[f])])))
    w("Definition all_prims : list (string * list string) :=")
    w("  " + coq_list(["(%s, prims%s)" % (coq_str(f), f) for f in MODELLED]) + ".")
    w("")
    text = "\n".join(out) + "\n"
    table = {"mode_letters": sorted(known_letters), "sites": sites, "registrations": regs,
             "builtin_sites": {"%s/%d" % (n, a): sorted(i for fn_name in reachable(g, f) for i in by_func.get(fn_name, []))
                               for (n, a, k, f) in regs},
             "type_tests": [(n, f) for (n, f, e) in type_tests], "n_check_mode_tokens": ntok,
             "arith_functions": sorted(arith)}
    return text, table


if __name__ == "__main__":
    import sys
    t, tab = translate(sys.argv[1] if len(sys.argv) > 1 else os.environ.get("VERIF_REPO", "/repo"))
    sys.stdout.write(t)
