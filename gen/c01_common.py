"""Helpers shared by the C01 / C02 / C07 / C08 checks (all owned by the Sem slice):
running the real pipeline on a gen_program.Prog, comparing with the Coq oracle,
shrinking a disagreement, and the narrow classes of the defects known on the pinned tree.
"""
import os
import subprocess
import sys

HARNESS = os.path.join(os.path.dirname(os.path.dirname(os.path.abspath(__file__))), "harness")
if HARNESS not in sys.path:
    sys.path.insert(0, HARNESS)

import pl  # noqa: E402
import vf  # noqa: E402
import gen_program as gp  # noqa: E402
import sem_oracle as so  # noqa: E402


# ---------------------------------------------------------------- running the implementation
def impl_default(text):
    return pl.evaluate(text, timeout=60)


def impl_ddnnf(text):
    return pl.evaluate(text, backend="ddnnf", timeout=60)


def impl_cli(text):
    """The default task of the command line tool, reading the program from a file."""
    import tempfile
    with tempfile.NamedTemporaryFile("w", suffix=".pl", delete=False) as f:
        f.write(text)
        path = f.name
    try:
        env = dict(os.environ)
        env["PYTHONPATH"] = vf.REPO
        p = subprocess.run([sys.executable, "-W", "ignore", os.path.join(vf.REPO, "problog-cli.py"), path],
                           stdout=subprocess.PIPE, stderr=subprocess.STDOUT, text=True, timeout=120, env=env)
        out = p.stdout
        res = {}
        for line in out.split("\n"):
            line = line.strip()
            if not line:
                continue
            if "Error" in line or "error" in line or line.startswith("Traceback"):
                return ("err", cli_err_class(out))
            if ":" in line:
                k, _, v = line.rpartition(":")
                try:
                    res[k.strip().replace(" ", "")] = float(v)
                except ValueError:
                    return ("err", "CLI-unparsable:" + line[:60])
        return ("ok", res)
    finally:
        os.unlink(path)


def cli_err_class(out):
    for name, cls in (("InconsistentEvidenceError", "InconsistentEvidence"), ("NegativeCycle", "NegativeCycle"),
                      ("AssertionError", "INTERNAL:AssertionError"), ("GroundingError", "GroundingError"),
                      ("UnknownClause", "GroundingError")):
        if name in out:
            return cls
    return "CLI-error:" + out.strip().split("\n")[-1][:80]


def one_oracle(ctx, prog, mode="fast"):
    return so.oracle_eval(ctx, [prog], mode, jobs=1)[0]


# ---------------------------------------------------------------- comparison
def kind_of(impl, ref):
    """Coarse kind of a disagreement (used to keep the SAME failure while shrinking):
    None = agree; otherwise a tuple."""
    d = so.same(impl, ref)
    if d is None:
        return None
    if impl[0] == "err":
        return ("impl-error", impl[1], ref[0] if ref[0] == "ok" else ref[1])
    if ref[0] == "err":
        return ("impl-answered", ref[1])
    extra = [k for k in impl[1] if k not in ref[1] and abs(impl[1][k]) > 1e-12]
    if extra:
        return ("non-instance-reported",)
    return ("wrong-probability",)


# ---------------------------------------------------------------- features used by the known-defect classes
def ground_graph(prog):
    """(ground clauses, positive successor map, all successor map) over possibly-true-agnostic full grounding"""
    gcs = gp._ground_clauses(prog) or []
    pos, allsucc = {}, {}
    for _, hs, body in gcs:
        for h in hs:
            for p, a in body:
                allsucc.setdefault(h, set()).add(a)
                if p:
                    pos.setdefault(h, set()).add(a)
    return gcs, pos, allsucc


def _reaches(succ, x, y):
    seen, todo = set(), [x]
    while todo:
        u = todo.pop()
        for w in succ.get(u, ()):
            if w == y:
                return True
            if w not in seen:
                seen.add(w)
                todo.append(w)
    return False


def has_complementary_pair(body):
    pos = set(a for p, a in body if p)
    neg = set(a for p, a in body if not p)
    return bool(pos & neg)


def feat_ad_body_on_own_head_contradiction(prog):
    """some ground AD instance whose body (a) contains an atom that is one of its own heads or depends
    positively on one of them, and (b) contains a complementary pair x, \\+x"""
    gcs, pos, _ = ground_graph(prog)
    for k, hs, body in gcs:
        if k != "ad" or not has_complementary_pair(body):
            continue
        for p, a in body:
            if p and any(a == h or _reaches(pos, a, h) for h in hs):
                return True
    return False


def feat_recursive_with_false_clause(prog):
    """some ground atom that depends positively on itself has a clause instance whose body contains a
    complementary pair x, \\+x (the conjunction folds to FALSE while the atom is on a cycle)"""
    gcs, pos, _ = ground_graph(prog)
    for k, hs, body in gcs:
        if has_complementary_pair(body):
            for h in hs:
                if _reaches(pos, h, h):
                    return True
    return False


def feat_query_repeated_var(prog):
    for q in prog.queries():
        vs = gp.atom_vars(q)
        if len(vs) != len(set(vs)):
            return True
    return False


def classify(prog, impl, ref):
    """Narrow class name of a disagreement between the implementation and the semantics on `prog`
    (None = unclassified: always a hard violation)."""
    k = kind_of(impl, ref)
    if k is None:
        return None
    if k[0] == "impl-error" and k[1] == "INTERNAL:AssertionError" and ref[0] == "ok" and feat_recursive_with_false_clause(prog):
        return "false-result-to-cycle-parent-assertion"
    if k[0] == "wrong-probability" and feat_ad_body_on_own_head_contradiction(prog):
        return "ad-body-depends-on-own-head-with-contradiction"
    if k[0] == "non-instance-reported" and feat_query_repeated_var(prog):
        return "query-repeated-variable-reports-non-instance"
    return None


def shrink_disagreement(ctx, prog, impl_fn, kind, max_steps=250):
    """Delta-debug `prog` keeping a disagreement of the same coarse kind."""
    def bad(c):
        try:
            ref = one_oracle(ctx, c)
        except Exception:
            return False
        if ref[0] == "err" and ref[1] not in ("InconsistentEvidence", "NotTwoValued"):
            return False
        return kind_of(impl_fn(c.text()), ref) == kind
    return gp.shrink(prog, bad, max_steps=max_steps)
