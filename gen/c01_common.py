"""Helpers shared by the C01 / C02 / C07 / C08 checks (all owned by the Sem slice):
running the real pipeline on a gen_program.Prog, comparing with the Coq oracle,
shrinking a disagreement, and the narrow classes of the defects known on the pinned tree.
"""
import os
import subprocess
import sys

HARNESS = os.path.join(os.path.dirname(os.path.dirname(os.path.abspath(__file__))), "harness")
if HARNESS not in sys.path:
    sys.path.insert(0, HARNESS)

import pl  # noqa: E402
import vf  # noqa: E402
import gen_program as gp  # noqa: E402
import sem_oracle as so  # noqa: E402


# ---------------------------------------------------------------- running the implementation
IMPL_CPU_TIMEOUT = 20      # seconds of CPU time of the evaluating process (independent of machine load)
IMPL_WALL_TIMEOUT = 900    # safety net only (a hanging external compiler)


class _CpuTimeout(Exception):
    pass


def _on_vtalrm(signum, frame):
    raise _CpuTimeout()


def evaluate(text, backend=None, cpu_timeout=None, fn=None):
    """Like pl.evaluate, but the time limit is CPU time of this process (ITIMER_VIRTUAL), so a loaded
    machine cannot turn a slow run into a spurious 'Timeout'.  `fn` (optional) is run instead of the
    default pipeline and must return the result dictionary."""
    import signal

    def go():
        if fn is not None:
            return fn()
        from problog import get_evaluatable
        from problog.program import PrologString
        from problog.engine import DefaultEngine
        from problog.formula import LogicFormula
        eng = DefaultEngine()
        db = eng.prepare(PrologString(text))
        lf = LogicFormula.create_from(db, engine=eng)
        kc = get_evaluatable(backend).create_from(lf)
        return {str(k): v for k, v in kc.evaluate().items()}
    old_v = signal.signal(signal.SIGVTALRM, _on_vtalrm)
    old_a = signal.signal(signal.SIGALRM, _on_vtalrm)
    signal.setitimer(signal.ITIMER_VIRTUAL, cpu_timeout or IMPL_CPU_TIMEOUT)
    signal.alarm(IMPL_WALL_TIMEOUT)
    try:
        return ("ok", go())
    except _CpuTimeout:
        return ("err", "Timeout")
    except BaseException as e:  # noqa
        if isinstance(e, (KeyboardInterrupt, SystemExit)):
            raise
        cls = pl.err_class(e)
        if cls.startswith("INTERNAL:"):
            # where the internal exception was raised distinguishes unrelated defects with the same exception type
            import traceback
            tb = traceback.extract_tb(e.__traceback__)
            if tb:
                cls += "@%s:%s" % (os.path.basename(tb[-1].filename), tb[-1].name)
        return ("err", cls)
    finally:
        signal.setitimer(signal.ITIMER_VIRTUAL, 0)
        signal.alarm(0)
        signal.signal(signal.SIGVTALRM, old_v)
        signal.signal(signal.SIGALRM, old_a)


def impl_default(text):
    return evaluate(text)


def impl_ddnnf(text):
    return evaluate(text, backend="ddnnf")


def impl_quick(text):
    """short CPU limit: used while shrinking a non-termination"""
    return evaluate(text, cpu_timeout=4)


def impl_cli(text):
    """The default task of the command line tool, reading the program from a file."""
    import tempfile
    with tempfile.NamedTemporaryFile("w", suffix=".pl", delete=False) as f:
        f.write(text)
        path = f.name
    try:
        env = dict(os.environ)
        env["PYTHONPATH"] = vf.REPO
        try:
            p = subprocess.run([sys.executable, "-W", "ignore", os.path.join(vf.REPO, "problog-cli.py"), path],
                               stdout=subprocess.PIPE, stderr=subprocess.STDOUT, text=True, timeout=900, env=env)
        except subprocess.TimeoutExpired:
            return ("err", "CLI-timeout")
        out = p.stdout
        res = {}
        import re
        for line in out.split("\n"):
            line = line.rstrip()
            if not line.strip():
                continue
            m = re.match(r"^\s*(.*?):\s+([-+0-9.eE]+)\s*$", line)
            if not m:
                return ("err", cli_err_class(out))
            res[m.group(1).replace(" ", "")] = float(m.group(2))
        return ("ok", res)
    finally:
        os.unlink(path)


def cli_err_class(out):
    import re
    if "Traceback" in out:
        frames = re.findall(r'File "([^"]+)", line \d+, in (\S+)', out)
        m = re.search(r"^(\w+)(?::.*)?$", [l for l in out.strip().split("\n") if l.strip() and not l.startswith(" ")
                                          and "unexpected error" not in l][-1])
        name = m.group(1) if m else "Exception"
        if frames:
            return "INTERNAL:%s@%s:%s" % (name, os.path.basename(frames[-1][0]), frames[-1][1])
        return "INTERNAL:" + name
    for name, cls in (("InconsistentEvidenceError", "InconsistentEvidence"), ("NegativeCycle", "NegativeCycle"),
                      ("GroundingError", "GroundingError"), ("UnknownClause", "GroundingError")):
        if name in out:
            return cls
    return "CLI-error:" + out.strip().split("\n")[-1][:80]


def one_oracle(ctx, prog, mode="fast"):
    return so.oracle_eval(ctx, [prog], mode, jobs=1)[0]


# ---------------------------------------------------------------- comparison
CLI_TOL = 2e-8   # the command line tool prints 8 decimals


def kind_of(impl, ref, tol=1e-9):
    """Coarse kind of a disagreement (used to keep the SAME failure while shrinking):
    None = agree; otherwise a tuple."""
    d = so.same(impl, ref, tol)
    if d is None:
        return None
    if impl[0] == "err":
        return ("impl-error", impl[1], ref[0] if ref[0] == "ok" else ref[1])
    if ref[0] == "err":
        return ("impl-answered", ref[1])
    extra = [k for k in impl[1] if k not in ref[1] and abs(impl[1][k]) > 1e-12]
    if extra:
        return ("non-instance-reported",)
    return ("wrong-probability",)


# ---------------------------------------------------------------- features used by the known-defect classes
def ground_graph(prog):
    """(ground clauses, positive successor map, all successor map) over possibly-true-agnostic full grounding"""
    gcs = gp._ground_clauses(prog) or []
    pos, allsucc = {}, {}
    for _, hs, body in gcs:
        for h in hs:
            for p, a in body:
                allsucc.setdefault(h, set()).add(a)
                if p:
                    pos.setdefault(h, set()).add(a)
    return gcs, pos, allsucc


def _reaches(succ, x, y):
    seen, todo = set(), [x]
    while todo:
        u = todo.pop()
        for w in succ.get(u, ()):
            if w == y:
                return True
            if w not in seen:
                seen.add(w)
                todo.append(w)
    return False


def has_complementary_pair(body):
    pos = set(a for p, a in body if p)
    neg = set(a for p, a in body if not p)
    return bool(pos & neg)


def feat_ad_body_on_own_head_contradiction(prog):
    """some ground AD instance whose body (a) contains an atom that is one of its own heads or depends
    positively on one of them, and (b) contains a complementary pair x, \\+x"""
    gcs, pos, _ = ground_graph(prog)
    for k, hs, body in gcs:
        if k != "ad" or not has_complementary_pair(body):
            continue
        for p, a in body:
            if p and any(a == h or _reaches(pos, a, h) for h in hs):
                return True
    return False


def feat_recursive_with_false_clause(prog):
    """some ground atom that depends positively on itself has a clause instance whose body contains a
    complementary pair x, \\+x (the conjunction folds to FALSE while the atom is on a cycle)"""
    gcs, pos, _ = ground_graph(prog)
    for k, hs, body in gcs:
        if has_complementary_pair(body):
            for h in hs:
                if _reaches(pos, h, h):
                    return True
    return False


def feat_positive_cycle(prog):
    """some ground atom depends positively on itself"""
    _, pos, _ = ground_graph(prog)
    return any(_reaches(pos, h, h) for h in pos)


def feat_some_complementary_pair(prog):
    gcs, _, _ = ground_graph(prog)
    return any(has_complementary_pair(body) for _, _, body in gcs)


def feat_negated_positive_loop_inside_positive_loop(prog):
    """some ground atom h that lies on a positive cycle depends, through a path with at least one negative
    edge, on an atom b that lies on a positive cycle (the program may still be perfectly stratified):
    the engine meets the loop of b under a negation while the loop of h is still active"""
    gcs, pos, _ = ground_graph(prog)
    succ = {}
    for _, hs, body in gcs:
        for h in hs:
            for p, a in body:
                succ.setdefault(h, set()).add((a, not p))
    loops = set(h for h in pos if _reaches(pos, h, h))
    for h in loops:
        seen, todo = set(), [(h, False)]
        while todo:
            u, neg = todo.pop()
            for w, isneg in succ.get(u, ()):
                st = (w, neg or isneg)
                if st in seen:
                    continue
                seen.add(st)
                if st[1] and w in loops:
                    return True
                todo.append(st)
    return False


def feat_negloop_closed_inside_positive_subcycle(prog):
    """The shape of the clean-tree defect `negative-loop-closed-inside-positive-subcycle-answered`:
    a ground clause  p :- .., \\+q, ..  where q lies on a POSITIVE cycle one of whose atoms x depends positively on p
    (the negative loop is closed from inside the positive sub-cycle), AND either
      (i)  another clause instance for p comes textually before that clause, or
      (ii) a ground query/evidence atom g lies on that positive cycle and g itself has a clause with p in its body."""
    gcs = gp._ground_clauses(prog) or []
    _, pos, _ = ground_graph(prog)
    goals = set()
    for a in prog.queries() + [e[0] for e in prog.evidence()]:
        if not gp.atom_vars(a):
            goals.add((a[0], tuple(t[1] for t in a[1])))
    for i, (_, hs, body) in enumerate(gcs):
        for sign, q in body:
            if sign or not _reaches(pos, q, q):
                continue
            scc = set(x for x in pos if (x == q or (_reaches(pos, q, x) and _reaches(pos, x, q))))
            for p in hs:
                if not any(x != p and (p in pos.get(x, ()) or _reaches(pos, x, p)) for x in scc):
                    continue
                if any(p in hs2 for _, hs2, _ in gcs[:i]):
                    return True
                for g in goals & scc:
                    if any(g in hs2 and any(sg and a == p for sg, a in b2) for _, hs2, b2 in gcs):
                        return True
    return False


ASSERT_RESULTSET = "INTERNAL:AssertionError@eval_nodes.py:__setitem__"
ASSERT_GETNODE = "INTERNAL:AssertionError@formula.py:get_node"


def feat_evidence_on_positive_cycle(prog):
    """some evidence atom depends positively on itself"""
    _, pos, _ = ground_graph(prog)
    for a, _v in prog.evidence():
        g = (a[0], tuple(t[1] for t in a[1]))
        if _reaches(pos, g, g):
            return True
    return False


def feat_query_repeated_var(prog):
    for q in prog.queries():
        vs = gp.atom_vars(q)
        if len(vs) != len(set(vs)):
            return True
    return False


def classify(prog, impl, ref):
    """Narrow class name of a disagreement between the implementation and the semantics on `prog`
    (None = unclassified: always a hard violation)."""
    k = kind_of(impl, ref)
    if k is None:
        return None
    if k[0] == "impl-error" and k[1] == ASSERT_RESULTSET and feat_positive_cycle(prog):
        # ResultSet.__setitem__ on a collapsed set; the FALSE conjunct may be syntactic (x, \\+x) or only semantic
        return "false-result-to-cycle-parent-assertion"
    if k[0] == "impl-error" and k[1] == ASSERT_GETNODE and feat_evidence_on_positive_cycle(prog):
        return "break-cycles-assertion-evidence-on-cyclic-atom"
    if k[0] == "wrong-probability" and feat_ad_body_on_own_head_contradiction(prog):
        return "ad-body-depends-on-own-head-with-contradiction"
    if k[0] == "wrong-probability" and feat_positive_cycle(prog) and feat_some_complementary_pair(prog):
        # same root cause without an AD: a conjunction that folds to FALSE is delivered as a result on a positive cycle
        return "false-conjunct-on-positive-cycle-wrong-probability"
    if k[0] == "non-instance-reported" and feat_query_repeated_var(prog):
        return "query-repeated-variable-reports-non-instance"
    if k[0] == "impl-error" and k[1] == "Timeout" and feat_positive_cycle(prog) and prog.features()["negation"]:
        # the conjunct that folds to FALSE may be syntactic (x, \\+x) or only semantic (f0, d1 with d1 :- \\+f0)
        return "no-termination-recursive-clause-with-false-conjunct"
    if k[0] == "impl-error" and k[1] == "NegativeCycle" and ref[0] != "err" or (
            k[0] == "impl-error" and k[1] == "NegativeCycle" and ref[1] == "InconsistentEvidence"):
        if feat_negated_positive_loop_inside_positive_loop(prog):
            return "negative-cycle-false-alarm-negated-loop-under-active-loop"
    return None


def shrink_disagreement(ctx, prog, impl_fn, kind, max_steps=250):
    """Delta-debug `prog` keeping a disagreement of the same coarse kind."""
    def bad(c):
        try:
            ref = one_oracle(ctx, c)
        except Exception:
            return False
        if ref[0] == "err" and ref[1] not in ("InconsistentEvidence", "NotTwoValued"):
            return False
        return kind_of(impl_fn(c.text()), ref) == kind
    return gp.shrink(prog, bad, max_steps=max_steps)


# ---------------------------------------------------------------- reporting shared by C01/C02/C07/C08
def load_corpus(prop):
    import glob
    import json
    out = []
    for path in sorted(glob.glob(os.path.join(vf.CORPUS, prop, "*.json"))):
        with open(path) as f:
            d = json.load(f)
        out.append(gp.Prog.from_json(d) if "stmts" in d else gp.parse_simple(d["text"]))
    return out


def ref_json(ref):
    return [ref[0], {k: str(v) for k, v in ref[1].items()} if ref[0] == "ok" else ref[1]]


def report_vs_oracle(ctx, prog, impl, ref, via, state, impl_fn, tol=1e-9, extra=None):
    """Judge one implementation outcome against the oracle outcome: on disagreement shrink (first of each
    class, and everything unclassified), classify narrowly, ctx.violation.  Returns the class or None (agree)."""
    k = kind_of(impl, ref, tol)
    if k is None:
        return None
    klass = classify(prog, impl, ref)
    n = state.get(("n", klass), 0)
    state[("n", klass)] = n + 1
    small, simpl, sref = prog, impl, ref
    is_timeout = impl[0] == "err" and impl[1] == "Timeout"
    if ((klass is None and n < 4) or n < 1) and not (is_timeout and len(prog.stmts) <= 8):
        fn = impl_quick if is_timeout else impl_fn
        try:
            # every candidate of a non-termination costs the whole CPU limit: keep that search short
            small = shrink_disagreement(ctx, prog, fn, k, max_steps=25 if is_timeout else ctx.n(120, 300))
            simpl = fn(small.text())
            sref = one_oracle(ctx, small)
            if kind_of(simpl, sref, tol) != k:
                small, simpl, sref = prog, impl, ref
        except Exception as e:  # shrinking is best effort
            ctx.notes.append("shrink failed: %r" % (e,))
            small, simpl, sref = prog, impl, ref
        klass = classify(small, simpl, sref)
    what = "%s: %s on program: %s" % (via, so.same(simpl, sref, tol), small.text().replace("\n", " "))
    ctx.count("violation-class:%s" % klass)
    rep = {"program": small.to_json(), "via": via, "implementation": simpl, "semantics": ref_json(sref),
           "original_program": prog.text()}
    if extra:
        rep.update(extra)
    ctx.violation(what, rep, klass=klass)
    return klass or "unclassified"
