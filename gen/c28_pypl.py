"""C28 translator: Python `ast` -> Gallina (coq/theories/C28/GenPyPl.v).

Translates, from the *current* sources under vf.REPO,

    problog/logic.py   Constant.__init__ (+ the class attribute FLOAT_PRECISION),
                       list2term, term2list
    problog/pypl.py    py2pl, pl2py
    problog/extern.py  problog_export._convert_input, problog_export._convert_output

into monadic Gallina over the value universe of C28/ModelPyBase.v.  Every Python
expression/statement form is mapped through an explicit table; anything that is not in
the table raises `Untranslatable` (fail-closed, never a default).  Statement lists are
translated in continuation style (the code after an `if` is copied into both
branches), `for` becomes `for_` over the loop-carried variables, `while` becomes the
fuelled `while_`, every function takes a `fuel` argument that decreases at each call
(`OutOfFuel` is a distinguished result that the theorems exclude explicitly).
"""
import ast
import os


class Untranslatable(Exception):
    pass


def fail(node, why):
    line = getattr(node, "lineno", "?")
    try:
        src = ast.unparse(node)
    except Exception:  # pragma: no cover
        src = repr(node)
    raise Untranslatable("line %s: %s: %s" % (line, why, src[:120]))


CLASSES = {"Term": "KTerm", "Constant": "KConstant", "Var": "KVar", "Object": "KObject"}
PYTYPES = {"list": "TyList", "tuple": "TyTuple", "str": "TyStr", "int": "TyInt", "float": "TyFloat"}
EXCEPTIONS = {"ValueError", "IndexError", "AttributeError", "TypeError"}
GETTERS = {"functor": "get_functor", "args": "get_args", "arity": "get_arity", "value": "get_value"}
# builtin / library functions of one argument with a direct primitive
UNARY_PRIMS = {"tuple": "py_tuple", "reversed": "py_reversed", "str": "py_str", "int": "py_int",
               "float": "py_float", "term2str": "py_term2str"}


def coq_str(s):
    return "[" + "; ".join("%d%%N" % ord(c) for c in s) + "]"


def coq_int(n):
    return "(%d)%%Z" % n


class Fn:
    """Translation of one function."""

    def __init__(self, tr, name, node, params, const_params=None, self_cls=None, class_attrs=None):
        self.tr = tr
        self.name = name
        self.node = node
        self.params = params                    # python parameter names that become Coq arguments
        self.const = dict(const_params or {})   # parameter -> python constant (defaults never overridden)
        self.self_cls = self_cls
        self.class_attrs = class_attrs or {}
        self.counter = 0
        self.recursive = any(isinstance(n, ast.Call) and isinstance(n.func, ast.Name) and n.func.id == name
                             for n in ast.walk(node))
        self.appendable = self.find_appendable()

    # ------------------------------------------------------------ helpers
    def fresh(self):
        self.counter += 1
        return "x%d" % self.counter

    def var(self, name):
        return "v_" + name

    def find_appendable(self):
        """Names used as `X.append(..)`: must be local lists created by `X = []`,
        never aliased (so that rebinding models the mutation)."""
        names = set()
        for n in ast.walk(self.node):
            if (isinstance(n, ast.Call) and isinstance(n.func, ast.Attribute) and n.func.attr == "append"):
                if not isinstance(n.func.value, ast.Name):
                    fail(n, "append on a non-variable")
                names.add(n.func.value.id)
        if not names:
            return names
        parents = {}
        for p in ast.walk(self.node):
            for c in ast.iter_child_nodes(p):
                parents[c] = p
        for n in ast.walk(self.node):
            if isinstance(n, ast.Name) and n.id in names:
                p = parents[n]
                if isinstance(n.ctx, ast.Store):
                    if not (isinstance(p, ast.Assign) and len(p.targets) == 1 and isinstance(p.value, ast.List)
                            and not p.value.elts):
                        fail(p, "appended list must be created by `x = []`")
                    continue
                ok = False
                if isinstance(p, ast.Attribute) and p.attr == "append":
                    gp = parents[p]
                    ok = isinstance(gp, ast.Call) and gp.func is p and isinstance(parents[gp], ast.Expr)
                elif isinstance(p, ast.Return):
                    ok = True
                elif isinstance(p, ast.Call) and isinstance(p.func, ast.Name) and p.func.id == "tuple" and p.args == [n]:
                    ok = True
                if not ok:
                    fail(p, "appended list `%s` may be aliased here" % n.id)
        return names

    # ------------------------------------------------------------ expressions
    def expr(self, e, env, k):
        """Translate value expression `e`; `k(atom)` builds the continuation from a pure
        Coq term of type pyval.  Result: Coq term of type `res T`."""
        if isinstance(e, ast.Constant):
            if isinstance(e.value, bool):
                fail(e, "bool literal")
            if isinstance(e.value, str):
                return k("(PStr %s)" % coq_str(e.value))
            if isinstance(e.value, int):
                return k("(PInt %s)" % coq_int(e.value))
            if e.value is None:
                return k("PNone")
            fail(e, "literal")
        if isinstance(e, ast.UnaryOp) and isinstance(e.op, ast.USub) and isinstance(e.operand, ast.Constant) \
                and type(e.operand.value) is int:
            return k("(PInt %s)" % coq_int(-e.operand.value))
        if isinstance(e, ast.Name):
            if e.id in self.const:
                c = self.const[e.id]
                if c is None:
                    return k("PNone")
                if type(c) is int:
                    return k("(PInt %s)" % coq_int(c))
                if type(c) is str:
                    return k("(PStr %s)" % coq_str(c))
                fail(e, "constant parameter used as a value")
            if e.id not in env:
                fail(e, "unbound name")
            return k(self.var(e.id))
        if isinstance(e, (ast.List, ast.Tuple)):
            ctor = "PList" if isinstance(e, ast.List) else "PTuple"
            return self.exprs(e.elts, env, lambda atoms: k("(%s [%s])" % (ctor, "; ".join(atoms))))
        if isinstance(e, ast.Attribute):
            if isinstance(e.value, ast.Name) and e.value.id == "self":
                if e.attr in self.class_attrs:
                    return k(e.attr)     # emitted as a Definition before the function
                fail(e, "attribute of self")
            if e.attr in GETTERS:
                return self.expr(e.value, env, lambda a: self.bindp("%s %s" % (GETTERS[e.attr], a), k))
            fail(e, "attribute")
        if isinstance(e, ast.Subscript):
            s = e.slice
            if isinstance(s, ast.Slice):
                if s.lower is None and s.step is None and s.upper is not None:
                    hi = self.int_literal(s.upper)
                    return self.expr(e.value, env, lambda a: self.bindp("py_slice_to %s %s" % (a, coq_int(hi)), k))
                fail(e, "slice form")
            i = self.int_literal(s)
            return self.expr(e.value, env, lambda a: self.bindp("py_index %s %s" % (a, coq_int(i)), k))
        if isinstance(e, ast.Call):
            return self.call(e, env, k)
        fail(e, "expression form")

    def int_literal(self, e):
        if isinstance(e, ast.Constant) and type(e.value) is int:
            return e.value
        if isinstance(e, ast.UnaryOp) and isinstance(e.op, ast.USub) and isinstance(e.operand, ast.Constant) \
                and type(e.operand.value) is int:
            return -e.operand.value
        fail(e, "index must be an int literal")

    def bindp(self, prim_app, k):
        x = self.fresh()
        return "%s <- %s ;;\n%s" % (x, prim_app, k(x))

    def exprs(self, es, env, k):
        """Left-to-right evaluation of a list of expressions."""
        def go(i, acc):
            if i == len(es):
                return k(acc)
            return self.expr(es[i], env, lambda a: go(i + 1, acc + [a]))
        return go(0, [])

    def call(self, e, env, k):
        if e.keywords:
            fail(e, "keyword arguments")
        if any(isinstance(a, ast.Starred) for a in e.args):
            fail(e, "starred arguments")
        f = e.func
        if isinstance(f, ast.Name):
            n = f.id
            if n in env:
                fail(e, "call of a local variable")
            if n == "Constant":
                if len(e.args) != 1:
                    fail(e, "Constant(...) with other than one argument")
                self.tr.need("Constant_init", e)
                return self.exprs(e.args, env, lambda a: self.bindp("Constant_init fuel %s" % a[0], k))
            if n in CLASSES:
                if not e.args:
                    fail(e, "constructor without functor")
                return self.exprs(e.args, env, lambda a: self.bindp("new_obj %s [%s]" % (CLASSES[n], "; ".join(a)), k))
            if n == self.name or n in self.tr.done:
                target = self.tr.done.get(n) or self
                if len(e.args) != len(target.params):
                    fail(e, "call with %d arguments, %s takes %d (defaults: %r)"
                         % (len(e.args), n, len(target.params), target.const))
                return self.exprs(e.args, env, lambda a: self.bindp("%s fuel %s" % (n, " ".join(a)), k))
            if n in UNARY_PRIMS:
                if len(e.args) != 1:
                    fail(e, "arity")
                return self.exprs(e.args, env, lambda a: self.bindp("%s %s" % (UNARY_PRIMS[n], a[0]), k))
            if n == "round":
                if len(e.args) != 2:
                    fail(e, "round needs (x, ndigits)")
                return self.exprs(e.args, env, lambda a: self.bindp("py_round %s %s" % (a[0], a[1]), k))
            fail(e, "unknown function")
        if isinstance(f, ast.Attribute):
            m = f.attr
            table = {"replace": ("py_replace", 2), "strip": ("py_strip", 1), "format": ("py_format1", 1)}
            if m in table:
                prim, ar = table[m]
                if len(e.args) != ar:
                    fail(e, "method arity")
                return self.exprs([f.value] + list(e.args), env,
                                  lambda a: self.bindp("%s %s" % (prim, " ".join(a)), k))
            fail(e, "unknown method")
        fail(e, "call form")

    # ------------------------------------------------------------ conditions
    def cond(self, e, env):
        """Coq term of type `res bool` for the truth value of `e`."""
        if isinstance(e, ast.BoolOp):
            # written as a `match` (not a function call) so that call-by-value evaluation
            # (vm_compute) does not evaluate the second operand when the first decides
            parts = [self.cond(v, env) for v in e.values]
            out = parts[-1]
            for p in reversed(parts[:-1]):
                if isinstance(e.op, ast.And):
                    out = ("match (%s) with Ok true => (%s) | Ok false => Ok false | Err e_ => Err e_ "
                           "| OutOfFuel => OutOfFuel end" % (p, out))
                else:
                    out = ("match (%s) with Ok false => (%s) | Ok true => Ok true | Err e_ => Err e_ "
                           "| OutOfFuel => OutOfFuel end" % (p, out))
            return out
        if isinstance(e, ast.UnaryOp) and isinstance(e.op, ast.Not):
            return "rnot (%s)" % self.cond(e.operand, env)
        if isinstance(e, ast.Name) and e.id in self.const and isinstance(self.const[e.id], bool):
            return "Ok %s" % ("true" if self.const[e.id] else "false")
        if isinstance(e, ast.Compare):
            if len(e.ops) != 1:
                fail(e, "chained comparison")
            op, l, r = e.ops[0], e.left, e.comparators[0]
            # type(X) == T
            if (isinstance(op, (ast.Eq, ast.Is)) and isinstance(l, ast.Call) and isinstance(l.func, ast.Name)
                    and l.func.id == "type" and len(l.args) == 1 and not l.keywords
                    and isinstance(r, ast.Name) and r.id in PYTYPES and r.id not in env):
                return self.expr(l.args[0], env, lambda a: "Ok (type_is %s %s)" % (PYTYPES[r.id], a))
            # X is None / X is not None
            if isinstance(op, (ast.Is, ast.IsNot)) and isinstance(r, ast.Constant) and r.value is None:
                c = self.expr(l, env, lambda a: "Ok (is_none %s)" % a)
                return c if isinstance(op, ast.Is) else "rnot (%s)" % c
            # str(X) == "text"
            if (isinstance(op, (ast.Eq, ast.NotEq)) and isinstance(l, ast.Call) and isinstance(l.func, ast.Name)
                    and l.func.id == "str" and "str" not in env and len(l.args) == 1 and not l.keywords
                    and isinstance(r, ast.Constant) and isinstance(r.value, str)):
                c = self.expr(l.args[0], env, lambda a: "py_str_equals %s %s" % (a, coq_str(r.value)))
                return c if isinstance(op, ast.Eq) else "rnot (%s)" % c
            if isinstance(op, (ast.Eq, ast.NotEq)):
                prim = "py_eq" if isinstance(op, ast.Eq) else "py_ne"
                return self.exprs([l, r], env, lambda a: "%s %s %s" % (prim, a[0], a[1]))
            fail(e, "comparison operator")
        if isinstance(e, ast.Call) and isinstance(e.func, ast.Name) and not e.keywords:
            n = e.func.id
            if n == "isinstance" and n not in env and len(e.args) == 2 and isinstance(e.args[1], ast.Name):
                c = e.args[1].id
                if c in CLASSES:
                    return self.expr(e.args[0], env, lambda a: "Ok (isinstance_cls %s %s)" % (CLASSES[c], a))
                if c == "int":
                    return self.expr(e.args[0], env, lambda a: "Ok (isinstance_int %s)" % a)
                fail(e, "isinstance class")
            if n == "is_variable" and n not in env and len(e.args) == 1:
                return self.expr(e.args[0], env, lambda a: "is_variable %s" % a)
        # truth value of an arbitrary value expression
        return self.expr(e, env, lambda a: "Ok (truthy %s)" % a)

    # ------------------------------------------------------------ statements
    def assigned(self, stmts):
        """Names (re)bound by a statement list (assignment targets and appended lists)."""
        out = []
        for s in stmts:
            for n in ast.walk(s):
                if isinstance(n, ast.Name) and isinstance(n.ctx, ast.Store) and n.id not in out:
                    out.append(n.id)
                if (isinstance(n, ast.Call) and isinstance(n.func, ast.Attribute) and n.func.attr == "append"
                        and isinstance(n.func.value, ast.Name) and n.func.value.id not in out):
                    out.append(n.func.value.id)
        return out

    def terminates(self, stmts):
        """Does every path through the block end in return/raise?"""
        if not stmts:
            return False
        s = stmts[-1]
        if isinstance(s, (ast.Return, ast.Raise)):
            return True
        if isinstance(s, ast.If):
            return self.terminates(s.body) and self.terminates(s.orelse)
        if isinstance(s, ast.Expr) and self.is_super_init(s):
            return True
        return False

    def is_super_init(self, s):
        c = s.value
        return (isinstance(c, ast.Call) and isinstance(c.func, ast.Attribute) and c.func.attr == "__init__"
                and isinstance(c.func.value, ast.Name) and c.func.value.id == "Term")

    def pat(self, names):
        vs = [self.var(n) for n in names]
        return vs[0] if len(vs) == 1 else "'(%s)" % ", ".join(vs)

    def tup(self, names):
        vs = [self.var(n) for n in names]
        return vs[0] if len(vs) == 1 else "(%s)" % ", ".join(vs)

    def block(self, stmts, env, end, in_loop=False):
        """`end(env)` produces the Coq term for falling off the end of the block."""
        if not stmts:
            return end(env)
        s, rest = stmts[0], stmts[1:]
        cont = lambda env2: self.block(rest, env2, end, in_loop)  # noqa: E731
        if isinstance(s, ast.Expr) and isinstance(s.value, ast.Constant) and isinstance(s.value.value, str):
            return cont(env)  # docstring
        if isinstance(s, ast.ImportFrom):
            for a in s.names:
                if a.asname or (a.name not in self.tr.done and a.name != self.name and a.name not in CLASSES):
                    fail(s, "local import of an untranslated name")
            return cont(env)
        if isinstance(s, ast.Pass):
            return cont(env)
        if isinstance(s, ast.Assign):
            if len(s.targets) != 1 or not isinstance(s.targets[0], ast.Name):
                fail(s, "assignment target")
            name = s.targets[0].id
            if name in self.const:
                fail(s, "assignment to a parameter that is specialised to its default")
            return self.expr(s.value, env,
                             lambda a: "let %s := %s in\n%s" % (self.var(name), a, cont(env | {name})))
        if isinstance(s, ast.Expr) and isinstance(s.value, ast.Call):
            c = s.value
            if self.is_super_init(s):
                # Term.__init__(self, functor, *args, location=location, **kwdargs): builds the instance
                if self.self_cls is None or rest or in_loop:
                    fail(s, "Term.__init__ outside the end of an __init__")
                if not c.args or not (isinstance(c.args[0], ast.Name) and c.args[0].id == "self"):
                    fail(s, "Term.__init__ without self")
                for kw in c.keywords:
                    if not (kw.arg is None or kw.arg == "location"):
                        fail(s, "unexpected keyword of Term.__init__")
                return self.exprs(c.args[1:], env,
                                  lambda a: "new_obj %s [%s]" % (self.self_cls, "; ".join(a)))
            if (isinstance(c.func, ast.Attribute) and c.func.attr == "append" and isinstance(c.func.value, ast.Name)
                    and len(c.args) == 1 and not c.keywords):
                name = c.func.value.id
                if name not in env:
                    fail(s, "append to unbound list")
                return self.expr(c.args[0], env,
                                 lambda a: "%s <- py_append %s %s ;;\n%s" % (self.var(name), self.var(name), a, cont(env)))
            fail(s, "expression statement")
        if isinstance(s, ast.If):
            c = self.cond(s.test, env)
            if rest and not self.terminates(s.body) and not self.terminates(s.orelse) and len(rest) > 4:
                fail(s, "join point with a long continuation (would be duplicated)")
            then = self.block(list(s.body) + ([] if self.terminates(s.body) else rest), env, end, in_loop)
            other = self.block(list(s.orelse) + ([] if self.terminates(s.orelse) else rest), env, end, in_loop)
            # a `match`, not a function: only the taken branch is evaluated under vm_compute
            return ("match (%s) with\n| Ok true =>\n%s\n| Ok false =>\n%s\n| Err e_ => Err e_\n| OutOfFuel => OutOfFuel\nend"
                    % (c, then, other))
        if isinstance(s, ast.Return):
            if in_loop:
                fail(s, "return inside a loop")
            if s.value is None:
                return "Ok PNone"
            return self.expr(s.value, env, lambda a: "Ok %s" % a)
        if isinstance(s, ast.Raise):
            x = s.exc
            if isinstance(x, ast.Call):
                x = x.func
            if not (isinstance(x, ast.Name) and x.id in EXCEPTIONS):
                fail(s, "raise form")
            return "Err %s" % x.id
        if isinstance(s, ast.For):
            if s.orelse or not isinstance(s.target, ast.Name):
                fail(s, "for form")
            carried = [n for n in self.assigned(s.body) if n != s.target.id]
            for n in carried:
                if n not in env:
                    fail(s, "loop body binds `%s`, which is not defined before the loop" % n)
            if not carried:
                fail(s, "loop without loop-carried state")
            env_body = env | {s.target.id}
            body = self.block(list(s.body), env_body, lambda env3: "Ok %s" % self.tup(carried), in_loop=True)
            st = self.fresh()
            xs = self.fresh()
            return self.expr(
                s.iter, env,
                lambda a: "%s <- py_iter %s ;;\n%s <- for_ %s %s (fun %s %s =>\n%s) ;;\nlet %s := %s in\n%s"
                % (xs, a, st, xs, self.tup(carried), self.pat(carried), self.var(s.target.id), body,
                   self.pat(carried), st, cont(env)))
        if isinstance(s, ast.While):
            if s.orelse:
                fail(s, "while-else")
            carried = self.assigned(s.body)
            for n in carried:
                if n not in env:
                    fail(s, "loop body binds `%s`, which is not defined before the loop" % n)
            if not carried:
                fail(s, "loop without loop-carried state")
            c = self.cond(s.test, env)
            body = self.block(list(s.body), env, lambda env3: "Ok %s" % self.tup(carried), in_loop=True)
            st = self.fresh()
            return ("%s <- while_ fuel (fun %s =>\n%s)\n(fun %s =>\n%s) %s ;;\nlet %s := %s in\n%s"
                    % (st, self.pat(carried), c, self.pat(carried), body, self.tup(carried),
                       self.pat(carried), st, cont(env)))
        fail(s, "statement form")

    def emit(self):
        env = set(self.params)
        body = self.block(list(self.node.body), env, lambda env2: "Ok PNone")
        args = " ".join("(%s : pyval)" % self.var(p) for p in self.params)
        kw = "Fixpoint" if self.recursive else "Definition"
        struct = " {struct fuel}" if self.recursive else ""
        return ("%s %s (fuel : nat) %s%s : res pyval :=\nmatch fuel with O => OutOfFuel | S fuel =>\n%s\nend.\n"
                % (kw, self.name, args, struct, body))


class Translator:
    def __init__(self, repo):
        self.repo = repo
        self.done = {}
        self.out = []
        self.mods = {}

    def need(self, name, node):
        if name not in self.done:
            fail(node, "uses %s before it is translated" % name)

    def module(self, rel):
        if rel not in self.mods:
            with open(os.path.join(self.repo, rel)) as f:
                self.mods[rel] = ast.parse(f.read(), rel)
        return self.mods[rel]

    def find(self, rel, path):
        body = self.module(rel).body
        node = None
        for part in path:
            node = None
            for n in body:
                if isinstance(n, (ast.FunctionDef, ast.ClassDef)) and n.name == part:
                    node = n
                    break       # first definition (a property getter precedes its setter)
            if node is None:
                raise Untranslatable("%s: %s not found" % (rel, ".".join(path)))
            body = node.body
        return node

    def params(self, fn, method):
        a = fn.args
        if a.vararg or a.kwonlyargs or a.posonlyargs:
            fail(fn, "parameter form")
        names = [x.arg for x in a.args]
        if method:
            if not names or names[0] != "self":
                fail(fn, "method without self")
            names = names[1:]
        consts = {}
        ndef = len(a.defaults)
        for name, d in zip(names[len(names) - ndef:] if ndef else [], a.defaults):
            if not isinstance(d, ast.Constant):
                fail(d, "non-constant default")
            consts[name] = d.value
        return [n for n in names if n not in consts], consts

    def function(self, rel, path, coq_name=None, method=False, self_cls=None, class_attrs=None,
                 drop_params=()):
        node = self.find(rel, path)
        if not isinstance(node, ast.FunctionDef) or node.decorator_list:
            raise Untranslatable("%s: %s is not a plain function" % (rel, ".".join(path)))
        params, consts = self.params(node, method)
        for p in drop_params:       # parameters that only travel to Term.__init__ (location, **kwdargs)
            consts.pop(p, None)
        if node.args.kwarg and node.args.kwarg.arg not in drop_params:
            fail(node, "**kwargs")
        name = coq_name or node.name
        fn = Fn(self, name, node, params, consts, self_cls, class_attrs)
        # the python-level name maps to the Coq name for later callers
        text = fn.emit()
        self.done[name] = fn
        if node.name != name:
            self.done[node.name] = fn
        self.out.append("(* %s : %s, line %d *)\n%s" % (rel, ".".join(path), node.lineno, text))
        return fn

    def class_int_attr(self, rel, cls, attr):
        node = self.find(rel, [cls])
        for n in node.body:
            if isinstance(n, ast.Assign) and len(n.targets) == 1 and isinstance(n.targets[0], ast.Name) \
                    and n.targets[0].id == attr:
                if isinstance(n.value, ast.Constant) and (n.value.value is None or type(n.value.value) is int):
                    return n.value.value
                fail(n, "class attribute is not an int literal or None")
        raise Untranslatable("%s.%s not found" % (cls, attr))

    def check_bases(self, rel, cls, bases):
        node = self.find(rel, [cls])
        got = [b.id if isinstance(b, ast.Name) else "?" for b in node.bases]
        if got != bases:
            raise Untranslatable("%s(%s): expected bases %s" % (cls, ",".join(got), bases))

    def check_simple_method(self, rel, cls, meth, expect_src):
        """The model's primitives assume some one-line methods; check their text."""
        node = self.find(rel, [cls, meth])
        body = [s for s in node.body if not (isinstance(s, ast.Expr) and isinstance(s.value, ast.Constant))]
        got = "; ".join(ast.unparse(s) for s in body)
        if got != expect_src:
            raise Untranslatable("%s.%s is `%s`, the model assumes `%s`" % (cls, meth, got, expect_src))


HEADER = """(* GENERATED by gen/c28_pypl.py from problog/logic.py, problog/pypl.py, problog/extern.py.
   Do not edit: regenerated (and the proofs re-checked against it) on every run of ./check C28. *)
From Coq Require Import ZArith List Bool NArith.
From PL.C28 Require Import ModelFloat ModelPyBase.
Import ListNotations.
Open Scope Z_scope.
Notation "x <- e ;; k" := (bind e (fun x => k)) (at level 61, e at next level, right associativity).
Notation "' p <- e ;; k" := (bind e (fun p => k)) (at level 61, p pattern, e at next level, right associativity).

"""


def translate(repo):
    tr = Translator(repo)
    L, P, E = "problog/logic.py", "problog/pypl.py", "problog/extern.py"
    # assumptions of ModelPyBase about the class hierarchy and one-line accessors
    tr.check_bases(L, "Constant", ["Term"])
    tr.check_bases(L, "Var", ["Term"])
    tr.check_bases(L, "Object", ["Term"])
    tr.check_simple_method(L, "Constant", "compute_value", "return self.functor")
    tr.check_simple_method(L, "Term", "value", "return self.compute_value()")
    tr.check_simple_method(L, "Term", "functor", "return self.__functor")
    tr.check_simple_method(L, "Term", "args", "return self.__args")
    tr.check_simple_method(L, "Term", "arity", "return self.__arity")
    tr.check_simple_method(L, "Term", "__int__", "return int(self.value)")
    tr.check_simple_method(L, "Term", "__float__", "return float(self.value)")
    tr.check_simple_method(L, "Constant", "__eq__", "return str(self) == str(other)")
    tr.check_simple_method(L, "Constant", "__str__", "return str(self.functor)")
    tr.check_simple_method(L, "Var", "__eq__", "return str(other) == str(self)")
    isvar = tr.find(L, ["is_variable"])
    if ast.unparse(isvar.body[-1]) != "return term is None or type(term) == int or term.is_var()":
        raise Untranslatable("logic.is_variable changed: " + ast.unparse(isvar.body[-1]))
    t2s = tr.find(L, ["term2str"])
    want = ("if term is None:\n    return '_'\nelif type(term) is int:\n    if term >= 0:\n        return 'A%s' % (term + 1)\n"
            "    else:\n        return 'X%s' % -term\nelse:\n    return str(term)")
    if ast.unparse(t2s.body[-1]) != want:
        raise Untranslatable("logic.term2str changed")
    prec = tr.class_int_attr(L, "Constant", "FLOAT_PRECISION")
    tr.out.append("Definition FLOAT_PRECISION : pyval := %s.\n" % ("PNone" if prec is None else "PInt %s" % coq_int(prec)))
    tr.function(L, ["Constant", "__init__"], coq_name="Constant_init", method=True, self_cls="KConstant",
                class_attrs={"FLOAT_PRECISION": prec}, drop_params=("location", "kwdargs"))
    tr.function(P, ["py2pl"])
    tr.function(P, ["pl2py"])
    tr.function(L, ["list2term"])
    tr.function(L, ["term2list"])
    tr.function(E, ["problog_export", "_convert_input"], coq_name="convert_input", method=True)
    tr.function(E, ["problog_export", "_convert_output"], coq_name="convert_output", method=True)
    return HEADER + "\n".join(tr.out)


if __name__ == "__main__":
    import sys
    print(translate(sys.argv[1] if len(sys.argv) > 1 else os.environ.get("VERIF_REPO", "/repo")))
