"""C15 translator: problog/engine_builtin.py  ->  coq/theories/C15/GenStructCmp.v

Fail-closed Python-ast -> Gallina translation of
    compare, struct_cmp, the _is_* helpers they use, StructSort, the
    _builtin_struct_* comparison builtins, _builtin_same/_builtin_notsame,
    _builtin_compare and _builtin_sort.
Control flow is translated literally: a block is translated with the
continuation "what runs when the block falls through", so a branch that
computes a value without `return` continues with the following statements.
Every AST shape that is not listed here raises TranslateError.

Types tracked for expressions:  T term, Z int (also floats, scaled), S str,
F value of `.functor`, B bool, LT list of terms, LS tuple of str, A the
abstract operand type of `compare`.
The meaning of the primitives (is_variable, .functor, float(), str(), ...) is
the hand-written coq/theories/C15/ModelPrelude.v.
"""
import ast
import os


class TranslateError(Exception):
    pass


def fail(node, msg):
    line = getattr(node, "lineno", "?")
    raise TranslateError("engine_builtin.py:%s: %s: %s" % (line, msg, ast.dump(node)[:300] if isinstance(node, ast.AST) else node))


def text_lit(s):
    return "([%s]%%N : text)" % "; ".join(str(ord(c)) for c in s) if s else "([] : text)"


# functions translated generically; order = dependency order
GENERIC = [
    "_is_var", "_is_nonvar", "_is_constant", "_is_term", "_is_float_pos", "_is_float_neg", "_is_float",
    "_is_integer_pos", "_is_integer_neg", "_is_integer", "_is_string", "_is_number",
    "_is_atom", "_is_compound", "_is_atomic", "_is_compare",
    "compare", "struct_cmp",
    "_builtin_struct_lt", "_builtin_struct_le", "_builtin_struct_gt", "_builtin_struct_ge",
    "_builtin_notsame", "_builtin_same",
]
# helper predicates referenced before their definition in the source file
# (Python resolves names at call time); Coq needs dependency order, fixed above.

PRELUDE_CALLS = {
    # name -> (arg types, result type, coq function)
    "is_variable": (("T",), "B", "is_variable"),
}
METHODS = {
    "is_var": ("B", "meth_is_var"),
    "is_constant": ("B", "meth_is_constant"),
    "is_float": ("B", "meth_is_float"),
    "is_integer": ("B", "meth_is_integer"),
    "is_string": ("B", "meth_is_string"),
}
ATTRS = {
    "arity": ("Z", "arity"),
    "functor": ("F", "functor"),
    "args": ("LT", "args"),
}
ZCMP = {ast.Lt: "Z.ltb", ast.Gt: "Z.gtb", ast.LtE: "Z.leb", ast.GtE: "Z.geb", ast.Eq: "Z.eqb"}


RESERVED = {"term", "text", "args", "functor", "arity", "fr", "fuel", "lt", "gt", "compare", "at", "in", "end", "as",
            "if", "then", "else", "let", "fun", "fix", "match", "with", "return", "forall", "exists", "Type", "Prop", "Set",
            "list", "bool", "nat", "Z", "N", "true", "false", "cons", "nil", "pyfun", "where", "using", "for", "mod"}


def pn(name):
    """Coq identifier for a Python parameter / local."""
    if not name.isidentifier() or not name.isascii():
        raise TranslateError("identifier %r" % name)
    if name in RESERVED or name.startswith("py_") or name.endswith("_"):
        return name + "_"
    return name


class FunTr:
    """Translator for one function body."""

    def __init__(self, mod, name, params, ptypes, selfname=None):
        self.mod = mod
        self.name = name
        self.params = params
        self.ptypes = ptypes
        self.recursive = False
        self.rettype = None
        self.wrapper_self = selfname   # StructSort methods: self.obj / other.obj are the wrapped terms

    # ---------------------------------------------------------- expressions
    def expr(self, n, env):
        if isinstance(n, ast.Name):
            if n.id not in env:
                fail(n, "unbound local (would be UnboundLocalError or a global)")
            return pn(n.id), env[n.id]
        if isinstance(n, ast.Constant):
            if n.value is True or n.value is False:
                return ("true" if n.value else "false"), "B"
            if isinstance(n.value, int):
                return "(%d)%%Z" % n.value, "Z"
            if isinstance(n.value, str):
                return text_lit(n.value), "S"
            fail(n, "constant")
        if isinstance(n, ast.UnaryOp):
            e, t = self.expr(n.operand, env)
            if isinstance(n.op, ast.Not) and t == "B":
                return "(negb %s)" % e, "B"
            if isinstance(n.op, ast.USub) and t == "Z":
                return "(- %s)%%Z" % e, "Z"
            fail(n, "unary operator")
        if isinstance(n, ast.BoolOp):
            parts = [self.expr(v, env) for v in n.values]
            if any(t != "B" for _, t in parts):
                fail(n, "and/or on non-bool operands")
            op = "&&" if isinstance(n.op, ast.And) else "||"
            # right-nested, like Python's short-circuit evaluation order
            out = parts[-1][0]
            for e, _ in reversed(parts[:-1]):
                out = "(%s %s %s)" % (e, op, out)
            return out, "B"
        if isinstance(n, ast.BinOp):
            l, tl = self.expr(n.left, env)
            r, tr = self.expr(n.right, env)
            if tl == "Z" and tr == "Z" and isinstance(n.op, (ast.Sub, ast.Add)):
                return "(%s %s %s)%%Z" % (l, "-" if isinstance(n.op, ast.Sub) else "+", r), "Z"
            fail(n, "binary operator")
        if isinstance(n, ast.Compare):
            if len(n.ops) != 1:
                fail(n, "chained comparison")
            op = n.ops[0]
            l, tl = self.expr(n.left, env)
            r, tr = self.expr(n.comparators[0], env)
            if tl == "A" and tr == "A":
                if isinstance(op, ast.Lt):
                    return "(lt %s %s)" % (l, r), "B"
                if isinstance(op, ast.Gt):
                    return "(gt %s %s)" % (l, r), "B"
                fail(n, "comparison on abstract operands")
            if tl == "Z" and tr == "Z":
                if type(op) in ZCMP:
                    return "(%s %s %s)" % (ZCMP[type(op)], l, r), "B"
                if isinstance(op, ast.NotEq):
                    return "(negb (Z.eqb %s %s))" % (l, r), "B"
                fail(n, "int comparison")
            if isinstance(op, (ast.Eq, ast.NotEq)):
                if {tl, tr} == {"F", "S"}:
                    f, s = (l, r) if tl == "F" else (r, l)
                    e = "(pyfun_eqb %s (FStr %s))" % (f, s)
                elif tl == "S" and tr == "S":
                    e = "(text_eqb %s %s)" % (l, r)
                elif tl == "T" and tr == "T":
                    # Term.__eq__ (logic.py): hand model = structural equality
                    e = "(term_eqb %s %s)" % (l, r)
                else:
                    fail(n, "== on types %s,%s" % (tl, tr))
                return (e if isinstance(op, ast.Eq) else "(negb %s)" % e), "B"
            if isinstance(op, ast.In) and tl == "F" and tr == "LS":
                return "(py_in_F %s %s)" % (l, r), "B"
            fail(n, "comparison on types %s,%s" % (tl, tr))
        if isinstance(n, ast.Tuple):
            parts = [self.expr(v, env) for v in n.elts]
            if parts and all(t == "S" for _, t in parts):
                return "[%s]" % "; ".join(e for e, _ in parts), "LS"
            fail(n, "tuple")
        if isinstance(n, ast.Attribute):
            if self.wrapper_self and n.attr == "obj" and isinstance(n.value, ast.Name) and n.value.id in self.wrapper_self:
                return self.expr(n.value, env)
            e, t = self.expr(n.value, env)
            if t == "T" and n.attr in ATTRS:
                rt, fn = ATTRS[n.attr]
                return "(%s %s)" % (fn, e), rt
            fail(n, "attribute")
        if isinstance(n, ast.Subscript):
            e, t = self.expr(n.value, env)
            i, ti = self.expr(n.slice, env)
            if ti != "Z":
                fail(n, "subscript index type")
            if t == "LT":
                return "(py_index %s %s)" % (e, i), "T"
            if t == "LS":
                return "(py_tuple_nth %s %s)" % (e, i), "S"
            fail(n, "subscript")
        if isinstance(n, ast.Call):
            return self.call(n, env)
        fail(n, "expression")

    def call(self, n, env):
        if n.keywords:
            fail(n, "keyword arguments")
        f = n.func
        if isinstance(f, ast.Attribute):
            e, t = self.expr(f.value, env)
            if t == "T" and f.attr in METHODS and not n.args:
                rt, fn = METHODS[f.attr]
                return "(%s %s)" % (fn, e), rt
            fail(n, "method call")
        if not isinstance(f, ast.Name):
            fail(n, "call target")
        name = f.id
        if name == "isinstance":
            if len(n.args) == 2 and isinstance(n.args[1], ast.Name) and n.args[1].id in ("Var", "Term"):
                e, t = self.expr(n.args[0], env)
                if t == "T":
                    return "(isinstance_%s %s)" % (n.args[1].id, e), "B"
            fail(n, "isinstance")
        args = [self.expr(a, env) for a in n.args]
        types = tuple(t for _, t in args)
        if name in PRELUDE_CALLS:
            at, rt, fn = PRELUDE_CALLS[name]
            if types != at:
                fail(n, "argument types %s" % (types,))
            return "(%s %s)" % (fn, " ".join(e for e, _ in args)), rt
        if name == "float" and types == ("T",):
            return "(py_float %s)" % args[0][0], "Z"
        if name == "str" and types == ("T",):
            return "(py_str_term fr %s)" % args[0][0], "S"
        if name == "str" and types == ("F",):
            return "(py_str_functor fr %s)" % args[0][0], "S"
        if name == "compare":
            if "compare" not in self.mod.done:
                fail(n, "compare used before its translation")
            if len(types) == 2 and types[0] == types[1] and types[0] in ("Z", "S", "F"):
                lt, gt = {"Z": ("Z.ltb", "Z.gtb"), "S": ("py_lt_S", "py_gt_S"), "F": ("py_lt_F", "py_gt_F")}[types[0]]
                return "(compare %s %s %s %s)" % (lt, gt, args[0][0], args[1][0]), "Z"
            fail(n, "compare on types %s" % (types,))
        if name == self.name:
            if types != tuple(self.ptypes):
                fail(n, "recursive call argument types")
            self.recursive = True
            return "(%s_fuel fuel' %s)" % (name, " ".join(e for e, _ in args)), "Z"
        if name in self.mod.done:
            sig = self.mod.done[name]
            if types != tuple(sig["ptypes"]):
                fail(n, "argument types %s for %s" % (types, name))
            return "(%s %s)" % (name, " ".join(e for e, _ in args)), sig["rettype"]
        fail(n, "call to unknown function %s" % name)

    # ---------------------------------------------------------- statements
    def ret(self, t, node):
        if self.rettype is None:
            self.rettype = t
        elif self.rettype != t:
            fail(node, "return types differ: %s vs %s" % (self.rettype, t))

    def block(self, stmts, env, k):
        if not stmts:
            return k(env)
        s, rest = stmts[0], stmts[1:]
        if isinstance(s, ast.Expr) and isinstance(s.value, ast.Constant) and isinstance(s.value.value, str):
            return self.block(rest, env, k)      # docstring
        if isinstance(s, ast.Return):
            if rest:
                fail(rest[0], "statement after return")
            if s.value is None:
                fail(s, "bare return")
            e, t = self.expr(s.value, env)
            self.ret(t, s)
            return e
        if isinstance(s, ast.Assign):
            if len(s.targets) != 1 or not isinstance(s.targets[0], ast.Name):
                fail(s, "assignment target")
            e, t = self.expr(s.value, env)
            env2 = dict(env)
            env2[s.targets[0].id] = t
            return "let %s := %s in\n%s" % (pn(s.targets[0].id), e, self.block(rest, env2, k))
        if isinstance(s, ast.If):
            # idiom: `if isinstance(x, Term): x = x.functor`
            t = s.test
            if (not s.orelse and len(s.body) == 1 and isinstance(t, ast.Call) and isinstance(t.func, ast.Name)
                    and t.func.id == "isinstance" and len(t.args) == 2 and isinstance(t.args[0], ast.Name)
                    and isinstance(t.args[1], ast.Name) and t.args[1].id == "Term"
                    and isinstance(s.body[0], ast.Assign) and len(s.body[0].targets) == 1
                    and isinstance(s.body[0].targets[0], ast.Name) and s.body[0].targets[0].id == t.args[0].id
                    and isinstance(s.body[0].value, ast.Attribute) and s.body[0].value.attr == "functor"
                    and isinstance(s.body[0].value.value, ast.Name) and s.body[0].value.value.id == t.args[0].id):
                x = t.args[0].id
                if env.get(x) != "T":
                    fail(s, "var_key idiom on a non-term")
                env2 = dict(env)
                env2[x] = "F"
                return "let %s := var_key %s in\n%s" % (pn(x), pn(x), self.block(rest, env2, k))
            c, tc = self.expr(s.test, env)
            if tc != "B":
                fail(s, "if on a non-bool test")

            def cont(env2):
                return self.block(rest, env2, k)
            th = self.block(s.body, env, cont)
            el = self.block(s.orelse, env, cont) if s.orelse else cont(env)
            return "if %s then (\n%s\n) else (\n%s\n)" % (c, th, el)
        if isinstance(s, ast.For):
            return self.forzip(s, rest, env, k)
        fail(s, "statement")

    def forzip(self, s, rest, env, k):
        it = s.iter
        if s.orelse or not (isinstance(it, ast.Call) and isinstance(it.func, ast.Name) and it.func.id == "zip"
                            and len(it.args) == 2 and not it.keywords):
            fail(s, "for loop that is not `for x, y in zip(e1, e2)`")
        if not (isinstance(s.target, ast.Tuple) and len(s.target.elts) == 2 and all(isinstance(e, ast.Name) for e in s.target.elts)):
            fail(s, "for target")
        x, y = (e.id for e in s.target.elts)
        e1, t1 = self.expr(it.args[0], env)
        e2, t2 = self.expr(it.args[1], env)
        if t1 != "LT" or t2 != "LT":
            fail(s, "zip over non-lists")
        assigned = {t.id for st in ast.walk(s) if isinstance(st, ast.Assign) for t in st.targets if isinstance(t, ast.Name)}
        assigned |= {x, y}
        for st in rest:
            for nm in ast.walk(st):
                if isinstance(nm, ast.Name) and isinstance(nm.ctx, ast.Load) and nm.id in assigned:
                    fail(nm, "a variable assigned inside the loop is read after the loop")
        env_body = dict(env)
        env_body[x] = "T"
        env_body[y] = "T"
        body = self.block(s.body, env_body, lambda _env: "py_loop py_l1' py_l2'")
        after = self.block(rest, env, k)
        return ("(fix py_loop (py_l1 py_l2 : list term) {struct py_l1} : Z :=\n"
                "  match py_l1, py_l2 with\n"
                "  | %s :: py_l1', %s :: py_l2' =>\n%s\n"
                "  | _, _ =>\n%s\n"
                "  end) %s %s" % (pn(x), pn(y), body, after, e1, e2))


COQ_TYPES = {"T": "term", "Z": "Z", "B": "bool", "S": "text", "F": "pyfun"}


class Module:
    def __init__(self, src, path):
        self.path = path
        self.src = src
        self.tree = ast.parse(src)
        self.funcs = {}
        self.classes = {}
        self.assigns = {}
        for n in self.tree.body:
            if isinstance(n, ast.FunctionDef):
                if n.name in self.funcs:
                    fail(n, "function defined twice")
                self.funcs[n.name] = n
            elif isinstance(n, ast.ClassDef):
                self.classes[n.name] = n
            elif isinstance(n, ast.Assign) and len(n.targets) == 1 and isinstance(n.targets[0], ast.Name):
                self.assigns[n.targets[0].id] = n
        self.done = {}
        self.out = []

    def span(self, node):
        return "engine_builtin.py:%d-%d" % (node.lineno, node.end_lineno)

    def params_of(self, fn, skip_self=False):
        a = fn.args
        if a.posonlyargs or a.kwonlyargs or a.defaults or a.kw_defaults:
            fail(fn, "parameter kinds")
        names = [x.arg for x in a.args]
        if skip_self:
            if not names or names[0] != "self":
                fail(fn, "method without self")
        return names

    def finish_fun(self, name, tr, params, body_expr, node, coqname=None):
        coqname = coqname or name
        if tr.rettype is None:
            fail(node, "no return type")
        rt = COQ_TYPES[tr.rettype]
        if tr.recursive and tr.rettype != "Z":
            fail(node, "recursive function that does not return an int")
        params = [pn(p) for p in params]
        binders = " ".join("(%s : %s)" % (p, COQ_TYPES[t]) for p, t in zip(params, tr.ptypes))
        hdr = "(* %s  def %s *)\n" % (self.span(node), name)
        if tr.recursive:
            if tr.ptypes[0] != "T":
                fail(node, "recursive function whose first parameter is not a term")
            txt = (hdr + "Fixpoint %s_fuel (fuel : nat) %s {struct fuel} : %s :=\n"
                   "  match fuel with\n  | O => fuel_exhausted\n  | S fuel' =>\n%s\n  end.\n"
                   "Definition %s %s : %s := %s_fuel (S (term_depth %s)) %s.\n"
                   % (coqname, binders, rt, body_expr, coqname, binders, rt, coqname, params[0], " ".join(params)))
        else:
            txt = hdr + "Definition %s %s : %s :=\n%s.\n" % (coqname, binders, rt, body_expr)
        self.out.append(txt)
        self.done[name] = {"ptypes": tr.ptypes, "rettype": tr.rettype}

    def no_fallthrough(self, node):
        def k(_env):
            fail(node, "control can fall off the end of the function (implicit `return None`)")
        return k

    def generic(self, name):
        if name not in self.funcs:
            fail(self.tree, "function %s not found" % name)
        fn = self.funcs[name]
        a = fn.args
        if a.vararg:
            fail(fn, "*args")
        params = self.params_of(fn)
        if name == "compare":
            self.compare(fn, params)
            return
        tr = FunTr(self, name, params, ["T"] * len(params))
        env = {p: "T" for p in params}
        body = tr.block(fn.body, env, self.no_fallthrough(fn))
        self.finish_fun(name, tr, params, body, fn)

    def compare(self, fn, params):
        if len(params) != 2 or fn.args.kwarg:
            fail(fn, "compare signature")
        tr = FunTr(self, "compare", params, ["A", "A"])
        body = tr.block(fn.body, {p: "A" for p in params}, self.no_fallthrough(fn))
        if tr.rettype != "Z":
            fail(fn, "compare return type")
        self.out.append("(* %s  def compare -- polymorphic in Python: `<` and `>` of the operand type are parameters *)\n"
                        "Definition compare {A : Type} (lt gt : A -> A -> bool) (%s %s : A) : Z :=\n%s.\n"
                        % (self.span(fn), pn(params[0]), pn(params[1]), body))
        self.done["compare"] = {"ptypes": ["A", "A"], "rettype": "Z"}

    # ---- class StructSort
    def structsort(self):
        c = self.classes.get("StructSort")
        if c is None:
            fail(self.tree, "class StructSort not found")
        methods = {}
        for n in c.body:
            if isinstance(n, ast.Expr) and isinstance(n.value, ast.Constant):
                continue
            if not isinstance(n, ast.FunctionDef):
                fail(n, "StructSort member")
            methods[n.name] = n
        want = {"__init__", "__lt__", "__gt__", "__eq__", "__le__", "__ge__", "__ne__"}
        if set(methods) != want:
            fail(c, "StructSort methods %s" % sorted(methods))
        init = methods["__init__"]
        # def __init__(self, obj, *args): self.obj = obj
        ok = ([x.arg for x in init.args.args] == ["self", "obj"] and len(init.body) == 1
              and isinstance(init.body[0], ast.Assign) and ast.dump(init.body[0].targets[0]) ==
              ast.dump(ast.parse("self.obj = 1").body[0].targets[0]) and isinstance(init.body[0].value, ast.Name)
              and init.body[0].value.id == "obj")
        if not ok:
            fail(init, "StructSort.__init__ is not `self.obj = obj`")
        for m in sorted(want - {"__init__"}):
            fn = methods[m]
            params = [x.arg for x in fn.args.args]
            if params != ["self", "other"] or fn.args.vararg or fn.args.kwarg:
                fail(fn, "StructSort method signature")
            tr = FunTr(self, "StructSort." + m, params, ["T", "T"], selfname=("self", "other"))
            body = tr.block(fn.body, {"self": "T", "other": "T"}, self.no_fallthrough(fn))
            # `self`/`other` stand for self.obj/other.obj (StructSort(x).obj is x)
            self.finish_fun("StructSort." + m, tr, ["self", "other"], body, fn, coqname="StructSort" + m)

    # ---- mode table and check_mode
    def mode_tests(self):
        n = self.assigns.get("mode_types")
        if n is None or not isinstance(n.value, ast.Dict):
            fail(self.tree, "mode_types dict not found")
        table = {}
        for kx, v in zip(n.value.keys, n.value.values):
            if not (isinstance(kx, ast.Constant) and isinstance(kx.value, str) and isinstance(v, ast.Tuple) and len(v.elts) == 2):
                fail(n, "mode_types entry")
            table[kx.value] = v.elts[1]
        return table

    def check_mode_shape(self):
        """check_mode must be: first mode (in order) all of whose tests hold, else raise."""
        fn = self.funcs.get("check_mode")
        expect = ast.parse(
            "def check_mode(args, accepted, functor=None, location=None, database=None, **kwdargs):\n"
            "    for i, mode in enumerate(accepted):\n"
            "        correct = True\n"
            "        for a, t in zip(args, mode):\n"
            "            name, test = mode_types[t]\n"
            "            if not test(a):\n"
            "                correct = False\n"
            "                break\n"
            "        if correct:\n"
            "            return i\n"
            "    if database and location:\n"
            "        location = database.lineno(location)\n"
            "    else:\n"
            "        location = None\n"
            "    raise CallModeError(functor, args, accepted, location=location)\n").body[0]
        body = [s for s in fn.body if not (isinstance(s, ast.Expr) and isinstance(s.value, ast.Constant))]
        if ast.dump(ast.Module(body=body, type_ignores=[])) != ast.dump(ast.Module(body=expect.body, type_ignores=[])) \
                or ast.dump(fn.args) != ast.dump(expect.args):
            fail(fn, "check_mode has changed shape")

    def mode_expr(self, modes, argnames, node):
        table = self.mode_tests()
        rows = []
        for m in modes:
            if len(m) != len(argnames):
                fail(node, "mode length")
            row = []
            for ch, a in zip(m, argnames):
                t = table.get(ch)
                if t is None:
                    fail(node, "unknown mode char %r" % ch)
                if isinstance(t, ast.Name) and t.id in self.done and self.done[t.id]["ptypes"] == ["T"]:
                    row.append("%s %s" % (t.id, pn(a)))
                elif isinstance(t, ast.Lambda) and ast.dump(t) == ast.dump(ast.parse("lambda x: True").body[0].value):
                    row.append("true")
                else:
                    fail(t, "mode test for %r not translatable" % ch)
            rows.append("[%s]" % "; ".join(row))
        return "first_mode 0%%Z [%s]" % "; ".join(rows)

    # ---- _builtin_compare (shape-matched around its pure core)
    def builtin_compare(self):
        fn = self.funcs.get("_builtin_compare")
        if fn is None:
            fail(self.tree, "_builtin_compare not found")
        if [a.arg for a in fn.args.args] != ["c", "a", "b"] or fn.args.vararg or not fn.args.kwarg:
            fail(fn, "_builtin_compare signature")
        b = fn.body
        if len(b) != 5:
            fail(fn, "_builtin_compare body length")
        # 1: mode = check_mode((c, a, b), [modes...], functor="compare", **k)
        s0 = b[0]
        tmpl = ast.parse('mode = check_mode((c, a, b), ["X"], functor="compare", **k)').body[0]
        if not (isinstance(s0, ast.Assign) and isinstance(s0.value, ast.Call) and len(s0.value.args) == 2
                and isinstance(s0.value.args[1], ast.List)
                and all(isinstance(e, ast.Constant) and isinstance(e.value, str) for e in s0.value.args[1].elts)):
            fail(s0, "check_mode call")
        modes = [e.value for e in s0.value.args[1].elts]
        tmpl.value.args[1] = s0.value.args[1]
        if ast.dump(tmpl) != ast.dump(s0):
            fail(s0, "check_mode call")
        self.check_mode_shape()
        # 2-4: pure core, translated generically
        tr = FunTr(self, "_builtin_compare", ["a", "b"], ["T", "T"])
        core = b[1:4]
        for st in core:
            if not isinstance(st, ast.Assign):
                fail(st, "_builtin_compare core statement")
        if [st.targets[0].id for st in core] != ["compares", "cp", "c_token"]:
            fail(fn, "_builtin_compare core names")
        ret = ast.Return(value=ast.Name(id="c_token", ctx=ast.Load()))
        body = tr.block(core + [ret], {"a": "T", "b": "T"}, self.no_fallthrough(fn))
        if tr.rettype != "S":
            fail(fn, "c_token is not a str")
        # 5: the dispatch on mode
        tmpl5 = ast.parse(
            "if mode == 0:\n"
            "    if c_token == c.functor:\n"
            "        return [(c, a, b)]\n"
            "else:\n"
            "    return [(Term(c_token), a, b)]\n").body[0]
        if ast.dump(tmpl5) != ast.dump(b[4]):
            fail(b[4], "_builtin_compare dispatch has changed shape")
        self.out.append(
            "(* %s  def _builtin_compare\n"
            "   mode = check_mode((c, a, b), [%s]): Some 0 = order given, Some 1 = order unbound, None = CallModeError;\n"
            "   mode 0 succeeds (once, binding nothing) iff c_token == c.functor and otherwise falls off the end\n"
            "   (None = failure); mode 1 returns the single answer c = Term(c_token). *)\n"
            "Definition _builtin_compare_mode (c a b : term) : option Z := %s.\n"
            "Definition _builtin_compare_token (a b : term) : text :=\n%s.\n"
            "Definition _builtin_compare_check (c a b : term) : bool :=\n"
            "  pyfun_eqb (FStr (_builtin_compare_token a b)) (functor c).\n"
            "Definition _builtin_compare_answer (a b : term) : term := TFun (_builtin_compare_token a b) [].\n"
            % (self.span(fn), " ".join(repr(x) for x in modes).replace("*", "#") + "  (# stands for the any-mode star)",
               self.mode_expr(modes, ["c", "a", "b"], s0), body))

    # ---- _builtin_sort
    def builtin_sort(self):
        fn = self.funcs.get("_builtin_sort")
        if fn is None:
            fail(self.tree, "_builtin_sort not found")
        expect = ast.parse(
            "def _builtin_sort(l, s, **k):\n"
            "    check_mode((l, s), ['L*'], functor='sort', **k)\n"
            "    elements, tail = list_elements(l)\n"
            "    try:\n"
            "        sorted_list = build_list(sorted(set(elements), key=StructSort), Term('[]'))\n"
            "        s_out = unify_value(s, sorted_list, {})\n"
            "        return [(l, s_out)]\n"
            "    except UnifyError:\n"
            "        return []\n").body[0]
        if ast.dump(expect) != ast.dump(fn):
            fail(fn, "_builtin_sort has changed shape")
        self.out.append(
            "(* %s  def _builtin_sort\n"
            "   sorted_list = build_list(sorted(set(elements), key=StructSort), Term('[]'))\n"
            "   [s] is set(elements) in its (hash-dependent) iteration order; the result list is\n"
            "   unified with the second argument.  list_elements/build_list/unify_value are glue. *)\n"
            "Definition _builtin_sort_sorted (s : list term) : list term := py_sorted StructSort__lt__ s.\n"
            % self.span(fn))


def translate(src, path="engine_builtin.py"):
    m = Module(src, path)
    for name in GENERIC:
        m.generic(name)
    m.structsort()
    m.builtin_compare()
    m.builtin_sort()
    import hashlib
    head = ("(* GENERATED by gen/c15_structcmp.py from %s -- do not edit.\n"
            "   source sha1 of the translated spans: %s *)\n"
            "From Coq Require Import ZArith NArith List Bool.\n"
            "From PL.C15 Require Import ModelStd ModelPrelude.\n"
            "Import ListNotations.\n\n"
            "Section Gen.\n"
            "Variable fr : Z -> text.   (* repr() of a float, see ModelPrelude *)\n\n"
            % (path, hashlib.sha1("\n".join(m.out).encode()).hexdigest()))
    body = "\n".join(m.out)
    return head + body + "\nEnd Gen.\n"


def generate(repo):
    path = os.path.join(repo, "problog", "engine_builtin.py")
    with open(path) as f:
        src = f.read()
    return translate(src, "problog/engine_builtin.py")


if __name__ == "__main__":
    import sys
    print(generate(sys.argv[1] if len(sys.argv) > 1 else os.environ.get("VERIF_REPO", "/repo")))
