"""C29 helpers: history generator, driver of the real ClauseDB, encoders to the Coq model
(coq/theories/C29/ModelClauseDB.v), canonical renderers and the property-level judge.

A history is a list of actions
    ("add", stmt) | ("extend",) | ("branch", k)
acting on a tree of databases: the root is DefaultEngine().prepare(base program) (the first
"extend" closes the base program); "add" adds a statement to the current database; "extend"
makes `current.extend()` the current database; ("branch", k) goes k levels up and extends
there (a sibling).  A database that has been extended is never added to again (the property
speaks about additions to the extension).

Statements (variables are numbered in first-occurrence order, heads first, then the body
left to right, exactly as _AutoDict numbers them):
    ("fact", f, args, prob|None)                 ground fact
    ("clause", f, args, body, vc)                non-probabilistic clause
    ("ad", [(f, args, prob), ...], body, vc)     annotated disjunction / probabilistic clause
terms:  ("v", i) | ("c", name) | ("i", n)
bodies: ("call", f, args) | ("true",) | ("and", a, b) | ("or", a, b) | ("not", a)
"""
import ast
import os

PROBS = [0.1, 0.2, 0.3, 0.4, 0.5, 0.6, 0.25, 0.15, 0.35, 0.05]
PREDS = [("p0", 0), ("p1", 0), ("p2", 0), ("p3", 1), ("p4", 1), ("p5", 1), ("p6", 0), ("p7", 1)]
CONSTS = ["a", "b"]
# interned functor / atom ids of the model (0 is the atom `multi`)
NAMES = ["multi", "_builtin_forall", "forall", "call", "true"] + [p for p, _ in PREDS] + CONSTS
NAME_ID = {n: i for i, n in enumerate(NAMES)}


# ------------------------------------------------------------------ generator
def gen_term(rng, nvars):
    if nvars and rng.random() < 0.6:
        return ("v", rng.randrange(nvars))
    return ("c", rng.choice(CONSTS))


def gen_body(rng, defined, upto, nvars, depth=0):
    """body over predicates; negation only on predicates with a smaller index (stratified)."""
    k = rng.random()
    if depth < 2 and k < 0.3:
        return ("and", gen_body(rng, defined, upto, nvars, depth + 1), gen_body(rng, defined, upto, nvars, depth + 1))
    if depth < 2 and k < 0.36:
        return ("or", gen_body(rng, defined, upto, nvars, depth + 1), gen_body(rng, defined, upto, nvars, depth + 1))
    if k < 0.5:
        cands = [i for i in defined if i < upto] or [i for i in range(len(PREDS)) if i < upto]
        if cands:
            i = rng.choice(cands)
            return ("not", ("call", PREDS[i][0], tuple(gen_term(rng, nvars) for _ in range(PREDS[i][1]))))
    if k < 0.55:
        return ("true",)
    # positive calls only to predicates with an index <= the head's (self recursion allowed),
    # negative ones only to strictly lower ones: no cycle through negation can arise
    pool = [i for i in defined if i <= upto] if rng.random() < 0.9 else []
    pool = pool or [i for i in range(len(PREDS)) if i <= upto]
    i = rng.choice(pool)
    return ("call", PREDS[i][0], tuple(gen_term(rng, nvars) for _ in range(PREDS[i][1])))


def body_terms(b):
    if b[0] == "call":
        return list(b[2])
    if b[0] == "true":
        return []
    if b[0] == "not":
        return body_terms(b[1])
    return body_terms(b[1]) + body_terms(b[2])


def map_body(b, f):
    if b[0] == "call":
        return ("call", b[1], tuple(f(t) for t in b[2]))
    if b[0] == "true":
        return b
    if b[0] == "not":
        return ("not", map_body(b[1], f))
    return (b[0], map_body(b[1], f), map_body(b[2], f))


def renumber(heads, body):
    """Rename variables to first-occurrence order (heads first) and make the clause range
    restricted for the heads (head variables that do not occur in a positive body literal
    are replaced by a constant).  Returns heads, body, varcount."""
    def pos_vars(b):
        if b[0] == "call":
            return {t[1] for t in b[2] if t[0] == "v"}
        if b[0] == "and":
            return pos_vars(b[1]) | pos_vars(b[2])
        if b[0] == "or":
            return pos_vars(b[1]) & pos_vars(b[2])
        return set()
    safe = pos_vars(body)

    def fix(t):
        return t if t[0] != "v" or t[1] in safe else ("c", CONSTS[t[1] % len(CONSTS)])
    heads = [(f, tuple(fix(t) for t in a), p) for f, a, p in heads]

    # variables in negated literals / disjunction branches that are not bound positively -> constants
    body = map_body(body, fix)
    order = {}

    def ren(t):
        if t[0] == "v":
            if t[1] not in order:
                order[t[1]] = len(order)
            return ("v", order[t[1]])
        return t
    heads = [(f, tuple(ren(t) for t in a), p) for f, a, p in heads]
    body = map_body(body, ren)
    return heads, body, len(order)


def gen_stmt(rng, defined):
    """`defined`: indices of predicates that have a definition on the current path."""
    k = rng.random()
    # bias towards predicates that already exist (extension of existing definitions)
    if defined and rng.random() < 0.55:
        hi = rng.choice(sorted(defined))
    else:
        hi = rng.randrange(len(PREDS))
    f, ar = PREDS[hi]
    if k < 0.35:
        args = tuple(("c", rng.choice(CONSTS)) for _ in range(ar))
        prob = rng.choice(PROBS) if rng.random() < 0.7 else None
        return ("fact", f, args, prob)
    nvars = rng.choice([0, 1, 1, 2]) if any(a for _, a in PREDS) else 0
    if k < 0.7:
        body = gen_body(rng, defined, hi, nvars)
        heads = [(f, tuple(gen_term(rng, nvars) for _ in range(ar)), None)]
        heads, body, vc = renumber(heads, body)
        return ("clause", heads[0][0], heads[0][1], body, vc)
    nh = rng.choice([1, 2, 2, 3])
    his = [hi] + [rng.randrange(len(PREDS)) for _ in range(nh - 1)]
    body = gen_body(rng, defined, min(his), nvars) if rng.random() < 0.6 else ("true",)
    budget = [0.1, 0.2, 0.3, 0.25, 0.15, 0.05]
    heads = []
    for j, h in enumerate(his):
        pf, par = PREDS[h]
        heads.append((pf, tuple(gen_term(rng, nvars) for _ in range(par)), rng.choice(budget)))
    heads, body, vc = renumber(heads, body)
    return ("ad", heads, body, vc)


def stmt_heads(st):
    if st[0] == "fact" or st[0] == "clause":
        return [st[1]]
    return [h[0] for h in st[1]]


def gen_history(rng, size):
    acts = []
    depth = 0
    defined = [set()]          # per level of the current path
    nbase = rng.choice([1, 2, 3, 4, 6])
    for _ in range(nbase):
        st = gen_stmt(rng, set().union(*defined))
        acts.append(("add", st))
        defined[-1].update(i for i, (p, _) in enumerate(PREDS) if p in stmt_heads(st))
    acts.append(("extend",))
    depth = 1
    defined.append(set())
    for _ in range(size):
        k = rng.random()
        if k < 0.12 and depth < 4:
            acts.append(("extend",))
            depth += 1
            defined.append(set())
        elif k < 0.17 and depth >= 1:
            up = rng.randrange(1, depth + 1)
            acts.append(("branch", up))
            del defined[len(defined) - up:]
            defined.append(set())
            depth = depth - up + 1
        else:
            st = gen_stmt(rng, set().union(*defined))
            acts.append(("add", st))
            defined[-1].update(i for i, (p, _) in enumerate(PREDS) if p in stmt_heads(st))
    return acts


# ------------------------------------------------------------------ problog objects
def pl_term(t):
    from problog.logic import Term, Var, Constant
    if t[0] == "v":
        return Var("X%d" % t[1])
    if t[0] == "i":
        return Constant(t[1])
    return Term(t[1])


def pl_body(b):
    from problog.logic import Term, And, Or, Not
    if b[0] == "call":
        return Term(b[1], *[pl_term(t) for t in b[2]])
    if b[0] == "true":
        return Term("true")
    if b[0] == "not":
        return Not("\\+", pl_body(b[1]))
    if b[0] == "and":
        return And(pl_body(b[1]), pl_body(b[2]))
    return Or(pl_body(b[1]), pl_body(b[2]))


def pl_stmt(st):
    from problog.logic import Term, Constant, Clause, AnnotatedDisjunction
    if st[0] == "fact":
        return Term(st[1], *[pl_term(t) for t in st[2]], p=None if st[3] is None else Constant(st[3]))
    if st[0] == "clause":
        return Clause(Term(st[1], *[pl_term(t) for t in st[2]]), pl_body(st[3]))
    heads = [Term(f, *[pl_term(t) for t in a], p=Constant(p)) for f, a, p in st[1]]
    if len(heads) == 1:
        return Clause(heads[0], pl_body(st[2]))          # probabilistic clause: _compile wraps it in an AD
    return AnnotatedDisjunction(heads, pl_body(st[2]))


def txt_term(t):
    return "X%d" % t[1] if t[0] == "v" else str(t[1])


def txt_atom(f, args):
    return f if not args else "%s(%s)" % (f, ",".join(txt_term(t) for t in args))


def txt_body(b):
    if b[0] == "call":
        return txt_atom(b[1], b[2])
    if b[0] == "true":
        return "true"
    if b[0] == "not":
        return "\\+ " + txt_body(b[1])
    if b[0] == "and":
        return "(%s, %s)" % (txt_body(b[1]), txt_body(b[2]))
    return "(%s; %s)" % (txt_body(b[1]), txt_body(b[2]))


def txt_stmt(st):
    if st[0] == "fact":
        return ("%s::" % st[3] if st[3] is not None else "") + txt_atom(st[1], st[2]) + "."
    if st[0] == "clause":
        return "%s :- %s." % (txt_atom(st[1], st[2]), txt_body(st[3]))
    return "%s :- %s." % ("; ".join("%s::%s" % (p, txt_atom(f, a)) for f, a, p in st[1]), txt_body(st[2]))


# ------------------------------------------------------------------ running the implementation
def priv(db, name):
    return getattr(db, "_ClauseDB__" + name)


class DBNode(object):
    """one database of the tree"""
    def __init__(self, db, parent, stmts):
        self.db = db
        self.parent = parent
        self.stmts = stmts           # statements added to THIS database
        self.children = []
        self.before = None           # observations taken when it was first extended
        self.dump_before = None

    def path(self):
        n, out = self, []
        while n is not None:
            out.append(n)
            n = n.parent
        return out[::-1]             # root first

    def path_stmts(self):
        return [s for n in self.path() for s in n.stmts]


def all_queries():
    from problog.logic import Term
    qs = []
    for f, ar in PREDS:
        if ar == 0:
            qs.append(Term(f))
        else:
            for c in CONSTS:
                qs.append(Term(f, Term(c)))
    return qs


def observe(eng, db, defined_preds):
    """Answers of a database: probabilities of every ground atom of the defined predicates
    (one ground_all per database; per atom when that fails) and engine.query answer sets."""
    import sys
    sys.path.insert(0, os.path.join(os.path.dirname(os.path.dirname(os.path.abspath(__file__))), "harness"))
    import pl
    from problog import get_evaluatable
    from problog.logic import Term
    from problog.engine import DefaultEngine
    # a fresh engine per observation: an engine that has raised (UnknownClause ...) keeps a dirty
    # evaluation stack and answers InvalidEngineState afterwards (not this property's business)
    eng = DefaultEngine()
    qs = [q for q in all_queries() if q.functor in defined_preds]
    out = {}

    def ev(queries):
        lf = eng.ground_all(db, queries=queries)
        res = wmc_enum(lf)
        if res is None:
            res = get_evaluatable().create_from(lf).evaluate()
        return {str(k): float(v) for k, v in res.items()}
    try:
        r = pl.with_timeout(ev, 4, qs) if qs else {}
        for q in qs:
            out["P " + str(q)] = ("ok", r.get(str(q), 0.0))
    except BaseException as e:  # noqa
        if isinstance(e, (KeyboardInterrupt, SystemExit)):
            raise
        timed_out = pl.err_class(e) == "Timeout"
        for q in qs:
            if timed_out:
                out["P " + str(q)] = ("err", "Timeout")
                continue
            try:
                eng = DefaultEngine()
                r = pl.with_timeout(ev, 4, [q])
                out["P " + str(q)] = ("ok", r.get(str(q), 0.0))
            except BaseException as e2:  # noqa
                if isinstance(e2, (KeyboardInterrupt, SystemExit)):
                    raise
                out["P " + str(q)] = ("err", pl.err_class(e2))
    for f, ar in PREDS:
        if f not in defined_preds:
            continue
        try:
            res = pl.with_timeout(DefaultEngine().query, 3, db, Term(f, *([None] * ar)))
            out["Q %s/%d" % (f, ar)] = ("ok", sorted(set(str(tuple(map(str, r))) for r in res)))
        except BaseException as e:  # noqa
            if isinstance(e, (KeyboardInterrupt, SystemExit)):
                raise
            out["Q %s/%d" % (f, ar)] = ("err", pl.err_class(e))
    return out


def wmc_enum(lf, max_worlds=1 << 12):
    """Exact success probabilities of the queries of a ground program by enumeration of the
    choices (independent atoms: 2 outcomes, annotated disjunction groups: k+1 outcomes) over the
    cycle-free LogicDAG.  Used for both sides of every comparison (much faster than one dsharp
    process per evaluation).  Returns None when there are too many worlds."""
    from problog.formula import LogicDAG
    dag = LogicDAG.create_from(lf)
    n = len(dag)
    nodes = [None] + [dag.get_node(i) for i in range(1, n + 1)]
    kinds = [None] + [type(x).__name__ for x in nodes[1:]]
    grouped = {}
    choices = []      # list of lists of (assignment dict items, weight)
    for c in dag.constraints():
        if type(c).__name__ != "ConstraintAD":
            return None
        members = sorted(c.nodes)
        for m in members:
            grouped[m] = True
        ps = [float(nodes[m].probability) for m in members]
        opts = [([(m, m == mm) for m in members], p) for mm, p in zip(members, ps)]
        rest = 1.0 - sum(ps)
        if rest > 1e-12:
            opts.append(([(m, False) for m in members], rest))
        choices.append(opts)
    for i in range(1, n + 1):
        if kinds[i] == "atom" and i not in grouped:
            p = float(nodes[i].probability)
            choices.append([([(i, True)], p), ([(i, False)], 1.0 - p)])
    queries = [(name, key) for name, key in dag.queries()]
    res = {}
    import itertools

    def support(k, acc):
        k = abs(k)
        if k in acc:
            return
        acc.add(k)
        if kinds[k] in ("conj", "disj"):
            for c in nodes[k].children:
                support(c, acc)
    for name, key in queries:
        if key is None:
            res[name] = 0.0
            continue
        if key == 0:
            res[name] = 1.0
            continue
        sup = set()
        support(key, sup)
        rel = [o for o in choices if any(m in sup for m, _ in o[0][0])]
        total = 1
        for o in rel:
            total *= len(o)
        if total > max_worlds:
            return None
        acc = 0.0
        for combo in itertools.product(*rel):
            w = 1.0
            val = {}
            for assign, p in combo:
                w *= p
                for m, b in assign:
                    val[m] = b
            if w == 0.0:
                continue

            def value(k):
                if k < 0:
                    return not value(-k)
                if k in val:
                    return val[k]
                nd = nodes[k]
                if kinds[k] == "conj":
                    v = all(value(c) for c in nd.children)
                elif kinds[k] == "disj":
                    v = any(value(c) for c in nd.children)
                else:
                    raise ValueError("unexpected node %r" % (nd,))
                val[k] = v
                return v
            if value(key):
                acc += w
        res[name] = acc
    return res


def same_obs(a, b, tol=1e-9):
    """-> list of keys on which two observation dicts differ"""
    bad = []
    for k in sorted(set(a) | set(b)):
        x, y = a.get(k), b.get(k)
        if (x is not None and x == ("err", "Timeout")) or (y is not None and y == ("err", "Timeout")):
            continue            # no observation (load dependent): never compared
        if x is None or y is None or x[0] != y[0]:
            bad.append(k)
        elif x[0] == "ok" and k.startswith("P "):
            if abs(x[1] - y[1]) > tol:
                bad.append(k)
        elif x[1] != y[1]:
            bad.append(k)
    return bad


def defined_of(stmts):
    d = set()
    for s in stmts:
        d.update(stmt_heads(s))
    return d


def dump_layer(db):
    """(nodes as python tuples, heads, redirects) of the database's own layer"""
    return ([node_tuple(n) for n in priv(db, "nodes")],
            sorted(priv(db, "heads").items(), key=lambda kv: kv[1]),
            sorted(priv(db, "node_redirect").items()))


def node_tuple(n):
    """canonical hashable description of a real node (locations etc. dropped)"""
    if n == ():
        return ("empty",)
    t = type(n).__name__
    if t == "fact":
        return ("fact", n.functor, tuple(map(arg_tuple, n.args)), prob_val(n.probability))
    if t == "clause":
        return ("clause", n.functor, tuple(map(arg_tuple, n.args)), prob_val(n.probability), n.child, n.varcount, n.group)
    if t == "define":
        return ("define", n.functor, n.arity, tuple(n.children))
    if t == "call":
        if not isinstance(n.functor, str):
            f = n.functor
            return ("callchoice", int(f.args[0]), int(f.args[1]), arg_tuple(f.args[2]), tuple(map(arg_tuple, n.args)), n.defnode)
        return ("call", n.functor, tuple(map(arg_tuple, n.args)), n.defnode)
    if t == "conj":
        return ("conj",) + tuple(n.children)
    if t == "disj":
        return ("disj",) + tuple(n.children)
    if t == "neg":
        return ("neg", n.child)
    if t == "choice":
        f = n.functor
        return ("choice", int(f.args[0]), int(f.args[1]), arg_tuple(f.args[2]), tuple(map(arg_tuple, n.args)),
                prob_val(n.probability), n.group, n.choice)
    raise ValueError("unknown node type %r" % (t,))


def arg_tuple(a):
    from problog.logic import Constant, Term
    if isinstance(a, int):
        return ("v", a)
    if isinstance(a, Constant):
        if isinstance(a.functor, int):
            return ("i", a.functor)
        raise ValueError("unexpected constant %r" % (a,))
    if isinstance(a, Term):
        if a.probability is not None:
            raise ValueError("probability inside a stored term")
        return ("t", a.functor, tuple(map(arg_tuple, a.args)))
    raise ValueError("unexpected argument %r" % (a,))


def prob_val(p):
    if p is None:
        return None
    return float(p)


def run_history(acts, want_obs=True):
    """Drive the real implementation.  Returns the list of DBNodes (tree, creation order)."""
    from problog.engine import DefaultEngine
    from problog.program import SimpleProgram
    eng = DefaultEngine()
    i = 0
    base = []
    while i < len(acts) and acts[i][0] == "add":
        base.append(acts[i][1])
        i += 1
    prog = SimpleProgram()
    for st in base:
        prog += pl_stmt(st)
    root = DBNode(eng.prepare(prog), None, base)
    nodes = [root]
    cur = root
    for a in acts[i:]:
        if a[0] == "add":
            if cur.children:          # cannot happen with generated histories
                continue
            cur.db += pl_stmt(a[1])
            cur.stmts.append(a[1])
        else:
            if a[0] == "branch":
                for _ in range(a[1]):
                    if cur.parent is not None:
                        cur = cur.parent
            if cur.before is None:
                cur.dump_before = [dump_layer(n.db) for n in cur.path()]
                if want_obs:
                    cur.before = observe(eng, cur.db, defined_of(cur.path_stmts()))
            child = DBNode(cur.db.extend(), cur, [])
            cur.children.append(child)
            nodes.append(child)
            cur = child
    return eng, nodes


def reference_obs(stmts):
    """the property's reference: prepare the union program from scratch"""
    from problog.engine import DefaultEngine
    from problog.program import SimpleProgram
    eng = DefaultEngine()
    prog = SimpleProgram()
    for st in stmts:
        prog += pl_stmt(st)
    db = eng.prepare(prog)
    return observe(eng, db, defined_of(stmts)), db


# ------------------------------------------------------------------ canonical clause lists of the implementation
def real_abs(db, f, ar):
    """definition list of f/ar seen through db (find / get_node / define children), rendered like
    ModelClauseDB.abs.  Returns a list of python tuples."""
    from problog.logic import Term
    idx = db.find(Term(f, *([None] * ar)))
    if idx is None:
        return []
    d = db.get_node(idx)
    if not d or type(d).__name__ != "define":
        return []
    return [real_clause(db, c) for c in d.children]


def real_clause(db, c):
    n = db.get_node(c)
    t = type(n).__name__ if n != () else "empty"
    if t == "fact":
        return ("rfact", tuple(map(arg_tuple, n.args)), prob_val(n.probability))
    if t == "clause":
        return ("rclause", tuple(map(arg_tuple, n.args)), prob_val(n.probability), real_body(db, n.child), n.varcount,
                n.group is not None)
    return ("rbadclause",)


def real_body(db, i):
    n = db.get_node(i)
    t = type(n).__name__ if n != () else "empty"
    if t == "call":
        if not isinstance(n.functor, str):
            ch = db.get_node(n.defnode)
            if type(ch).__name__ != "choice":
                return ("rbad",)
            return ("rchoicecall", int(n.functor.args[1]), arg_tuple(n.functor.args[2]), tuple(map(arg_tuple, n.args)),
                    prob_val(ch.probability))
        if n.defnode < 0:
            return ("rbuiltin", n.functor, tuple(map(arg_tuple, n.args)), -n.defnode)
        if n.functor.startswith("body_"):
            d = db.get_node(n.defnode)
            if not d or type(d).__name__ != "define" or len(d.children) != 1:
                return ("rbad",)
            cl = db.get_node(d.children[0])
            if type(cl).__name__ != "clause":
                return ("rbad",)
            return ("rbodycall", tuple(map(arg_tuple, n.args[1:])), real_body(db, cl.child))
        return ("rcall", n.functor, tuple(map(arg_tuple, n.args)))
    if t == "conj":
        return ("rand", real_body(db, n.children[0]), real_body(db, n.children[1]))
    if t == "disj":
        return ("ror", real_body(db, n.children[0]), real_body(db, n.children[1]))
    if t == "neg":
        return ("rnot", real_body(db, n.child))
    return ("rbad",)


def spec_abs(stmts, f, ar):
    """the property's own reference for the definition list: the statements of the path, in order"""
    out = []
    for st in stmts:
        if st[0] == "fact":
            if st[1] == f and len(st[2]) == ar:
                out.append(("rfact", tuple(map(term_tuple, st[2])), st[3]))
        elif st[0] == "clause":
            if st[1] == f and len(st[2]) == ar:
                out.append(("rclause", tuple(map(term_tuple, st[2])), None, spec_body(st[3]), st[4], False))
        else:
            heads, body, vc = st[1], st[2], st[3]
            vargs = tuple(("v", i) for i in range(vc))
            hl = ("t", "multi", ()) if len(heads) != 1 else ("t", heads[0][0], tuple(map(term_tuple, heads[0][1])))
            for i, (hf, ha, hp) in enumerate(heads):
                if hf == f and len(ha) == ar:
                    hterm = ("t", hf, tuple(map(term_tuple, ha)))
                    out.append(("rclause", tuple(map(term_tuple, ha)), hp,
                                ("rand", ("rbodycall", (hl,) + vargs, spec_body(body)),
                                 ("rchoicecall", i, hterm, vargs, hp)), vc, True))
    return out


def term_tuple(t):
    if t[0] == "v":
        return ("v", t[1])
    if t[0] == "i":
        return ("i", t[1])
    return ("t", t[1], ())


def spec_body(b):
    if b[0] == "call":
        return ("rcall", b[1], tuple(map(term_tuple, b[2])))
    if b[0] == "true":
        return ("rbuiltin", "true", (), 1)
    if b[0] == "not":
        return ("rnot", spec_body(b[1]))
    return ("rand" if b[0] == "and" else "ror", spec_body(b[1]), spec_body(b[2]))


# ------------------------------------------------------------------ encoding into Coq
def cN(n):
    return "%d%%N" % n


def cnat(n):
    """nat literal: unary numerals are slow to elaborate, so larger ones go through N.to_nat
    (`n` is defined in the case header: Definition n (x : N) := N.to_nat x)"""
    return "%d" % n if n < 4 else "(n %d)" % n


def clist(xs):
    return "[" + "; ".join(xs) + "]"


def tok(a):
    """flattened token string of an arg_tuple / term_tuple"""
    if a[0] == "v":
        return [0, a[1]]
    if a[0] == "i":
        return [1, a[1]]
    out = [2, NAME_ID[a[1]], len(a[2])]
    for x in a[2]:
        out += tok(x)
    return out


def cterm(a):
    return "[" + "; ".join(str(x) for x in tok(a)) + "]%N"


def cterms(args):
    return clist([cterm(a) for a in args])


def prob_id(p):
    if p is None:
        return "None"
    for i, v in enumerate(PROBS):
        if abs(v - p) < 1e-12:
            return "(Some %s)" % cN(i)
    raise ValueError("unknown probability %r" % (p,))


def prob_idN(p):
    for i, v in enumerate(PROBS):
        if abs(v - p) < 1e-12:
            return cN(i)
    raise ValueError("unknown probability %r" % (p,))


def cfn(name):
    if name.startswith("body_"):
        return "(FBody %s)" % cnat(int(name[5:]))
    return "(FU %s)" % cN(NAME_ID[name])


def copt_nat(x):
    return "None" if x is None else "(Some %s)" % cnat(x)


def cnode(t):
    k = t[0]
    if k == "empty":
        return "NEmpty"
    if k == "fact":
        return "NFact %s %s %s" % (cfn(t[1]), cterms(t[2]), prob_id(t[3]))
    if k == "clause":
        return "NClause %s %s %s %s %s %s" % (cfn(t[1]), cterms(t[2]), prob_id(t[3]), cnat(t[4]), cnat(t[5]), copt_nat(t[6]))
    if k == "define":
        return "NDefine %s %s %s" % (cfn(t[1]), cnat(t[2]), clist([cnat(c) for c in t[3]]))
    if k == "call":
        if t[3] < 0:
            return "NBuiltin %s %s %s" % (cN(NAME_ID[t[1]]), cterms(t[2]), cN(-t[3]))
        return "NCall %s %s %s" % (cfn(t[1]), cterms(t[2]), cnat(t[3]))
    if k == "callchoice":
        return "NCallChoice %s %s %s %s %s" % (cnat(t[1]), cnat(t[2]), cterm(t[3]), cterms(t[4]), cnat(t[5]))
    if k == "conj":
        return "NConj %s %s" % (cnat(t[1]), cnat(t[2]))
    if k == "disj":
        return "NDisj %s %s" % (cnat(t[1]), cnat(t[2]))
    if k == "neg":
        return "NNeg %s" % cnat(t[1])
    if k == "choice":
        if t[1] != t[6] or t[2] != t[7]:
            raise ValueError("choice functor and fields disagree: %r" % (t,))
        return "NChoice %s %s %s %s %s" % (cnat(t[1]), cnat(t[2]), cterm(t[3]), cterms(t[4]), prob_id(t[5]))
    raise ValueError(k)


def csig(s):
    f, ar = s.rsplit("/", 1)
    return "(%s, %s)" % (cfn(f), cnat(int(ar)))


def clayer_obs(dump, is_root):
    nodes, heads, redir = dump
    if is_root:
        # the library alias forall/2 -> _builtin_forall/2 is not modelled
        fa = dict(heads).get("forall/2")
        redir = [(k, v) for k, v in redir if k != fa]
    return "(%s, %s, %s)" % (clist([cnode(n) for n in nodes]),
                             clist(["(%s, %s)" % (csig(s), cnat(i)) for s, i in heads]),
                             clist(["(%s, %s)" % (cnat(k), cnat(v)) for k, v in redir]))


def cbody(b, builtin_ids):
    if b[0] == "call":
        return "BCall %s %s" % (cN(NAME_ID[b[1]]), cterms([term_tuple(t) for t in b[2]]))
    if b[0] == "true":
        return "BBuiltin %s [] %s" % (cN(NAME_ID["true"]), cN(builtin_ids["true/0"]))
    if b[0] == "not":
        return "BNot (%s)" % cbody(b[1], builtin_ids)
    return "%s (%s) (%s)" % ("BAnd" if b[0] == "and" else "BOr", cbody(b[1], builtin_ids), cbody(b[2], builtin_ids))


def cstmt(st, builtin_ids):
    if st[0] == "fact":
        return "SFact %s %s %s" % (cN(NAME_ID[st[1]]), cterms([term_tuple(t) for t in st[2]]), prob_id(st[3]))
    if st[0] == "clause":
        return "SClause %s %s (%s) %d" % (cN(NAME_ID[st[1]]), cterms([term_tuple(t) for t in st[2]]),
                                          cbody(st[3], builtin_ids), st[4])
    heads = clist(["(%s, %s, %s)" % (cN(NAME_ID[f]), cterms([term_tuple(t) for t in a]), prob_idN(p)) for f, a, p in st[1]])
    return "SAD %s (%s) %d" % (heads, cbody(st[2], builtin_ids), st[3])


def lib_stmt(builtin_ids):
    """problog/library/builtin.pl:  forall(A,B) :- \\+ (call(A), \\+ call(B)).  (scoped: _builtin_forall)"""
    c = cN(NAME_ID["call"])
    k = cN(builtin_ids["call/1"])
    v0, v1 = cterm(("v", 0)), cterm(("v", 1))
    return ("SClause %s [%s; %s] (BNot (BAnd (BBuiltin %s [%s] %s) (BNot (BBuiltin %s [%s] %s)))) 2"
            % (cN(NAME_ID["_builtin_forall"]), v0, v1, c, v0, k, c, v1, k))


def path_ops(path, builtin_ids):
    """Model operations replaying one root-to-leaf path.  The root loads library(builtin)
    (clause + alias placeholder); a child of the root loads it again (clausedb.py: createFrom
    overwrites source_files, so the root forgets that it consulted builtin.pl)."""
    ops = ["OAdd (%s)" % lib_stmt(builtin_ids), "OAdd (SDeclare %s 2)" % cN(NAME_ID["forall"])]
    for depth, n in enumerate(path):
        if depth > 0:
            ops.append("OExtend")
            if depth == 1:
                ops.append("OAdd (%s)" % lib_stmt(builtin_ids))
        for st in n.stmts:
            ops.append("OAdd (%s)" % cstmt(st, builtin_ids))
    return clist(ops)


def crbody(b):
    k = b[0]
    if k == "rcall":
        return "RCall %s %s" % (cN(NAME_ID[b[1]]), cterms(b[2]))
    if k == "rbuiltin":
        return "RBuiltin %s %s %s" % (cN(NAME_ID[b[1]]), cterms(b[2]), cN(b[3]))
    if k == "rand":
        return "RAnd (%s) (%s)" % (crbody(b[1]), crbody(b[2]))
    if k == "ror":
        return "ROr (%s) (%s)" % (crbody(b[1]), crbody(b[2]))
    if k == "rnot":
        return "RNot (%s)" % crbody(b[1])
    if k == "rbodycall":
        return "RBodyCall %s (%s)" % (cterms(b[1]), crbody(b[2]))
    if k == "rchoicecall":
        return "RChoiceCall %d %s %s %s" % (b[1], cterm(b[2]), cterms(b[3]), prob_id(b[4]))
    return "RBad"


def crclause(c):
    if c[0] == "rfact":
        return "RFact %s %s" % (cterms(c[1]), prob_id(c[2]))
    if c[0] == "rclause":
        return "RClause %s %s (%s) %d %s" % (cterms(c[1]), prob_id(c[2]), crbody(c[3]), c[4], "true" if c[5] else "false")
    return "RBadClause"


def cabs_obs(db):
    out = []
    for f, ar in PREDS:
        out.append("((FU %s, %d), %s)" % (cN(NAME_ID[f]), ar, clist([crclause(c) for c in real_abs(db, f, ar)])))
    return clist(out)


# ------------------------------------------------------------------ which group rule does the code use?
def detect_group_mode(repo):
    """Fail-closed look at ClauseDB._compile: `group = len(self.__nodes)` (local count, GLocal)
    or `group = len(self)` (global, GGlobal)."""
    src = open(os.path.join(repo, "problog", "clausedb.py")).read()
    tree = ast.parse(src)
    found = []
    for cls in tree.body:
        if isinstance(cls, ast.ClassDef) and cls.name == "ClauseDB":
            for fn in cls.body:
                if isinstance(fn, ast.FunctionDef) and fn.name == "_compile":
                    for n in ast.walk(fn):
                        if (isinstance(n, ast.Assign) and len(n.targets) == 1 and isinstance(n.targets[0], ast.Name)
                                and n.targets[0].id == "group"):
                            found.append(ast.dump(n.value))
    local = ast.dump(ast.parse("len(self.__nodes)", mode="eval").body)
    glob = ast.dump(ast.parse("len(self)", mode="eval").body)
    if found == [local]:
        return "GLocal"
    if found == [glob]:
        return "GGlobal"
    raise ValueError("ClauseDB._compile: unrecognised group id rule %r" % (found,))


# ------------------------------------------------------------------ which redirect lookup does the code use?
_GET_NODE_CHAINED = """
def get_node(self, index):
    index = self._resolve_redirect(index)
    if index < self.__offset:
        return self.__parent.get_node(index)
    else:
        return self.__nodes[index - self.__offset]
"""
_RESOLVE_CHAINED = """
def _resolve_redirect(self, index):
    if self.__parent is not None and index < self.__offset:
        index = self.__parent._resolve_redirect(index)
    return self.__node_redirect.get(index, index)
"""


def _fn_dump(fn):
    body = list(fn.body)
    if body and isinstance(body[0], ast.Expr) and isinstance(getattr(body[0], "value", None), ast.Constant) \
            and isinstance(body[0].value.value, str):
        body = body[1:]                                  # docstring
    return [ast.dump(x) for x in body], ast.dump(fn.args)


def detect_redirect_mode(repo):
    """Fail-closed look at ClauseDB.get_node / _resolve_redirect: the model (ModelClauseDB.get_node /
    resolve) describes exactly the chained lookup (redirects of the whole parent chain, oldest database
    first).  Anything else raises."""
    src = open(os.path.join(repo, "problog", "clausedb.py")).read()
    tree = ast.parse(src)
    fns = {}
    for cls in tree.body:
        if isinstance(cls, ast.ClassDef) and cls.name == "ClauseDB":
            for fn in cls.body:
                if isinstance(fn, ast.FunctionDef) and fn.name in ("get_node", "_resolve_redirect"):
                    fns.setdefault(fn.name, []).append(fn)
    want_g = _fn_dump(ast.parse(_GET_NODE_CHAINED).body[0])
    want_r = _fn_dump(ast.parse(_RESOLVE_CHAINED).body[0])
    if len(fns.get("get_node", [])) == 1 and len(fns.get("_resolve_redirect", [])) == 1 \
            and _fn_dump(fns["get_node"][0]) == want_g and _fn_dump(fns["_resolve_redirect"][0]) == want_r:
        return "chained"
    raise ValueError("ClauseDB.get_node/_resolve_redirect: not the chained redirect lookup the model describes")


# ------------------------------------------------------------------ get_node of the implementation, index by index
def get_obs(path):
    """For the database at the end of `path` (list of DBNodes, root first): the pairs (i, j), j != i, such
    that db.get_node(i) IS the object physically stored at global position j (identity of the node
    objects; the empty placeholder () is the only shared object and is located at i itself or at the
    first placeholder).  The library alias forall/2 is not modelled: its index is left out."""
    db = path[-1].db
    raw = []
    for n in path:
        raw += list(priv(n.db, "nodes"))
    if len(raw) != len(db):
        raise ValueError("node tables of the path do not add up to len(db)")
    where = {}
    for j, x in enumerate(raw):
        if x != ():
            if id(x) in where:
                raise ValueError("one node object stored at two positions")
            where[id(x)] = j
    fa = dict(priv(path[0].db, "heads")).get("forall/2")
    empties = [j for j, x in enumerate(raw) if x == ()]
    out = []
    for i in range(len(raw)):
        if i == fa:
            continue
        r = db.get_node(i)
        if r == ():
            j = i if raw[i] == () else (empties[0] if empties else None)
            if j is None:
                raise ValueError("get_node returned a placeholder but there is none")
        else:
            j = where.get(id(r))
            if j is None:
                raise ValueError("get_node returned an object that is not stored in the chain")
        if j != i:
            out.append((i, j))
    return out


def cget_obs(path):
    return clist(["(%s, %s)" % (cnat(i), cnat(j)) for i, j in get_obs(path)])


def call_resolution_failures(db):
    """Property-level: every call node (of any ancestor) read through db must reach the define node that
    db.find gives for the called predicate (same children).  -> list of texts"""
    from problog.logic import Term
    bad = []
    for i in range(len(db)):
        n = db.get_node(i)
        if n == () or type(n).__name__ != "call" or not isinstance(n.functor, str):
            continue
        if n.defnode < 0 or n.functor.startswith("body_"):
            continue
        tgt = db.get_node(n.defnode)
        head = db.find(Term(n.functor, *([None] * len(n.args))))
        cur = db.get_node(head) if head is not None else None
        a = list(tgt.children) if tgt and type(tgt).__name__ == "define" else []
        b = list(cur.children) if cur and type(cur).__name__ == "define" else []
        if head is None or a != b:
            bad.append("call node %d (%s/%d) reaches clauses %r, the database defines %r"
                       % (i, n.functor, len(n.args), a, b))
    return bad
