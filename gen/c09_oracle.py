"""Text of the extraction file and of the OCaml driver for the C09 oracle, and the
Python-side encoders / decoders of its token format.

Token format (all integers, space separated):
  graph   := n node*            node := 0 id | 1 m c1..cm (conj) | 2 m c1..cm (disj)
  key     := 0 | 1 z            (0 = None = FALSE; `1 0` = TRUE)
  keys    := n key*
  ainfo   := ng (id grp isextra)*  ne (grp extra_id)*
  ads     := n (m node1..nodem extra)*
  weights := n (key weight_id)*
  names   := n (name_id key label_id)*
  clauses := n (hkind h m lit1..litm)*     hkind 0: int head h; 1: bool head (h = 0/1)
Requests:
  BREAK tc usememo graph ainfo keys(labeled) keys(evidence)  ->  ERR | OK graph keys keys   (tc: TRUE child short-cut also in the evidence pass)
  BREAKEV tc usememo graph ainfo evm keys(labeled) keys(evidence) -> ERR | OK graph keys keys  (evm := n (node 0|1)*  = lookup_evidence of the source)
  VBREAK graphF graphD npairs (key key)*                  ->  0 | 1
  VBREAKEV graphF graphD epairs lpairs nevs (key 0|1)* ngroups (m id1..idm)*  ->  0 | 1
  CLARK force graph weights ads names                     ->  atomcount clausecount clauses weights ads names
  VCLARK graph ads clauses                                ->  0 | 1
"""

EXTRACT_V = """Require Extraction. Require ExtrOcamlBasic.
From PL.C09 Require Import BoolGraph ClarkBase GenClark CyclesModel CyclesEvModel Validate ValidateEv.
Extraction Language OCaml.
Extraction "oracle.ml" break_cycles_m break_cycles_ev_m validate_break validate_break_ev validate_clark clarks_completion cnf_empty.
"""

DRIVER_ML = r"""
open Oracle

let rec pos_of_int n = if n = 1 then XH else if n land 1 = 0 then XO (pos_of_int (n lsr 1)) else XI (pos_of_int (n lsr 1))
let z_of_int n = if n = 0 then Z0 else if n > 0 then Zpos (pos_of_int n) else Zneg (pos_of_int (-n))
let n_of_int n = if n = 0 then N0 else Npos (pos_of_int n)
let rec nat_of_int n = if n = 0 then O else S (nat_of_int (n - 1))
let rec int_of_pos = function XH -> 1 | XO p -> 2 * int_of_pos p | XI p -> 2 * int_of_pos p + 1
let int_of_z = function Z0 -> 0 | Zpos p -> int_of_pos p | Zneg p -> - (int_of_pos p)
let int_of_n = function N0 -> 0 | Npos p -> int_of_pos p

let toks : string list ref = ref []
let next () = match !toks with [] -> failwith "eof" | x :: r -> toks := r; int_of_string x
let rec rep n f = if n = 0 then [] else let x = f () in x :: rep (n - 1) f
let rlist f = let n = next () in rep n f
let rz () = z_of_int (next ())
let rn () = n_of_int (next ())
let rnode () = match next () with
  | 0 -> NAtom (rn ())
  | 1 -> NAnd (rlist rz)
  | 2 -> NOr (rlist rz)
  | _ -> failwith "node"
let rgraph () = rlist rnode
let rkey () = match next () with 0 -> None | _ -> Some (rz ())
let rkeys () = rlist rkey
let rbool () = next () <> 0
let rainfo () =
  let g = rlist (fun () -> let id = rn () in let grp = rn () in let ex = rbool () in (id, (grp, ex))) in
  let e = rlist (fun () -> let grp = rn () in let id = rn () in (grp, id)) in
  { ai_group = g; ai_extra_id = e }
let rads () = rlist (fun () -> let ns = rlist rz in let ex = rz () in { ad_nodes = ns; ad_extra = ex })
let rweights () = rlist (fun () -> let k = rz () in let w = rn () in (k, w))
let rnames () = rlist (fun () -> let nm = rn () in let k = rkey () in let l = rn () in ((nm, k), l))
let rclauses () = rlist (fun () ->
  let kind = next () in let h = next () in let ls = rlist rz in
  ((if kind = 0 then HLit (z_of_int h) else HForce (h <> 0)), ls))

let b = Buffer.create 4096
let wi i = Buffer.add_string b (string_of_int i); Buffer.add_char b ' '
let wlist f l = wi (List.length l); List.iter f l
let wz z = wi (int_of_z z)
let wnode = function
  | NAtom id -> wi 0; wi (int_of_n id)
  | NAnd cs -> wi 1; wlist wz cs
  | NOr cs -> wi 2; wlist wz cs
let wkey = function None -> wi 0 | Some z -> wi 1; wz z
let wads l = wlist (fun ad -> wlist wz ad.ad_nodes; wz ad.ad_extra) l
let wweights l = wlist (fun (k, w) -> wz k; wi (int_of_n w)) l
let wnames l = wlist (fun ((nm, k), lb) -> wi (int_of_n nm); wkey k; wi (int_of_n lb)) l
let wclauses l = wlist (fun (h, ls) -> (match h with HLit z -> wi 0; wz z | HForce x -> wi 1; wi (if x then 1 else 0)); wlist wz ls) l

let handle line =
  Buffer.clear b;
  (match String.split_on_char ' ' (String.trim line) |> List.filter (fun s -> s <> "") with
   | [] -> Buffer.add_string b "EMPTY"
   | cmd :: rest ->
     toks := rest;
     (match cmd with
      | "BREAK" ->
        let tc = rbool () in let um = rbool () in let g = rgraph () in let ai = rainfo () in let l = rkeys () in let e = rkeys () in
        (match break_cycles_m tc um g ai l e with
         | None -> Buffer.add_string b "ERR"
         | Some ((d, kl), ke) -> Buffer.add_string b "OK "; wlist wnode d; wlist wkey kl; wlist wkey ke)
      | "BREAKEV" ->
        let tc = rbool () in let um = rbool () in let g = rgraph () in let ai = rainfo () in
        let evm = rlist (fun () -> let k = nat_of_int (next ()) in let v = rbool () in (k, v)) in
        let l = rkeys () in let e = rkeys () in
        (match break_cycles_ev_m tc um g ai evm l e with
         | None -> Buffer.add_string b "ERR"
         | Some ((d, kl), ke) -> Buffer.add_string b "OK "; wlist wnode d; wlist wkey kl; wlist wkey ke)
      | "VBREAK" ->
        let f = rgraph () in let d = rgraph () in
        let ps = rlist (fun () -> let a = rkey () in let c = rkey () in (a, c)) in
        Buffer.add_string b (if validate_break f d ps then "1" else "0")
      | "VBREAKEV" ->
        let f = rgraph () in let d = rgraph () in
        let rpairs () = rlist (fun () -> let a = rkey () in let c = rkey () in (a, c)) in
        let ep = rpairs () in let lp = rpairs () in
        let evs = rlist (fun () -> let k = rkey () in let v = rbool () in (k, v)) in
        let groups = rlist (fun () -> rlist rn) in
        Buffer.add_string b (if validate_break_ev f d ep lp evs groups then "1" else "0")
      | "CLARK" ->
        let force = rbool () in let g = rgraph () in let w = rweights () in let ads = rads () in let nm = rnames () in
        let c = clarks_completion { f_nodes = g; f_weights = w; f_constraints = ads; f_names = nm } force cnf_empty in
        wz c.c_atomcount; wz c.c_clausecount; wclauses c.c_clauses; wweights c.c_weights; wads c.c_constraints; wnames c.c_names
      | "VCLARK" ->
        let g = rgraph () in let ads = rads () in let cls = rclauses () in
        Buffer.add_string b (if validate_clark g ads cls then "1" else "0")
      | _ -> Buffer.add_string b "BADCMD"));
  print_endline (String.trim (Buffer.contents b))

let () =
  try
    while true do
      let line = input_line stdin in
      (try handle line with Failure m -> print_endline ("FAIL " ^ m) | Stack_overflow -> print_endline "FAIL stack")
    done
  with End_of_file -> ()
"""


# ------------------------------------------------------------------ encoders
def enc_list(xs, f):
    out = [str(len(xs))]
    for x in xs:
        out.append(f(x))
    return " ".join(out)


def enc_node(nd):
    if nd[0] == "atom":
        return "0 %d" % nd[1]
    return "%d %s" % (1 if nd[0] == "conj" else 2, enc_list(nd[1], str))


def enc_graph(g):
    return enc_list(g, enc_node)


def enc_key(k):
    return "0" if k is None else "1 %d" % k


def enc_keys(ks):
    return enc_list(ks, enc_key)


def enc_ainfo(groups, extras):
    return (enc_list(groups, lambda t: "%d %d %d" % (t[0], t[1], 1 if t[2] else 0)) + " "
            + enc_list(extras, lambda t: "%d %d" % t))


def enc_evm(evm):
    return enc_list(evm, lambda t: "%d %d" % (t[0], 1 if t[1] else 0))


def enc_ads(ads):
    return enc_list(ads, lambda ad: enc_list(ad[0], str) + " %d" % ad[1])


def enc_weights(ws):
    return enc_list(ws, lambda t: "%d %d" % t)


def enc_names(ns):
    return enc_list(ns, lambda t: "%d %s %d" % (t[0], enc_key(t[1]), t[2]))


def enc_clauses(cs):
    return enc_list(cs, lambda c: "%d %d %s" % (c[0], c[1], enc_list(c[2], str)))


class Reader:
    def __init__(self, text):
        self.t = text.split()
        self.i = 0

    def int(self):
        v = int(self.t[self.i])
        self.i += 1
        return v

    def list(self, f):
        return [f() for _ in range(self.int())]

    def node(self):
        k = self.int()
        if k == 0:
            return ("atom", self.int())
        return ("conj" if k == 1 else "disj", tuple(self.list(self.int)))

    def graph(self):
        return self.list(self.node)

    def key(self):
        return None if self.int() == 0 else self.int()

    def keys(self):
        return self.list(self.key)

    def ads(self):
        return self.list(lambda: (self.list(self.int), self.int()))

    def weights(self):
        return self.list(lambda: (self.int(), self.int()))

    def names(self):
        return self.list(lambda: (self.int(), self.key(), self.int()))

    def clauses(self):
        return self.list(lambda: (self.int(), self.int(), self.list(self.int)))

    def done(self):
        return self.i == len(self.t)
