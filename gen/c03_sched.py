"""Helpers shared by harness/props/C03.py and C04.py.

* schedule hook detection + the equivalent harness-side monkeypatch (used only
  while fixes/HOOK-C03-sched.patch has not been applied to $VERIF_REPO);
* running one program (text or file) under one *mode*:
      default            DefaultEngine(), no permutation
      perm:<seed>        DefaultEngine(), every all-'e' batch pushed on the MessageFIFO permuted
      unbuf              DefaultEngine(unbuffered=True)                (the hidden --unbuffered flag)
      unbuf_rc           DefaultEngine(unbuffered=True, rc_first=True)
      random:<k>         the RandomOrderEngine of docs/source/engine.rst (MessageOrder1), random.seed(k)
* canonicalisation of results (DESIGN 1.3a): lists inside answers are compared
  as multisets, probabilities of answers that differ only by such element
  order are summed, probability 0 == unreported, errors by class;
* a small generator of ProbLog programs (recursion, ADs, stratified negation,
  findall/all, disjunction, builtins, evidence, and a malformed stream).
"""
import hashlib
import os
import random as _random
import signal
import sys
import time

SEED_ENV = "ML_KULEUVEN_PROBLOG_VERIF_SCHED_SEED"
GUARD_ENV = "ML_KULEUVEN_PROBLOG_VERIF"
TOL = 1e-9
ZERO = 1e-12

# ---------------------------------------------------------------------------- hook


def ensure_sched_hook():
    """Returns "repo-hook" when problog.engine_stack.MessageFIFO carries the hook
    of fixes/HOOK-C03-sched.patch, otherwise installs the equivalent
    monkeypatch (same code, same counters) and returns "harness-monkeypatch"."""
    from problog import engine_stack as es
    if getattr(es.MessageFIFO, "_verif_sched_hook", None) == 1:
        return "repo-hook"
    if getattr(es.MessageFIFO, "_verif_sched_hook", None) == "harness":
        return "harness-monkeypatch"
    MessageQueue = es.MessageQueue

    def __iadd__(self, messages):
        state = self.__dict__.get("_verif_sched")
        if state is None:
            seed = os.environ.get(SEED_ENV, "")
            rng = None
            stats = None
            if os.environ.get(GUARD_ENV) == "1" and seed.strip().lstrip("+-").isdigit():
                rng = _random.Random(int(seed))
                stats = self.engine.__dict__.setdefault(
                    "_verif_sched_stats", {"queues": 0, "batches": 0, "all_e": 0, "permuted": 0})
                stats["queues"] += 1
            state = self._verif_sched = (rng, stats)
        rng, stats = state
        if rng is None:
            return MessageQueue.__iadd__(self, messages)
        batch = list(messages)
        stats["batches"] += 1
        if len(batch) > 1 and all(m[0] == "e" for m in batch):
            stats["all_e"] += 1
            order = list(range(len(batch)))
            rng.shuffle(order)
            if order != sorted(order):
                stats["permuted"] += 1
                batch = [batch[i] for i in order]
        return MessageQueue.__iadd__(self, batch)

    es.MessageFIFO.__iadd__ = __iadd__
    es.MessageFIFO._verif_sched_hook = "harness"
    return "harness-monkeypatch"


# ---------------------------------------------------------------------------- running

class _Tmo(BaseException):
    """Not an Exception subclass: `except Exception` inside problog cannot swallow it."""


def _alarm(signum, frame):
    raise _Tmo()


def err_class(e):
    import pl
    if isinstance(e, _Tmo):
        return "Timeout"
    if isinstance(e, MemoryError):
        return "Timeout"
    return pl.err_class(e)


def canon_term(t, dedup=False):
    """Canonical text of an answer term in which every list is a multiset
    (dedup=True: a set; only used to recognise the duplicate-element symptom)."""
    from problog.logic import Term, Var
    if isinstance(t, Term) and not isinstance(t, Var) and t.functor == "." and t.arity == 2:
        elems = []
        cur = t
        while isinstance(cur, Term) and cur.functor == "." and cur.arity == 2:
            elems.append(canon_term(cur.args[0], dedup))
            cur = cur.args[1]
        elems.sort()
        if dedup:
            elems = sorted(set(elems))
        tail = "" if (isinstance(cur, Term) and cur.functor == "[]" and cur.arity == 0) else "|" + canon_term(cur, dedup)
        return "{[" + ",".join(elems) + tail + "]}"
    if isinstance(t, Term) and not isinstance(t, Var) and t.arity > 0:
        try:
            args = t.args
        except Exception:
            return str(t)
        if any(a is None or isinstance(a, int) for a in args):
            return str(t)
        return "%s(%s)" % (t.functor, ",".join(canon_term(a, dedup) for a in args))
    return str(t)


def _make_engine(mode):
    from problog.engine import DefaultEngine
    from problog import engine_stack as es
    kind = mode.split(":")[0]
    if kind in ("default", "perm"):
        return DefaultEngine()
    if kind == "unbuf":
        return DefaultEngine(unbuffered=True)
    if kind == "unbuf_rc":
        return DefaultEngine(unbuffered=True, rc_first=True)
    if kind == "random":
        # docs/source/engine.rst "Enabling arbitrary execution order": the queue
        # documented there is, line for line, engine_stack.MessageOrder1.
        class RandomOrderEngine(es.StackBasedEngine):
            def __init__(self):
                es.StackBasedEngine.__init__(self, unbuffered=True)

            def init_message_stack(self):
                return es.MessageOrder1(self)
        return RandomOrderEngine()
    raise ValueError(mode)


_EVAL_CACHE = {}


def run_mode(prog, mode, timeout=10, cache=None, ground_only=False):
    """prog = {"src": text} or {"path": file}.  Returns a dict
       status: "ok"|"err", err: class, exact: {str(answer): p}, canon: {canon(answer): sum p},
       stats: hook counters (perm modes), secs."""
    from problog import get_evaluatable
    from problog.program import PrologString, PrologFile
    from problog.formula import LogicFormula
    from problog import engine_stack as es
    kind, _, arg = mode.partition(":")
    os.environ.pop(SEED_ENV, None)
    if kind == "perm":
        os.environ[SEED_ENV] = str(int(arg))
    if kind == "random":
        es.random.seed(int(arg))
    out = {"mode": mode, "status": "err", "err": None, "exact": {}, "canon": {}, "canonset": {}, "stats": None, "reused": False}
    t0 = time.time()
    eng = None
    old = signal.signal(signal.SIGALRM, _alarm)
    signal.alarm(int(timeout))
    try:
        eng = _make_engine(mode)
        model = PrologFile(prog["path"]) if "path" in prog else PrologString(prog["src"])
        db = eng.prepare(model)
        lf = LogicFormula.create_from(db, engine=eng)
        key = None
        if cache is not None and not ground_only:
            key = hashlib.sha1(str(lf).encode()).hexdigest()
        if ground_only:
            # accept/reject + reported instances only (used by the shrinker and the per-query isolation)
            res = [(str(k), canon_term(k), canon_term(k, True), 1.0) for k, n in lf.queries()]
        elif key is not None and key in cache:
            res = cache[key]
            out["reused"] = True
        else:
            raw = get_evaluatable().create_from(lf).evaluate()
            res = [(str(k), canon_term(k), canon_term(k, True), float(v)) for k, v in raw.items()]
            if key is not None:
                cache[key] = res
        for s, c, cset, v in res:
            out["exact"][s] = out["exact"].get(s, 0.0) + v
            out["canon"][c] = out["canon"].get(c, 0.0) + v
            out["canonset"][cset] = out["canonset"].get(cset, 0.0) + v
        out["status"] = "ok"
    except BaseException as e:  # noqa
        if isinstance(e, (KeyboardInterrupt, SystemExit)):
            raise
        signal.alarm(0)
        out["err"] = err_class(e)
        out["errmsg"] = (type(e).__name__ + ": " + str(e))[:200]
        tb = e.__traceback__
        while tb is not None and tb.tb_next is not None:
            tb = tb.tb_next
        if tb is not None:
            code = tb.tb_frame.f_code
            out["errwhere"] = "%s:%s" % (os.path.basename(code.co_filename), code.co_name)
        del tb
    finally:
        signal.alarm(0)
        signal.signal(signal.SIGALRM, old)
        os.environ.pop(SEED_ENV, None)
    out["secs"] = round(time.time() - t0, 3)
    if out["status"] == "err" and out["err"] != "Timeout" and out["secs"] >= timeout - 0.05:
        # an alarm that was swallowed / converted by problog's own handlers
        out["err"] = "Timeout"
    if eng is not None:
        out["stats"] = getattr(eng, "_verif_sched_stats", None)
    return out


def same(a, b, exact=False, field=None):
    """Compare two run_mode outcomes; returns None when they agree, else a short reason.
    Timeouts never compare (caller records them)."""
    if a["status"] != b["status"]:
        return "accept/reject: %s vs %s" % (a["err"] or "ok", b["err"] or "ok")
    if a["status"] == "err":
        return None if a["err"] == b["err"] else "error class: %s vs %s" % (a["err"], b["err"])
    da, dbb = (a["exact"], b["exact"]) if exact else (a["canon"], b["canon"])
    if field:
        da, dbb = a[field], b[field]
    for k in sorted(set(da) | set(dbb)):
        pa, pb = da.get(k, 0.0), dbb.get(k, 0.0)
        if abs(pa - pb) > TOL:
            if pa <= ZERO and k not in da or pb <= ZERO and k not in dbb:
                return "instances: %s reported %s vs %s" % (k, "%.10g" % pa if k in da else "not", "%.10g" % pb if k in dbb else "not")
            return "probability: %s %.10g vs %.10g" % (k, pa, pb)
    return None


def run_many(item):
    """Worker: item = (prog, [modes], timeout[, ground_only]).  First mode is the baseline.
    One cache of evaluations per program (identical ground program text => the
    downstream pipeline is a deterministic function of it)."""
    ensure_sched_hook()
    sys.setrecursionlimit(20000)
    prog, modes, timeout = item[:3]
    ground_only = len(item) > 3 and item[3]
    cache = {}
    res = []
    ntmo = 0
    for i, m in enumerate(modes):
        if ntmo >= 2:
            # a program that already timed out twice under other orders: record the rest as timeouts too
            res.append({"mode": m, "status": "err", "err": "Timeout", "exact": {}, "canon": {}, "canonset": {},
                        "stats": None, "reused": False, "secs": 0.0, "errmsg": "skipped after two timeouts"})
            continue
        r = run_mode(prog, m, timeout, cache, ground_only)
        res.append(r)
        if r["status"] == "err" and r["err"] == "Timeout":
            if i == 0:
                break
            ntmo += 1
    return res


# ---------------------------------------------------------------------------- generator

def _p(rng):
    return rng.choice(["0.1", "0.2", "0.3", "0.4", "0.5", "0.6", "0.7", "0.8", "0.9", "0.25", "0.05"])


def gen_program(rng, malformed=False):
    """Returns (list_of_statements, features).  Every statement is one line so
    that shrinking can drop statements.  Never emits a consumer that observes
    the element order of a findall/all list (DESIGN 1.3a)."""
    L = []
    feats = set()
    nconst = rng.choice([2, 3, 3, 4])
    D = list(range(1, nconst + 1))
    for c in D:
        L.append("d(%d)." % c)
    shape = rng.choice(["graph", "graph", "prop", "prop", "smokers", "mixed", "mixed"])
    queries = []
    unary_goals = []     # goal templates with one free variable X
    ground_goals = []    # ground atoms usable in bodies / queries / evidence
    budget = [rng.choice([5, 7, 9, 11])]  # number of probabilistic choices

    def spend(k=1):
        budget[0] -= k
        return budget[0] >= 0

    # --- probabilistic edge relation + recursive reachability
    if shape in ("graph", "mixed"):
        feats.add("graph")
        pairs = [(a, b) for a in D for b in D]
        rng.shuffle(pairs)
        ne = rng.randint(2, min(len(pairs), 6))
        for (a, b) in pairs[:ne]:
            if rng.random() < 0.75 and spend():
                L.append("%s::e(%d,%d)." % (_p(rng), a, b))
            else:
                L.append("e(%d,%d)." % (a, b))
        rec = rng.choice(["right", "left", "double", "mutual", "undirected"])
        feats.add("rec-" + rec)
        if rec == "right":
            L += ["p(X,Y) :- e(X,Y).", "p(X,Y) :- e(X,Z), p(Z,Y)."]
        elif rec == "left":
            L += ["p(X,Y) :- p(X,Z), e(Z,Y).", "p(X,Y) :- e(X,Y)."]
        elif rec == "double":
            L += ["p(X,Y) :- e(X,Y).", "p(X,Y) :- p(X,Z), p(Z,Y)."]
        elif rec == "mutual":
            L += ["p(X,Y) :- e(X,Y).", "p(X,Y) :- e(X,Z), r(Z,Y).", "r(X,Y) :- e(X,Y).", "r(X,Y) :- p(X,Z), e(Z,Y)."]
        else:
            L += ["u(X,Y) :- e(X,Y).", "u(X,Y) :- e(Y,X).", "p(X,Y) :- u(X,Y).", "p(X,Y) :- u(X,Z), X \\= Z, p(Z,Y)."]
        s = rng.choice(D)
        unary_goals += ["p(%d,X)" % s, "p(X,%d)" % rng.choice(D)]
        ground_goals += ["p(%d,%d)" % (rng.choice(D), rng.choice(D)) for _ in range(2)]
        queries.append(rng.choice(["p(%d,_)" % s, "p(_,_)", "p(%d,%d)" % (s, rng.choice(D))]))

    # --- smokers style: non-ground probabilistic facts with domain guard, ADs with bodies
    if shape in ("smokers", "mixed"):
        feats.add("smokers")
        spend(2)
        L.append("%s::stress(X) :- d(X)." % _p(rng))
        pairs = [(a, b) for a in D for b in D if a != b]
        rng.shuffle(pairs)
        for (a, b) in pairs[:rng.randint(1, 4)]:
            L.append("friend(%d,%d)." % (a, b))
        if rng.random() < 0.5:
            L.append("%s::infl(X,Y) :- friend(X,Y)." % _p(rng))
            L += ["smokes(X) :- stress(X).", "smokes(X) :- infl(Y,X), smokes(Y)."]
        else:
            L += ["smokes(X) :- friend(X,Y), smokes(Y).", "smokes(X) :- stress(X)."]
        if rng.random() < 0.6:
            feats.add("ad-body")
            L.append("%s::sick(X,flu); %s::sick(X,cold) :- smokes(X)." % (rng.choice(["0.1", "0.3"]), rng.choice(["0.2", "0.5"])))
            unary_goals.append("sick(X,flu)")
            queries.append("sick(_,_)")
        unary_goals += ["smokes(X)", "stress(X)"]
        ground_goals += ["smokes(%d)" % rng.choice(D)]
        queries.append(rng.choice(["smokes(_)", "smokes(%d)" % rng.choice(D)]))

    # --- propositional layer: facts f*, ADs a*, derived atoms t*, stratified by index
    if shape in ("prop", "mixed") or not queries:
        feats.add("prop")
        nf = rng.randint(2, 5)
        facts = []
        for i in range(nf):
            if spend():
                L.append("%s::f%d." % (_p(rng), i))
                facts.append("f%d" % i)
        if rng.random() < 0.6 and spend():
            feats.add("ad")
            k = rng.choice([2, 3])
            ps = rng.choice([["0.2", "0.3", "0.4"], ["0.5", "0.5"], ["0.1", "0.6", "0.3"], ["0.3", "0.3"]])[:k]
            heads = ["a%d" % i for i in range(len(ps))]
            body = ""
            if facts and rng.random() < 0.4:
                body = " :- " + rng.choice(facts)
            L.append("; ".join("%s::%s" % (p, h) for p, h in zip(ps, heads)) + body + ".")
            facts += heads
        if not facts:
            L.append("0.5::f0.")
            facts.append("f0")
        nt = rng.randint(2, 6)
        atoms = ["t%d" % i for i in range(nt)]
        # strata: positive dependencies stay within the same or a lower stratum,
        # negative ones go to a strictly lower stratum => stratified program
        strat = sorted(rng.randint(0, 2) for _ in atoms)
        for i, a in enumerate(atoms):
            for _ in range(rng.choice([1, 2, 2, 3])):
                body = []
                for _ in range(rng.choice([1, 2, 2, 3])):
                    r = rng.random()
                    if r < 0.45:
                        lit = rng.choice(facts)
                        if rng.random() < 0.25:
                            lit = "\\+" + lit
                            feats.add("neg")
                    elif r < 0.85:
                        # positive dependency inside the stratum or below (cycles allowed)
                        lit = rng.choice([b for j, b in enumerate(atoms) if strat[j] <= strat[i]])
                        feats.add("prop-rec")
                    else:
                        # negative dependency: only on a strictly lower stratum
                        lower = [b for j, b in enumerate(atoms) if strat[j] < strat[i]]
                        if lower:
                            lit = "\\+" + rng.choice(lower)
                            feats.add("neg")
                        else:
                            lit = rng.choice(facts)
                    if lit not in body:
                        body.append(lit)
                if rng.random() < 0.12 and len(body) >= 2:
                    feats.add("disj")
                    L.append("%s :- (%s ; %s)%s." % (a, body[0], body[1], "".join(", " + b for b in body[2:])))
                else:
                    L.append("%s :- %s." % (a, ", ".join(body)))
        ground_goals += atoms[-2:]
        for a in rng.sample(atoms, min(len(atoms), rng.choice([1, 2, 3]))):
            queries.append(a)

    # --- stratified negation / builtins over the first-order part
    if unary_goals and rng.random() < 0.6:
        feats.add("fo-neg")
        g = rng.choice(unary_goals)
        L.append("n(X) :- d(X), \\+ %s." % g)
        unary_goals.append("n(X)")
        queries.append(rng.choice(["n(_)", "n(%d)" % rng.choice(D)]))
    if unary_goals and rng.random() < 0.35:
        feats.add("builtin")
        g = rng.choice(unary_goals)
        L.append("b(Y) :- between(1,%d,X), %s, Y is X*2." % (nconst, g))
        L.append("b(Y) :- d(Y), Y > %d." % rng.choice(D))
        queries.append("b(_)")

    # --- findall / all (results only consumed order-independently)
    if unary_goals and rng.random() < 0.7:
        g = rng.choice(unary_goals)
        kind = rng.choice(["list", "list", "len", "sort", "all", "sum", "member"])
        feats.add("findall-" + kind)
        if kind == "list":
            L.append("fl(L) :- findall(X, %s, L)." % g)
            queries.append("fl(_)")
        elif kind == "len":
            L.append("fl(N) :- findall(X, %s, L), length(L,N)." % g)
            queries.append("fl(_)")
        elif kind == "sort":
            L.append("fl(S) :- findall(X, %s, L), sort(L,S)." % g)
            queries.append("fl(_)")
        elif kind == "all":
            L.append("fl(L) :- all(X, %s, L)." % g)
            queries.append("fl(_)")
        elif kind == "sum":
            L.append("fl(S) :- findall(X, (d(X), %s), L), sum_list(L,S)." % g)
            queries.append("fl(_)")
        else:
            L.append("fl(Y) :- findall(X, %s, L), member(Y,L)." % g)
            queries.append("fl(_)")
    if ground_goals and rng.random() < 0.3:
        feats.add("findall-ground")
        L.append("fg(N) :- findall(x, (%s ; %s), L), length(L,N)." % (rng.choice(ground_goals), rng.choice(ground_goals)))
        queries.append("fg(_)")

    # --- malformed stream: errors whose class must not depend on the schedule
    if malformed:
        kind = rng.choice(["negcycle", "unknown", "arith", "nonground-prob", "nonground-query", "negcycle-fo", "callvar"])
        feats.add("bad-" + kind)
        if kind == "negcycle":
            a = "w0"
            L += ["w0 :- \\+ w1.", "w1 :- \\+ w0%s." % ("" if rng.random() < 0.5 else ", d(1)")]
            if ground_goals and rng.random() < 0.5:
                L.append("w0 :- %s." % rng.choice(ground_goals))
            queries.insert(rng.randint(0, len(queries)), a)
        elif kind == "negcycle-fo":
            L += ["w(X) :- d(X), \\+ v(X).", "v(X) :- d(X), \\+ w(X).", "v(X) :- d(X), X > 1."]
            queries.insert(rng.randint(0, len(queries)), "w(_)")
        elif kind == "unknown":
            L.append("w0 :- %s." % ", ".join(rng.sample(["d(1)", "nosuchpred(1)", "d(2)"], 3)))
            if rng.random() < 0.5:
                L.append("w0 :- d(1).")
            queries.insert(rng.randint(0, len(queries)), "w0")
        elif kind == "arith":
            L += ["w0 :- d(X), Y is X + foo, Y > 0.", "w0 :- d(1)."]
            queries.insert(rng.randint(0, len(queries)), "w0")
        elif kind == "nonground-prob":
            L += ["0.3::w(X).", "w0 :- w(_)."]
            queries.insert(rng.randint(0, len(queries)), "w0")
        elif kind == "nonground-query":
            L += ["w(X,Y) :- d(X)."]
            queries.insert(rng.randint(0, len(queries)), "w(_,_)")
        else:
            L += ["w0 :- d(X), call(G).", "w0 :- d(2)."]
            queries.insert(rng.randint(0, len(queries)), "w0")

    # --- evidence
    if ground_goals and rng.random() < 0.35:
        feats.add("evidence")
        g = rng.choice(ground_goals)
        L.append(rng.choice(["evidence(%s).", "evidence(%s,false).", "evidence(\\+%s)."]) % g)
    if any("sum_list(" in l or "member(" in l for l in L):
        L.insert(0, ":- use_module(library(lists)).")
    seen = []
    for q in queries:
        if q not in seen:
            seen.append(q)
    for q in seen:
        L.append("query(%s)." % q)
    return L, sorted(feats)


def shrink_lines(lines, bad, max_steps=400):
    """Greedy delta debugging on statements: drop statements while bad(lines) holds."""
    lines = list(lines)
    steps = 0
    i = 0
    while i < len(lines) and steps < max_steps:
        cand = lines[:i] + lines[i + 1:]
        steps += 1
        if cand and bad(cand):
            lines = cand
        else:
            i += 1
    return lines


def corpus_files(repo, recursive=False):
    base = os.path.join(repo, "test")
    out = []
    if recursive:
        for root, dirs, names in os.walk(base):
            dirs.sort()
            for n in sorted(names):
                if n.endswith(".pl"):
                    out.append(os.path.join(root, n))
    else:
        out = [os.path.join(base, n) for n in sorted(os.listdir(base)) if n.endswith(".pl")]
    return out


# ---------------------------------------------------------------------------- input features

def stratified(prog):
    """Predicate-level stratification of the program text (conservative: goals
    inside findall/all/call/forall/... count as negative dependencies).  Returns
    True / False, or None when the program cannot be parsed."""
    r = dep_analysis(prog)
    return None if r is None else r["stratified"]


def has_loop(prog):
    """True when some predicate of the program depends on itself (predicate-level
    dependency graph has a cycle); False for an acyclic program; None = unparsable."""
    r = dep_analysis(prog)
    return None if r is None else r["loop"]


def dep_analysis(prog):
    try:
        from problog.program import PrologString, PrologFile
        from problog.logic import Term, And, Or, Not, Clause, AnnotatedDisjunction, Var
        model = PrologFile(prog["path"]) if "path" in prog else PrologString(prog["src"])
        deps = {}

        def walk(t, neg, acc):
            if isinstance(t, (And, Or)):
                walk(t.op1, neg, acc)
                walk(t.op2, neg, acc)
            elif isinstance(t, Not):
                walk(t.child, True, acc)
            elif isinstance(t, Var) or not isinstance(t, Term):
                acc.add(("?var", True))
            else:
                acc.add(((t.functor, t.arity), neg))
                if t.functor in ("findall", "all", "all_or_none", "call", "forall", "subquery", "try_call", "once",
                                 "\\+", "not", "cut") or t.functor.startswith("call"):
                    for a in t.args:
                        if isinstance(a, Term) and not isinstance(a, Var):
                            walk(a, True, acc)
        for st in model:
            if isinstance(st, Clause):
                heads, body = [st.head], st.body
            elif isinstance(st, AnnotatedDisjunction):
                heads, body = st.heads, st.body
            else:
                continue
            acc = set()
            walk(body, False, acc)
            for h in heads:
                deps.setdefault((h.functor, h.arity), set()).update(acc)
        nodes = set(deps)
        reach = {n: {d for d, _ in deps.get(n, ()) if d in nodes} for n in nodes}
        changed = True
        while changed:
            changed = False
            for n in nodes:
                new = set(reach[n])
                for m in list(reach[n]):
                    new |= reach[m]
                if new != reach[n]:
                    reach[n] = new
                    changed = True
        strat = True
        for n in nodes:
            for d, neg in deps[n]:
                if neg and d in nodes and (d == n or n in reach[d]):
                    strat = False
        return {"stratified": strat, "loop": any(n in reach[n] for n in nodes)}
    except BaseException as e:  # noqa
        if isinstance(e, (KeyboardInterrupt, SystemExit)):
            raise
        return None


# ---------------------------------------------------------------------------- judging

def mode_family(mode):
    return mode.split(":")[0]


def is_query_line(line):
    s = line.strip()
    return s.startswith("query(") or s.startswith("evidence(")


def isolated_error_classes(lines, timeout=10):
    """Error classes the default engine reports when each query/evidence
    statement is kept alone (grounding only).  A program with several
    independent error sources legitimately reports whichever is reached first."""
    base = [l for l in lines if not is_query_line(l)]
    out = set()
    for l in lines:
        if is_query_line(l):
            r = run_mode({"src": "\n".join(base + [l])}, "default", timeout, None, True)
            if r["status"] == "err":
                out.add(r["err"])
    return out


def judge(prog, base, r, lines=None):
    """Returns (verdict, klass, what): verdict in agree | order-only | timeout | multi-error | violation."""
    if base["err"] == "Timeout" or r["err"] == "Timeout":
        return ("timeout", None, None)
    d = same(base, r)
    if d is None:
        return ("order-only" if same(base, r, exact=True) else "agree", None, None)
    fam = mode_family(r["mode"])
    errs = {base["err"], r["err"]}
    ab = [x for x in (base, r) if x["err"] == "INTERNAL:AssertionError"]
    if ab and all(x.get("errwhere") == "eval_nodes.py:__setitem__" for x in ab) and len(errs) == 2:
        return ("violation", "%s:assertion-resultset-only-under-some-orders" % fam, d)
    if (ab and all(x.get("errwhere") == "formula.py:get_node" for x in ab) and len(errs) == 2
            and "evidence(" in source_text(prog)):
        # evidence on an atom of a cyclic predicate that is deterministically true: under some orders
        # the engine emits disj(children=(0,)) and break_cycles trips `assert is_probabilistic`
        return ("violation", "%s:assertion-break-cycles-evidence-on-cyclic-true-atom-under-some-orders" % fam, d)
    if "NegativeCycle" in errs and len(errs) == 2:
        # known defect: the cycle detector takes an active, not yet completed goal of a POSITIVE LOOP for a
        # cycle through the negation.  A NegativeCycle on a program whose dependency graph is acyclic is never
        # in this class.
        da = dep_analysis(prog)
        if da and da["stratified"] and da["loop"]:
            return ("violation", "%s:negative-cycle-raised-on-stratified-program-under-some-orders" % fam, d)
    if base["status"] == "err" and r["status"] == "err":
        if lines is not None:
            iso = isolated_error_classes(lines)
            if r["err"] in iso and base["err"] in iso:
                return ("multi-error", None, d)
    return ("violation", "%s:unclassified:%s" % (fam, d.split(":")[0].replace(" ", "-").replace("/", "-")), d)


def source_text(prog):
    if "src" in prog:
        return prog["src"]
    try:
        with open(prog["path"]) as f:
            return f.read()
    except OSError:
        return ""


def uses_findall(prog):
    import re
    return re.search(r"\b(findall|all|all_or_none)\s*\(", source_text(prog)) is not None


def judge_modes(prog, base, r, lines=None):
    """C04: like judge(), with the symptom classes of the unbuffered / rc-first / random engines."""
    v, klass, d = judge(prog, base, r, lines)
    if v == "multi-error":
        # an unbuffered engine that reports a *different* error than the default still rejects: decision agrees
        return v, klass, d
    if v != "violation" or "unclassified" not in (klass or ""):
        return v, klass, d
    fam = mode_family(r["mode"])
    rmsg = r.get("errmsg") or ""
    bmsg = base.get("errmsg") or ""
    if base["err"] == "NegativeCycle" and r["status"] == "ok" and stratified(prog) is False:
        return v, "%s:answers-where-default-raises-NegativeCycle-on-unstratified-program" % fam, d
    if rmsg.startswith("IndirectCallCycleError") and not bmsg.startswith("IndirectCallCycleError"):
        return v, "%s:IndirectCallCycleError-only-in-this-mode" % fam, d
    if (r["err"] == "INTERNAL:RecursionError" and base["err"] != r["err"] and uses_findall(prog)
            and "\\+" in source_text(prog)):
        # findall/all over goals that involve negation: the unbuffered engines recurse without bound
        return v, "%s:RecursionError-only-in-this-mode" % fam, d
    if r["err"] == "INTERNAL:InvalidEngineState" and base["err"] != r["err"]:
        return v, "%s:InvalidEngineState-only-in-this-mode" % fam, d
    if base["status"] == "ok" and r["status"] == "ok" and uses_findall(prog):
        if same(base, r, field="canonset") is None:
            return v, "%s:findall-duplicate-elements" % fam, d
        return v, "%s:findall-result-differs" % fam, d
    return v, klass, d


# ---------------------------------------------------------------------------- acyclic stream + directed cases

def gen_dag_program(rng):
    """Acyclic (non-recursive) programs with shared subgoals and negation: a goal G with
    several clauses is called positively, and later in the same body a negated goal whose
    definition calls G again (the shape of seeded/C04: `q :- p, \\+ r.  r :- p, a.`).
    Propositional or with one argument over a 2-element domain."""
    fo = rng.random() < 0.4
    dom = [1, 2]

    def at(name):
        return "%s(X)" % name if fo else name
    L = ["d(%d)." % c for c in dom] if fo else []
    nf = rng.randint(2, 5)
    for i in range(nf):
        if fo:
            for c in dom:
                L.append("%s::f%d(%d)." % (_p(rng), i, c))
        else:
            L.append("%s::f%d." % (_p(rng), i))
    facts = ["f%d" % i for i in range(nf)]
    n = rng.randint(3, 6)
    bodies = {}
    for i in range(n):
        name = "g%d" % i
        ncl = rng.choice([1, 2, 2, 3]) if i > 0 else rng.choice([2, 2, 3])
        bodies[name] = []
        for _ in range(ncl):
            body = []
            lower = ["g%d" % j for j in range(i)]
            if i >= 2 and rng.random() < 0.6:
                # G positively, then a negated goal that itself calls G
                users = [(g, h) for h in lower for g in lower
                         if g != h and any(g in b for b in bodies[h])]
                if users:
                    g, h = rng.choice(users)
                    body = [g, "\\+" + h]
            for _ in range(rng.choice([0, 1, 1, 2]) if body else rng.choice([1, 2, 2, 3])):
                r = rng.random()
                if r < 0.5 or not lower:
                    lit = rng.choice(facts)
                else:
                    lit = rng.choice(lower)
                if rng.random() < 0.25:
                    lit = "\\+" + lit
                if lit not in body and ("\\+" + lit) not in body and lit.replace("\\+", "") not in body:
                    body.append(lit)
            if rng.random() < 0.3:
                rng.shuffle(body)
            bodies[name].append([b.replace("\\+", "") for b in body])
            L.append("%s :- %s%s." % (at(name), "d(X), " if fo else "",
                                      ", ".join(("\\+ " + at(b[2:])) if b.startswith("\\+") else at(b) for b in body)))
    qs = rng.sample(range(n), min(n, rng.choice([1, 2, 3])))
    if n - 1 not in qs:
        qs.append(n - 1)
    for q in sorted(qs):
        if fo:
            L.append(rng.choice(["query(g%d(_))." % q, "query(g%d(1))." % q]))
        else:
            L.append("query(g%d)." % q)
    return L, ["dag", "dag-fo" if fo else "dag-prop"]


# the demo programs of seeded/C04 (acyclic; negated goal re-calls an earlier multi-clause goal)
DIRECTED = [
    ("wet-but-not-slippery", ["0.4::rain.", "0.3::sprinkler.", "0.2::covered.", "wet :- rain.", "wet :- sprinkler.",
                              "slippery :- wet, \\+ covered.", "safe :- wet, \\+ slippery.", "query(safe)."]),
    ("minimal", ["0.5::a.", "0.5::b.", "p :- a.", "p :- b.", "r :- p, a.", "q :- p, \\+ r.", "query(q)."]),
    ("with-arguments", ["0.6::up(1).", "0.3::up(2).", "0.7::backup(1).", "0.5::backup(2).", "0.1::maint(1).", "0.2::maint(2).",
                        "online(X) :- up(X).", "online(X) :- backup(X).", "degraded(X) :- online(X), maint(X).",
                        "healthy(X) :- online(X), \\+ degraded(X).", "query(healthy(1)).", "query(healthy(2))."]),
    ("control-no-negation", ["0.5::a.", "0.5::b.", "p :- a.", "p :- b.", "r :- p, a.", "q :- p, r.", "query(q)."]),
]
