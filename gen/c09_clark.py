"""Fail-closed translator  Python ast -> Gallina  for the C09 Clark's-completion model.

Translated (from $VERIF_REPO/problog):
  cnf_formula.py : CNF.add_atom, CNF.add_clause, CNF.add_constraint, clarks_completion
  constraint.py  : Constraint.is_nontrivial, ConstraintAD.is_true, ConstraintAD.is_false,
                   ConstraintAD.as_clauses
Shape-checked glue (their meaning is hard-wired in coq/theories/C09/ClarkBase.v; the
translator compares the source AST with the expected one and raises when it differs):
  formula.py : LogicFormula.__iter__, LogicFormula.__len__, BaseFormula.add_constraint,
               BaseFormula.set_weights, BaseFormula.get_weights, BaseFormula.add_name (body)
Every AST node that is not explicitly handled raises Untranslatable.

The output targets the hand-written prelude ClarkBase.v (records cnf / formula /
ad_constraint, setters, zrange, enum_nodes, fold_tails).
"""
import ast
import os


class Untranslatable(Exception):
    pass


def bad(node, why=""):
    raise Untranslatable("%s at line %s: %s" % (type(node).__name__, getattr(node, "lineno", "?"), why or ast.dump(node)[:300]))


LIST_OF = {"listZ": "Z", "listlistZ": "listZ", "listclause": "clause", "listad": "ad", "names": "name3", "listnodes": "node2"}


def find_func(tree, cls, name):
    if cls is None:
        for n in tree.body:
            if isinstance(n, ast.FunctionDef) and n.name == name:
                return n
    else:
        for c in tree.body:
            if isinstance(c, ast.ClassDef) and c.name == cls:
                for n in c.body:
                    if isinstance(n, ast.FunctionDef) and n.name == name:
                        return n
    raise Untranslatable("function %s.%s not found" % (cls, name))


def strip_doc(body):
    if body and isinstance(body[0], ast.Expr) and isinstance(body[0].value, ast.Constant) and isinstance(body[0].value.value, str):
        return body[1:]
    return body


def expect_shape(fn, expected_src, what):
    """The body of fn (docstring removed) must be AST-identical to expected_src."""
    got = ast.dump(ast.Module(body=strip_doc(fn.body), type_ignores=[]))
    exp = ast.dump(ast.parse(expected_src))
    if got != exp:
        raise Untranslatable("glue function %s changed shape:\n got %s\n exp %s" % (what, got[:600], exp[:600]))


# method tables: (receiver type, python method) -> (coq function, [param types], result type or None when it updates the receiver)
METHODS = {
    ("cnf", "add_atom"): ("cnf_add_atom", ["Z", "bool"], None),
    ("cnf", "add_clause"): ("cnf_add_clause", ["chead", "listZ"], None),
    ("cnf", "add_constraint"): ("cnf_add_constraint", ["ad", "bool"], None),
    ("cnf", "add_name"): ("cnf_add_name", ["nameN", "key", "labelN"], None),       # glue (ClarkBase)
    ("cnf", "set_weights"): ("set_c_weights", ["weights"], None),                   # glue
    ("ad", "is_true"): ("ad_is_true", [], "bool"),
    ("ad", "is_false"): ("ad_is_false", [], "bool"),
    ("ad", "is_nontrivial"): ("ad_is_nontrivial", [], "bool"),
    ("ad", "as_clauses"): ("ad_as_clauses", [], "listlistZ"),
    ("formula", "get_weights"): ("f_weights", [], "weights"),                       # glue
    ("formula", "constraints"): ("f_constraints", [], "listad"),                    # glue (harness passes source.constraints())
    ("formula", "get_names_with_label"): ("f_names", [], "names"),                  # glue
}
FIELDS = {
    ("ad", "nodes"): ("ad_nodes", "listZ"),       # set -> list in Python iteration order (harness passes list(c.nodes))
    ("ad", "extra_node"): ("ad_extra", "Z"),
    ("cnf", "_clauses"): ("c_clauses", "listclause"),
    ("cnf", "_atomcount"): ("c_atomcount", "Z"),
    ("cnf", "_clausecount"): ("c_clausecount", "Z"),
    ("cnf", "_constraints"): ("c_constraints", "listad"),
}
SETTERS = {"_clauses": "set_c_clauses", "_atomcount": "set_c_atomcount", "_clausecount": "set_c_clausecount"}


class Fn:
    """Translates one Python function whose only mutated object is `acc`."""

    def __init__(self, fn, params, acc, acc_type, defaults_tbl):
        self.fn = fn
        self.env = dict(params)      # python name -> type ; coq name = python name
        self.acc = acc
        self.acc_type = acc_type
        self.env[acc] = acc_type
        self.defaults = defaults_tbl

    # ------------------------------------------------------------ expressions
    def coerce(self, term, ty, want, node):
        if want is None or want == ty:
            return term
        if want == "chead" and ty == "Z":
            return "(HLit %s)" % term
        if want == "chead" and ty == "bool":
            return "(HForce %s)" % term
        if want == "listZ" and ty == "tupleZ":
            return term
        bad(node, "type %s where %s expected" % (ty, want))

    def expr(self, e, want=None):
        t, ty = self.expr0(e, want)
        return self.coerce(t, ty, want, e), (want or ty)

    def expr0(self, e, want):
        if isinstance(e, ast.Name):
            if e.id not in self.env:
                bad(e, "unknown name " + e.id)
            return e.id, self.env[e.id]
        if isinstance(e, ast.Constant):
            if e.value is True:
                return "true", "bool"
            if e.value is False:
                return "false", "bool"
            if isinstance(e.value, int):
                return ("%d" % e.value if e.value >= 0 else "(%d)" % e.value), "Z"
            bad(e)
        if isinstance(e, ast.UnaryOp):
            if isinstance(e.op, ast.USub):
                t, _ = self.expr(e.operand, "Z")
                return "(- %s)" % t, "Z"
            if isinstance(e.op, ast.Not):
                t, _ = self.expr(e.operand, "bool")
                return "(negb %s)" % t, "bool"
            bad(e)
        if isinstance(e, ast.BoolOp) and isinstance(e.op, ast.And):
            ts = [self.expr(v, "bool")[0] for v in e.values]
            return "(" + " && ".join(ts) + ")", "bool"
        if isinstance(e, ast.Compare) and len(e.ops) == 1 and isinstance(e.ops[0], ast.LtE):
            a, _ = self.expr(e.left, "Z")
            b, _ = self.expr(e.comparators[0], "Z")
            return "(%s <=? %s)" % (a, b), "bool"
        if isinstance(e, ast.BinOp) and isinstance(e.op, ast.Add):
            # clause construction  [head] + list(body)
            if want == "clause":
                if (isinstance(e.left, ast.List) and len(e.left.elts) == 1 and isinstance(e.right, ast.Call)
                        and isinstance(e.right.func, ast.Name) and e.right.func.id == "list" and len(e.right.args) == 1):
                    h, _ = self.expr(e.left.elts[0], "chead")
                    b, _ = self.expr(e.right.args[0], "listZ")
                    return "(%s, %s)" % (h, b), "clause"
                bad(e, "clause expression")
            a, ta = self.expr0(e.left, None)
            if ta == "Z":
                b, _ = self.expr(e.right, "Z")
                return "(%s + %s)" % (a, b), "Z"
            if ta in LIST_OF:
                b, _ = self.expr(e.right, ta)
                return "(%s ++ %s)" % (a, b), ta
            bad(e)
        if isinstance(e, ast.List):
            if want == "clause":
                if not e.elts:
                    bad(e)
                h, _ = self.expr(e.elts[0], "Z")
                rest = [self.expr(x, "Z")[0] for x in e.elts[1:]]
                return "(HLit %s, [%s])" % (h, "; ".join(rest)), "clause"
            if not e.elts:
                if want in LIST_OF:
                    return "[]", want
                bad(e, "empty list of unknown type")
            first, ty = self.expr0(e.elts[0], None)
            if ty == "tupleZ":
                ty = "listZ"
            lty = {v: k for k, v in LIST_OF.items()}.get(ty)
            if lty is None:
                bad(e, "list of " + ty)
            ts = [self.expr(x, ty)[0] for x in e.elts]
            return "[%s]" % "; ".join(ts), lty
        if isinstance(e, ast.Tuple):
            ts = [self.expr(x, "Z")[0] for x in e.elts]
            return "[%s]" % "; ".join(ts), "listZ"     # consumers call list(c) on it
        if isinstance(e, ast.Attribute):
            if isinstance(e.value, ast.Name):
                recv = e.value.id
                if recv == "node" and e.attr == "children" and self.env.get("children") == "listZ":
                    return "children", "listZ"
                rty = self.env.get(recv)
                if (rty, e.attr) in FIELDS:
                    f, ty = FIELDS[(rty, e.attr)]
                    return "(%s %s)" % (f, recv), ty
            bad(e)
        if isinstance(e, ast.Call):
            f = e.func
            if isinstance(f, ast.Name):
                if f.id == "list" and len(e.args) == 1 and not e.keywords:
                    a = e.args[0]
                    if (isinstance(a, ast.Call) and isinstance(a.func, ast.Name) and a.func.id == "map" and len(a.args) == 2
                            and isinstance(a.args[0], ast.Lambda)):
                        lam = a.args[0]
                        if len(lam.args.args) != 1 or lam.args.defaults or lam.args.vararg or lam.args.kwarg:
                            bad(lam)
                        xs, lty = self.expr0(a.args[1], None)
                        if lty != "listZ":
                            bad(a, "map over " + lty)
                        x = lam.args.args[0].arg
                        saved = self.env.get(x)
                        self.env[x] = "Z"
                        body, _ = self.expr(lam.body, "Z")
                        if saved is None:
                            del self.env[x]
                        else:
                            self.env[x] = saved
                        return "(map (fun %s => %s) %s)" % (x, body, xs), "listZ"
                    t, ty = self.expr0(a, None)
                    if ty not in LIST_OF:
                        bad(e, "list() of " + ty)
                    return t, ty
                if f.id == "len" and len(e.args) == 1 and not e.keywords:
                    t, ty = self.expr0(e.args[0], None)
                    if ty == "formula":
                        return "(Z.of_nat (length (f_nodes %s)))" % t, "Z"    # LogicFormula.__len__ (shape-checked)
                    if ty in LIST_OF:
                        return "(Z.of_nat (length %s))" % t, "Z"
                    bad(e)
                if f.id == "range" and len(e.args) == 2 and not e.keywords:
                    a, _ = self.expr(e.args[0], "Z")
                    b, _ = self.expr(e.args[1], "Z")
                    return "(zrange %s %s)" % (a, b), "listZ"
                bad(e)
            if isinstance(f, ast.Attribute) and isinstance(f.value, ast.Name):
                recv = f.value.id
                rty = self.env.get(recv)
                key = (rty, f.attr)
                if key in METHODS and METHODS[key][2] is not None:
                    cname, ptys, rt = METHODS[key]
                    if e.args or e.keywords or ptys:
                        bad(e)
                    return "(%s %s)" % (cname, recv), rt
            bad(e)
        bad(e)

    def call_args(self, key, call):
        cname, ptys, _ = METHODS[key]
        pnames, defaults = self.defaults.get(cname, (None, {}))
        args = []
        given = list(call.args)
        kw = {k.arg: k.value for k in call.keywords}
        if None in kw:
            bad(call, "**kwargs")
        if len(given) > len(ptys):
            bad(call, "too many arguments")
        for i, pty in enumerate(ptys):
            if i < len(given):
                args.append(self.expr(given[i], pty)[0])
            else:
                if pnames is None:
                    bad(call, "missing argument for glue function")
                pname = pnames[i]
                if pname in kw:
                    args.append(self.expr(kw.pop(pname), pty)[0])
                elif pname in defaults:
                    args.append(self.expr(defaults[pname], pty)[0])
                else:
                    bad(call, "missing argument " + pname)
        if kw:
            bad(call, "unexpected keyword " + ",".join(kw))
        return cname, args

    # ------------------------------------------------------------ statements
    def block(self, stmts, tail):
        """Returns a Coq term for `stmts` followed by `tail` (a Coq term using acc)."""
        stmts = strip_doc(list(stmts))
        if not stmts:
            return tail
        s, rest = stmts[0], stmts[1:]
        acc = self.acc
        if isinstance(s, ast.Pass):
            return self.block(rest, tail)
        if isinstance(s, ast.Return):
            if rest:
                bad(s, "code after return")
            if s.value is None:
                bad(s)
            return self.expr(s.value, self.ret_type)[0]
        if isinstance(s, ast.With):
            if (len(s.items) == 1 and s.items[0].optional_vars is None and isinstance(s.items[0].context_expr, ast.Call)
                    and isinstance(s.items[0].context_expr.func, ast.Name) and s.items[0].context_expr.func.id == "Timer"):
                return self.block(list(s.body) + rest, tail)
            bad(s)
        if isinstance(s, ast.Assign):
            if len(s.targets) != 1 or not isinstance(s.targets[0], ast.Name):
                bad(s)
            x = s.targets[0].id
            if x == acc:
                t, _ = self.expr(s.value, self.acc_type)
                if t == "[]":
                    t = "(@nil %s)" % {"listlistZ": "(list Z)", "listZ": "Z"}[self.acc_type]
            else:
                if x in self.env:
                    bad(s, "reassignment of " + x)
                t, ty = self.expr(s.value)
                self.env[x] = ty
            return "let %s := %s in\n  %s" % (x, t, self.block(rest, tail))
        if isinstance(s, ast.AugAssign):
            tg = s.target
            if (isinstance(tg, ast.Attribute) and isinstance(tg.value, ast.Name) and tg.value.id == acc and self.acc_type == "cnf"
                    and tg.attr in SETTERS and isinstance(s.op, ast.Add)):
                f, _ = FIELDS[("cnf", tg.attr)]
                v, _ = self.expr(s.value, "Z")
                return "let %s := %s (%s %s + %s) %s in\n  %s" % (acc, SETTERS[tg.attr], f, acc, v, acc, self.block(rest, tail))
            bad(s)
        if isinstance(s, ast.Expr) and isinstance(s.value, ast.Call):
            upd = self.update_call(s.value)
            return "let %s := %s in\n  %s" % (acc, upd, self.block(rest, tail))
        if isinstance(s, ast.For):
            if s.orelse:
                bad(s)
            upd = self.for_loop(s)
            return "let %s := %s in\n  %s" % (acc, upd, self.block(rest, tail))
        if isinstance(s, ast.If):
            returns = self.ends_with_return(s.body)
            if returns:
                if rest or not self.ends_with_return(s.orelse):
                    bad(s, "return in one branch only")
                c, _ = self.expr(s.test, "bool")
                return "if %s then\n  %s\n  else\n  %s" % (c, self.block(s.body, None), self.block(s.orelse, None))
            c, _ = self.expr(s.test, "bool")
            saved = dict(self.env)
            b1 = self.block(s.body, acc)
            self.env = dict(saved)
            b2 = self.block(s.orelse, acc)
            self.env = saved
            return "let %s := (if %s then %s else %s) in\n  %s" % (acc, c, b1, b2, self.block(rest, tail))
        bad(s)

    @staticmethod
    def ends_with_return(stmts):
        return bool(stmts) and isinstance(stmts[-1], ast.Return)

    def update_call(self, call):
        """A call statement that updates the accumulator; returns the new accumulator term."""
        acc = self.acc
        f = call.func
        if isinstance(f, ast.Attribute):
            # acc.append(E)  for a local list accumulator
            if isinstance(f.value, ast.Name) and f.value.id == acc and f.attr == "append" and self.acc_type in LIST_OF:
                if len(call.args) != 1 or call.keywords:
                    bad(call)
                t, _ = self.expr(call.args[0], LIST_OF[self.acc_type])
                return "(%s ++ [%s])" % (acc, t)
            # self._clauses.append(E)
            if (isinstance(f.value, ast.Attribute) and isinstance(f.value.value, ast.Name) and f.value.value.id == acc
                    and self.acc_type == "cnf" and f.attr == "append" and f.value.attr in ("_clauses",)):
                if len(call.args) != 1 or call.keywords:
                    bad(call)
                fld, lty = FIELDS[("cnf", f.value.attr)]
                t, _ = self.expr(call.args[0], LIST_OF[lty])
                return "%s (%s %s ++ [%s]) %s" % (SETTERS[f.value.attr], fld, acc, t, acc)
            # BaseFormula.add_constraint(self, constraint)   (glue, shape-checked)
            if (isinstance(f.value, ast.Name) and f.value.id == "BaseFormula" and f.attr == "add_constraint"
                    and len(call.args) == 2 and not call.keywords and isinstance(call.args[0], ast.Name)
                    and call.args[0].id == acc and self.acc_type == "cnf"):
                t, _ = self.expr(call.args[1], "ad")
                return "set_c_constraints (c_constraints %s ++ [%s]) %s" % (acc, t, acc)
            # acc.method(args)
            if isinstance(f.value, ast.Name) and f.value.id == acc:
                key = (self.acc_type, f.attr)
                if key in METHODS and METHODS[key][2] is None:
                    cname, args = self.call_args(key, call)
                    return "%s %s %s" % (cname, " ".join(args), acc) if args else "%s %s" % (cname, acc)
        bad(call)

    def for_loop(self, s):
        acc = self.acc
        saved = dict(self.env)
        try:
            # for index, node, nodetype in source:  three-way branch on nodetype
            if (isinstance(s.iter, ast.Name) and self.env.get(s.iter.id) == "formula" and isinstance(s.target, ast.Tuple)
                    and [getattr(x, "id", None) for x in s.target.elts] == ["index", "node", "nodetype"]):
                self.env["index"] = "Z"
                arms = self.nodetype_match(s.body)
                return ("fold_left (fun %s kn => let index := fst kn in match snd kn with\n%s\n    end) (enum_nodes %s) %s"
                        % (acc, arms, s.iter.id, acc))
            # for i, n in enumerate(xs): ... xs[i + 1:] ...
            if (isinstance(s.iter, ast.Call) and isinstance(s.iter.func, ast.Name) and s.iter.func.id == "enumerate"
                    and len(s.iter.args) == 1 and isinstance(s.iter.args[0], ast.Name) and isinstance(s.target, ast.Tuple)
                    and len(s.target.elts) == 2 and all(isinstance(x, ast.Name) for x in s.target.elts)):
                xs = s.iter.args[0].id
                lty = self.env.get(xs)
                if lty not in LIST_OF:
                    bad(s)
                i, n = s.target.elts[0].id, s.target.elts[1].id
                tailname = "%s_after_%s" % (xs, i)
                body = [TailRewriter(xs, i, tailname).visit(b) for b in s.body]
                for b in body:
                    for sub in ast.walk(b):
                        if isinstance(sub, ast.Name) and sub.id == i:
                            bad(sub, "index variable used outside xs[i + 1:]")
                self.env[n] = LIST_OF[lty]
                self.env[tailname] = lty
                t = self.block(body, acc)
                return "fold_tails (fun %s %s %s =>\n  %s) %s %s" % (n, tailname, acc, t, xs, acc)
            # for x in E  /  for a, b, c in E
            it, lty = self.expr0(s.iter, None)
            if lty not in LIST_OF:
                bad(s, "loop over " + lty)
            ety = LIST_OF[lty]
            if isinstance(s.target, ast.Name):
                x = s.target.id
                self.env[x] = ety
                t = self.block(s.body, acc)
                return "fold_left (fun %s %s =>\n  %s) %s %s" % (acc, x, t, it, acc)
            if isinstance(s.target, ast.Tuple) and ety == "name3" and len(s.target.elts) == 3:
                a, b, c = [x.id for x in s.target.elts]
                self.env[a], self.env[b], self.env[c] = "nameN", "key", "labelN"
                t = self.block(s.body, acc)
                return ("fold_left (fun %s nil_ => let %s := fst (fst nil_) in let %s := snd (fst nil_) in let %s := snd nil_ in\n  %s) %s %s"
                        % (acc, a, b, c, t, it, acc))
            bad(s)
        finally:
            self.env = saved

    def nodetype_match(self, body):
        """if nodetype == "conj": A elif nodetype == "disj": B elif nodetype == "atom": C else: raise"""
        if len(body) != 1 or not isinstance(body[0], ast.If):
            bad(body[0] if body else None, "node loop body")
        arms = {}
        cur = body[0]
        while True:
            t = cur.test
            if not (isinstance(t, ast.Compare) and isinstance(t.left, ast.Name) and t.left.id == "nodetype" and len(t.ops) == 1
                    and isinstance(t.ops[0], ast.Eq) and isinstance(t.comparators[0], ast.Constant)
                    and t.comparators[0].value in ("conj", "disj", "atom") and t.comparators[0].value not in arms):
                bad(cur, "nodetype test")
            kind = t.comparators[0].value
            saved = dict(self.env)
            if kind != "atom":
                self.env["children"] = "listZ"
            arms[kind] = self.block(cur.body, self.acc)
            self.env = saved
            if len(cur.orelse) == 1 and isinstance(cur.orelse[0], ast.If):
                cur = cur.orelse[0]
                continue
            if len(cur.orelse) == 1 and isinstance(cur.orelse[0], ast.Raise):
                break
            bad(cur, "the chain must end with `else: raise`")
        if set(arms) != {"conj", "disj", "atom"}:
            bad(body[0], "missing node type")
        return ("    | NAnd children =>\n  %s\n    | NOr children =>\n  %s\n    | NAtom _ =>\n  %s"
                % (arms["conj"], arms["disj"], arms["atom"]))


class TailRewriter(ast.NodeTransformer):
    """xs[i + 1:]  ->  Name(tailname)"""

    def __init__(self, xs, i, tailname):
        self.xs, self.i, self.tailname = xs, i, tailname

    def visit_Subscript(self, n):
        sl = n.slice
        if (isinstance(n.value, ast.Name) and n.value.id == self.xs and isinstance(sl, ast.Slice) and sl.upper is None and sl.step is None
                and isinstance(sl.lower, ast.BinOp) and isinstance(sl.lower.op, ast.Add) and isinstance(sl.lower.left, ast.Name)
                and sl.lower.left.id == self.i and isinstance(sl.lower.right, ast.Constant) and sl.lower.right.value == 1):
            return ast.copy_location(ast.Name(id=self.tailname, ctx=ast.Load()), n)
        return self.generic_visit(n)


def signature(fn, expected_params):
    a = fn.args
    if a.posonlyargs or a.kwonlyargs or a.vararg:
        bad(fn, "signature")
    names = [x.arg for x in a.args]
    if names != expected_params:
        bad(fn, "parameters %s, expected %s" % (names, expected_params))
    defaults = {}
    for name, d in zip(names[len(names) - len(a.defaults):], a.defaults):
        defaults[name] = d
    return defaults


def span(fn, path):
    return "%s:%d-%d" % (os.path.basename(path), fn.lineno, fn.end_lineno)


def translate(repo):
    p_cnf = os.path.join(repo, "problog", "cnf_formula.py")
    p_con = os.path.join(repo, "problog", "constraint.py")
    p_for = os.path.join(repo, "problog", "formula.py")
    t_cnf = ast.parse(open(p_cnf).read())
    t_con = ast.parse(open(p_con).read())
    t_for = ast.parse(open(p_for).read())

    # ---- glue shape checks
    expect_shape(find_func(t_for, "LogicFormula", "__iter__"),
                 "for i, n in enumerate(self._nodes):\n    yield (i + 1, n, type(n).__name__)", "LogicFormula.__iter__")
    expect_shape(find_func(t_for, "LogicFormula", "__len__"), "return len(self._nodes)", "LogicFormula.__len__")
    expect_shape(find_func(t_for, "BaseFormula", "add_constraint"), "self._constraints.append(constraint)", "BaseFormula.add_constraint")
    expect_shape(find_func(t_for, "BaseFormula", "set_weights"), "self._weights = weights", "BaseFormula.set_weights")
    expect_shape(find_func(t_for, "BaseFormula", "get_weights"), "return self._weights", "BaseFormula.get_weights")
    expect_shape(find_func(t_for, "BaseFormula", "add_name"),
                 "if label is None:\n    label = self.LABEL_NAMED\nself._names[label][name] = key", "BaseFormula.add_name")
    # CNF must not override the glue methods
    for c in t_cnf.body:
        if isinstance(c, ast.ClassDef) and c.name == "CNF":
            if [b.id for b in c.bases if isinstance(b, ast.Name)] != ["BaseFormula"]:
                raise Untranslatable("CNF bases changed")
            for n in c.body:
                if isinstance(n, ast.FunctionDef) and n.name in ("add_name", "set_weights", "get_weights"):
                    raise Untranslatable("CNF overrides " + n.name)
    for c in t_con.body:
        if isinstance(c, ast.ClassDef) and c.name == "ConstraintAD":
            if [b.id for b in c.bases if isinstance(b, ast.Name)] != ["Constraint"]:
                raise Untranslatable("ConstraintAD bases changed")
            for n in c.body:
                if isinstance(n, ast.FunctionDef) and n.name == "is_nontrivial":
                    raise Untranslatable("ConstraintAD overrides is_nontrivial")

    out = []
    defaults_tbl = {}

    COQTY = {"Z": "Z", "bool": "bool", "chead": "chead", "listZ": "list Z", "cnf": "cnf", "ad": "ad_constraint", "formula": "formula"}

    def define(coqname, fn, path, sig, params, acc, acc_type, ret_type):
        dfl = signature(fn, sig)
        pnames = [p for p, _ in params]
        defaults_tbl[coqname] = (pnames, dfl)
        tr = Fn(fn, params, acc, acc_type, defaults_tbl)
        tr.ret_type = ret_type
        if acc in [p for p, _ in params]:
            raise Untranslatable("accumulator among parameters")
        tail = acc if ret_type == acc_type and acc_type == "cnf" else None
        body = tr.block(fn.body, tail)
        if body is None:
            bad(fn, "function may fall off its end without a value")
        binders = " ".join("(%s : %s)" % (p, COQTY[t]) for p, t in params)
        if acc_type == "cnf" or acc == "self":
            binders += " (%s : %s)" % (acc, COQTY[acc_type])
        out.append("(* %s *)" % span(fn, path))
        rt = {"cnf": "cnf", "bool": "bool", "listlistZ": "list (list Z)"}[ret_type]
        out.append("Definition %s %s : %s :=\n  %s.\n" % (coqname, binders.strip(), rt, body))

    # ---- ConstraintAD
    define("ad_is_true", find_func(t_con, "ConstraintAD", "is_true"), p_con, ["self"], [("self", "ad")], "_none", "unit", "bool")
    define("ad_is_false", find_func(t_con, "ConstraintAD", "is_false"), p_con, ["self"], [("self", "ad")], "_none", "unit", "bool")
    define("ad_is_nontrivial", find_func(t_con, "Constraint", "is_nontrivial"), p_con, ["self"], [("self", "ad")], "_none", "unit", "bool")
    define("ad_as_clauses", find_func(t_con, "ConstraintAD", "as_clauses"), p_con, ["self"], [("self", "ad")], "lines", "listlistZ", "listlistZ")
    # ---- CNF
    define("cnf_add_atom", find_func(t_cnf, "CNF", "add_atom"), p_cnf, ["self", "atom", "force"],
           [("atom", "Z"), ("force", "bool")], "self", "cnf", "cnf")
    define("cnf_add_clause", find_func(t_cnf, "CNF", "add_clause"), p_cnf, ["self", "head", "body"],
           [("head", "chead"), ("body", "listZ")], "self", "cnf", "cnf")
    define("cnf_add_constraint", find_func(t_cnf, "CNF", "add_constraint"), p_cnf, ["self", "constraint", "force"],
           [("constraint", "ad"), ("force", "bool")], "self", "cnf", "cnf")
    # ---- clarks_completion
    fn = find_func(t_cnf, None, "clarks_completion")
    if fn.args.kwarg is None or fn.args.kwarg.arg != "kwdargs":
        bad(fn, "signature")
    fn.args.kwarg = None
    define("clarks_completion", fn, p_cnf, ["source", "destination", "force_atoms"],
           [("source", "formula"), ("force_atoms", "bool")], "destination", "cnf", "cnf")

    header = """(* GENERATED by gen/c09_clark.py from the working tree of problog -- do not edit.
   Sources: problog/cnf_formula.py, problog/constraint.py (spans given per definition);
   glue (LogicFormula.__iter__/__len__, BaseFormula.add_constraint/set_weights/get_weights/add_name)
   is shape-checked against the source and defined in ClarkBase.v. *)
From Coq Require Import ZArith NArith List Bool.
From PL.C09 Require Import BoolGraph ClarkBase.
Import ListNotations.
Local Open Scope Z_scope.

"""
    return header + "\n".join(out)


def main():
    import sys
    repo = os.environ.get("VERIF_REPO", "/repo")
    sys.stdout.write(translate(repo))


if __name__ == "__main__":
    main()
