"""Fail-closed translator: problog/cnf_formula.py  CNF.to_dimacs / CNF._contents, specialised to the
default options (partial=False, weighted=False, semiring=None, smart_constraints=False, names=False,
invert_weights=False)  ->  Gallina (coq/theories/C25/GenDimacs.v; vocabulary of ModelDimacs.v +
DimacsPrelude.v).

What is emitted
  contents_gen       : cnf -> list head * list (list head)      the live path of _contents (real translation)
  to_dimacs_str_gen  : cnf -> string                            the live path of to_dimacs (real translation, string level)
  to_dimacs_lines_gen: cnf -> list (list string)                token reading of the two formatting statements, whose
                                                                SHAPE is checked against a template (literals read from the source)
Specialisation: an `if` whose test is decided by the option constants (`weighted`, `partial`, `names`,
`weighted == int`, `weighted == float`) is replaced by the arm taken; the other arm is NOT read (its
line range is listed in the generated file).  Every other `if` must be translatable.

Python subset understood on the live path (anything else raises TranslationError):
  x = e | x = lambda ...: ... (opaque: any use is an error) | x = None | a, b = e1, e2 | x += e (strings)
  header, content = self._contents(<the options passed through by keyword>)
  for c in self.clauses: BODY     BODY: assignments, if/else, L.append(e)      (fold_left, state = appended lists)
  return e | return e1, e2 | docstring
  expressions: names, int / str literals, [e, ...], self.atomcount, self.clausecount (opaque), c[0], c[1:], len(e),
      list(e), map(str, e), map(lambda x: e, e'), "sep".join(e), "fmt" % (e, ...), + on lists / strings,
      `e is None`, `type(e) == bool`, not / and / or (truth value of an int/None/bool value: DimacsPrelude.truthy)
The properties `clauses`, `clausecount` (class CNF) and `atomcount` (class BaseFormula) are checked to be plain
getters of `self._<name>`.
"""
import ast
import hashlib
import os


class TranslationError(Exception):
    pass


def fail(node, msg):
    raise TranslationError("line %s: %s: %s" % (getattr(node, "lineno", "?"), msg,
                                                 ast.dump(node)[:300] if isinstance(node, ast.AST) else node))


INT, PV, STR, BOOL, CLAUSE, OPAQUE = "int", "pv", "str", "bool", "clause", "opaque"
DEFAULTS = {"partial": False, "weighted": False, "semiring": None, "smart_constraints": False, "names": False,
            "invert_weights": False}


def L(t):
    return ("list", t)


def is_list(t):
    return isinstance(t, tuple) and t[0] == "list"


def is_name(e, name=None):
    return isinstance(e, ast.Name) and (name is None or e.id == name)


def is_self_attr(e, attr=None):
    return isinstance(e, ast.Attribute) and is_name(e.value, "self") and (attr is None or e.attr == attr)


def is_doc(st):
    return isinstance(st, ast.Expr) and isinstance(st.value, ast.Constant) and isinstance(st.value.value, str)


def coq_str(s):
    """Python str literal -> Coq term of type string"""
    for ch in s:
        if ch != "\n" and not (32 <= ord(ch) < 127):
            raise TranslationError("character %r in a string literal" % ch)
    parts = s.split("\n")
    terms = []
    for k, p in enumerate(parts):
        if p:
            terms.append('"%s"' % p.replace('"', '""'))
        if k < len(parts) - 1:
            terms.append("nl")
    if not terms:
        return '""%string'
    return terms[0] + ("%string" if terms[0] != "nl" else "") if len(terms) == 1 else "(" + " ++ ".join(terms) + ")%string"


class Undecided(Exception):
    pass


def static(e, consts):
    """truth value of a test that only depends on the option constants"""
    if is_name(e) and e.id in consts:
        return bool(consts[e.id])
    if isinstance(e, ast.Compare) and len(e.ops) == 1 and isinstance(e.ops[0], ast.Eq) and is_name(e.left) \
            and e.left.id in consts and is_name(e.comparators[0]) and e.comparators[0].id in ("int", "float"):
        return consts[e.left.id] == {"int": int, "float": float}[e.comparators[0].id]
    raise Undecided()


class Tr:
    def __init__(self, consts, src_lines):
        self.consts = consts
        self.dead = []          # (first line, last line) of arms not taken
        self.src_lines = src_lines
        self.contents_call = None

    def v(self, name):
        return "v_" + name

    def skip(self, stmts):
        if stmts:
            self.dead.append((stmts[0].lineno, stmts[-1].end_lineno))

    # ------------------------------------------------------------ expressions
    def as_bool(self, e, t, ty):
        if ty == BOOL:
            return t
        if ty == PV:
            return "(truthy %s)" % t
        fail(e, "value of type %s in boolean position" % (ty,))

    def as_pv(self, e, t, ty):
        if ty == PV:
            return t
        if ty == INT:
            return "(HInt %s)" % t
        fail(e, "value of type %s as a list element" % (ty,))

    def expr(self, e, env):
        if isinstance(e, ast.Constant):
            if type(e.value) is int:
                return "(%d)%%Z" % e.value, INT
            if type(e.value) is str:
                return coq_str(e.value), STR
            fail(e, "constant")
        if isinstance(e, ast.Name):
            if e.id in self.consts:
                fail(e, "use of the option %s as a value" % e.id)
            if e.id not in env:
                fail(e, "unknown name")
            t, ty = env[e.id]
            if ty in (OPAQUE, "lambda", "none"):
                fail(e, "use of an untranslated value (%s)" % ty)
            return t, ty
        if isinstance(e, ast.Attribute):
            if is_self_attr(e, "atomcount"):
                return "(atomcount f)", INT
            if is_self_attr(e, "clausecount"):
                return "tt", OPAQUE
            fail(e, "attribute")
        if isinstance(e, ast.List):
            parts = [self.expr(x, env) for x in e.elts]
            if not parts:
                return "[]", L("?")
            return "[%s]" % "; ".join(self.as_pv(x, t, ty) for x, (t, ty) in zip(e.elts, parts)), L(PV)
        if isinstance(e, ast.Subscript):
            t, ty = self.expr(e.value, env)
            if ty != CLAUSE:
                fail(e, "subscript on a value of type %s" % (ty,))
            s = e.slice
            if isinstance(s, ast.Constant) and s.value == 0 and type(s.value) is int:
                return "(fst %s)" % t, PV
            if isinstance(s, ast.Slice) and isinstance(s.lower, ast.Constant) and s.lower.value == 1 and type(s.lower.value) is int \
                    and s.upper is None and s.step is None:
                return "(map HInt (snd %s))" % t, L(PV)
            fail(e, "subscript")
        if isinstance(e, ast.Call):
            return self.call(e, env)
        if isinstance(e, ast.BinOp):
            if isinstance(e.op, ast.Mod):
                return self.fmt(e, env)
            if isinstance(e.op, ast.Add):
                (a, ta), (b, tb) = self.expr(e.left, env), self.expr(e.right, env)
                if ta == STR and tb == STR:
                    return "(%s ++ %s)%%string" % (a, b), STR
                if is_list(ta) and is_list(tb):
                    if ta == tb or tb == L("?"):
                        return "(%s ++ %s)" % (a, b), ta
                    if ta == L("?"):
                        return "(%s ++ %s)" % (a, b), tb
                fail(e, "+ on %s and %s" % (ta, tb))
            fail(e, "binary operator")
        if isinstance(e, ast.UnaryOp) and isinstance(e.op, ast.Not):
            t, ty = self.expr(e.operand, env)
            return "(negb %s)" % self.as_bool(e.operand, t, ty), BOOL
        if isinstance(e, ast.BoolOp):
            parts = []
            for x in e.values:
                t, ty = self.expr(x, env)
                parts.append(self.as_bool(x, t, ty))
            return "(%s)" % (" || " if isinstance(e.op, ast.Or) else " && ").join(parts), BOOL
        if isinstance(e, ast.Compare):
            if len(e.ops) != 1:
                fail(e, "chained comparison")
            op, l, r = e.ops[0], e.left, e.comparators[0]
            if isinstance(op, ast.Is) and isinstance(r, ast.Constant) and r.value is None:
                t, ty = self.expr(l, env)
                if ty != PV:
                    fail(e, "`is None` on a value of type %s" % (ty,))
                return "(is_none %s)" % t, BOOL
            if isinstance(op, ast.Eq) and is_name(r, "bool") and isinstance(l, ast.Call) and is_name(l.func, "type") \
                    and len(l.args) == 1 and not l.keywords:
                t, ty = self.expr(l.args[0], env)
                if ty != PV:
                    fail(e, "type() of a value of type %s" % (ty,))
                return "(is_bool %s)" % t, BOOL
            fail(e, "comparison")
        fail(e, "expression")

    def call(self, e, env):
        f = e.func
        if e.keywords:
            fail(e, "keyword arguments")
        if is_name(f, "len") and len(e.args) == 1:
            t, ty = self.expr(e.args[0], env)
            if not is_list(ty):
                fail(e, "len of a non-list")
            return "(Z.of_nat (List.length %s))" % t, INT
        if is_name(f, "list") and len(e.args) == 1:
            t, ty = self.expr(e.args[0], env)
            if not is_list(ty):
                fail(e, "list() of a non-list")
            return t, ty
        if is_name(f, "map") and len(e.args) == 2:
            fn, arg = e.args
            t, ty = self.expr(arg, env)
            if not is_list(ty) or ty == L("?"):
                fail(e, "map over a value of type %s" % (ty,))
            if is_name(fn, "str"):
                if ty != L(PV):
                    fail(e, "map(str, ...) over %s" % (ty,))
                return "(map str_pv %s)" % t, L(STR)
            if isinstance(fn, ast.Lambda):
                a = fn.args
                if len(a.args) != 1 or a.defaults or a.vararg or a.kwarg or a.kwonlyargs or a.posonlyargs:
                    fail(e, "lambda signature")
                x = a.args[0].arg
                if x in env or x in self.consts:
                    fail(e, "lambda parameter shadows %s" % x)
                env2 = dict(env)
                env2[x] = (self.v(x), ty[1])
                b, tb = self.expr(fn.body, env2)
                if tb not in (STR, PV, INT) and not is_list(tb):
                    fail(e, "lambda body of type %s" % (tb,))
                return "(map (fun %s => %s) %s)" % (self.v(x), b, t), L(tb)
            fail(e, "map with this function")
        if isinstance(f, ast.Attribute) and f.attr == "join" and isinstance(f.value, ast.Constant) and type(f.value.value) is str \
                and len(e.args) == 1:
            t, ty = self.expr(e.args[0], env)
            if ty != L(STR):
                fail(e, "join over a value of type %s" % (ty,))
            return "(String.concat %s %s)" % (coq_str(f.value.value), t), STR
        fail(e, "call")

    def fmt(self, e, env):
        if not (isinstance(e.left, ast.Constant) and type(e.left.value) is str and isinstance(e.right, ast.Tuple)):
            fail(e, "% formatting shape")
        pieces = e.left.value.split("%s")
        if any("%" in p for p in pieces) or len(pieces) != len(e.right.elts) + 1:
            fail(e, "format string")
        out = []
        for k, p in enumerate(pieces):
            if p:
                out.append(coq_str(p))
            if k < len(e.right.elts):
                t, ty = self.expr(e.right.elts[k], env)
                if ty != STR:       # %s of a str is the str itself
                    fail(e, "%%s of a value of type %s" % (ty,))
                out.append(t)
        return "(" + " ++ ".join(out) + ")%string", STR

    # ------------------------------------------------------------ statements
    def taken(self, st):
        """an `if` decided by the options -> statements of the arm taken, else None"""
        try:
            c = static(st.test, self.consts)
        except Undecided:
            return None
        self.skip(st.orelse if c else st.body)
        return list(st.body if c else st.orelse)

    def block(self, stmts, env, ret):
        """straight-line code of a method; `ret(term_or_pair)` builds the result"""
        if not stmts:
            fail("end", "method falls off the end")
        st, rest = stmts[0], stmts[1:]
        if is_doc(st):
            return self.block(rest, env, ret)
        if isinstance(st, ast.If):
            arm = self.taken(st)
            if arm is None:
                fail(st, "`if` outside a loop whose test is not decided by the options")
            return self.block(arm + rest, env, ret)
        if isinstance(st, ast.Return):
            if rest or st.value is None:
                fail(st, "return")
            return ret(st.value, env)
        if isinstance(st, ast.For):
            if st.orelse or not is_name(st.target) or not is_self_attr(st.iter, "clauses"):
                fail(st, "for shape (only `for c in self.clauses`)")
            c = st.target.id
            if c in env or c in self.consts:
                fail(st, "loop variable shadows %s" % c)
            state = []
            for n in ast.walk(st):
                if isinstance(n, ast.Call) and isinstance(n.func, ast.Attribute) and n.func.attr == "append":
                    if not is_name(n.func.value):
                        fail(n, "append target")
                    if n.func.value.id not in state:
                        state.append(n.func.value.id)
                if isinstance(n, (ast.Break, ast.Continue, ast.Return, ast.Yield, ast.While, ast.Try)):
                    fail(n, "control flow inside the loop")
            if len(state) != 1 or state[0] not in env or not is_list(env[state[0]][1]):
                fail(st, "loop state is not one appended list")
            acc = state[0]
            env2 = dict(env)
            env2[c] = (self.v(c), CLAUSE)
            elty = [None]
            body = self.loop_block(list(st.body), env2, acc, elty)
            env3 = dict(env)
            env3[acc] = (self.v(acc), L(elty[0]))
            return "let %s := fold_left (fun %s %s =>\n      %s)\n    (clauses f) %s in\n  %s" % (
                self.v(acc), self.v(acc), self.v(c), body, self.v(acc), self.block(rest, env3, ret))
        if isinstance(st, ast.AugAssign) and is_name(st.target) and isinstance(st.op, ast.Add):
            x = st.target.id
            if x not in env or env[x][1] != STR:
                fail(st, "augmented assignment to a non-string")
            t, ty = self.expr(st.value, env)
            if ty != STR:
                fail(st, "augmented assignment of a non-string")
            return "let %s := (%s ++ %s)%%string in\n  %s" % (self.v(x), self.v(x), t, self.block(rest, env, ret))
        if isinstance(st, ast.Assign) and len(st.targets) == 1:
            tg, val = st.targets[0], st.value
            if is_name(tg) and (tg.id in self.consts):
                fail(st, "assignment to an option")
            if is_name(tg) and isinstance(val, ast.Lambda):
                env2 = dict(env)
                env2[tg.id] = ("tt", "lambda")
                return self.block(rest, env2, ret)
            if is_name(tg) and isinstance(val, ast.Constant) and val.value is None:
                env2 = dict(env)
                env2[tg.id] = ("tt", "none")
                return self.block(rest, env2, ret)
            if isinstance(tg, ast.Tuple) and len(tg.elts) == 2 and all(is_name(x) for x in tg.elts) and isinstance(val, ast.Call) \
                    and is_self_attr(val.func, "_contents"):
                if val.args or self.contents_call is not None:
                    fail(st, "call of _contents")
                opts = {}
                for kw in val.keywords:
                    if kw.arg is None or not is_name(kw.value) or kw.value.id not in self.consts or kw.arg in opts:
                        fail(st, "argument of _contents is not an option passed through")
                    opts[kw.arg] = self.consts[kw.value.id]
                self.contents_call = opts
                env2 = dict(env)
                env2[tg.elts[0].id] = (self.v(tg.elts[0].id), L(PV))
                env2[tg.elts[1].id] = (self.v(tg.elts[1].id), L(L(PV)))
                return "let '(%s, %s) := contents_gen f in\n  %s" % (self.v(tg.elts[0].id), self.v(tg.elts[1].id),
                                                                     self.block(rest, env2, ret))
            if is_name(tg):
                t, ty = self.expr(val, env)
                env2 = dict(env)
                env2[tg.id] = (self.v(tg.id), ty)
                if ty == OPAQUE:
                    return self.block(rest, env2, ret)
                return "let %s := %s in\n  %s" % (self.v(tg.id), t, self.block(rest, env2, ret))
        fail(st, "statement")

    def loop_block(self, stmts, env, acc, elty):
        if not stmts:
            return self.v(acc)
        st, rest = stmts[0], stmts[1:]
        if isinstance(st, ast.If):
            arm = self.taken(st)
            if arm is not None:
                return self.loop_block(arm + rest, env, acc, elty)
            t, ty = self.expr(st.test, env)
            return "if %s\n      then %s\n      else %s" % (self.as_bool(st.test, t, ty),
                                                         self.loop_block(list(st.body) + rest, env, acc, elty),
                                                         self.loop_block(list(st.orelse) + rest, env, acc, elty))
        if isinstance(st, ast.Expr) and isinstance(st.value, ast.Call) and isinstance(st.value.func, ast.Attribute) \
                and st.value.func.attr == "append" and is_name(st.value.func.value, acc) and len(st.value.args) == 1 \
                and not st.value.keywords:
            t, ty = self.expr(st.value.args[0], env)
            if ty == L("?"):
                ty = L(PV)
            if ty != L(PV) or elty[0] not in (None, ty):
                fail(st, "append of a value of type %s" % (ty,))
            elty[0] = ty
            return "let %s := %s ++ [%s] in\n      %s" % (self.v(acc), self.v(acc), t, self.loop_block(rest, env, acc, elty))
        if isinstance(st, ast.Assign) and len(st.targets) == 1:
            tg, val = st.targets[0], st.value
            names = [tg] if is_name(tg) else list(tg.elts) if isinstance(tg, ast.Tuple) else None
            vals = [val] if is_name(tg) else list(val.elts) if isinstance(val, ast.Tuple) else None
            if names is None or vals is None or len(names) != len(vals) or not all(is_name(x) for x in names):
                fail(st, "assignment in the loop")
            env2 = dict(env)
            lets = []
            for x, e in zip(names, vals):      # the right-hand sides are evaluated in the OLD environment
                if x.id == acc or x.id in self.consts:
                    fail(st, "assignment to %s in the loop" % x.id)
                t, ty = self.expr(e, env)
                env2[x.id] = (self.v(x.id), ty)
                lets.append((self.v(x.id), t))
            if len({a for a, _ in lets}) != len(lets) or any(self.v(n.id) in t for n in names for _, t in lets if n.id in env):
                fail(st, "parallel assignment that reads its own targets")
            return "".join("let %s := %s in\n      " % a for a in lets) + self.loop_block(rest, env2, acc, elty)
        fail(st, "statement in the loop")


def check_getter(cls, name, src_name):
    for st in cls.body:
        if isinstance(st, ast.FunctionDef) and st.name == name:
            body = [x for x in st.body if not is_doc(x)]
            ok = (len(st.decorator_list) == 1 and is_name(st.decorator_list[0], "property") and len(body) == 1
                  and isinstance(body[0], ast.Return) and is_self_attr(body[0].value, "_" + name))
            if not ok:
                fail(st, "%s.%s is not a plain getter of self._%s" % (src_name, name, name))
            return st
    raise TranslationError("property %s not found in class %s" % (name, src_name))


def find_class(tree, name):
    for st in tree.body:
        if isinstance(st, ast.ClassDef) and st.name == name:
            return st
    raise TranslationError("class %s not found" % name)


def method(cls, name):
    fns = [st for st in cls.body if isinstance(st, ast.FunctionDef) and st.name == name]
    if len(fns) != 1:
        raise TranslationError("%s.%s: %d definitions" % (cls.name, name, len(fns)))
    return fns[0]


def options_of(fn, want):
    a = fn.args
    names = [x.arg for x in a.args]
    if names[:1] != ["self"] or a.vararg or a.kwarg or a.kwonlyargs or a.posonlyargs or len(a.defaults) != len(names) - 1 \
            or fn.decorator_list:
        fail(fn, "signature")
    got = {}
    for n, d in zip(names[1:], a.defaults):
        if not isinstance(d, ast.Constant):
            fail(fn, "default of %s" % n)
        got[n] = d.value
    for k, v_ in got.items():
        if k not in want or want[k] is not v_:
            fail(fn, "option %s=%r is not the default the model assumes" % (k, v_))
    return got


def coq_comment(text):
    return text.replace("(*", "( *").replace("*)", "* )").replace('"', "'")


def span(src_lines, a, b):
    return "\n".join("   %4d| %s" % (i, src_lines[i - 1]) for i in range(a, b + 1))


def formatting_shape(live, env_names):
    """the two formatting statements of to_dimacs (after specialisation) against the template;
    returns (format string, token separator, line separator, clause suffix)"""
    try:
        a, b = live
        fmt = a.value.left.value
        sep1 = a.value.right.elts[1].func.value.value
        sep2 = b.value.func.value.value
        lam = b.value.args[0].args[0]
        sep3 = lam.body.left.func.value.value
        suf = lam.body.right.value
        hdr, cont = a.value.right.elts[1].args[0].args[1].id, b.value.args[0].args[1].id
        tname = a.value.right.elts[0].id
        res, cl = a.targets[0].id, lam.args.args[0].arg
    except (AttributeError, IndexError, ValueError, TypeError):
        fail(live[0] if live else "end", "formatting statements of to_dimacs do not have the expected shape")
    if not all(type(x) is str for x in (fmt, sep1, sep2, sep3, suf)):
        fail(live[0], "formatting literals")
    want = ("%s = %r %% (%s, %r.join(map(str, %s)))\n%s += %r.join(map(lambda %s: %r.join(map(str, %s)) + %r, %s))\n"
            % (res, fmt, tname, sep1, hdr, res, sep2, cl, sep3, cl, suf, cont))
    wt = ast.parse(want).body
    if [ast.dump(x) for x in wt] != [ast.dump(x) for x in live]:
        fail(live[0], "formatting statements of to_dimacs differ from the template\n%s" % want)
    if (hdr, cont) != env_names:
        fail(live[0], "formatting does not print (header, content) of _contents in this order")
    if sep1 != " " or sep3 != " " or sep2 != "\n":
        fail(live[0], "separators are not ' ' / '\\n'")
    if not fmt.endswith("\n") or "\n" in fmt[:-1]:
        fail(live[0], "header format must be one line terminated by a newline")
    pieces = fmt[:-1].split(" ")
    if pieces.count("%s") != 2 or any(("%" in p and p != "%s") or p == "" for p in pieces) or pieces[-1] != "%s":
        fail(live[0], "header format is not literal tokens and two %s separated by single spaces, ending in %s")
    if not suf.startswith(" ") or suf[1:] == "" or " " in suf[1:] or "\n" in suf[1:]:
        fail(live[0], "clause suffix is not ' <token>'")
    return pieces, suf[1:], tname


HEADER = """(* GENERATED by gen/c25_dimacs.py - do not edit.
   %(path)s (sha1 %(sha)s): CNF.to_dimacs lines %(a1)d-%(b1)d, CNF._contents lines %(a2)d-%(b2)d,
   specialised to the default options %(opts)s.
   Arms not taken under these options (NOT read by the translator): lines %(dead)s.
   Getters checked: CNF.clauses (line %(g1)d), CNF.clausecount (line %(g2)d), BaseFormula.atomcount (%(path2)s line %(g3)d).
   A value in a clause list (int, None, bool) is a ModelDimacs.head; a stored clause c is (c[0], c[1:]). *)
From Coq Require Import ZArith List Bool String Ascii.
From PL.C25 Require Import ModelDimacs DimacsPrelude.
Import ListNotations.
Open Scope Z_scope.

"""


def translate(repo):
    path = os.path.join("problog", "cnf_formula.py")
    path2 = os.path.join("problog", "formula.py")
    with open(os.path.join(repo, path)) as f:
        src = f.read()
    with open(os.path.join(repo, path2)) as f:
        src2 = f.read()
    tree, tree2 = ast.parse(src), ast.parse(src2)
    lines = src.split("\n")
    cnf = find_class(tree, "CNF")
    if [ast.dump(b) for b in cnf.bases] != [ast.dump(ast.Name(id="BaseFormula", ctx=ast.Load()))]:
        fail(cnf, "bases of CNF")
    g1 = check_getter(cnf, "clauses", "CNF")
    g2 = check_getter(cnf, "clausecount", "CNF")
    g3 = check_getter(find_class(tree2, "BaseFormula"), "atomcount", "BaseFormula")
    if any(isinstance(st, ast.FunctionDef) and st.name == "atomcount" for st in cnf.body):
        fail(cnf, "CNF overrides atomcount")
    td, ct = method(cnf, "to_dimacs"), method(cnf, "_contents")
    opts_td = options_of(td, DEFAULTS)
    opts_ct = options_of(ct, DEFAULTS)

    # ---- to_dimacs (string level)
    tr = Tr(dict(opts_td), lines)

    def ret_str(e, env):
        t, ty = tr.expr(e, env)
        if ty != STR:
            fail(e, "to_dimacs returns a value of type %s" % (ty,))
        return t
    body_td = tr.block(list(td.body), {}, ret_str)
    if tr.contents_call is None:
        fail(td, "to_dimacs does not call _contents")
    consts_ct = dict(opts_ct)
    for k, v_ in tr.contents_call.items():
        if k not in consts_ct:
            fail(td, "_contents has no option %s" % k)
        consts_ct[k] = v_
    if any(consts_ct[k] is not DEFAULTS[k] for k in consts_ct):
        fail(td, "_contents is not called with the default options")
    dead = list(tr.dead)

    # ---- the live statements of to_dimacs, for the token reading
    def live_of(stmts, consts):
        out = []
        for st in stmts:
            if is_doc(st):
                continue
            if isinstance(st, ast.If):
                out += live_of(st.body if static(st.test, consts) else st.orelse, consts)
            else:
                out.append(st)
        return out
    live = live_of(td.body, opts_td)
    if len(live) != 5 or not isinstance(live[4], ast.Return) or not isinstance(live[0], ast.Assign) \
            or not isinstance(live[0].value, ast.Constant) or type(live[0].value.value) is not str or not is_name(live[0].targets[0]):
        fail(td, "live statements of to_dimacs: expected `t = <literal>; header, content = self._contents(..); result = ..; result += ..; return result`")
    hc = live[1].targets[0]
    pieces, suffix_tok, tname = formatting_shape(live[2:4], (hc.elts[0].id, hc.elts[1].id))
    if tname != live[0].targets[0].id or not is_name(live[4].value, live[2].targets[0].id):
        fail(td, "names in the formatting statements")
    toks, holes = [], ["[v_%s]" % tname, "map str_pv v_%s" % hc.elts[0].id]
    for p in pieces:
        toks.append(holes.pop(0) if p == "%s" else "[%s]" % coq_str(p))
    body_lines = ("let v_%s := %s in\n  let '(v_%s, v_%s) := contents_gen f in\n  (%s)%%list\n  :: map (fun v_cl => (map str_pv v_cl ++ [%s])%%list) v_%s"
                  % (tname, coq_str(live[0].value.value), hc.elts[0].id, hc.elts[1].id, " ++ ".join(toks), coq_str(suffix_tok), hc.elts[1].id))

    # ---- _contents
    tr2 = Tr(consts_ct, lines)

    def ret_pair(e, env):
        if not (isinstance(e, ast.Tuple) and len(e.elts) == 2):
            fail(e, "_contents does not return a pair")
        (a, ta), (b, tb) = tr2.expr(e.elts[0], env), tr2.expr(e.elts[1], env)
        if ta != L(PV) or tb != L(L(PV)):
            fail(e, "_contents returns (%s, %s)" % (ta, tb))
        return "(%s, %s)" % (a, b)
    body_ct = tr2.block(list(ct.body), {}, ret_pair)
    dead += tr2.dead

    out = [HEADER % {"path": path, "sha": hashlib.sha1(src.encode()).hexdigest()[:12], "a1": td.lineno, "b1": td.end_lineno,
                     "a2": ct.lineno, "b2": ct.end_lineno, "opts": ", ".join("%s=%r" % kv for kv in sorted(DEFAULTS.items())),
                     "dead": ", ".join("%d-%d" % d for d in sorted(dead)), "g1": g1.lineno, "g2": g2.lineno, "g3": g3.lineno,
                     "path2": path2}]
    out.append("(* source consumed:\n%s\n*)" % coq_comment(span(lines, ct.lineno, ct.end_lineno)))
    out.append("Definition contents_gen (f : cnf) : list head * list (list head) :=\n  %s.\n" % body_ct)
    out.append("(* source consumed:\n%s\n*)" % coq_comment(span(lines, td.lineno, td.end_lineno)))
    out.append("Definition to_dimacs_str_gen (f : cnf) : string :=\n  %s.\n" % body_td)
    out.append("(* token reading of the formatting statements (lines %d-%d, shape checked against the template):\n"
               "   one list of tokens per line; DimacsPrelude.render gives the text back (proved in ProofsGen.v) *)"
               % (live[2].lineno, live[3].end_lineno))
    out.append("Definition to_dimacs_lines_gen (f : cnf) : list (list string) :=\n  %s.\n" % body_lines)
    return "\n".join(out)


def stub(reason):
    return "(* gen/c25_dimacs.py FAILED CLOSED: %s *)\n" % coq_comment(reason)


if __name__ == "__main__":
    import sys
    print(translate(sys.argv[1] if len(sys.argv) > 1 else os.environ.get("VERIF_REPO", "/repo")))
