"""C14 translator: problog/engine_unify.py  ->  coq/theories/C14/GenUnify.v

Fail-closed Python-ast -> Gallina translation of
    unify_value, _unify_call_head_single, unify_call_head
into a state + exception + recursion-depth monad written out as explicit `match`es
(`Ret value state | Raise exn | OutOfFuel`, see coq/theories/C14/ModelImplUnify.v, which also
gives the meaning of the Python primitives: is_variable, `is None`, ==, max, dict.get / dict[k] = v,
`x in t.variables()`, `.signature`, `.args`, `.with_args`, list indexing of the clause context, substitute_all).

Control flow is translated literally: a block is translated together with the continuation "what runs when the
block falls through"; an `if` whose branches only assign becomes `let x := if c then .. else x`.
Mutable arguments (the dict `source_values`, the list `target_context`) are threaded as state and rebound under the
same name.  Every AST shape that is not listed here raises TranslateError (the check then reports a broken obligation).
"""
import ast
import os


class TranslateError(Exception):
    pass


def fail(node, msg):
    line = getattr(node, "lineno", "?")
    raise TranslateError("engine_unify.py:%s: %s: %s" % (line, msg, ast.dump(node)[:300] if isinstance(node, ast.AST) else node))


# translated functions: python name -> (coq name, parameters in order, state variables (threaded), result type)
FUNCS = {
    "unify_value": ("unify_value", ["value1", "value2", "source_values"], ["source_values"], "pval"),
    "_unify_call_head_single": ("unify_call_head_single", ["source_value", "target_value", "target_context", "source_values"],
                                ["target_context", "source_values"], "unit"),
    "unify_call_head": ("unify_call_head", ["call_args", "head_args", "target_context"],
                        ["target_context", "source_values"], "list pval"),
}
ORDER = ["unify_value", "_unify_call_head_single", "unify_call_head"]
# kinds of the names that may occur:  V python value (pval), D dict, L list of values (clause context / argument list)
PARAM_KIND = {"value1": "V", "value2": "V", "source_values": "D", "source_value": "V", "target_value": "V",
              "target_context": "L", "call_args": "L", "head_args": "L"}
STATE_TYPE = {"D": "store", "L": "list pval"}
KIND_TYPE = {"V": "pval", "D": "store", "L": "list pval"}
EXN = {"UnifyError": "UnifyError", "OccursCheck": "OccursCheck"}
RESERVED = {"fuel", "st", "r_", "e_", "args_of", "zip", "store", "pval", "fun", "match", "with", "end", "let", "in", "if",
            "then", "else", "Ret", "Raise", "OutOfFuel", "tt", "unit", "list", "nil", "cons", "result_"}


def pn(name):
    if not name.isidentifier() or not name.isascii() or name.startswith("_"):
        raise TranslateError("identifier %r" % name)
    if name in RESERVED or name in FUNCS or name in ("E", "sigma", "tau", "solved", "bind", "is_variable", "is_none",
                                                     "py_max", "py_min", "sv_get", "sv_set", "ctx_get", "ctx_set", "with_args"):
        return name + "_"
    return name


class FunTr:
    def __init__(self, pyname, node):
        self.pyname = pyname
        self.coqname, self.params, self.state, self.rty = FUNCS[pyname]
        self.node = node
        got = [a.arg for a in node.args.args]
        if got != self.params or node.args.vararg or node.args.kwarg or node.args.kwonlyargs or node.args.defaults:
            fail(node, "unexpected signature %r (expected %r)" % (got, self.params))
        if node.decorator_list:
            fail(node, "decorators")

    # ---------------------------------------------------------------- state
    def st_pat(self):
        return pn(self.state[0]) if len(self.state) == 1 else "(%s)" % ", ".join(pn(s) for s in self.state)

    def st_type(self):
        return " * ".join(STATE_TYPE[PARAM_KIND[s]] for s in self.state)

    def ret(self, value):
        return "Ret %s %s" % (value, self.st_pat())

    # ---------------------------------------------------------------- expressions (pure)
    def expr(self, e, env):
        """-> (coq text, kind) with kind in V, B, D, L, SIG"""
        if isinstance(e, ast.Name):
            if e.id not in env:
                fail(e, "unknown name")
            return pn(e.id), env[e.id]
        if isinstance(e, ast.Constant) and e.value is None:
            return "PNone", "V"
        if isinstance(e, ast.Attribute) and isinstance(e.ctx, ast.Load):
            base, k = self.expr(e.value, env)
            if k != "V":
                fail(e, "attribute of a non-value")
            if e.attr == "signature":
                return base, "SIG"
            if e.attr == "args":
                return "(args_of %s)" % base, "L"
            fail(e, "attribute")
        if isinstance(e, ast.Subscript) and isinstance(e.ctx, ast.Load):
            base, k = self.expr(e.value, env)
            idx, ki = self.expr(e.slice, env)
            if k == "L" and ki == "V" and isinstance(e.value, ast.Name):
                return "(ctx_get %s %s)" % (base, idx), "V"
            fail(e, "subscript (only <list>[<variable>] is known; dict[k] may raise KeyError)")
        if isinstance(e, ast.UnaryOp) and isinstance(e.op, ast.Not):
            a, k = self.expr(e.operand, env)
            if k != "B":
                fail(e, "not on a non-boolean")
            return "(negb %s)" % a, "B"
        if isinstance(e, ast.BoolOp):
            parts = []
            for v in e.values:
                a, k = self.expr(v, env)
                if k != "B":
                    fail(e, "and/or on a non-boolean")
                parts.append(a)
            op = " && " if isinstance(e.op, ast.And) else " || "
            return "(%s)" % op.join(parts), "B"
        if isinstance(e, ast.Compare):
            if len(e.ops) != 1 or len(e.comparators) != 1:
                fail(e, "chained comparison")
            op, lhs, rhs = e.ops[0], e.left, e.comparators[0]
            if isinstance(op, (ast.Is, ast.IsNot)):
                if not (isinstance(rhs, ast.Constant) and rhs.value is None):
                    fail(e, "`is` only against None")
                a, k = self.expr(lhs, env)
                if k != "V":
                    fail(e, "`is None` on a non-value")
                return ("(is_none %s)" if isinstance(op, ast.Is) else "(negb (is_none %s))") % a, "B"
            if isinstance(op, ast.In):
                # x in t.variables()
                if not (isinstance(rhs, ast.Call) and isinstance(rhs.func, ast.Attribute) and rhs.func.attr == "variables"
                        and not rhs.args and not rhs.keywords):
                    fail(e, "`in` only against <term>.variables()")
                a, ka = self.expr(lhs, env)
                b, kb = self.expr(rhs.func.value, env)
                if ka != "V" or kb != "V":
                    fail(e, "`in` operands")
                return "(in_variables %s %s)" % (a, b), "B"
            if isinstance(op, (ast.Eq, ast.NotEq)):
                # type(x) == int
                if (isinstance(lhs, ast.Call) and isinstance(lhs.func, ast.Name) and lhs.func.id == "type" and len(lhs.args) == 1
                        and not lhs.keywords and isinstance(rhs, ast.Name) and rhs.id == "int" and isinstance(op, ast.Eq)):
                    a, k = self.expr(lhs.args[0], env)
                    if k != "V":
                        fail(e, "type() of a non-value")
                    return "(is_int %s)" % a, "B"
                a, ka = self.expr(lhs, env)
                b, kb = self.expr(rhs, env)
                if ka == "SIG" and kb == "SIG":
                    r = "(signature_eqb %s %s)" % (a, b)
                elif ka == "V" and kb == "V":
                    r = "(pval_eqb %s %s)" % (a, b)
                else:
                    fail(e, "== between %s and %s" % (ka, kb))
                return (r if isinstance(op, ast.Eq) else "(negb %s)" % r), "B"
            if isinstance(op, (ast.GtE, ast.Lt)) and isinstance(rhs, ast.Constant) and rhs.value == 0 and type(rhs.value) == int:
                a, k = self.expr(lhs, env)
                if k != "V":
                    fail(e, "comparison of a non-value with 0")
                return ("(int_ge0 %s)" if isinstance(op, ast.GtE) else "(int_lt0 %s)") % a, "B"
            fail(e, "comparison")
        if isinstance(e, ast.Call) and not e.keywords:
            f = e.func
            if isinstance(f, ast.Name) and f.id == "is_variable" and len(e.args) == 1:
                a, k = self.expr(e.args[0], env)
                if k != "V":
                    fail(e, "is_variable of a non-value")
                return "(is_variable %s)" % a, "B"
            if isinstance(f, ast.Name) and f.id in ("max", "min") and len(e.args) == 2:
                a, ka = self.expr(e.args[0], env)
                b, kb = self.expr(e.args[1], env)
                if ka != "V" or kb != "V":
                    fail(e, "max/min of non-values")
                return "(py_%s %s %s)" % (f.id, a, b), "V"
            if isinstance(f, ast.Name) and f.id == "substitute_all" and len(e.args) == 2:
                a, ka = self.expr(e.args[0], env)
                b, kb = self.expr(e.args[1], env)
                if ka != "L" or kb != "D":
                    fail(e, "substitute_all arguments")
                return "(substitute_all %s %s)" % (a, b), "L"
            if isinstance(f, ast.Attribute) and f.attr == "get" and len(e.args) == 1:
                d, kd = self.expr(f.value, env)
                a, ka = self.expr(e.args[0], env)
                if kd != "D" or ka != "V":
                    fail(e, ".get on a non-dict")
                return "(sv_get %s %s)" % (d, a), "V"
        fail(e, "expression")

    def is_tcall(self, e):
        return isinstance(e, ast.Call) and isinstance(e.func, ast.Name) and e.func.id in FUNCS

    def tcall(self, e, env):
        """call of a translated function -> (coq call text, pattern for the returned state)"""
        if e.keywords:
            fail(e, "keyword arguments")
        cname, params, state, _ = FUNCS[e.func.id]
        if ORDER.index(e.func.id) > ORDER.index(self.pyname):
            fail(e, "call of a function defined later")
        if len(e.args) != len(params):
            fail(e, "arity")
        args = []
        for a, p in zip(e.args, params):
            t, k = self.expr(a, env)
            if k != PARAM_KIND[p]:
                fail(a, "argument kind %s for parameter %s" % (k, p))
            if p in state:
                # a mutable argument must be one of OUR state variables, passed under its own name
                if not (isinstance(a, ast.Name) and a.id == p and p in self.state):
                    fail(a, "mutable argument must be the state variable of the same name")
            args.append(t)
        pat = pn(state[0]) if len(state) == 1 else "(%s)" % ", ".join(pn(s) for s in state)
        return "%s fuel %s" % (cname, " ".join(args)), pat

    def bind(self, call, pat, var, body):
        return ("match %s with\n| Ret %s %s =>\n%s\n| Raise e_ => Raise e_\n| OutOfFuel => OutOfFuel\nend"
                % (call, var, pat, body))

    # ---------------------------------------------------------------- statements
    def terminates(self, stmts):
        if not stmts:
            return False
        s = stmts[-1]
        if isinstance(s, (ast.Return, ast.Raise)):
            return True
        if isinstance(s, ast.If):
            return bool(s.orelse) and self.terminates(s.body) and self.terminates(s.orelse)
        return False

    def pure_assign_block(self, stmts, env):
        """stmts consisting only of `x = <pure>` / `<state>[k] = <pure>` / pass -> list of (name, coq expr) or None"""
        out = []
        env = dict(env)
        for s in stmts:
            if isinstance(s, ast.Pass):
                continue
            if not (isinstance(s, ast.Assign) and len(s.targets) == 1):
                return None
            t = s.targets[0]
            if self.is_tcall(s.value) or isinstance(s.value, (ast.ListComp, ast.Dict)):
                return None
            try:
                if isinstance(t, ast.Name):
                    v, k = self.expr(s.value, env)
                    if k != "V" or (t.id in env and env[t.id] != "V"):
                        return None
                    env[t.id] = "V"
                    out.append((t.id, "let %s := %s in" % (pn(t.id), v)))
                elif isinstance(t, ast.Subscript) and isinstance(t.value, ast.Name) and t.value.id in self.state:
                    out.append((t.value.id, self.state_set(t, s.value, env)))
                else:
                    return None
            except TranslateError:
                raise
        return out

    def state_set(self, target, value, env):
        name = target.value.id
        kind = env.get(name)
        idx, ki = self.expr(target.slice, env)
        v, kv = self.expr(value, env)
        if ki != "V" or kv != "V":
            fail(target, "store of a non-value")
        if kind == "D":
            return "let %s := sv_set %s %s %s in" % (pn(name), pn(name), idx, v)
        if kind == "L":
            return "let %s := ctx_set %s %s %s in" % (pn(name), pn(name), idx, v)
        fail(target, "assignment into a non-state object")

    def block(self, stmts, env, k):
        """code of stmts followed by k(env) when they fall through (k None: falling through is an error)"""
        if not stmts:
            if k is None:
                fail(self.node, "control reaches the end of a value-returning function")
            return k(env)
        s, rest = stmts[0], stmts[1:]

        def kk(env2):
            return self.block(rest, env2, k)
        if isinstance(s, ast.Pass) or (isinstance(s, ast.Expr) and isinstance(s.value, ast.Constant) and isinstance(s.value.value, str)):
            return kk(env)
        if isinstance(s, ast.Return):
            if rest:
                fail(s, "dead code after return")
            return self.do_return(s, env)
        if isinstance(s, ast.Raise):
            if rest:
                fail(s, "dead code after raise")
            x = s.exc
            if (s.cause is None and isinstance(x, ast.Call) and isinstance(x.func, ast.Name) and x.func.id in EXN
                    and not x.args and not x.keywords):
                return "Raise %s" % EXN[x.func.id]
            fail(s, "raise")
        if isinstance(s, ast.Assert):
            if s.msg is not None:
                fail(s, "assert message")
            c, kc = self.expr(s.test, env)
            if kc != "B":
                fail(s, "assert of a non-boolean")
            return "if %s then\n%s\nelse Raise AssertionError" % (c, kk(env))
        if isinstance(s, ast.Assign):
            if len(s.targets) != 1:
                fail(s, "multiple targets")
            t = s.targets[0]
            if isinstance(t, ast.Tuple):
                # a, b = e1, e2   (all right-hand sides are evaluated first)
                v = s.value
                if not (isinstance(v, ast.Tuple) and len(v.elts) == len(t.elts) and all(isinstance(x, ast.Name) for x in t.elts)):
                    fail(s, "tuple assignment")
                names = [x.id for x in t.elts]
                if len(set(names)) != len(names):
                    fail(s, "tuple assignment repeats a name")
                vals = []
                for x in v.elts:
                    if self.is_tcall(x):
                        fail(s, "call inside a tuple assignment")
                    tx, kx = self.expr(x, env)
                    if kx != "V":
                        fail(s, "tuple assignment of a non-value")
                    vals.append(tx)
                env2 = dict(env)
                for n in names:
                    if n in PARAM_KIND and PARAM_KIND[n] != "V":
                        fail(s, "assignment to a non-value name")
                    if n in env and env[n] != "V":
                        fail(s, "name changes kind")
                    env2[n] = "V"
                return "let '(%s) := (%s) in\n%s" % (", ".join(pn(n) for n in names), ", ".join(vals), kk(env2))
            if isinstance(t, ast.Name):
                if isinstance(s.value, ast.Dict) and not s.value.keys:
                    if t.id not in self.state or PARAM_KIND.get(t.id) != "D" or t.id in env:
                        fail(s, "fresh dict must initialise a declared state variable")
                    env2 = dict(env)
                    env2[t.id] = "D"
                    return "let %s := ([] : store) in\n%s" % (pn(t.id), kk(env2))
                if t.id in PARAM_KIND and PARAM_KIND[t.id] != "V":
                    fail(s, "assignment to a non-value name")
                if self.is_tcall(s.value):
                    if FUNCS[s.value.func.id][3] != "pval":
                        fail(s, "result of a procedure used")
                    call, pat = self.tcall(s.value, env)
                    env2 = dict(env)
                    env2[t.id] = "V"
                    return self.bind(call, pat, pn(t.id), kk(env2))
                v, kv = self.expr(s.value, env)
                if kv not in ("V", "L"):
                    fail(s, "assignment of kind " + kv)
                if t.id in env and env[t.id] != kv:
                    fail(s, "name changes kind")
                env2 = dict(env)
                env2[t.id] = kv
                return "let %s := %s in\n%s" % (pn(t.id), v, kk(env2))
            if isinstance(t, ast.Subscript) and isinstance(t.value, ast.Name) and t.value.id in self.state and t.value.id in env:
                if self.is_tcall(s.value):
                    # Python evaluates the right-hand side first, then the subscript target
                    if FUNCS[s.value.func.id][3] != "pval":
                        fail(s, "result of a procedure used")
                    call, pat = self.tcall(s.value, env)
                    env2 = dict(env)
                    if "rtmp" in env:
                        fail(s, "name rtmp is taken")
                    env2["rtmp"] = "V"
                    fake = ast.Name(id="rtmp", ctx=ast.Load())
                    ast.copy_location(fake, s)
                    setter = self.state_set(t, fake, env2)
                    return self.bind(call, pat, "rtmp", "%s\n%s" % (setter, kk(env)))
                return "%s\n%s" % (self.state_set(t, s.value, env), kk(env))
            fail(s, "assignment target")
        if isinstance(s, ast.Expr) and self.is_tcall(s.value):
            call, pat = self.tcall(s.value, env)
            return self.bind(call, pat, "_", kk(env))
        if isinstance(s, ast.For):
            return self.do_for(s, env, kk)
        if isinstance(s, ast.If):
            c, kc = self.expr(s.test, env)
            if kc != "B":
                fail(s, "condition is not a boolean")
            tb, te = self.terminates(s.body), (bool(s.orelse) and self.terminates(s.orelse))
            if not tb and not te:
                pb = self.pure_assign_block(s.body, env)
                pe = self.pure_assign_block(s.orelse, env)
                if pb is not None and pe is not None:
                    names = []
                    for n, _ in pb + pe:
                        if n not in names:
                            names.append(n)
                    for n in names:
                        if n not in env:
                            fail(s, "variable %s assigned in one branch only and not defined before" % n)
                    tup = pn(names[0]) if len(names) == 1 else "(%s)" % ", ".join(pn(n) for n in names)
                    pat = pn(names[0]) if len(names) == 1 else "'%s" % tup

                    def br(p):
                        return " ".join(x for _, x in p) + " " + tup if p else tup
                    return "let %s := if %s then %s else %s in\n%s" % (pat, c, br(pb), br(pe), kk(env))
            if rest and not tb and not te and k is not None:
                pass
            a = self.block(s.body, env, None if tb else self.guard_k(kk, s))
            b = self.block(s.orelse, env, None if te else self.guard_k(kk, s))
            return "if %s then\n%s\nelse\n%s" % (c, a, b)
        fail(s, "statement")

    def guard_k(self, kk, node):
        def g(env2):
            return kk(env2)
        return g

    def do_return(self, s, env):
        v = s.value
        if v is None:
            if self.rty != "unit":
                fail(s, "bare return in a value-returning function")
            return self.ret("tt")
        if self.rty == "unit":
            fail(s, "value returned from a procedure")
        if self.is_tcall(v):
            call, pat = self.tcall(v, env)
            if FUNCS[v.func.id][3] != self.rty:
                fail(s, "result type")
            return self.bind(call, pat, "r_", self.ret("r_"))
        # value1.with_args(*[unify_value(a1, a2, source_values) for a1, a2 in zip(value1.args, value2.args)])
        if (isinstance(v, ast.Call) and isinstance(v.func, ast.Attribute) and v.func.attr == "with_args" and not v.keywords
                and len(v.args) == 1 and isinstance(v.args[0], ast.Starred) and isinstance(v.args[0].value, ast.ListComp)):
            base, kb = self.expr(v.func.value, env)
            if kb != "V" or self.rty != "pval":
                fail(s, "with_args on a non-value")
            lc = v.args[0].value
            fn, pairs, pat = self.pair_loop(lc.generators, lc.elt, env, want="pval", node=lc)
            return ("match mapM2 %s %s %s with\n| Ret r_ %s => %s\n| Raise e_ => Raise e_\n| OutOfFuel => OutOfFuel\nend"
                    % (fn, pairs, self.cur_state(pat), pat, self.ret("(with_args %s r_)" % base)))
        t, k = self.expr(v, env)
        want = {"pval": "V", "list pval": "L"}[self.rty]
        if k != want:
            fail(s, "returned kind %s" % k)
        return self.ret(t)

    def cur_state(self, pat):
        return pat

    def pair_loop(self, gens, call, env, want, node):
        """`for a, b in zip(X, Y)` around one call f(a, b, <state...>) -> (coq function of a b state, coq list of pairs, state pattern)"""
        if len(gens) != 1:
            fail(node, "nested comprehension")
        g = gens[0] if not isinstance(gens[0], tuple) else None
        if g is not None:
            if g.ifs or g.is_async:
                fail(node, "comprehension filter")
            target, it = g.target, g.iter
        else:
            target, it = gens[0]
        if not (isinstance(target, ast.Tuple) and len(target.elts) == 2 and all(isinstance(x, ast.Name) for x in target.elts)):
            fail(node, "loop target")
        a, b = target.elts[0].id, target.elts[1].id
        if a == b or a in env or b in env:
            fail(node, "loop variables shadow")
        if not (isinstance(it, ast.Call) and isinstance(it.func, ast.Name) and it.func.id == "zip" and len(it.args) == 2 and not it.keywords):
            fail(node, "loop iterable must be zip(x, y)")
        x, kx = self.expr(it.args[0], env)
        y, ky = self.expr(it.args[1], env)
        if kx != "L" or ky != "L":
            fail(node, "zip of non-lists")
        if not self.is_tcall(call):
            fail(node, "loop body must be one call of a translated function")
        cname, params, state, rty = FUNCS[call.func.id]
        if rty != want:
            fail(node, "loop body result type")
        env2 = dict(env)
        env2[a] = "V"
        env2[b] = "V"
        # the call must be f(a, b, <its state variables, in order>)
        if len(call.args) != len(params) or call.keywords:
            fail(call, "arity")
        if not (isinstance(call.args[0], ast.Name) and call.args[0].id == a and isinstance(call.args[1], ast.Name) and call.args[1].id == b):
            fail(call, "loop body must pass the two loop variables first")
        if params[2:] != state:
            fail(call, "callee parameters after the first two must be its state")
        # the loop's state is the callee's state; it must be (a prefix-free) equal to ours for threading
        if state != self.state and not (len(state) == 1 and state[0] in self.state):
            fail(call, "state mismatch")
        ctext, pat = self.tcall(call, env2)
        if len(state) == 1:
            fn = "(fun %s %s %s => %s)" % (pn(a), pn(b), pn(state[0]), ctext)
        else:
            fn = "(fun %s %s st => let '%s := st in %s)" % (pn(a), pn(b), pat, ctext)
        return fn, "(zip %s %s)" % (x, y), pat

    def do_for(self, s, env, kk):
        if s.orelse:
            fail(s, "for-else")
        if len(s.body) != 1 or not isinstance(s.body[0], ast.Expr):
            fail(s, "loop body")
        fn, pairs, pat = self.pair_loop([(s.target, s.iter)], s.body[0].value, env, want="unit", node=s)
        return ("match iterM2 %s %s %s with\n| Ret _ %s =>\n%s\n| Raise e_ => Raise e_\n| OutOfFuel => OutOfFuel\nend"
                % (fn, pairs, pat, pat, kk(env)))

    # ---------------------------------------------------------------- whole function
    def translate(self):
        env = {p: PARAM_KIND[p] for p in self.params}
        if self.rty == "unit":
            k = (lambda env2: self.ret("tt"))
        else:
            k = None
        body = self.block(self.node.body, env, k)
        params = " ".join("(%s : %s)" % (pn(p), KIND_TYPE[PARAM_KIND[p]]) for p in self.params)
        recursive = any(isinstance(n, ast.Call) and isinstance(n.func, ast.Name) and n.func.id == self.pyname
                        for n in ast.walk(self.node))
        head = ("Fixpoint %s (fuel : nat) %s {struct fuel}" if recursive else "Definition %s (fuel : nat) %s") % (self.coqname, params)
        return ("%s : res (%s) (%s) :=\nmatch fuel with\n| O => OutOfFuel\n| S fuel =>\n%s\nend."
                % (head, self.st_type(), self.rty, body))


def indent(code):
    """cosmetic: indent by nesting of match/if"""
    out = []
    depth = 0
    for line in code.split("\n"):
        l = line.strip()
        if l.startswith("end") or l.startswith("else"):
            depth = max(0, depth - 1)
        out.append("  " * depth + l)
        if l.startswith("match ") or l.endswith(" then") or l == "else" or l.startswith("else"):
            depth += 1
        if l.startswith("|") and l.endswith("=>"):
            pass
    return "\n".join(out)


def generate(repo):
    path = os.path.join(repo, "problog", "engine_unify.py")
    with open(path) as f:
        src = f.read()
    tree = ast.parse(src)
    defs = {}
    for n in tree.body:
        if isinstance(n, ast.FunctionDef):
            if n.name in defs:
                fail(n, "duplicate definition")
            defs[n.name] = n
    out = ["(* GENERATED by gen/c14_unify.py from problog/engine_unify.py -- do not edit. *)",
           "From Coq Require Import NArith ZArith List Bool.",
           "From PL.C14 Require Import ModelUnify ModelImplUnify.",
           "Import ListNotations.", ""]
    for name in ORDER:
        if name not in defs:
            raise TranslateError("engine_unify.py: function %s not found" % name)
        out.append(indent(FunTr(name, defs[name]).translate()))
        out.append("")
    return "\n".join(out)


if __name__ == "__main__":
    import sys
    print(generate(sys.argv[1] if len(sys.argv) > 1 else "/repo"))
