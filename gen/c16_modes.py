"""C16 translator (part 2): the call-mode tables of problog/engine_builtin.py -> Gallina.

Extracts, fail-closed, the `check_mode((args...), [modes], ...)` literal of each modelled
builtin and the `mode_types` table (character -> test function name), and writes
coq/theories/C16/GenModes.v.  The test functions themselves (_is_integer, _is_list, ...) are
hand-modelled in ModelBuiltins.v; their *names* are pinned here so that re-wiring a mode
character to another test breaks the build.
"""
import ast
import os


class TranslationError(Exception):
    pass


BUILTINS = {  # python function -> (coq name, arity)
    "_builtin_between": ("between", 3), "_builtin_succ": ("succ", 2), "_builtin_plus": ("plus", 3),
    "_builtin_length": ("length", 2), "_builtin_functor": ("functor", 3), "_builtin_arg": ("arg", 3),
    "_builtin_split_call": ("univ", 2), "_builtin_atom_number": ("atom_number", 2), "_builtin_is": ("is", 2),
    "_builtin_lt": ("lt", 2), "_builtin_gt": ("gt", 2), "_builtin_le": ("le", 2), "_builtin_ge": ("ge", 2),
    "_builtin_val_eq": ("val_eq", 2), "_builtin_val_neq": ("val_neq", 2),
}
MODE_CTOR = {"i": "MI", "I": "MIpos", "f": "Mf", "v": "Mv", "n": "Mn", "l": "Ml", "L": "ML", "*": "Many",
             "g": "Mg", "a": "Ma", "c": "Mc", "<": "Mcompare", "o": "Mo", "s": "Ms"}
# what ModelBuiltins.v assumes each mode character tests
EXPECTED_TESTS = {"i": "_is_integer", "I": "_is_integer_pos", "f": "_is_float", "v": "_is_var", "n": "_is_nonvar",
                  "l": "_is_list", "L": "_is_fixed_list", "*": "<lambda:True>", "<": "_is_compare", "g": "is_ground",
                  "a": "_is_atom", "c": "_is_term", "o": "_is_object", "s": "<lambda>"}


def translate(repo):
    path = os.path.join(repo, "problog", "engine_builtin.py")
    with open(path) as f:
        tree = ast.parse(f.read())
    modes = {}
    for fn in tree.body:
        if isinstance(fn, ast.FunctionDef) and fn.name in BUILTINS:
            calls = [c for c in ast.walk(fn) if isinstance(c, ast.Call) and isinstance(c.func, ast.Name) and c.func.id == "check_mode"]
            if len(calls) != 1:
                raise TranslationError("%s: expected exactly one check_mode call, found %d" % (fn.name, len(calls)))
            c = calls[0]
            name, arity = BUILTINS[fn.name]
            if len(c.args) != 2 or not isinstance(c.args[0], ast.Tuple) or len(c.args[0].elts) != arity:
                raise TranslationError("%s: check_mode arguments changed shape" % fn.name)
            params = [a.arg for a in fn.args.args]
            got = [e.id if isinstance(e, ast.Name) else None for e in c.args[0].elts]
            if got != params[:arity]:
                raise TranslationError("%s: check_mode does not test the builtin's own parameters in order: %r" % (fn.name, got))
            lst = c.args[1]
            if not (isinstance(lst, ast.List) and lst.elts and all(isinstance(e, ast.Constant) and isinstance(e.value, str) for e in lst.elts)):
                raise TranslationError("%s: mode list is not a list of string literals" % fn.name)
            ms = [e.value for e in lst.elts]
            for m in ms:
                if len(m) != arity or any(ch not in MODE_CTOR for ch in m):
                    raise TranslationError("%s: mode %r" % (fn.name, m))
            modes[name] = (fn.lineno, ms)
    missing = [v[0] for k, v in BUILTINS.items() if v[0] not in modes]
    if missing:
        raise TranslationError("builtins not found: %r" % missing)
    # mode_types
    mt = [s for s in tree.body if isinstance(s, ast.Assign) and len(s.targets) == 1 and isinstance(s.targets[0], ast.Name)
          and s.targets[0].id == "mode_types"]
    if len(mt) != 1 or not isinstance(mt[0].value, ast.Dict):
        raise TranslationError("mode_types is not assigned once from a dict literal")
    tests = {}
    for k, v in zip(mt[0].value.keys, mt[0].value.values):
        if not (isinstance(k, ast.Constant) and isinstance(k.value, str) and isinstance(v, ast.Tuple) and len(v.elts) == 2):
            raise TranslationError("mode_types entry shape")
        t = v.elts[1]
        if isinstance(t, ast.Name):
            tests[k.value] = t.id
        elif isinstance(t, ast.Lambda):
            tests[k.value] = "<lambda:True>" if isinstance(t.body, ast.Constant) and t.body.value is True else "<lambda>"
        else:
            raise TranslationError("mode_types test for %r" % k.value)
    for ch in MODE_CTOR:
        if tests.get(ch) != EXPECTED_TESTS[ch]:
            raise TranslationError("mode character %r is tested by %r, ModelBuiltins.v assumes %r" % (ch, tests.get(ch), EXPECTED_TESTS[ch]))
    extra = sorted(set(tests) - set(MODE_CTOR))
    if extra:
        raise TranslationError("mode characters unknown to the model: %r" % extra)
    # check_mode itself: first accepted mode wins, zip over (args, mode)
    cm = [f for f in tree.body if isinstance(f, ast.FunctionDef) and f.name == "check_mode"]
    exp = '''
def check_mode(args, accepted, functor=None, location=None, database=None, **kwdargs):
    for i, mode in enumerate(accepted):
        correct = True
        for a, t in zip(args, mode):
            name, test = mode_types[t]
            if not test(a):
                correct = False
                break
        if correct:
            return i
    if database and location:
        location = database.lineno(location)
    else:
        location = None
    raise CallModeError(functor, args, accepted, location=location)
'''
    if len(cm) != 1:
        raise TranslationError("check_mode not found")
    f = ast.parse(ast.unparse(cm[0])).body[0]
    if f.body and isinstance(f.body[0], ast.Expr) and isinstance(f.body[0].value, ast.Constant):
        f.body = f.body[1:]
    if ast.dump(f) != ast.dump(ast.parse(exp).body[0]):
        raise TranslationError("check_mode changed")
    out = ["(* GENERATED by gen/c16_modes.py from problog/engine_builtin.py -- do not edit. *)",
           "From Coq Require Import List.", "Import ListNotations.", "",
           "Inductive mode := " + " | ".join(sorted(set(MODE_CTOR.values()))) + ".", ""]
    for name in sorted(modes):
        lineno, ms = modes[name]
        out.append("(* engine_builtin.py:%d check_mode(..., %r) *)" % (lineno, ms))
        out.append("Definition modes_%s : list (list mode) := [%s]." % (
            name, "; ".join("[" + "; ".join(MODE_CTOR[ch] for ch in m) + "]" for m in ms)))
    return "\n".join(out) + "\n", {k: v[1] for k, v in modes.items()}


if __name__ == "__main__":
    import sys
    sys.stdout.write(translate(sys.argv[1] if len(sys.argv) > 1 else os.environ.get("VERIF_REPO", "/repo"))[0])
