"""C17 helper: AST of the modelled term language, generator, builder of real
problog objects, structural canonical form, Python mirror of the Coq printer
model (development aid and classifier only -- the authoritative tie is the Coq
model evaluated by coqc), Coq literal encoder.

AST (tuples):
  ('var', name) ('int', z) ('flt', neg, text) ('str', s)
  ('app', functor_text, [args])            plain Term (functor text as stored: quotes included)
  ('bin', name, prio, spec, a, b)          Term("'name'", a, b, priority=prio, opspec=spec)
  ('un', name, prio, spec, a)              Term("'name'", a, priority=prio, opspec=spec)
  ('neg', functor, a)                      Not(functor, a), functor in {'\\+','not'}
  ('and', a, b) ('or', a, b)               And / Or
  ('cons', h, t)                           Term('.', h, t)
  ('prob', p, t)                           t with t.probability = p
statements:
  ('fact', t) ('clause', h, b) ('directive', b) ('ad', [heads], body)
"""

# ------------------------------------------------------------------ operator table (problog/parser.py)
BINOPS = {
    "-->": (1200, "xfx"), "->": (1050, "xfy"), "|": (1100, "xfy"), "&": (1000, "xfy"),
    "<": (700, "xfx"), "=<": (700, "xfx"), "=:=": (700, "xfx"), "=\\=": (700, "xfx"), "=@=": (700, "xfx"),
    "=..": (700, "xfx"), "==": (700, "xfx"), "=": (700, "xfx"), ">=": (700, "xfx"), ">": (700, "xfx"),
    "@<": (700, "xfx"), "@=<": (700, "xfx"), "@>=": (700, "xfx"), "@>": (700, "xfx"),
    "\\==": (700, "xfx"), "\\=": (700, "xfx"), "~==": (700, "xfx"), "~=/=": (700, "xfx"), "~<": (700, "xfx"),
    "~=<": (700, "xfx"), "~>=": (700, "xfx"), "~>": (700, "xfx"), "~=": (700, "xfx"),
    "is": (700, "xfx"), "as": (700, "xfx"), "=>": (700, "yfx"), ":": (600, "xfy"),
    "#": (500, "yfx"), "+": (500, "yfx"), "-": (500, "yfx"), "/\\": (500, "yfx"), "><": (500, "yfx"),
    "\\/": (500, "yfx"), "xor": (500, "yfx"),
    "*": (400, "yfx"), "//": (400, "yfx"), "/": (400, "yfx"), "<<": (400, "yfx"), ">>": (400, "yfx"),
    "rdiv": (400, "yfx"), "mod": (400, "yfx"), "rem": (400, "yfx"), "div": (400, "yfx"),
    "^": (400, "xfy"), "**": (200, "xfx"), "*->": (200, "xfy"),
}
UNOPS = {"+": (200, "fy"), "-": (200, "fy"), "\\\\": (200, "fy"), "\\": (200, "fy"), "~=": (200, "fy"), "~": (900, "fx")}
# the tokenizer gives the token of `\=@=` the string `\+` (parser.py:685): the parser-image term is
# Term("'\\+'", a, b, priority=700, opspec='xfx')
WEIRD_BIN = ("\\+", 700, "xfx")
ALPHA_RESERVED = {"is", "as", "not", "xor", "rdiv", "mod", "rem", "div"}

SYMCH = set("+-*/\\^<>=~:.?@#&$")


# ------------------------------------------------------------------ real objects
def build(t):
    from problog.logic import Term, Var, Constant, Not, And, Or
    k = t[0]
    if k == "var":
        return Var(t[1])
    if k == "int":
        return Constant(t[1])
    if k == "flt":
        v = float(t[2])
        return Constant(-v if t[1] else v)
    if k == "str":
        return Constant('"' + t[1] + '"')
    if k == "app":
        return Term(t[1], *[build(a) for a in t[2]])
    if k == "bin":
        return Term("'" + t[1] + "'", build(t[4]), build(t[5]), priority=t[2], opspec=t[3])
    if k == "un":
        return Term("'" + t[1] + "'", build(t[4]), priority=t[2], opspec=t[3])
    if k == "neg":
        return Not(t[1], build(t[2]))
    if k == "and":
        return And(build(t[1]), build(t[2]))
    if k == "or":
        return Or(build(t[1]), build(t[2]))
    if k == "cons":
        return Term(".", build(t[1]), build(t[2]))
    if k == "prob":
        o = build(t[2])
        o.probability = build(t[1])
        return o
    raise ValueError(k)


def build_stmt(s):
    from problog.logic import Term, Clause, AnnotatedDisjunction
    k = s[0]
    if k == "fact":
        return build(s[1])
    if k == "clause":
        return Clause(build(s[1]), build(s[2]))
    if k == "directive":
        return Clause(Term("_directive"), build(s[1]))
    if k == "ad":
        return AnnotatedDisjunction([build(h) for h in s[1]], build(s[2]))
    raise ValueError(k)


def canon(t):
    """Structural canonical form of a real problog object (no Term.__eq__ involved):
    class name, functor (exact), operator annotation, probability, arguments."""
    from problog.logic import AnnotatedDisjunction, Constant
    if t is None or isinstance(t, int):
        return ("raw", t)
    if isinstance(t, AnnotatedDisjunction):
        return ("AD", [canon(h) for h in t.heads], canon(t.body) if t.body is not None else None)
    p = t.probability
    f = t.functor
    if isinstance(t, Constant) and isinstance(f, float):
        f = ("float", repr(f))
    return (type(t).__name__, f, t.op_priority, t.op_spec, canon(p) if p is not None else None,
            [canon(a) for a in t.args])


# ------------------------------------------------------------------ mirror of the Coq printer model
def is_alpha_start(name):
    return "a" <= name[0] <= "z"


def ann_prio(t):
    """op_priority attribute of the python object (None unless Bin/Un; the attribute survives `prob`)."""
    if t[0] == "prob":
        return ann_prio(t[2])
    if t[0] in ("bin", "un"):
        return t[2]
    return None


def is_nil(t):
    return t[0] == "app" and t[1] == "[]" and not t[2]


def flt_text(t):
    return ("-" if t[1] else "") + t[2]


def p_in(t):
    k = t[0]
    if k == "var":
        return t[1]
    if k == "int":
        return str(t[1])
    if k == "flt":
        return flt_text(t)
    if k == "str":
        return '"' + t[1] + '"'
    if k == "app":
        if t[2]:
            return t[1] + "(" + ",".join(p_in(a) for a in t[2]) + ")"
        return t[1]
    if k == "and":
        def el(x):
            return "(" + p_in(x) + ")" if x[0] == "or" else p_in(x)
        out = [el(t[1])]
        tail = t[2]
        while tail[0] == "and" or (tail[0] == "prob" and tail[2][0] == "and" and False):
            out.append(el(tail[1]))
            tail = tail[2]
        out.append(el(tail))
        return "(" + ", ".join(out) + ")"
    if k == "or":
        out = [p_in(t[1])]
        tail = t[2]
        while tail[0] == "or":
            out.append(p_in(tail[1]))
            tail = tail[2]
        out.append(p_in(tail))
        return "; ".join(out)
    if k == "cons":
        out = [p_in(t[1])]
        tail = t[2]
        while tail[0] == "cons":
            out.append(p_in(tail[1]))
            tail = tail[2]
        s = "[" + ", ".join(out)
        if not is_nil(tail):
            s += " | " + p_in(tail)
        return s + "]"
    if k == "un":
        name = t[1]
        return (" %s " % name if is_alpha_start(name) else name) + p_in(t[4])
    if k == "bin":
        name, p, spec, a, b = t[1:]
        pa, pb = ann_prio(a), ann_prio(b)
        sa = p_in(a)
        if not (pa is None or pa < p or (pa == p and spec == "yfx")):
            sa = "(" + sa + ")"
        sb = p_in(b)
        if not (pb is None or pb < p or (pb == p and spec == "xfy")):
            sb = "(" + sb + ")"
        return sa + (" %s " % name if is_alpha_start(name) else name) + sb
    if k == "neg":
        return t[1] + "(" + p_in(t[2]) + ")"
    if k == "prob":
        u = t[2]
        if u[0] in ("app", "var", "int", "flt", "str", "neg"):
            return p_top(t[1]) + "::" + p_in(u)
        return p_in(u)
    raise ValueError(k)


def p_top(t):
    k = t[0]
    if k == "prob" and t[2][0] in ("and", "or", "neg", "int", "flt", "str"):
        return p_top(t[2])      # the overriding __repr__/__str__ ignore the probability
    if k == "and":
        l, r = p_top(t[1]), p_top(t[2])
        if core(t[2])[0] == "or":
            r = "(" + r + ")"
        if core(t[1])[0] == "or":
            l = "(" + l + ")"
        return l + ", " + r
    if k == "or":
        return p_top(t[1]) + "; " + p_top(t[2])
    if k == "neg":
        c = p_top(t[2])
        if core(t[2])[0] in ("and", "or"):
            c = "(" + c + ")"
        return ("not " if t[1] == "not" else t[1]) + c
    return p_in(t)


def core(t):
    return core(t[2]) if t[0] == "prob" else t


def p_stmt(s):
    k = s[0]
    if k == "fact":
        return p_top(s[1])
    if k == "clause":
        return p_top(s[1]) + " :- " + p_top(s[2])
    if k == "directive":
        return ":- " + p_top(s[1])
    if k == "ad":
        return "; ".join(p_top(h) for h in s[1]) + " :- " + p_top(s[2])
    raise ValueError(k)


# ------------------------------------------------------------------ fully parenthesised source (parser-image check)
def src_full(t):
    k = t[0]
    if k == "var":
        return t[1]
    if k == "int":
        return "(%d)" % t[1] if t[1] < 0 else str(t[1])
    if k == "flt":
        return "(" + flt_text(t) + ")" if t[1] else t[2]
    if k == "str":
        return '"' + t[1] + '"'
    if k == "app":
        if t[2]:
            return t[1] + "(" + ",".join("(" + src_full(a) + ")" for a in t[2]) + ")"
        return "(" + t[1] + ")" if (t[1] in BINOPS or t[1] in UNOPS or t[1] in ("\\+", "not", ":-", "::")) else t[1]
    if k == "bin":
        name = "\\=@=" if t[1] == "\\+" else t[1]
        return "(" + src_full(t[4]) + ") " + name + " (" + src_full(t[5]) + ")"
    if k == "un":
        return t[1] + " (" + src_full(t[4]) + ")"
    if k == "neg":
        return t[1] + " (" + src_full(t[2]) + ")"
    if k == "and":
        return "(" + src_full(t[1]) + ") , (" + src_full(t[2]) + ")"
    if k == "or":
        return "(" + src_full(t[1]) + ") ; (" + src_full(t[2]) + ")"
    if k == "cons":
        els = [t[1]]
        tail = t[2]
        while tail[0] == "cons":
            els.append(tail[1])
            tail = tail[2]
        s = "[" + ", ".join("(" + src_full(e) + ")" for e in els)
        if not is_nil(tail):
            s += " | (" + src_full(tail) + ")"
        return s + "]"
    if k == "prob":
        return "(" + src_full(t[1]) + ") :: (" + src_full(t[2]) + ")"
    raise ValueError(k)


def src_full_stmt(s):
    k = s[0]
    if k == "fact":
        return src_full(s[1]) + " ."
    if k == "clause":
        return "(" + src_full(s[1]) + ") :- (" + src_full(s[2]) + ") ."
    if k == "directive":
        return ":- (" + src_full(s[1]) + ") ."
    if k == "ad":
        return " ; ".join("(" + src_full(h) + ")" for h in s[1]) + " :- (" + src_full(s[2]) + ") ."
    raise ValueError(k)


# ------------------------------------------------------------------ generator
ATOMS = ["a", "b", "c", "foo", "p", "q", "r", "x1", "aB_c", "edge", "'hello world'", "'A'", "'_x'", "'[]'", "'a.b'", "'+'",
         "'don\\'t'", "true", "fail", "é"]
FUNCS = ["f", "g", "p", "q", "edge", "'my f'", "t", "findall", "between"]
VARS = ["X", "Y", "Z", "_", "_G1", "Xs", "A1", "Ü"]
STRS = ["", "abc", "hello world", "a'b", "x, y", "1+2"]
FLOATS = ["0.5", "0.25", "1.0", "0.3", "1e-05", "2.5e-07", "1e+20", "123.456", "0.1"]
SYM_ATOMS = ["+", "-", "*", "=", "<", ":-", "\\+", "^", "is", "mod", "not", ";", "|", "!", "?", "**", "=..", "::"]


class Gen:
    def __init__(self, rng, exotic=0.15):
        self.rng = rng
        self.exotic = exotic     # rate of shapes outside the everyday fragment
        self.bin_names = sorted(BINOPS)
        self.common_bin = ["=", "is", "<", ">", "=<", ">=", "+", "-", "*", "/", "\\=", "=:=", "=\\=", "==", "\\==", "mod", "//", "^", "**", ":"]

    def leaf(self):
        r = self.rng
        k = r.random()
        if k < 0.3:
            return ("app", r.choice(ATOMS), [])
        if k < 0.55:
            return ("var", r.choice(VARS))
        if k < 0.75:
            z = r.choice([0, 1, 2, 3, 7, 10, 42, 100, 12345678901234567890])
            if r.random() < 0.3:
                z = -z
            return ("int", z)
        if k < 0.83:
            return ("flt", r.random() < 0.25, r.choice(FLOATS))
        if k < 0.90:
            return ("str", r.choice(STRS))
        if k < 0.95:
            return ("app", "[]", [])
        if r.random() < self.exotic * 2:
            return ("app", r.choice(SYM_ATOMS), [])
        return ("app", r.choice(ATOMS), [])

    def binop(self):
        r = self.rng
        if r.random() < 0.65:
            n = r.choice(self.common_bin)
        else:
            n = r.choice(self.bin_names)
        if r.random() < self.exotic * 0.05:
            return WEIRD_BIN
        return (n,) + BINOPS[n]

    def term(self, d):
        """a term in argument/operand position"""
        r = self.rng
        if d <= 0:
            return self.leaf()
        k = r.random()
        if k < 0.22:
            return self.leaf()
        if k < 0.42:
            n = r.choice([1, 1, 2, 2, 3])
            return ("app", r.choice(FUNCS), [self.term(d - 1) for _ in range(n)])
        if k < 0.72:
            n, p, s = self.binop()
            return ("bin", n, p, s, self.term(d - 1), self.term(d - 1))
        if k < 0.80:
            n = r.choice(sorted(UNOPS))
            if r.random() < 0.6:
                n = "-"
            p, s = UNOPS[n]
            a = self.term(d - 1)
            if n == "-" and a[0] in ("int", "flt"):
                # the parser folds `- <number>` into a constant: not in the parser image
                a = ("app", "a", [])
            return ("un", n, p, s, a)
        if k < 0.90:
            n = r.choice([1, 2, 3])
            els = [self.term(d - 1) for _ in range(n)]
            tail = ("app", "[]", [])
            t = r.random()
            if t < 0.25:
                tail = ("var", r.choice(VARS))
            elif t < 0.3:
                tail = self.term(d - 1)
            for e in reversed(els):
                tail = ("cons", e, tail)
            return tail
        if k < 0.94:
            return ("and", self.term(d - 1), self.term(d - 1))
        if k < 0.96:
            return ("neg", r.choice(["\\+", "\\+", "not"]), self.term(d - 1))
        if k < 0.97 and r.random() < self.exotic * 3:
            return ("or", self.term(d - 1), self.term(d - 1))
        if k < 0.98 and r.random() < self.exotic * 3:
            return ("prob", self.prob(), ("app", r.choice(ATOMS[:8]), []))
        return self.leaf()

    def prob(self):
        r = self.rng
        k = r.random()
        if k < 0.6:
            return ("flt", False, r.choice(FLOATS[:5]))
        if k < 0.7:
            return ("var", r.choice(["P", "X"]))
        if k < 0.8:
            return ("bin", "/", 400, "yfx", ("int", 1), ("int", r.choice([2, 3, 4])))
        if k < 0.9:
            return ("app", "t", [("var", "_")])
        if k < 0.95:
            return ("int", r.choice([0, 1]))
        return self.term(1)

    def goal(self, d):
        """a body literal"""
        r = self.rng
        k = r.random()
        if k < 0.45 or d <= 0:
            f = r.choice(FUNCS + ATOMS[:8])
            n = r.choice([0, 1, 2, 2, 3])
            if f in FUNCS and n == 0:
                n = 1
            return ("app", f, [self.term(d - 1) for _ in range(n)])
        if k < 0.7:
            n = r.choice(["=", "is", "<", ">", "=<", ">=", "\\=", "=:=", "=\\=", "==", "\\==", "=..", "@<"])
            if r.random() < 0.15:
                n, p, s = self.binop()
            p, s = BINOPS[n] if n in BINOPS else (700, "xfx")
            return ("bin", n, p, s, self.term(d - 1), self.term(d - 1))
        if k < 0.85:
            return ("neg", r.choice(["\\+", "\\+", "\\+", "not"]), self.body(d - 1) if r.random() < 0.3 else self.goal(d - 1))
        if k < 0.9:
            return ("bin", "->", 1050, "xfy", self.goal(d - 1), self.body(d - 1))
        return self.term(d)

    def body(self, d):
        r = self.rng
        k = r.random()
        if d <= 0 or k < 0.35:
            return self.goal(d)
        if k < 0.8:
            return ("and", self.body(d - 1) if r.random() < 0.25 else self.goal(d - 1), self.body(d - 1))
        if k < 0.93:
            return ("or", self.body(d - 1) if r.random() < 0.25 else self.goal(d - 1), self.body(d - 1))
        return self.goal(d)

    def head(self, d, prob_rate=0.5):
        r = self.rng
        f = r.choice(FUNCS + ATOMS[:8])
        n = r.choice([0, 1, 2, 2, 3])
        if f in FUNCS and n == 0:
            n = 1
        h = ("app", f, [self.term(d - 1) for _ in range(n)])
        k = r.random()
        if k < self.exotic * 0.3:
            n_, p, s = self.binop()
            h = ("bin", n_, p, s, self.term(d - 1), self.term(d - 1))
        elif k < self.exotic * 0.4:
            h = self.term(d)
        if r.random() < prob_rate and h[0] in ("app", "bin", "un", "cons"):
            h = ("prob", self.prob(), h)
        return h

    def stmt(self, d):
        r = self.rng
        k = r.random()
        if k < 0.25:
            if r.random() < 0.15:
                return ("fact", self.body(d))
            if r.random() < 0.2:
                hs = [self.head(d, 0.9) for _ in range(r.choice([2, 2, 3]))]
                t = hs[-1]
                for h in reversed(hs[:-1]):
                    t = ("or", h, t)
                return ("fact", t)
            return ("fact", self.head(d))
        if k < 0.7:
            return ("clause", self.head(d, 0.3), self.body(d))
        if k < 0.9:
            hs = [self.head(d, 0.9) for _ in range(r.choice([2, 2, 3, 4]))]
            return ("ad", hs, self.body(d - 1))
        if k < 0.95:
            return ("directive", self.body(d - 1))
        return ("fact", self.term(d))


# ------------------------------------------------------------------ Coq literals
def coq_str(s):
    """Coq string literal of the UTF-8 bytes of s (the model works on bytes)."""
    b = s.encode("utf8")
    out = []
    plain = True
    for c in b:
        if c >= 128 or c < 32:
            plain = False
            break
    if plain:
        return '"' + s.replace('"', '""') + '"'
    # build with explicit bytes
    parts = []
    for c in b:
        parts.append('String (Ascii.ascii_of_nat %d)' % c)
    return "(" + " (".join(parts) + " EmptyString" + ")" * len(parts)


def coq_spec(s):
    return {"xfx": "XFX", "xfy": "XFY", "yfx": "YFX", "fy": "FY", "fx": "FX"}[s]


def coq_tm(t):
    k = t[0]
    if k == "var":
        return "(Var %s)" % coq_str(t[1])
    if k == "int":
        return "(Int (%d)%%Z)" % t[1]
    if k == "flt":
        return "(Flt %s %s)" % ("true" if t[1] else "false", coq_str(t[2]))
    if k == "str":
        return "(Str %s)" % coq_str(t[1])
    if k == "app":
        return "(App %s [%s])" % (coq_str(t[1]), "; ".join(coq_tm(a) for a in t[2]))
    if k == "bin":
        return "(Bin %s %d %s %s %s)" % (coq_str(t[1]), t[2], coq_spec(t[3]), coq_tm(t[4]), coq_tm(t[5]))
    if k == "un":
        return "(Un %s %d %s %s)" % (coq_str(t[1]), t[2], coq_spec(t[3]), coq_tm(t[4]))
    if k == "neg":
        return "(Neg %s %s)" % (coq_str(t[1]), coq_tm(t[2]))
    if k == "and":
        return "(And %s %s)" % (coq_tm(t[1]), coq_tm(t[2]))
    if k == "or":
        return "(Or %s %s)" % (coq_tm(t[1]), coq_tm(t[2]))
    if k == "cons":
        return "(Cons %s %s)" % (coq_tm(t[1]), coq_tm(t[2]))
    if k == "prob":
        return "(Prob %s %s)" % (coq_tm(t[1]), coq_tm(t[2]))
    raise ValueError(k)


def coq_stmt(s):
    k = s[0]
    if k == "fact":
        return "(SFact %s)" % coq_tm(s[1])
    if k == "clause":
        return "(SClause %s %s)" % (coq_tm(s[1]), coq_tm(s[2]))
    if k == "directive":
        return "(SDirective %s)" % coq_tm(s[1])
    if k == "ad":
        return "(SAD [%s] %s)" % ("; ".join(coq_tm(h) for h in s[1]), coq_tm(s[2]))
    raise ValueError(k)


def size(t):
    if t[0] in ("var", "int", "flt", "str"):
        return 1
    if t[0] == "app":
        return 1 + sum(size(a) for a in t[2])
    if t[0] in ("bin",):
        return 1 + size(t[4]) + size(t[5])
    if t[0] == "un":
        return 1 + size(t[4])
    if t[0] == "neg":
        return 1 + size(t[2])
    return 1 + size(t[1]) + size(t[2])


# ------------------------------------------------------------------ mirror of Coq ok_stmt (reasons for classification)
import re as _re

_IDENT = _re.compile(r"^[a-z][A-Za-z0-9_]*$")
_VARRE = _re.compile(r"^[A-Z_][A-Za-z0-9_]*$")
_QUOTED = _re.compile(r"^'[^'\\]*'$")
_FLTRE = _re.compile(r"^[0-9]+(\.[0-9]+)?(e[+-]?[0-9]+)?$")
PREFIX = dict(UNOPS)
PREFIX["\\+"] = (900, "fy")
PREFIX["not"] = (900, "fy")
READER_BINOPS = {k: v for k, v in BINOPS.items() if k not in ("|", "&")}


def leftmax(p, s):
    return p if s == "yfx" else p - 1


def rightmax(p, s):
    return p if s == "xfy" else p - 1


def opmax(p, s):
    return p if s == "fy" else p - 1


def eff(m, t):
    k = t[0]
    if k == "int":
        return 200 if t[1] < 0 else 0
    if k == "flt":
        return 200 if t[1] else 0
    if k in ("bin", "un"):
        return t[2]
    if k == "neg":
        return 900
    if k == "and":
        return 1000 if m in ("top", "andt") else 0
    if k == "or":
        return 0 if m == "andt" else 1100
    if k == "prob":
        return 1000
    return 0


def rlev(m, t):
    k = t[0]
    if k == "bin":
        return rightmax(t[2], t[3])
    if k == "un":
        return opmax(t[2], t[3])
    if k == "prob":
        return 999
    return eff(m, t)


def ct_capable(n):
    if len(n) == 0:
        return False
    if len(n.encode("utf8")) == 1:
        return True
    return n[0] not in SYMCH


def starts_open_in(t):
    s = p_in(t)
    return s[:1] in ("(", "[")


def bare_left(p, s, a):
    pa = ann_prio(a)
    return pa is None or pa < p or (pa == p and s == "yfx")


def bare_right(p, s, b):
    pb = ann_prio(b)
    return pb is None or pb < p or (pb == p and s == "xfy")


def _ok(m, t, out):
    """appends the reasons why Coq's [ok m t] is false (empty <=> true)"""
    k = t[0]
    if k in ("var", "int", "flt", "str"):
        return
    if k == "app":
        f, args = t[1], t[2]
        if not args:
            if not (f == "[]" or (f not in PREFIX and f != ":-")):
                out.append("atom-is-prefix-operator")
            return
        if not ct_capable(f):
            out.append("functor-not-ct-capable")
        for a in args:
            _ok("in", a, out)
            if eff("in", a) > 999:
                out.append("arg-priority")
        return
    if k == "cons":
        cur = t
        while cur[0] == "cons":
            _ok("in", cur[1], out)
            if eff("in", cur[1]) > 999:
                out.append("arg-priority")
            cur = cur[2]
        if not is_nil(cur):
            _ok("in", cur, out)
            if eff("in", cur) > 999:
                out.append("arg-priority")
        return
    if k == "bin":
        n, p, s, a, b = t[1:]
        if READER_BINOPS.get(n) != (p, s):
            out.append("eqat-token" if (n, p, s) == WEIRD_BIN else "op-outside-reader-table")
        _ok("in", a, out)
        _ok("in", b, out)
        if bare_left(p, s, a):
            if eff("in", a) > leftmax(p, s):
                out.append("left-operand-priority")
            elif not rlev("in", a) < p:
                out.append("left-operand-rlevel")
        if bare_right(p, s, b) and eff("in", b) > rightmax(p, s):
            out.append("right-operand-priority")
        return
    if k == "un":
        n, p, s, a = t[1:]
        if PREFIX.get(n) != (p, s) or n in ("\\+", "not"):
            out.append("op-table")
        if n == "-" and a[0] in ("int", "flt"):
            out.append("minus-number")
        if is_alpha_start(n):
            out.append("op-table")
        if ct_capable(n) and starts_open_in(a):
            out.append("unary-operand-paren")
        _ok("in", a, out)
        if eff("in", a) > opmax(p, s):
            out.append("unary-operand-priority")
        return
    if k == "neg":
        f, a = t[1], t[2]
        if m == "top":
            if f not in ("\\+", "not"):
                out.append("neg-functor")
            _ok("top", a, out)
            if not (core(a)[0] in ("and", "or") or eff("top", a) <= 900):
                out.append("neg-operand-priority")
        else:
            if f != "\\+":
                out.append("not-inner")
            _ok("in", a, out)
        return
    if k == "and":
        a, b = t[1], t[2]
        if m == "top":
            _ok("top", a, out)
            _ok("top", b, out)
            if not (core(a)[0] == "or" or (eff("top", a) <= 999 and rlev("top", a) < 1000)):
                out.append("and-left-priority")
            if not (core(b)[0] == "or" or eff("top", b) <= 1000):
                out.append("and-right-priority")
        else:
            _ok("in", a, out)
            _ok("andt", b, out)
            if not (core(a)[0] == "or" or (eff("in", a) <= 999 and rlev("in", a) < 1000)):
                out.append("arg-priority")
            if not eff("andt", b) <= 1000:
                out.append("arg-priority")
        return
    if k == "or":
        a, b = t[1], t[2]
        if m == "top":
            _ok("top", a, out)
            _ok("top", b, out)
            if not (eff("top", a) <= 1099 and rlev("top", a) < 1100):
                out.append("or-left-priority")
            if not eff("top", b) <= 1100:
                out.append("or-right-priority")
        else:
            _ok("in", a, out)
            _ok("ort", b, out)
            if not (eff("in", a) <= 1099 and rlev("in", a) < 1100):
                out.append("arg-priority")
            if not eff("ort", b) <= 1100:
                out.append("arg-priority")
        return
    if k == "prob":
        p, u = t[1], t[2]
        if u[0] != "app":
            out.append("prob-on-nonplain")
        _ok("in", u, out)
        _ok("top", p, out)
        if not (eff("top", p) <= 999 and rlev("top", p) < 1000):
            out.append("prob-priority")
        return
    raise ValueError(k)


def first_name(m, t):
    """name of the first token of pr m t when that token is a name, else None"""
    k = t[0]
    if k == "int":
        return "-" if t[1] < 0 else None
    if k == "flt":
        return "-" if t[1] else None
    if k in ("var", "str", "cons"):
        return None
    if k == "app":
        return None if (t[1] == "[]" and not t[2]) else t[1]
    if k == "bin":
        return first_name("in", t[4]) if bare_left(t[2], t[3], t[4]) else None
    if k == "un":
        return t[1]
    if k == "neg":
        return t[1]
    if k == "and":
        if m == "top":
            return None if core(t[1])[0] == "or" else first_name("top", t[1])
        if m == "andt":
            return None if core(t[1])[0] == "or" else first_name("in", t[1])
        return None
    if k == "or":
        if m == "top":
            return first_name("top", t[1])
        if m == "andt":
            return None
        return first_name("in", t[1])
    if k == "prob":
        u = t[2]
        if u[0] in ("app", "var", "int", "flt", "str", "neg"):
            if m == "top" and u[0] in ("neg", "int", "flt", "str"):
                return first_name("top", u)
            return first_name("top", t[1])
        return first_name(m, u)
    raise ValueError(k)


def _first_tok_is_neck(t):
    return first_name("top", t) == ":-"


def _head_ok(lim, h, out):
    _ok("top", h, out)
    if h[0] == "or":
        out.append("head-or")
    if not (eff("top", h) <= lim and rlev("top", h) <= lim):
        out.append("head-priority")


def is_directive_head(h):
    c = core(h)
    return (c[0] == "app" and c[1] == "_directive") or (c[0] == "var" and c[1] == "_directive")


def why_not_ok(s):
    """reasons why Coq's ok_stmt is false; [] <=> ok_stmt s = true"""
    out = []
    k = s[0]
    if k == "fact":
        _ok("top", s[1], out)
        if eff("top", s[1]) > 1199:
            out.append("fact-priority")
        if _first_tok_is_neck(s[1]):
            out.append("starts-with-neck")
    elif k == "clause":
        if is_directive_head(s[1]):
            out.append("directive-head")
        _head_ok(1199, s[1], out)
        _ok("top", s[2], out)
        if eff("top", s[2]) > 1199:
            out.append("body-priority")
        if _first_tok_is_neck(s[1]):
            out.append("starts-with-neck")
    elif k == "directive":
        _ok("top", s[1], out)
        if eff("top", s[1]) > 1199:
            out.append("body-priority")
    elif k == "ad":
        if len(s[1]) < 2:
            out.append("ad-single")
        for h in s[1]:
            _head_ok(1099, h, out)
        _ok("top", s[2], out)
        if eff("top", s[2]) > 1199:
            out.append("body-priority")
        if s[1] and _first_tok_is_neck(s[1][0]):
            out.append("starts-with-neck")
    return out


def subterms(t):
    yield t
    k = t[0]
    if k == "app":
        for a in t[2]:
            yield from subterms(a)
    elif k == "bin":
        yield from subterms(t[4])
        yield from subterms(t[5])
    elif k == "un":
        yield from subterms(t[4])
    elif k == "neg":
        yield from subterms(t[2])
    elif k in ("and", "or", "cons", "prob"):
        yield from subterms(t[1])
        yield from subterms(t[2])


def stmt_terms(s):
    k = s[0]
    if k == "fact" or k == "directive":
        yield from subterms(s[1])
    elif k == "clause":
        yield from subterms(s[1])
        yield from subterms(s[2])
    else:
        for h in s[1]:
            yield from subterms(h)
        yield from subterms(s[2])


def lexical_reasons(s):
    """features outside the lexical fragment of the reference tokenizer"""
    out = []
    for t in stmt_terms(s):
        k = t[0]
        if k == "var" and not _VARRE.match(t[1]):
            out.append("var-name")
        elif k == "flt" and not _FLTRE.match(t[2]):
            out.append("float-text")
        elif k == "str" and not _re.match(r'^[^"\\]*$', t[1]):
            out.append("string-content")
        elif k == "app" and t[1] != "[]":
            f = t[1]
            if not ((_IDENT.match(f) and f not in ALPHA_RESERVED) or _QUOTED.match(f)):
                if f and (f[0] in SYMCH or f in ALPHA_RESERVED or f in (";", "|", "!", "?", ",")):
                    out.append("operator-symbol-as-atom")
                else:
                    out.append("atom-text")
    return out


def _starts_prefix_sym(txt):
    txt = txt.lstrip()
    return txt[:1] in ("-", "+", "~") or (txt[:1] == "\\" and txt[1:2] != "+")


def has_nested_prefix(s):
    """a prefix operator (unary operator, top-level negation, directive neck) whose operand text
    starts with another prefix operator symbol: PrologParser answers 'Ambiguous token role' or misreads"""
    if s[0] == "directive" and _starts_prefix_sym(p_top(s[1])):
        return True
    tops = set()

    def walk_top(t):
        # terms printed by the overriding __repr__ methods (And/Or/Not at statement level)
        if t[0] in ("and", "or"):
            walk_top(t[1])
            walk_top(t[2])
        elif t[0] == "neg":
            tops.add(id(t))
            if core(t[2])[0] not in ("and", "or") and _starts_prefix_sym(p_top(t[2])):
                tops.add("hit")
            walk_top(t[2])
    if s[0] in ("fact", "directive"):
        walk_top(s[1])
    elif s[0] == "clause":
        walk_top(s[1])
        walk_top(s[2])
    else:
        for h in s[1]:
            walk_top(h)
        walk_top(s[2])
    if "hit" in tops:
        return True
    for t in stmt_terms(s):
        if t[0] == "un" and _starts_prefix_sym(p_in(t[4])):
            return True
    return False
