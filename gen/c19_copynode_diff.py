"""C19 helper: differential tie of the Gallina model ModelCopyNode.findall_concrete (copy_node + add_and
threaded through the REAL target, on top of the C09 target builder) with the real _builtin_findall_base.

`capture(src)` = c19_findall.capture plus, per findall/3 call, the length of the target's node list before
and after the call (`tlen_before`, `tlen_after`) and the target's keep_all / keep_duplicates flags.  The target
only grows during the call, so its state before the call is that prefix of the dump taken after it.
`coq_case(c, src)` turns one recorded call into a Coq term of type bool (`chk …`, see HEADER): the model,
started from the real target as it was before the call, must produce the identical final node list of the
target and the identical outputs (term lists, keys, order).  Programs with annotated disjunctions are skipped
(atom_info of the AD groups is not reconstructed).

Used by harness/props/C19.py (run_machinery).  By hand:
  cd /verif && PYTHONPATH=$VERIF_REPO PYTHONDONTWRITEBYTECODE=1 /venv/bin/python gen/c19_copynode_diff.py N SEED OUTDIR
  cd /verif/coq && coqc -Q theories PL OUTDIR/Cases.v      # prints (number of cases, indices that differ)
"""
import os
import sys

_here = os.path.dirname(os.path.abspath(__file__))
if _here not in sys.path:
    sys.path.insert(0, _here)
import c19_findall as cf  # noqa: E402

HEADER = """From Coq Require Import ZArith NArith List Bool Arith.
From PL.C09 Require Import BoolGraph CyclesModel.
From PL.C19 Require Import ModelSelectSublist ModelBranches ModelCopyNode.
Import ListNotations.
Fixpoint leqb {A} (e : A -> A -> bool) (x y : list A) : bool :=
  match x, y with [], [] => true | u :: x', v :: y' => e u v && leqb e x' y' | _, _ => false end.
Definition ai0 : atom_info := {| ai_group := []; ai_extra_id := [] |}.
Definition chk (det : N -> bool) g t0 (results : list (Z * key)) expn (expo : list (list Z * key)) : bool :=
  match findall_concrete det ai0 g (S (length g)) (S (length g)) {| t_nodes := t0; t_groups := [] |} results with
  | Some (tF, out) => leqb node_eqb (t_nodes tF) expn && leqb (fun x y => leqb Z.eqb (fst x) (fst y) && key_eqb (snd x) (snd y)) out expo
  | None => false
  end.
"""


def capture(src, timeout=30):
    """c19_findall.capture with tlen_before / tlen_after / tflags added to every findall record.
    The inner wrapper finishes right before the recorder of c19_findall appends its record, so the
    i-th finished inner call belongs to the i-th findall record (nesting included)."""
    import problog.engine_builtin as ebm
    done = []
    orig = ebm._builtin_findall_base

    def inner(pattern, goal, result, **kw):
        tgt = kw.get("target")
        nb = len(tgt._nodes)
        flags = (bool(tgt.keep_all), bool(getattr(tgt, "_keep_duplicates", False)))
        out = orig(pattern, goal, result, **kw)
        done.append((nb, len(tgt._nodes), flags))
        return out
    ebm._builtin_findall_base = inner
    try:
        st, err, calls = cf.capture(src, timeout=timeout)
    finally:
        ebm._builtin_findall_base = orig
    fcalls = [c for c in calls if c["kind"] == "findall"]
    if len(fcalls) == len(done):
        for c, (nb, na, flags) in zip(fcalls, done):
            c["tlen_before"], c["tlen_after"], c["tflags"] = nb, na, flags
    return st, err, calls


def _zl(l):
    return "[" + "; ".join("(%d)%%Z" % x for x in l) + "]"


def _key(k):
    return "None" if k is None else "(Some (%d)%%Z)" % k


def parse_terms(s):
    s = s.replace(" ", "")
    if not (s.startswith("[") and s.endswith("]")):
        raise ValueError("not a list")
    inner = s[1:-1]
    if not inner:
        return []
    out, depth, cur = [], 0, ""
    for ch in inner:
        if ch in "([":
            depth += 1
        elif ch in ")]":
            depth -= 1
        if ch == "," and depth == 0:
            out.append(cur)
            cur = ""
        else:
            cur += ch
    out.append(cur)
    return out


def coq_case(c, src):
    """(term, None) or (None, reason-for-skipping)."""
    if c.get("kind") != "findall":
        return None, "not_findall"
    if "tlen_before" not in c:
        return None, "no_target_length_recorded"
    if "results" not in c or "lst" not in c:
        return None, "incomplete_record"
    tgt, sg = c["target"], c["src"]
    nb = c["tlen_before"]
    if c["tlen_after"] != len(tgt) or nb > len(tgt):
        return None, "target_dump_misaligned"
    if c["tflags"][0] or c["tflags"][1]:
        return None, "target_keep_all_or_keep_duplicates"
    if ";" in src.split("query")[0]:
        return None, "program_with_AD"
    ids = {}

    def aid(name):
        if name not in ids:
            ids[name] = len(ids)
        return ids[name]

    def graph(nodes, dets=None):
        out = []
        for n in nodes:
            if n[0] == "atom":
                if n[2] is False:
                    raise ValueError("atom_with_probability_False")
                if dets is not None and n[2] is True:
                    dets.add(aid(n[1]))
                out.append("NAtom %d%%N" % aid(n[1]))
            else:
                if any(ch is None for ch in n[1]):
                    raise ValueError("FALSE_child")
                out.append("%s %s" % ("NAnd" if n[0] == "conj" else "NOr", _zl(n[1])))
        return "[" + "; ".join(out) + "]"
    try:
        dets = set()
        g = graph(sg, dets)
        t_final = graph(tgt)
        t0 = graph(tgt[:nb])
        codes = {}

        def code(t):
            t = t.replace(" ", "")
            if t not in codes:
                codes[t] = len(codes)
            return codes[t]
        results = "[" + "; ".join("((%d)%%Z, %s)" % (code(t), _key(n)) for t, n in c["results"]) + "]"
        out = "[" + "; ".join("(%s, %s)" % (_zl([code(t) for t in parse_terms(l)]), _key(n)) for l, n in c["out"]) + "]"
    except ValueError as e:
        return None, str(e)
    det = "(fun id => existsb (N.eqb id) [%s])" % "; ".join("%d%%N" % d for d in sorted(dets))
    return "chk %s %s %s %s %s %s" % (det, g, t0, results, t_final, out), None


def features(c):
    """histogram keys of a case"""
    tgt, sg, nb = c["target"], c["src"], c["tlen_before"]
    out = []
    if any(n[0] == "atom" and n[2] is True for n in sg):
        out.append("deterministic_atom")
    if nb > 0:
        out.append("nonempty_target_before")
    if len(tgt) > nb:
        out.append("target_grows")
    if not cf.is_acyclic(sg):
        out.append("cyclic_findall_target")
    if not cf.is_acyclic(tgt[:nb]):
        out.append("cyclic_target_before")
    return out


def main():
    import random
    sys.path.insert(0, os.path.join(os.path.dirname(_here), "harness"))
    n = int(sys.argv[1]) if len(sys.argv) > 1 else 200
    rng = random.Random(int(sys.argv[2]) if len(sys.argv) > 2 else 0)
    outdir = sys.argv[3] if len(sys.argv) > 3 else "/tmp/c19copy"
    os.makedirs(outdir, exist_ok=True)
    cases, stats = [], {}

    def count(k):
        stats[k] = stats.get(k, 0) + 1
    for _ in range(n):
        r = rng.random()
        src, _kind = (cf.gen_relational_program(rng) if r < 0.3 else cf.gen_cyclic_program(rng) if r < 0.5
                      else cf.gen_rich_program(rng))
        st, _err, calls = capture(src)
        if st != "ok":
            count("err")
            continue
        for c in calls:
            if c["kind"] != "findall":
                continue
            term, why = coq_case(c, src)
            if term is None:
                count("skip:" + why)
                continue
            cases.append(term)
            count("case")
            for f in features(c):
                count("case_" + f)
    with open(os.path.join(outdir, "Cases.v"), "w") as f:
        f.write(HEADER)
        f.write("Definition cases : list bool := [\n" + ";\n".join(cases) + "].\n")
        f.write("Eval vm_compute in (length cases, map fst (filter (fun p => negb (snd p)) (combine (seq 0 (length cases)) cases))).\n")
    print(stats)


if __name__ == "__main__":
    main()
