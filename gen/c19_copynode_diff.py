"""C19 helper (NOT wired into harness/props/C19.py yet): differential run of the Gallina model
ModelCopyNode.findall_concrete (copy_node + add_and threaded through the REAL target) against the real
_builtin_findall_base.  Records len(target) before each findall call (the target only grows during the
call, so the state before the call is that prefix of the dump taken after it), then emits a Coq file whose
vm_compute compares the model's final target node list and its outputs with the real ones (structural
equality: same node list, same output keys, same order).  Programs with annotated disjunctions are skipped
(atom_info of the AD groups is not reconstructed here).

  cd /verif && PYTHONPATH=$VERIF_REPO PYTHONDONTWRITEBYTECODE=1 /venv/bin/python gen/c19_copynode_diff.py N SEED OUTDIR
  cd /verif/coq && coqc -Q theories PL OUTDIR/Cases.v      # prints (number of cases, indices that differ)
"""
import sys, random, os
_here = os.path.dirname(os.path.abspath(__file__))
sys.path.insert(0, os.path.join(os.path.dirname(_here), "harness")); sys.path.insert(0, _here)
import c19_findall as cf
import problog.engine_builtin as ebm

N = int(sys.argv[1]) if len(sys.argv) > 1 else 200
rng = random.Random(int(sys.argv[2]) if len(sys.argv) > 2 else 0)
OUT = sys.argv[3] if len(sys.argv) > 3 else "/tmp/c19copy"
os.makedirs(OUT, exist_ok=True)


def capture_with_before(src):
    befores = []
    orig = ebm._builtin_findall_base

    def W(pattern, goal, result, **kw):
        tgt = kw.get("target")
        idx = len(befores)
        befores.append([len(tgt._nodes), tgt.keep_all, getattr(tgt, "_keep_duplicates", None), getattr(tgt, "_keep_order", None), None])
        out = orig(pattern, goal, result, **kw)
        befores[idx][4] = len(tgt._nodes)
        return out
    ebm._builtin_findall_base = W
    try:
        st, err, calls = cf.capture(src, timeout=30)
    finally:
        ebm._builtin_findall_base = orig
    return st, err, calls, befores


def zl(l): return "[" + "; ".join("(%d)%%Z" % x for x in l) + "]"
def key(k): return "None" if k is None else "(Some (%d)%%Z)" % k


def parse_terms(s):
    s = s.replace(" ", "")
    assert s[0] == "[" and s[-1] == "]"
    inner = s[1:-1]
    if not inner:
        return []
    out, depth, cur = [], 0, ""
    for ch in inner:
        if ch in "([":
            depth += 1
        elif ch in ")]":
            depth -= 1
        if ch == "," and depth == 0:
            out.append(cur); cur = ""
        else:
            cur += ch
    out.append(cur)
    return out


cases, metas, stats = [], [], {}
def count(k): stats[k] = stats.get(k, 0) + 1

for i in range(N):
    r = rng.random()
    src, kind = (cf.gen_relational_program(rng) if r < 0.3 else cf.gen_cyclic_program(rng) if r < 0.5 else cf.gen_rich_program(rng))
    st, err, calls, befores = capture_with_before(src)
    if st != "ok":
        count("err"); continue
    fcalls = [c for c in calls if c["kind"] == "findall"]
    # nested calls finish in a different order than they start: only use programs where the counts match 1:1 and calls are not nested
    if len(fcalls) != len(befores):
        count("mismatch"); continue
    # calls list is appended at the END of each call, befores at the START: same order iff no nesting
    for c, (nb, ka, kd, ko, na) in zip(fcalls, befores):
        if "results" not in c or "lst" not in c:
            count("incomplete"); continue
        tgt, sg = c["target"], c["src"]
        if na != len(tgt):
            count("nested_or_misaligned"); continue
        if ka or kd:
            count("target_keep_all_or_duplicates"); continue
        ids = {}
        def aid(name):
            if name not in ids: ids[name] = len(ids)
            return ids[name]
        bad = False
        def graph(nodes, dets=None):
            out = []
            for n in nodes:
                if n[0] == "atom":
                    if dets is not None and n[2] is True: dets.add(aid(n[1]))
                    if n[2] is False: raise ValueError("false atom")
                    out.append("NAtom %d%%N" % aid(n[1]))
                else:
                    if any(ch is None for ch in n[1]): raise ValueError("None child")
                    out.append("%s %s" % ("NAnd" if n[0] == "conj" else "NOr", zl(n[1])))
            return "[" + "; ".join(out) + "]"
        try:
            dets = set()
            g = graph(sg, dets)
            tF = graph(tgt)
        except ValueError as e:
            count("skip:" + str(e)); continue
        if "::a0" in src or "a0;" in src or ";" in src.split("query")[0]:
            count("skip_AD"); continue
        t0 = graph(tgt[:nb])
        try:
            codes = {}
            def code(t):
                t = t.replace(" ", "")
                if t not in codes: codes[t] = len(codes)
                return codes[t]
            results = "[" + "; ".join("((%d)%%Z, %s)" % (code(t), key(n)) for t, n in c["results"]) + "]"
            out = "[" + "; ".join("(%s, %s)" % (zl([code(t) for t in parse_terms(l)]), key(n)) for l, n in c["out"]) + "]"
        except AssertionError:
            count("skip_parse"); continue
        det = "(fun id => existsb (N.eqb id) [%s])" % "; ".join("%d%%N" % d for d in sorted(dets))
        cases.append("chk %s %s %s %s %s %s" % (det, g, t0, results, tF, out))
        metas.append((src, len(c["lst"]), nb, len(tgt), bool(dets), not cf.is_acyclic(sg)))
        count("case")
        if dets: count("case_with_det_atom")
        if nb > 0: count("case_nonempty_t0")
        if len(tgt) > nb: count("case_target_grows")
        if not cf.is_acyclic(sg): count("case_cyclic_src")
        if not cf.is_acyclic(tgt[:nb]): count("case_cyclic_t0")

HEADER = """
From Coq Require Import ZArith NArith List Bool Arith.
From PL.C09 Require Import BoolGraph CyclesModel.
From PL.C19 Require Import ModelSelectSublist ModelBranches ModelCopyNode.
Import ListNotations.
Fixpoint leqb {A} (e : A -> A -> bool) (x y : list A) : bool :=
  match x, y with [], [] => true | u :: x', v :: y' => e u v && leqb e x' y' | _, _ => false end.
Definition ai0 : atom_info := {| ai_group := []; ai_extra_id := [] |}.
Definition chk det g t0 (results : list (Z * key)) expn (expo : list (list Z * key)) : bool :=
  match findall_concrete det ai0 g (S (length g)) (S (length g)) {| t_nodes := t0; t_groups := [] |} results with
  | Some (tF, out) => leqb node_eqb (t_nodes tF) expn && leqb (fun x y => leqb Z.eqb (fst x) (fst y) && key_eqb (snd x) (snd y)) out expo
  | None => false
  end.
"""
with open(os.path.join(OUT, "Cases.v"), "w") as f:
    f.write(HEADER)
    f.write("Definition cases : list bool := [\n" + ";\n".join(cases) + "].\n")
    f.write("Eval vm_compute in (length cases, map fst (filter (fun p => negb (snd p)) (combine (seq 0 (length cases)) cases))).\n")
import json
json.dump(metas, open(os.path.join(OUT, "metas.json"), "w"))
print(stats)
