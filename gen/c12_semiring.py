"""Fail-closed translator: problog/evaluator.py semiring classes  ->  Gallina.

Python `ast` of the method bodies of Semiring / SemiringProbability /
SemiringLogProbability / SemiringSymbolic (and a synthetic subclass that only
defines one()/zero(), to exercise the inherited base-class defaults) is turned
into monadic Gallina definitions over the run-time library
coq/theories/C12/ModelPy.v.  Inheritance is resolved by the MRO: for a concrete
class every interface method is translated from the body found first in the
MRO, with `self.m(...)` bound to the concrete class's own `m`.

Everything not explicitly understood raises TranslationError (never a silent
default).  What the translation deliberately abstracts (listed in the generated
header as well):
  * floats are NaN / -inf / +inf / a number of an abstract numeric structure;
    decimal literals are exact rationals; math.exp never overflows;
  * float(a) / str(a) of an external value are the identity on an already
    evaluated float / rendered string;
  * constructor arguments of raised exceptions (messages, locations) are not
    evaluated; only the exception class is kept;
  * parameters `key` / `formula` are dropped (any *use* of them is an error).

problog/tasks/mpe.py: SemiringMPEState / SemiringMinPEState (carrier = pair
(probability, set of literal keys)) are translated the same way with the state
type `fl N * list Z` (kind 'T'): sets of keys are duplicate-free lists over the
library coq/theories/C12/ModelPySet.v (`set()`, `{k}`, `a | b`, `==`), `a[0]` /
`a[1]` are the projections, the `key` parameter of pos_value / neg_value /
ad_complement is an integer (its default None is not modelled), tuple `==` is
component-wise (the identity shortcut of Python's tuple comparison, visible
only on NaN, is not modelled), `sum([...])` is the left fold of `+` from 0.
The inherited `value` returns a bare float there (it is `float(a)`), which the
per-class signature table records.
"""
import ast
import os
from fractions import Fraction


class TranslationError(Exception):
    pass


def fail(node, msg):
    line = getattr(node, "lineno", "?")
    raise TranslationError("line %s: %s: %s" % (line, msg, ast.dump(node)[:300] if isinstance(node, ast.AST) else node))


# ---------------------------------------------------------------- interface table
# types: C carrier, E external value, B bool, K dropped parameter, L list of C, P pair C*C
SIG = {
    "one": ([], "C"),
    "zero": ([], "C"),
    "is_one": (["C"], "B"),
    "is_zero": (["C"], "B"),
    "plus": (["C", "C"], "C"),
    "times": (["C", "C"], "C"),
    "in_domain": (["C"], "B"),
    "negate": (["C"], "C"),
    "value": (["E"], "C"),
    "result": (["C", "K"], "E"),
    "normalize": (["C", "C"], "C"),
    "pos_value": (["E", "K"], "C"),
    "neg_value": (["E", "K"], "C"),
    "result_zero": ([], "E"),
    "result_one": ([], "E"),
    "is_dsp": ([], "B"),
    "is_nsp": ([], "B"),
    "ad_complement": (["L", "K"], "C"),
    "true": (["K"], "P"),
    "false": (["K"], "P"),
    "ad_negate": (["C", "C"], "C"),
}
ORDER = list(SIG)   # callees before callers; checked while translating
# concrete types: F float, S string, T state (float * set of keys), Z integer key, ZS set of keys,
# LF list of floats, B bool, K dropped, L list of carrier, P pair of carriers, M bound method
# signature overrides of the state semirings (everything else: C/E -> T)
SIG_STATE = {
    "value": (["F"], "F"),              # inherited float(a): NOT a state
    "pos_value": (["F", "Z"], "T"),
    "neg_value": (["F", "Z"], "T"),
    "ad_complement": (["L", "Z"], "T"),
}
STATE_CLASSES = [
    ("SemiringMPEState", "mpe"),
    ("SemiringMinPEState", "minpe"),
]


def class_sig(kind):
    out = {}
    for name, (ptypes, rty) in SIG.items():
        if kind == "T" and name in SIG_STATE:
            out[name] = (list(SIG_STATE[name][0]), SIG_STATE[name][1])
        else:
            m = lambda t: kind if t in ("C", "E") else t   # noqa
            out[name] = ([m(t) for t in ptypes], m(rty))
    return out
SKIP = {
    "create": "classmethod constructor used by sub-queries; no weight semantics",
    "to_evidence": "evidence weights are outside C12/C30",
    "__init__": "no state",
}
EXCEPTIONS = {"InvalidValue": "InvalidValue", "OperationNotSupported": "OperationNotSupported",
              "NotImplementedError": "NotImplementedError"}
COQ_RESERVED = {"at", "in", "as", "if", "then", "else", "fun", "let", "end", "match", "with", "return",
                "forall", "exists", "fix", "cofix", "for", "where", "using", "Type", "Prop", "Set",
                "N", "F", "ret", "bind", "num", "fl"}

CLASSES = [
    # (python class, coq prefix, carrier kind)
    ("SemiringProbability", "prob", "F"),
    ("SemiringLogProbability", "log", "F"),
    ("SemiringSymbolic", "sym", "S"),
]
GENERIC_SRC = '''
class GenericSubclass(Semiring):
    """synthetic: a subclass that defines the two constants and inherits every default"""
    def one(self):
        return G_ONE
    def zero(self):
        return G_ZERO
'''


def coq_type(t, kind):
    prim = {"F": "(fl N)", "S": "string", "T": "(fl N * list Z)", "Z": "Z", "B": "bool"}
    if t in prim:
        return prim[t]
    base = prim[kind]
    if t == "L":
        return "(list %s)" % base
    if t == "P":
        return "(%s * %s)" % (base, base)
    raise TranslationError("no coq type for " + t)


def coq_ident(name):
    return name + "_" if name in COQ_RESERVED else name


def lit(value):
    """Exact rational of the *decimal text* of a Python float literal."""
    if isinstance(value, bool) or not isinstance(value, (int, float)):
        raise TranslationError("unsupported numeric literal %r" % (value,))
    fr = Fraction(repr(value)) if isinstance(value, float) else Fraction(value)
    return "(flit N (%d)%%Z %d%%positive)" % (fr.numerator, fr.denominator)


def coq_string(s):
    for ch in s:
        if not (32 <= ord(ch) < 127):
            raise TranslationError("non-printable character in string literal %r" % s)
    return '"' + s.replace('"', '""') + '"'


class ClassInfo:
    def __init__(self, node, module_classes):
        self.node = node
        self.name = node.name
        self.methods = {}
        self.attrs = {}
        if len(node.bases) != 1 or not isinstance(node.bases[0], ast.Name):
            fail(node, "only single inheritance from a plain name is understood")
        self.base = node.bases[0].id
        for st in node.body:
            if isinstance(st, ast.FunctionDef):
                self.methods[st.name] = st
            elif isinstance(st, ast.Expr) and isinstance(st.value, ast.Constant) and isinstance(st.value.value, str):
                continue
            elif isinstance(st, ast.Assign):
                if len(st.targets) != 1:
                    fail(st, "class attribute assignment")
                tg, val = st.targets[0], st.value
                if isinstance(tg, ast.Name):
                    self.attrs[tg.id] = val
                elif isinstance(tg, ast.Tuple) and isinstance(val, ast.Tuple) and len(tg.elts) == len(val.elts) \
                        and all(isinstance(e, ast.Name) for e in tg.elts):
                    for e, v in zip(tg.elts, val.elts):
                        self.attrs[e.id] = v
                else:
                    fail(st, "class attribute assignment")
            else:
                fail(st, "statement in class body")


def mro(classes, name):
    out = []
    while name != "object":
        if name not in classes:
            raise TranslationError("base class %s not found in module" % name)
        out.append(classes[name])
        name = classes[name].base
    return out


class MethodTranslator:
    def __init__(self, cls_prefix, kind, chain, emitted, globals_, extra=()):
        # explicit leading parameters of every method (name, coq type); the numeric
        # structure is always the first one, so that signatures do not depend on
        # whether a body happens to use it
        self.extra = [("N", "NumOps")] + list(extra)
        self.p = cls_prefix
        self.kind = kind              # 'F', 'S' or 'T'
        self.sig = class_sig(kind)    # method -> (concrete parameter types, concrete result type)
        self.chain = chain            # MRO list of ClassInfo
        self.emitted = emitted        # methods of this class already emitted (callable)
        self.globals = globals_       # Name -> (coq term, type)
        self.fresh = 0

    # ---- helpers
    def find_method(self, name):
        for c in self.chain:
            if name in c.methods:
                return c, c.methods[name]
        return None, None

    def find_attr(self, name):
        for c in self.chain:
            if name in c.attrs:
                return c.attrs[name]
        return None

    def new(self):
        self.fresh += 1
        return "t%d" % self.fresh

    def inj(self, term, ty):
        if ty == "F":
            return "(PFloat %s)" % term
        if ty == "S":
            return "(PStr %s)" % term
        if ty == "B":
            return "(PBool %s)" % term
        if ty == "M":
            return term
        raise TranslationError("cannot compare a value of type %s" % ty)

    def int_or_expr(self, e, env):
        """operand of a comparison: additionally accepts an int literal (compared numerically with a float)"""
        if isinstance(e, ast.Constant) and isinstance(e.value, int) and not isinstance(e.value, bool):
            return [], lit(e.value), "F"
        return self.expr(e, env)

    # ---- expressions: returns (binds, term, type); binds = [(var, monadic term)]
    def expr(self, e, env):
        if isinstance(e, ast.Constant):
            if isinstance(e.value, bool):
                return [], ("true" if e.value else "false"), "B"
            if isinstance(e.value, float):
                return [], lit(e.value), "F"
            if isinstance(e.value, str):
                return [], coq_string(e.value), "S"
            fail(e, "constant")
        if isinstance(e, ast.Name):
            if e.id in env:
                ty = env[e.id]
                if ty == "K":
                    fail(e, "use of a dropped parameter")
                return [], coq_ident(e.id), ty
            if e.id in self.globals:
                return [], self.globals[e.id][0], self.globals[e.id][1]
            fail(e, "unknown name")
        if isinstance(e, ast.Attribute):
            if isinstance(e.value, ast.Name) and e.value.id == "self":
                _, m = self.find_method(e.attr)
                if m is not None:
                    # bound method object, NOT a call
                    return [], "(PMeth %s)" % coq_string(e.attr), "M"
                a = self.find_attr(e.attr)
                if a is not None:
                    b, t, ty = self.expr(a, {})
                    if b:
                        fail(e, "class attribute with effects")
                    return [], t, ty
            fail(e, "attribute")
        if isinstance(e, ast.UnaryOp):
            if isinstance(e.op, ast.USub):
                if isinstance(e.operand, ast.Constant) and isinstance(e.operand.value, float):
                    return [], lit(-e.operand.value), "F"
                b, t, ty = self.expr(e.operand, env)
                if ty == "Z":
                    return b, "(Z.opp %s)" % t, "Z"
                if ty != "F":
                    fail(e, "unary minus on non-float")
                return b, "(fl_neg N %s)" % t, "F"
            if isinstance(e.op, ast.Not):
                b, t, ty = self.expr(e.operand, env)
                if ty != "B":
                    fail(e, "not on non-bool")
                return b, "(negb %s)" % t, "B"
            fail(e, "unary operator")
        if isinstance(e, ast.BinOp):
            if isinstance(e.op, ast.Mod):
                return self.fmt(e, env)
            b1, t1, ty1 = self.expr(e.left, env)
            b2, t2, ty2 = self.expr(e.right, env)
            if isinstance(e.op, ast.BitOr):
                if ty1 != "ZS" or ty2 != "ZS":
                    fail(e, "| on non-sets")
                return b1 + b2, "(zs_union %s %s)" % (t1, t2), "ZS"
            if ty1 != "F" or ty2 != "F":
                fail(e, "arithmetic on non-floats")
            if isinstance(e.op, ast.Add):
                return b1 + b2, "(fl_add N %s %s)" % (t1, t2), "F"
            if isinstance(e.op, ast.Sub):
                return b1 + b2, "(fl_sub N %s %s)" % (t1, t2), "F"
            if isinstance(e.op, ast.Mult):
                return b1 + b2, "(fl_mul N %s %s)" % (t1, t2), "F"
            if isinstance(e.op, ast.Div):
                v = self.new()
                return b1 + b2 + [(v, "fl_div N %s %s" % (t1, t2))], v, "F"
            fail(e, "binary operator")
        if isinstance(e, ast.BoolOp):
            parts = []
            binds = []
            for i, v in enumerate(e.values):
                b, t, ty = self.expr(v, env)
                if ty != "B":
                    fail(e, "boolean operator on non-bool")
                if b and i > 0:
                    fail(e, "effectful operand after the first one of a short-circuit operator")
                binds += b
                parts.append(t)
            op = "andb" if isinstance(e.op, ast.And) else "orb"
            t = parts[-1]
            for p in reversed(parts[:-1]):
                t = "(%s %s %s)" % (op, p, t)
            return binds, t, "B"
        if isinstance(e, ast.Compare):
            return self.compare(e, env)
        if isinstance(e, ast.Tuple):
            if len(e.elts) != 2:
                fail(e, "only pairs")
            b1, t1, ty1 = self.expr(e.elts[0], env)
            b2, t2, ty2 = self.expr(e.elts[1], env)
            if self.kind == "T" and ty1 == "F" and ty2 == "ZS":
                return b1 + b2, "(%s, %s)" % (t1, t2), "T"      # a state: (probability, set of keys)
            if ty1 != self.kind or ty2 != self.kind:
                fail(e, "pair of non-carrier values")
            return b1 + b2, "(%s, %s)" % (t1, t2), "P"
        if isinstance(e, ast.Subscript):
            # a[0] / a[1] of a state
            b, t, ty = self.expr(e.value, env)
            if ty != "T" or not (isinstance(e.slice, ast.Constant) and type(e.slice.value) is int and e.slice.value in (0, 1)):
                fail(e, "subscript other than state[0] / state[1]")
            return (b, "(fst %s)" % t, "F") if e.slice.value == 0 else (b, "(snd %s)" % t, "ZS")
        if isinstance(e, ast.Set):
            if len(e.elts) != 1:
                fail(e, "only singleton set displays")
            b, t, ty = self.expr(e.elts[0], env)
            if ty != "Z":
                fail(e, "set display of a non-key")
            return b, "(zs_single %s)" % t, "ZS"
        if isinstance(e, ast.ListComp):
            # [elt(x) for x in ws] over a list of carriers, float-valued and effect-free
            if len(e.generators) != 1:
                fail(e, "list comprehension with several generators")
            g = e.generators[0]
            if g.ifs or g.is_async or not isinstance(g.target, ast.Name) or not isinstance(g.iter, ast.Name) \
                    or env.get(g.iter.id) != "L":
                fail(e, "list comprehension shape")
            env2 = dict(env)
            env2[g.target.id] = self.kind
            b, t, ty = self.expr(e.elt, env2)
            if b or ty != "F":
                fail(e, "list comprehension element must be an effect-free float")
            return [], "(map (fun %s => %s) %s)" % (coq_ident(g.target.id), t, coq_ident(g.iter.id)), "LF"
        if isinstance(e, ast.Call):
            return self.call(e, env)
        fail(e, "expression")

    def fmt(self, e, env):
        if not (isinstance(e.left, ast.Constant) and isinstance(e.left.value, str)):
            fail(e, "% with a non-literal format")
        args = e.right.elts if isinstance(e.right, ast.Tuple) else [e.right]
        pieces = e.left.value.split("%s")
        if any("%" in p for p in pieces) or len(pieces) != len(args) + 1:
            fail(e, "format string with directives other than %s / wrong arity")
        binds, parts = [], []
        for i, a in enumerate(args):
            if pieces[i]:
                parts.append(coq_string(pieces[i]))
            b, t, ty = self.expr(a, env)
            if ty != "S":
                fail(e, "%s of a non-string")
            binds += b
            parts.append(t)
        if pieces[-1]:
            parts.append(coq_string(pieces[-1]))
        t = parts[-1]
        for p in reversed(parts[:-1]):
            t = "(%s ++ %s)" % (p, t)
        return binds, t, "S"

    def compare(self, e, env):
        operands = [e.left] + list(e.comparators)
        if len(operands) > 3:
            fail(e, "comparison chain longer than 2")
        if len(operands) == 3 and not isinstance(operands[1], (ast.Name, ast.Constant)):
            fail(e, "chained comparison with a non-atomic middle operand")
        tr = [self.int_or_expr(o, env) for o in operands]
        # a op b evaluates a then b (no short circuit); in a op b op c the third
        # operand is only evaluated when a op b holds
        if len(tr) == 3 and tr[2][0]:
            fail(e, "effectful last operand in a chained comparison")
        binds = tr[0][0] + tr[1][0]
        parts = []
        for i, op in enumerate(e.ops):
            (_, t1, ty1), (_, t2, ty2) = tr[i], tr[i + 1]
            if isinstance(op, ast.Eq):
                if "M" not in (ty1, ty2) and ty1 != ty2:
                    fail(e, "== between different static types")
                if ty1 == "T" and ty2 == "T":
                    parts.append("(st_eqb N %s %s)" % (t1, t2))     # tuple ==: component-wise
                    continue
                if "T" in (ty1, ty2):
                    parts.append("false")                           # a tuple never equals a bound method object
                    continue
                parts.append("(py_eqb N %s %s)" % (self.inj(t1, ty1), self.inj(t2, ty2)))
                continue
            if ty1 != "F" or ty2 != "F":
                fail(e, "ordering comparison on non-floats")
            if isinstance(op, ast.Lt):
                parts.append("(fl_ltb N %s %s)" % (t1, t2))
            elif isinstance(op, ast.LtE):
                parts.append("(fl_leb N %s %s)" % (t1, t2))
            elif isinstance(op, ast.Gt):
                parts.append("(fl_ltb N %s %s)" % (t2, t1))
            elif isinstance(op, ast.GtE):
                parts.append("(fl_leb N %s %s)" % (t2, t1))
            else:
                fail(e, "comparison operator")
        t = parts[0] if len(parts) == 1 else "(andb %s %s)" % (parts[0], parts[1])
        return binds, t, "B"

    def call(self, e, env):
        f = e.func
        if e.keywords:
            fail(e, "keyword arguments")
        # float("inf"), float(x), str(x)
        if isinstance(f, ast.Name) and f.id == "float" and len(e.args) == 1:
            a = e.args[0]
            if isinstance(a, ast.Constant) and isinstance(a.value, str):
                if a.value == "inf":
                    return [], "FPInf", "F"
                if a.value == "-inf":
                    return [], "FNInf", "F"
                fail(e, "float of a string literal")
            b, t, ty = self.expr(a, env)
            if ty != "F":
                fail(e, "float() of a non-float")
            v = self.new()
            return b + [(v, "py_float N %s" % t)], v, "F"
        if isinstance(f, ast.Name) and f.id == "set" and not e.args:
            return [], "zs_empty", "ZS"
        if isinstance(f, ast.Name) and f.id == "sum" and len(e.args) == 1:
            b, t, ty = self.expr(e.args[0], env)
            if ty != "LF":
                fail(e, "sum of something that is not a list of floats")
            return b, "(fl_sum N %s)" % t, "F"
        if isinstance(f, ast.Name) and f.id == "str" and len(e.args) == 1:
            b, t, ty = self.expr(e.args[0], env)
            if ty != "S":
                fail(e, "str() of a non-string")
            v = self.new()
            return b + [(v, "py_str %s" % t)], v, "S"
        if isinstance(f, ast.Attribute) and isinstance(f.value, ast.Name) and f.value.id == "math" and len(e.args) == 1:
            fn = {"log": "py_log", "log1p": "py_log1p", "exp": "py_exp"}.get(f.attr)
            if fn is None:
                fail(e, "math function")
            b, t, ty = self.expr(e.args[0], env)
            if ty != "F":
                fail(e, "math function on non-float")
            v = self.new()
            return b + [(v, "%s N %s" % (fn, t))], v, "F"
        if isinstance(f, ast.Attribute) and isinstance(f.value, ast.Name) and f.value.id == "self":
            name = f.attr
            if name not in SIG:
                fail(e, "call of a method outside the interface table")
            if name not in self.emitted:
                fail(e, "call of %s before its definition (ORDER)" % name)
            ptypes, rty = self.sig[name]
            binds, args = [], []
            if len(e.args) > len(ptypes):
                fail(e, "too many arguments")
            for a, pt in zip(e.args, ptypes):
                if pt == "K":
                    continue   # dropped parameter: the argument expression is not evaluated
                b, t, ty = self.expr(a, env)
                want = pt
                if ty != want:
                    fail(e, "argument type %s where %s is expected" % (ty, want))
                binds += b
                args.append(t)
            need = [pt for pt in ptypes if pt != "K"]
            if len(args) != len(need):
                fail(e, "missing arguments")
            v = self.new()
            rt = rty
            return binds + [(v, " ".join(["%s_%s" % (self.p, name)] + [x for x, _ in self.extra] + args))], v, rt
        fail(e, "call")

    # ---- monadic expression text
    def wrap(self, binds, tail):
        out = tail
        for v, m in reversed(binds):
            out = "%s <- %s ;;\n%s" % (v, m, out)
        return out

    def mexpr(self, e, env, want):
        b, t, ty = self.expr(e, env)
        if ty != want:
            fail(e, "expression of type %s where %s is expected" % (ty, want))
        if b and b[-1][0] == t:
            return self.wrap(b[:-1], b[-1][1])
        return self.wrap(b, "ret %s" % t)

    # ---- statements
    def block(self, stmts, env, rty):
        """Translate a statement list that must end in return/raise on every path."""
        if not stmts:
            raise TranslationError("control reaches the end of a method without return/raise")
        st, rest = stmts[0], stmts[1:]
        if isinstance(st, ast.Expr) and isinstance(st.value, ast.Constant) and isinstance(st.value.value, str):
            return self.block(rest, env, rty)
        if isinstance(st, ast.Pass):
            return self.block(rest, env, rty)
        if isinstance(st, ast.Return):
            if rest:
                fail(st, "statements after return")
            if st.value is None:
                fail(st, "bare return")
            return self.mexpr(st.value, env, rty)
        if isinstance(st, ast.Raise):
            if rest:
                fail(st, "statements after raise")
            exc = st.exc
            if isinstance(exc, ast.Call):
                exc = exc.func
            if not isinstance(exc, ast.Name) or exc.id not in EXCEPTIONS or st.cause is not None:
                fail(st, "raise")
            return "Raise %s" % EXCEPTIONS[exc.id]
        if isinstance(st, ast.Assign):
            if len(st.targets) != 1 or not isinstance(st.targets[0], ast.Name):
                fail(st, "assignment target")
            name = st.targets[0].id
            b, t, ty = self.expr(st.value, env)
            env2 = dict(env)
            env2[name] = ty
            cn = coq_ident(name)
            if b and b[-1][0] == t:
                b = b[:-1] + [(cn, b[-1][1])]
            else:
                b = b + [(cn, "ret %s" % t)]
            return self.wrap(b, self.block(rest, env2, rty))
        if isinstance(st, ast.For):
            # for w in ws: s = <expr(s, w)>
            if st.orelse or not isinstance(st.target, ast.Name) or not isinstance(st.iter, ast.Name):
                fail(st, "for loop shape")
            if env.get(st.iter.id) != "L":
                fail(st, "for loop over a non-list")
            if len(st.body) != 1 or not isinstance(st.body[0], ast.Assign) or len(st.body[0].targets) != 1 \
                    or not isinstance(st.body[0].targets[0], ast.Name):
                fail(st, "for loop body")
            acc = st.body[0].targets[0].id
            if acc not in env:
                fail(st, "loop accumulator not initialised")
            env2 = dict(env)
            env2[st.target.id] = self.kind
            body = self.mexpr(st.body[0].value, env2, env[acc])
            ca, cw = coq_ident(acc), coq_ident(st.target.id)
            m = "fold_res (fun %s %s => %s) %s %s" % (ca, cw, body, coq_ident(st.iter.id), ca)
            return "%s <- %s ;;\n%s" % (ca, m, self.block(rest, env, rty))
        if isinstance(st, ast.If):
            b, t, ty = self.expr(st.test, env)
            if ty != "B":
                fail(st, "if on non-bool")
            then = self.block(st.body, env, rty)
            if st.orelse:
                if rest:
                    fail(st, "statements after if/else")
                els = self.block(st.orelse, env, rty)
            else:
                els = self.block(rest, env, rty)   # body ended in return/raise (checked by block)
            return self.wrap(b, "(if %s then (%s) else (%s))" % (t, then, els))
        fail(st, "statement")

    def method(self, name):
        cls, fn = self.find_method(name)
        if fn is None:
            raise TranslationError("method %s not found in MRO of %s" % (name, self.chain[0].name))
        ptypes, rty = self.sig[name]
        a = fn.args
        if a.vararg or a.kwarg or a.kwonlyargs or a.posonlyargs or fn.decorator_list:
            fail(fn, "signature")
        params = [x.arg for x in a.args]
        if not params or params[0] != "self" or len(params) - 1 != len(ptypes):
            fail(fn, "parameter list does not match the interface table")
        ndef = len(a.defaults)
        for i, d in enumerate(a.defaults):
            pt = ptypes[len(ptypes) - ndef + i]
            if pt not in ("K", "Z") or not (isinstance(d, ast.Constant) and d.value is None):
                fail(fn, "default value on a parameter that is neither dropped nor a key")
        env, sig = {}, ["(%s : %s)" % x for x in self.extra]
        for pn, pt in zip(params[1:], ptypes):
            if pt == "K":
                env[pn] = "K"
                continue
            env[pn] = pt
            sig.append("(%s : %s)" % (coq_ident(pn), coq_type(pt, self.kind)))
        self.fresh = 0
        want = rty
        body = self.block(fn.body, env, want)
        head = "Definition %s_%s %s : res %s :=" % (self.p, name, " ".join(sig), coq_type(rty, self.kind))
        src = "(* %s.%s, defined in class %s, lines %d-%d *)" % (self.chain[0].name, name, cls.name, fn.lineno, fn.end_lineno)
        return "%s\n%s\n%s.\n" % (src, head.replace("  ", " "), indent(body))


def indent(text, n=2):
    return "\n".join(" " * n + l for l in text.split("\n"))


HEADER = """(* GENERATED by gen/c12_semiring.py from %(path)s (sha1 %(sha)s) - do not edit.
   Monadic Gallina image of the semiring classes, one definition per
   (concrete class, interface method), inheritance resolved by the MRO.
   Abstractions: floats = NaN/-inf/+inf/number of [NumOps]; decimal literals are
   exact rationals; math.exp does not overflow; float(a)/str(a) are the identity
   on evaluated values; exception arguments are not evaluated; `key`/`formula`
   parameters are dropped.  Skipped methods: %(skipped)s *)
From Coq Require Import ZArith String List Bool.
From PL.C12 Require Import ModelPy ModelPySet.
Import ListNotations.
Local Open Scope string_scope.

"""

HEADER_STATE = """(* ===== %(path)s (sha1 %(sha)s): state semirings, carrier = (probability, set of literal keys)
   = fl N * list Z over ModelPySet.v.  `key` is an integer (default None not modelled); tuple == is
   component-wise (identity shortcut on NaN not modelled); sum([...]) is the left fold of + from 0;
   the inherited value() is float(a), a bare float. ===== *)
"""


def translate(repo):
    import hashlib
    path = os.path.join(repo, "problog", "evaluator.py")
    with open(path) as f:
        src = f.read()
    tree = ast.parse(src)
    classes = {}
    for st in tree.body:
        if isinstance(st, ast.ClassDef) and st.name in ("Semiring", "SemiringProbability", "SemiringLogProbability", "SemiringSymbolic"):
            if st.name == "Semiring":
                if not (len(st.bases) == 1 and isinstance(st.bases[0], ast.Name) and st.bases[0].id == "object"):
                    fail(st, "Semiring base")
            classes[st.name] = ClassInfo(st, classes)
    gen = ast.parse(GENERIC_SRC).body[0]
    classes["GenericSubclass"] = ClassInfo(gen, classes)
    for need in ("Semiring", "SemiringProbability", "SemiringLogProbability", "SemiringSymbolic"):
        if need not in classes:
            raise TranslationError("class %s not found" % need)
    # every method of every class in scope must be in SIG or SKIP
    for c in classes.values():
        for m in c.methods:
            if m not in SIG and m not in SKIP:
                raise TranslationError("method %s.%s is neither in the interface table nor in the skip list" % (c.name, m))
    out = [HEADER % {"path": "problog/evaluator.py", "sha": hashlib.sha1(src.encode()).hexdigest()[:12],
                     "skipped": "; ".join("%s (%s)" % kv for kv in sorted(SKIP.items()))}]
    index = []
    for pyname, prefix, kind in CLASSES:
        chain = mro(classes, pyname)
        out.append("(* ===== class %s : MRO %s ===== *)" % (pyname, " -> ".join(c.name for c in chain)))
        emitted = set()
        mt = MethodTranslator(prefix, kind, chain, emitted, {})
        for m in ORDER:
            out.append(mt.method(m))
            emitted.add(m)
            index.append((prefix, m, mt.find_method(m)[0].name))
    # synthetic subclass: inherits every default; constants are section variables
    out.append("(* ===== synthetic subclass defining only one()/zero() (returning the explicit parameters g_one / g_zero): exercises the inherited defaults ===== *)")
    chain = mro(classes, "GenericSubclass")
    emitted = set()
    mt = MethodTranslator("generic", "F", chain, emitted, {"G_ONE": ("g_one", "F"), "G_ZERO": ("g_zero", "F")},
                          extra=[("g_one", "(fl N)"), ("g_zero", "(fl N)")])
    for m in ORDER:
        out.append(mt.method(m))
        emitted.add(m)
        index.append(("generic", m, mt.find_method(m)[0].name))
    # state semirings of problog/tasks/mpe.py
    mpath = os.path.join(repo, "problog", "tasks", "mpe.py")
    with open(mpath) as f:
        msrc = f.read()
    mtree = ast.parse(msrc)
    imported = False
    for st in mtree.body:
        if isinstance(st, ast.ImportFrom) and (st.module, st.level) in (("problog.evaluator", 0), ("evaluator", 2)) \
                and any(a.name == "Semiring" and a.asname is None for a in st.names):
            imported = True
        if isinstance(st, ast.ClassDef) and st.name in ("Semiring",) + tuple(c for c, _ in STATE_CLASSES):
            if st.name == "Semiring":
                fail(st, "mpe.py redefines Semiring")
            classes[st.name] = ClassInfo(st, classes)
    if not imported:
        raise TranslationError("problog/tasks/mpe.py does not import Semiring from problog.evaluator")
    out.append(HEADER_STATE % {"path": "problog/tasks/mpe.py", "sha": hashlib.sha1(msrc.encode()).hexdigest()[:12]})
    for pyname, prefix in STATE_CLASSES:
        if pyname not in classes:
            raise TranslationError("class %s not found in problog/tasks/mpe.py" % pyname)
        for m in classes[pyname].methods:
            if m not in SIG and m not in SKIP:
                raise TranslationError("method %s.%s is neither in the interface table nor in the skip list" % (pyname, m))
        chain = mro(classes, pyname)
        out.append("(* ===== class %s : MRO %s ===== *)" % (pyname, " -> ".join(c.name for c in chain)))
        emitted = set()
        mt = MethodTranslator(prefix, "T", chain, emitted, {})
        for m in ORDER:
            out.append(mt.method(m))
            emitted.add(m)
            index.append((prefix, m, mt.find_method(m)[0].name))
    out.append("(* resolution table (class prefix, method, defining class):\n%s *)\n"
               % "\n".join("   %s %s %s" % t for t in index))
    return "\n".join(out), index


if __name__ == "__main__":
    import sys
    text, _ = translate(sys.argv[1] if len(sys.argv) > 1 else os.environ.get("VERIF_REPO", "/repo"))
    print(text)
