"""C01ground -- per-instance validation of the stage  program -> LogicFormula  (the tabled
grounding engine) with the VERIFIED validator coq/theories/C01ground/Model.v (validate_ground;
soundness and composition with C01_pipeline_correct_real_layout in C01ground/Proofs.v).

For one gen_program.Prog this module
  * builds the REAL LogicFormula (LogicFormula.create_from(PrologString(src))) and dumps it: nodes with
    signed children, atom nodes with identifier / group / is_extra / probability, names with labels;
  * maps the program-level choice identities to formula atoms:
      - a ground probabilistic fact without body is compiled by ClauseDB.add_fact to a `fact` node; the
        engine calls add_atom(identifier = index of that fact node, group=None)   (engine_stack.eval_fact);
      - every other probabilistic clause / annotated disjunction is compiled by ClauseDB._compile to
        `choice` nodes; the engine calls add_atom(identifier = (group, result, choice), group = (group,
        result)) where group = database index at which the AD was compiled, result = values of ALL clause
        variables numbered by first occurrence (heads, then body), choice = head index
        (engine_stack.eval_choice); the extra "none" atom of a group has is_extra=True.
    The k-th probabilistic statement of the source is the k-th such event (fact node with a probability /
    choice node with choice 0) in database order.
  * lists the ground AD instances in the order of Sem's `ground` (statement order; substitutions with
    variable 0 outermost over the Herbrand domain in the order of Coq's `nodup`: last occurrences) and
    gives every (instance, head) the key of its atom node as identifier, or a fresh identifier when the
    engine never created that atom; weights of real atoms come from the FORMULA, weights of fresh
    identifiers from the program (the validator compares all of them with the program's probabilities);
  * computes the certificates (reachable key set, stratification levels) and encodes the request.
"""
import itertools
import os
import sys
from fractions import Fraction

HARNESS = os.path.join(os.path.dirname(os.path.dirname(os.path.abspath(__file__))), "harness")
if HARNESS not in sys.path:
    sys.path.insert(0, HARNESS)

import gen_program as gp  # noqa: E402
import sem_oracle as so  # noqa: E402

EXTRACT_V = """From Coq Require Import NArith QArith List Bool.
Require Import PL.Sem.Program PL.Sem.Sem PL.C09.BoolGraph PL.C09.Strat PL.C01pipe.PipeModel PL.C01ground.Model.
Require Extraction.
Require ExtrOcamlBasic.
Extraction Language OCaml.
Set Extraction Output Directory ".".
Extraction "oracle.ml" wf_program validate_ground ground evid_eqb shapeb wfxb coneb wprog_of qkeys ekeys stratb.
"""

# the s-expression reader of the program is the one of harness/sem_oracle.py (same request encoding)
_SEM_PARSER = so.DRIVER_ML[so.DRIVER_ML.index("open Oracle"):so.DRIVER_ML.index("let show_atom")]

DRIVER_ML = _SEM_PARSER + r"""
let toks : string list ref = ref []
let next () = match !toks with [] -> failwith "eof" | x :: r -> toks := r; int_of_string x
let rec rep n f = if n = 0 then [] else let x = f () in x :: rep (n - 1) f
let rlist f = let n = next () in rep n f
let rz () = z_of_int (next ())
let rn () = n_of_int (next ())
let rnat () = nat_of_int (next ())
let rnode () = match next () with
  | 0 -> NAtom (rn ())
  | 1 -> NAnd (rlist rz)
  | 2 -> NOr (rlist rz)
  | _ -> failwith "node"
let rkey () = match next () with 0 -> None | _ -> Some (rz ())
let rgatom () = let p = rn () in let args = rlist rn in (p, args)
let rq () = let n = rz () in let d = pos_of_int (next ()) in { qnum = n; qden = d }

let handle line =
  match String.index_opt line '|' with
  | None -> "err NoSeparator"
  | Some i ->
    let sx_text = String.sub line 0 i in
    let rest = String.sub line (i + 1) (String.length line - i - 1) in
    let (sx, _) = parse_one (tokenize sx_text) in
    let p = prog_of sx in
    if not (wf_program p) then "err IllFormed" else begin
      toks := List.filter (fun s -> s <> "") (String.split_on_char ' ' (String.trim rest));
      let g = rlist rnode in
      let wt = rlist (fun () -> let id = rn () in let q = rq () in (id, q)) in
      let cm = rlist (fun () -> let ids = rlist rn in let ex = rn () in (ids, ex)) in
      let qn = rlist (fun () -> let a = rgatom () in let k = rkey () in (a, k)) in
      let en = rlist (fun () -> let a = rgatom () in let v = next () <> 0 in let k = rkey () in ((a, v), k)) in
      let sk = rlist rnat in
      let lv = rlist rnat in
      let f = { fd_graph = g; fd_wt = wt } in
      if validate_ground p f cm qn en sk lv then "1"
      else begin
        (* diagnosis only: which side condition fails (the verdict above is the verified function's) *)
        let gp = ground p in
        let w = wprog_of f cm in
        let why =
          if not (evid_eqb (List.map fst en) gp.g_evid) then "evidence-names"
          else if not (shapeb wt gp.g_clauses cm) then "choice-map-shape-or-weights"
          else if not (wfxb cm) then "identifiers-not-distinct"
          else if not (coneb w (List.append (qkeys qn) (ekeys en)) sk) then "cone"
          else if not (stratb g lv) then "stratification"
          else "worlds" in
        "0 " ^ why
      end
    end

let () =
  try
    while true do
      let line = input_line stdin in
      let out = try handle line with e -> "err Exn:" ^ Printexc.to_string e in
      print_string out; print_newline ()
    done
  with End_of_file -> ()
"""


class Unmappable(Exception):
    pass


def build(ctx):
    return ctx.ocaml_oracle("c01ground", EXTRACT_V, DRIVER_ML)


# ---------------------------------------------------------------- program side (order of Sem.Program.ground)
def coq_domain(prog):
    """Constants in the order of Coq's `nodup N.eq_dec (flat_map consts_stmt P)` (keeps LAST occurrences)."""
    occ = []
    for s in prog.stmts:
        for a in gp.stmt_atoms(s):
            occ += gp.atom_consts(a)
    return [c for i, c in enumerate(occ) if c not in occ[i + 1:]]


def nvars(s):
    vs = [v for a in gp.stmt_atoms(s) for v in gp.atom_vars(a)]
    return max(vs) + 1 if vs else 0


def problog_var_order(s):
    """ClauseDB._compile numbers the variables of an AD by first occurrence: heads (in order), then body."""
    order = {}
    for a in gp.stmt_atoms(s):
        for v in gp.atom_vars(a):
            if v not in order:
                order[v] = len(order)
    return order


def n_worlds(prog):
    dom = coq_domain(prog)
    w, inst = 1, 0
    for s in prog.stmts:
        if s[0] == "ad":
            k = len(dom) ** nvars(s)
            inst += k
            w *= (len(s[1]) + 1) ** k
            if w > 10 ** 9:
                break
    return w, inst


def inst_atom(a, subst):
    return (a[0], tuple(subst[t[1]] if t[0] == "v" else t[1] for t in a[1]))


def gatom_str(g):
    return g[0] if not g[1] else "%s(%s)" % (g[0], ",".join(g[1]))


# ---------------------------------------------------------------- formula side
def dump(prog):
    """Runs the real engine.  Returns a JSON-able dict (see encode)."""
    from problog.program import PrologString
    from problog.engine import DefaultEngine
    from problog.formula import LogicFormula
    src = prog.text()
    eng = DefaultEngine()
    db = eng.prepare(PrologString(src))
    lf = LogicFormula.create_from(db, engine=eng)

    # probabilistic statements <-> database events, in order
    events = []
    for i in range(len(db)):
        nd = db.get_node(i)
        t = type(nd).__name__
        if t == "fact" and nd.probability is not None:
            events.append(("fact", i))
        elif t == "choice" and nd.choice == 0:
            events.append(("grp", nd.group))
    ads = [(si, s) for si, s in enumerate(prog.stmts) if s[0] == "ad"]
    if len(events) != len(ads):
        raise Unmappable("%d probabilistic statements, %d database events" % (len(ads), len(events)))
    fact_of, grp_of = {}, {}
    for (si, s), (kind, x) in zip(ads, events):
        if kind == "fact":
            if len(s[1]) != 1 or s[2] or nvars(s):
                raise Unmappable("fact node for a statement that is not a ground probabilistic fact")
            fact_of[x] = si
        else:
            grp_of[x] = si

    nodes, atom_key, extra_key, weights = [], {}, {}, {}
    for k, n in enumerate(lf._nodes, start=1):
        t = type(n).__name__
        if t == "atom":
            nodes.append(("atom", k))          # identifier of an atom node := its own key
            ident = n.identifier
            if n.is_extra:
                g = n.group
                if not (isinstance(g, tuple) and len(g) == 2 and g[0] in grp_of):
                    raise Unmappable("extra atom with unknown group %r" % (g,))
                s = prog.stmts[grp_of[g[0]]]
                extra_key[(grp_of[g[0]], _subst_of(s, g[1]))] = k
                continue
            if isinstance(ident, int) and n.group is None:
                if ident not in fact_of:
                    raise Unmappable("atom identifier %r is not a probabilistic fact node" % (ident,))
                key = (fact_of[ident], (), 0)
            elif isinstance(ident, tuple) and len(ident) == 3 and ident[0] in grp_of and n.group == ident[:2]:
                si = grp_of[ident[0]]
                key = (si, _subst_of(prog.stmts[si], ident[1]), int(ident[2]))
            else:
                raise Unmappable("atom identifier %r / group %r" % (ident, n.group))
            if key in atom_key:
                raise Unmappable("two atoms for one choice %r" % (key,))
            atom_key[key] = k
            weights[k] = Fraction(str(float(n.probability)))
        elif t in ("conj", "disj"):
            nodes.append((t, tuple(int(c) for c in n.children)))
        else:
            raise Unmappable("node type " + t)
    names = [(str(q), (None if k is None else int(k)), str(l)) for q, k, l in lf.get_names_with_label()]
    return {"nodes": nodes, "atom_key": sorted(atom_key.items()), "extra_key": sorted(extra_key.items()),
            "weights": sorted(weights.items()), "names": names}


def _subst_of(s, result):
    """values of the statement's variables (gen_program numbering) from the engine's `result` tuple"""
    order = problog_var_order(s)
    n = nvars(s)
    if len(result) != len(order) or len(order) != n:
        raise Unmappable("result %r for a statement with %d variables" % (result, n))
    vals = []
    for j in range(n):
        r = result[order[j]]
        if r is None or not getattr(r, "is_constant", lambda: False)() and getattr(r, "arity", 1) != 0:
            raise Unmappable("non-ground / non-constant choice argument %r" % (r,))
        vals.append(str(r))
    return tuple(vals)


# ---------------------------------------------------------------- request
def encode(prog, d):
    """-> (request line, info) for the extracted validator."""
    preds, consts, _, _ = prog._tables()
    dom = coq_domain(prog)
    nodes = d["nodes"]
    atom_key = dict((tuple(_t(k)), v) for k, v in d["atom_key"])
    extra_key = dict((tuple(_t(k)), v) for k, v in d["extra_key"])
    weights = dict(d["weights"])
    fresh = [len(nodes)]

    def new_id():
        fresh[0] += 1
        return fresh[0]

    cm, used = [], set()
    for si, s in enumerate(prog.stmts):
        if s[0] != "ad":
            continue
        for subst in itertools.product(dom, repeat=nvars(s)):
            ids = []
            for h, (p, _) in enumerate(s[1]):
                k = atom_key.get((si, tuple(subst), h))
                if k is None:
                    k = new_id()
                    weights[k] = Fraction(p)
                else:
                    used.add((si, tuple(subst), h))
                ids.append(k)
            ex = extra_key.get((si, tuple(subst)))
            cm.append((ids, ex if ex is not None else new_id()))
    stray = [k for k in atom_key if k not in used]
    if stray:
        raise Unmappable("formula atoms for choices that are not ground instances over the Herbrand domain: %r" % (stray[:3],))

    def enc_gatom(g):
        try:
            return "%d %d%s" % (preds[(g[0], len(g[1]))], len(g[1]), "".join(" %d" % consts[c] for c in g[1]))
        except KeyError:
            raise Unmappable("name %s is not over the program's vocabulary" % gatom_str(g))

    def enc_key(k):
        return "0" if k is None else "1 %d" % k

    byname = {}
    for q, k, l in d["names"]:
        byname.setdefault(l, {})[q] = k
    qn, seen = [], set()
    for q, k in byname.get("query", {}).items():
        g = _parse_gatom(q)
        if k is None and any(c not in consts for c in g[1]):
            # a non-ground query without any answer is named by the non-ground term itself (key None);
            # its ground instances are added below (they must be false in every world)
            continue
        qn.append((g, k))
        seen.add(g)
    # ground instances of the queries that the engine does not report: they must be false in every world
    for s in prog.stmts:
        if s[0] == "query":
            for subst in itertools.product(dom, repeat=nvars(s)):
                g = inst_atom(s[1], subst)
                if g not in seen:
                    seen.add(g)
                    qn.append((g, None))
    en = []
    for s in prog.stmts:
        if s[0] == "evid":
            g = inst_atom(s[1], ())
            tbl = byname.get("evidence+" if s[2] else "evidence-", {})
            if gatom_str(g) not in tbl:
                raise Unmappable("evidence %s has no name in the formula" % gatom_str(g))
            en.append((g, s[2], tbl[gatom_str(g)]))

    # certificates
    roots = [k for _, k in qn] + [k for _, _, k in en]
    sk, todo = set(), [abs(k) for k in roots if k]
    while todo:
        k = todo.pop()
        if k in sk:
            continue
        sk.add(k)
        nd = nodes[k - 1]
        if nd[0] != "atom":
            todo += [abs(c) for c in nd[1] if c != 0]
    n = len(nodes)
    lv = [0] * (n + 1)
    for _ in range(n + 2):
        changed = False
        for k, nd in enumerate(nodes, start=1):
            if nd[0] == "atom":
                continue
            for c in nd[1]:
                if c == 0:
                    continue
                need = lv[abs(c)] + (1 if c < 0 else 0)
                if lv[k] < need:
                    lv[k] = need
                    changed = True
        if not changed:
            break
    lv = [min(x, n + 2) for x in lv]

    def enc_node(nd):
        if nd[0] == "atom":
            return "0 %d" % nd[1]
        return "%d %d%s" % (1 if nd[0] == "conj" else 2, len(nd[1]), "".join(" %d" % c for c in nd[1]))

    toks = [str(len(nodes))] + [enc_node(nd) for nd in nodes]
    toks.append(str(len(weights)))
    toks += ["%d %d %d" % (k, w.numerator, w.denominator) for k, w in sorted(weights.items())]
    toks.append(str(len(cm)))
    toks += ["%d%s %d" % (len(ids), "".join(" %d" % i for i in ids), ex) for ids, ex in cm]
    toks.append(str(len(qn)))
    toks += ["%s %s" % (enc_gatom(g), enc_key(k)) for g, k in qn]
    toks.append(str(len(en)))
    toks += ["%s %d %s" % (enc_gatom(g), 1 if v else 0, enc_key(k)) for g, v, k in en]
    toks.append(str(len(sk)))
    toks += [str(k) for k in sorted(sk)]
    toks.append(str(len(lv)))
    toks += [str(x) for x in lv]
    info = {"nodes": n, "atoms": len(atom_key), "instances": len(cm), "names": len(qn) + len(en),
            "fresh": fresh[0] - n}
    return prog.sexp() + " | " + " ".join(toks), info


def _t(x):
    return tuple(_t(y) for y in x) if isinstance(x, (list, tuple)) else x


def _parse_gatom(s):
    s = s.replace(" ", "")
    if "(" not in s:
        return (s, ())
    name, _, rest = s.partition("(")
    return (name, tuple(rest[:-1].split(",")))
