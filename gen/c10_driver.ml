(* Unverified glue: reads one request per line, calls the extracted C10 model.
   line :=  n  NN node*  NC clause*  NW wvec*  NL label*
   node := "A" v | "C" k ref*k | "D" k ref*k         ref := "T" | "F" | "P" i | "N" i
   clause := k lit*k (signed ints)      wvec := n * (pnum pden nnum nden)
   label := key ref       key := "KT" | "KF" | "KL" v b(0/1)
   answer :=  wf struct cover det equiv all ; eval wmc ; ... ; lab lab ...     *)
open Oracle

let rec nat_of_int n = if n <= 0 then O else S (nat_of_int (n - 1))
let z_of_string s =
  let neg = String.length s > 0 && s.[0] = '-' in
  let acc = ref Z0 in
  String.iteri (fun i c -> if not (i = 0 && neg) then
    acc := zmul10add !acc (zdigit (nat_of_int (Char.code c - 48)))) s;
  if neg then zneg !acc else !acc
let rec int_of_nat = function O -> 0 | S k -> 1 + int_of_nat k
let string_of_z z =
  if zis0 z then "0" else begin
    let neg = zisneg z in
    let z = ref (if neg then zneg z else z) in
    let b = Buffer.create 32 in
    let digits = ref [] in
    while not (zis0 !z) do
      let (q, r) = zdivmod10 !z in
      digits := (int_of_nat (zsmall r)) :: !digits; z := q
    done;
    if neg then Buffer.add_char b '-';
    List.iter (fun d -> Buffer.add_char b (Char.chr (48 + d))) !digits;
    Buffer.contents b end
let string_of_qc q = string_of_z (qc_num q) ^ "/" ^ string_of_z (zofpos (qc_den q))

let () =
  try
    while true do
      let line = input_line stdin in
      let toks = Array.of_list (List.filter (fun s -> s <> "") (String.split_on_char ' ' line)) in
      let p = ref 0 in
      let next () = let t = toks.(!p) in incr p; t in
      let nexti () = int_of_string (next ()) in
      let rref () = match next () with
        | "T" -> RT | "F" -> RF
        | "P" -> RPos (nat_of_int (nexti ()))
        | "N" -> RNeg (nat_of_int (nexti ()))
        | t -> failwith ("bad ref " ^ t) in
      let rec times k f = if k <= 0 then [] else let x = f () in x :: times (k - 1) f in
      let n = nexti () in
      let nn = nexti () in
      let circ = times nn (fun () -> match next () with
        | "A" -> Atom (nat_of_int (nexti ()))
        | "C" -> let k = nexti () in Conj (times k rref)
        | "D" -> let k = nexti () in Disj (times k rref)
        | t -> failwith ("bad node " ^ t)) in
      let nc = nexti () in
      let cnf = times nc (fun () -> let k = nexti () in
        times k (fun () -> let l = nexti () in (nat_of_int (abs l), l > 0))) in
      let nw = nexti () in
      let wvs = times nw (fun () -> times n (fun () ->
        let pn = z_of_string (next ()) in let pd = ztopos (z_of_string (next ())) in
        let nn_ = z_of_string (next ()) in let nd = ztopos (z_of_string (next ())) in
        (mkq pn pd, mkq nn_ nd))) in
      let nl = nexti () in
      let labs = times nl (fun () ->
        let k = match next () with
          | "KT" -> KTrue | "KF" -> KFalse
          | "KL" -> let v = nexti () in let b = nexti () in KLit (nat_of_int v, b = 1)
          | t -> failwith ("bad key " ^ t) in
        let r = rref () in (k, r)) in
      let nn_ = nat_of_int n in
      let b x = if x then "1" else "0" in
      let all = o_all nn_ circ cnf in
      let head =
        if all then "1 1 1 1 1 1"
        else String.concat " " [b (o_wf circ); b (o_struct nn_ circ); b (o_cover nn_ circ);
                                b (o_det nn_ circ); b (o_equiv nn_ circ cnf); "0"] in
      let evs = List.map (fun wv -> string_of_qc (o_eval circ wv) ^ " " ^ string_of_qc (o_wmc nn_ cnf wv)) wvs in
      let ls = String.concat " " (List.map (fun (k, r) -> b (o_label circ k r)) labs) in
      print_string (String.concat ";" ([head] @ evs @ [ls]));
      print_newline ()
    done
  with End_of_file -> ()
