"""C16 translator: problog/logic.py `_arithmetic_functions` + compute_function  ->  Gallina.

Fail-closed: every AST shape that is not explicitly recognised raises TranslationError.
Every key of the table is accounted for: it is either translated to a Gallina
function over PL.C16.PyNum (Python int = Z, Python float = exact rational) or to a
*named* opaque libm entry (`py_libm1 "sin"`), never skipped.

Output: text of coq/theories/C16/GenArithTable.v (see `translate(repo)`).
"""
import ast
import math
import os
import sys


class TranslationError(Exception):
    pass


def fail(node, msg):
    line = getattr(node, "lineno", "?")
    raise TranslationError("logic.py:%s: %s: %s" % (line, msg, ast.dump(node)[:300] if isinstance(node, ast.AST) else node))


_MANGLE = {"+": "plus", "-": "minus", "*": "star", "/": "slash", "\\": "bslash", "<": "lt", ">": "gt",
           "#": "hash", "^": "caret", "=": "eq", "~": "tilde", "|": "bar", "&": "amp", "%": "pct"}


def mangle(name, arity):
    parts = []
    word = ""
    for ch in name:
        if ch.isalnum() or ch == "_":
            word += ch
        elif ch in _MANGLE:
            if word:
                parts.append(word)
                word = ""
            parts.append(_MANGLE[ch])
        else:
            raise TranslationError("cannot mangle function name %r" % name)
    if word:
        parts.append(word)
    return "fn_%s_%d" % ("_".join(parts), arity)


def coq_string(s):
    if any(ord(c) < 32 or ord(c) > 126 for c in s):
        raise TranslationError("non printable-ASCII function name %r" % s)
    return '"' + s.replace('"', '""') + '"%string'


def coq_z(n):
    return "(%d)%%Z" % n


def coq_q_of_float(x):
    if x != x or x in (float("inf"), float("-inf")):
        raise TranslationError("non-finite float literal")
    num, den = x.as_integer_ratio()
    return "((%d) # %d)%%Q" % (num, den)


BINOPS = {ast.Add: "py_add", ast.Sub: "py_sub", ast.Mult: "py_mul", ast.Div: "py_truediv",
          ast.FloorDiv: "py_floordiv", ast.Mod: "py_mod", ast.Pow: "py_pow", ast.LShift: "py_lshift",
          ast.RShift: "py_rshift", ast.BitAnd: "py_and", ast.BitOr: "py_or", ast.BitXor: "py_xor"}
UNOPS = {ast.USub: "py_neg", ast.Invert: "py_invert", ast.UAdd: "py_pos"}
CMPOPS = {ast.Lt: "py_lt", ast.Gt: "py_gt", ast.LtE: "py_le", ast.GtE: "py_ge", ast.Eq: "py_eq", ast.NotEq: "py_ne"}
BUILTIN1 = {"int": "py_int", "float": "py_float", "abs": "py_abs", "round": "py_round"}
BUILTIN2 = {"min": "py_min", "max": "py_max"}
MATH_EXACT1 = {"ceil": "py_math_ceil", "floor": "py_math_floor", "trunc": "py_math_trunc"}
# every other attribute of `math` used as a function is libm: named, opaque
MATH_CONST = {"pi": math.pi, "e": math.e}


def is_attr(node, base, attr=None):
    return (isinstance(node, ast.Attribute) and isinstance(node.value, ast.Name) and node.value.id == base
            and (attr is None or node.attr == attr))


def tr_pure_val(node, env):
    """An operand of a comparison inside a conditional expression: parameter or int literal."""
    if isinstance(node, ast.Name) and node.id in env:
        return env[node.id]
    if isinstance(node, ast.Constant) and type(node.value) is int:
        return "(VInt %s)" % coq_z(node.value)
    fail(node, "comparison operand is neither a lambda parameter nor an int literal")


def tr_expr(node, env):
    """Python expression over the lambda parameters -> Coq term of type `pres`."""
    if isinstance(node, ast.Name):
        if node.id in env:
            return "(POk %s)" % env[node.id]
        fail(node, "free variable in lambda body")
    if isinstance(node, ast.Constant):
        if type(node.value) is int:
            return "(int %s)" % coq_z(node.value)
        if type(node.value) is float:
            return "(flt %s)" % coq_q_of_float(node.value)
        fail(node, "unsupported literal")
    if isinstance(node, ast.BinOp):
        op = BINOPS.get(type(node.op))
        if op is None:
            fail(node, "unsupported binary operator")
        return "(l2 %s %s %s)" % (op, tr_expr(node.left, env), tr_expr(node.right, env))
    if isinstance(node, ast.UnaryOp):
        op = UNOPS.get(type(node.op))
        if op is None:
            fail(node, "unsupported unary operator")
        return "(l1 %s %s)" % (op, tr_expr(node.operand, env))
    if isinstance(node, ast.IfExp):
        t = node.test
        if not (isinstance(t, ast.Compare) and len(t.ops) == 1 and len(t.comparators) == 1):
            fail(node, "condition is not a single comparison")
        op = CMPOPS.get(type(t.ops[0]))
        if op is None:
            fail(node, "unsupported comparison operator")
        c = "(%s %s %s)" % (op, tr_pure_val(t.left, env), tr_pure_val(t.comparators[0], env))
        return "(py_if %s %s %s)" % (c, tr_expr(node.body, env), tr_expr(node.orelse, env))
    if isinstance(node, ast.Call):
        if node.keywords:
            fail(node, "keyword arguments")
        f = node.func
        if isinstance(f, ast.Name) and f.id == "float" and len(node.args) == 1 and isinstance(node.args[0], ast.Constant) \
                and isinstance(node.args[0].value, str):
            if node.args[0].value.strip().lower() in ("inf", "+inf", "-inf", "nan", "infinity"):
                return "(POk VNonFinite)"
            fail(node, "float() of an unknown string")
        if isinstance(f, ast.Name) and f.id in BUILTIN1 and len(node.args) == 1:
            return "(l1 %s %s)" % (BUILTIN1[f.id], tr_expr(node.args[0], env))
        if isinstance(f, ast.Name) and f.id in BUILTIN2 and len(node.args) == 2:
            return "(l2 %s %s %s)" % (BUILTIN2[f.id], tr_expr(node.args[0], env), tr_expr(node.args[1], env))
        if is_attr(f, "math") and f.attr in MATH_EXACT1 and len(node.args) == 1:
            return "(l1 %s %s)" % (MATH_EXACT1[f.attr], tr_expr(node.args[0], env))
        fail(node, "unsupported call")
    if is_attr(node, "math") and node.attr in MATH_CONST:
        return "(flt %s)" % coq_q_of_float(MATH_CONST[node.attr])
    if isinstance(node, ast.Attribute) and node.attr == "epsilon" and is_attr(node.value, "sys", "float_info"):
        return "(flt %s)" % coq_q_of_float(sys.float_info.epsilon)
    fail(node, "unsupported expression")


def tr_value(name, arity, node):
    """A value of the table -> (kind, coq binder list, coq body, opaque?)."""
    params = ["p%d" % i for i in range(arity)]
    if isinstance(node, ast.Lambda):
        a = node.args
        if a.vararg or a.kwarg or a.kwonlyargs or a.defaults or a.kw_defaults or a.posonlyargs:
            fail(node, "lambda with non-plain parameters")
        if len(a.args) != arity:
            fail(node, "lambda arity differs from the key arity %d" % arity)
        env = {x.arg: p for x, p in zip(a.args, params)}
        if len(env) != arity:
            fail(node, "duplicate lambda parameter")
        return params, tr_expr(node.body, env), False
    if isinstance(node, ast.Name):
        if node.id in BUILTIN1 and arity == 1:
            return params, "(l1 %s (POk p0))" % BUILTIN1[node.id], False
        if node.id in BUILTIN2 and arity == 2:
            return params, "(l2 %s (POk p0) (POk p1))" % BUILTIN2[node.id], False
        fail(node, "unsupported builtin as table value (arity %d)" % arity)
    if is_attr(node, "math"):
        return tr_math(node, node.attr, arity, params)
    fail(node, "unsupported table value")


def tr_math(node, attr, arity, params):
    if attr in MATH_EXACT1 and arity == 1:
        return params, "(l1 %s (POk p0))" % MATH_EXACT1[attr], False
    if not hasattr(math, attr) or not callable(getattr(math, attr)):
        fail(node, "math.%s is not a function" % attr)
    if arity == 1:
        return params, "(py_libm1 %s p0)" % coq_string(attr), True
    if arity == 2:
        return params, "(py_libm2 %s p0 p1)" % coq_string(attr), True
    fail(node, "libm function with arity %d" % arity)


def key_of(node):
    if not (isinstance(node, ast.Tuple) and len(node.elts) == 2 and isinstance(node.elts[0], ast.Constant)
            and isinstance(node.elts[0].value, str) and isinstance(node.elts[1], ast.Constant)
            and type(node.elts[1].value) is int and 0 <= node.elts[1].value <= 2):
        fail(node, "table key is not a (str, 0..2) literal")
    return node.elts[0].value, node.elts[1].value


def mentions(node, name):
    return any(isinstance(n, ast.Name) and n.id == name for n in ast.walk(node))


# --- the parts of logic.py whose exact shape the hand-written evaluator (ModelEval.v) relies on.
EXPECTED = {
    "unquote": '''
def unquote(s):
    return s.strip("'")
''',
    "compute_function": '''
def compute_function(func, args, extra_functions=None):
    if extra_functions is None:
        extra_functions = {}

    function = _arithmetic_functions.get((unquote(func), len(args)))
    if function is None:
        function = extra_functions.get((unquote(func), len(args)))
        if function is None:
            raise ArithmeticError("Unknown function '%s'/%s" % (func, len(args)))
    try:
        values = [arg.compute_value(extra_functions) for arg in args]
        if None in values:
            return None
        else:
            return function(*values)
    except PLACEHOLDER:
        pass
''',
    "Term.compute_value": '''
def compute_value(self, functions=None):
    return compute_function(self.functor, self.args, functions)
''',
    "Constant.compute_value": '''
def compute_value(self, functions=None):
    return self.functor
''',
    "Var.compute_value": '''
def compute_value(self, functions=None):
    raise InstantiationError(
        "Variables do not support evaluation: {}.".format(self.name)
    )
''',
}
PYEXC = ["ZeroDivisionError", "ValueError", "TypeError", "OverflowError"]


def strip_doc(fn):
    fn = ast.parse(ast.unparse(fn)).body[0]
    if fn.body and isinstance(fn.body[0], ast.Expr) and isinstance(fn.body[0].value, ast.Constant) \
            and isinstance(fn.body[0].value.value, str):
        fn.body = fn.body[1:]
    fn.decorator_list = []
    return fn


def same_shape(fn, expected_src):
    exp = ast.parse(expected_src).body[0]
    return ast.dump(strip_doc(fn)) == ast.dump(exp)


def handlers_of(fn):
    """compute_function: returns the set of Python exception names that are re-raised as
    problog ArithmeticError; checks everything else against EXPECTED."""
    fn = strip_doc(fn)
    tries = [s for s in fn.body if isinstance(s, ast.Try)]
    if len(tries) != 1 or tries[0].orelse or tries[0].finalbody:
        fail(fn, "compute_function: expected exactly one plain try statement")
    caught = []
    for h in tries[0].handlers:
        if h.type is None:
            fail(h, "bare except in compute_function")
        names = h.type.elts if isinstance(h.type, ast.Tuple) else [h.type]
        for n in names:
            if not (isinstance(n, ast.Name) and n.id in PYEXC):
                fail(h, "handler for an exception class the model does not know")
            caught.append(n.id)
        if not (len(h.body) == 1 and isinstance(h.body[0], ast.Raise) and isinstance(h.body[0].exc, ast.Call)
                and isinstance(h.body[0].exc.func, ast.Name) and h.body[0].exc.func.id == "ArithmeticError"
                and h.body[0].cause is None):
            fail(h, "handler body is not `raise ArithmeticError(...)`")
    exp = ast.parse(EXPECTED["compute_function"]).body[0]
    ph = ast.parse("try:\n pass\nexcept PLACEHOLDER:\n pass").body[0].handlers
    tries[0].handlers = ph
    if ast.dump(fn) != ast.dump(exp):
        fail(fn, "compute_function no longer has the shape ModelEval.v models")
    return caught


def find_method(tree, cls, name):
    for n in tree.body:
        if isinstance(n, ast.ClassDef) and n.name == cls:
            for m in n.body:
                if isinstance(m, ast.FunctionDef) and m.name == name:
                    return m
    raise TranslationError("class %s has no method %s" % (cls, name))


def translate(repo):
    path = os.path.join(repo, "problog", "logic.py")
    with open(path) as f:
        src = f.read()
    tree = ast.parse(src)
    T = "_arithmetic_functions"
    entries = {}     # key -> (lineno, source text, node kind, value node / math attr)
    order = []
    dups = []
    str_lists = {}
    seen_table = False

    def put(key, lineno, text, value):
        if key in entries:
            dups.append((key, entries[key][0], lineno))
        else:
            order.append(key)
        entries[key] = (lineno, text, value)

    for st in tree.body:
        if isinstance(st, (ast.FunctionDef, ast.ClassDef)):
            if isinstance(st, ast.FunctionDef) and st.name == "compute_function":
                continue
            if mentions(st, T):
                fail(st, "%s used outside compute_function" % T)
            continue
        # list literals of strings that a later `for` may iterate over
        if isinstance(st, ast.Assign) and len(st.targets) == 1 and isinstance(st.targets[0], ast.Name) \
                and isinstance(st.value, ast.List) and all(isinstance(e, ast.Constant) and isinstance(e.value, str) for e in st.value.elts):
            if st.targets[0].id in str_lists:
                fail(st, "string list reassigned")
            str_lists[st.targets[0].id] = [e.value for e in st.value.elts]
            continue
        if not mentions(st, T):
            continue
        if isinstance(st, ast.Assign) and len(st.targets) == 1 and isinstance(st.targets[0], ast.Name) and st.targets[0].id == T:
            if seen_table or not isinstance(st.value, ast.Dict):
                fail(st, "table is not assigned exactly once from a dict literal")
            seen_table = True
            for k, v in zip(st.value.keys, st.value.values):
                if k is None:
                    fail(st, "dict unpacking in table")
                put(key_of(k), k.lineno, ast.unparse(k) + ": " + ast.unparse(v), v)
            continue
        if isinstance(st, ast.Assign) and len(st.targets) == 1 and isinstance(st.targets[0], ast.Subscript) \
                and isinstance(st.targets[0].value, ast.Name) and st.targets[0].value.id == T and seen_table:
            if mentions(st.value, T):
                fail(st, "table read in an update")
            put(key_of(st.targets[0].slice), st.lineno, ast.unparse(st), st.value)
            continue
        if isinstance(st, ast.For) and isinstance(st.target, ast.Name) and isinstance(st.iter, ast.Name) \
                and st.iter.id in str_lists and not st.orelse and len(st.body) == 1 and seen_table:
            b = st.body[0]
            v = st.target.id
            ok = (isinstance(b, ast.Assign) and len(b.targets) == 1 and isinstance(b.targets[0], ast.Subscript)
                  and isinstance(b.targets[0].value, ast.Name) and b.targets[0].value.id == T
                  and isinstance(b.targets[0].slice, ast.Tuple) and len(b.targets[0].slice.elts) == 2
                  and isinstance(b.targets[0].slice.elts[0], ast.Name) and b.targets[0].slice.elts[0].id == v
                  and isinstance(b.targets[0].slice.elts[1], ast.Constant) and type(b.targets[0].slice.elts[1].value) is int
                  and isinstance(b.value, ast.Call) and isinstance(b.value.func, ast.Name) and b.value.func.id == "getattr"
                  and len(b.value.args) == 2 and not b.value.keywords
                  and isinstance(b.value.args[0], ast.Name) and b.value.args[0].id == "math"
                  and isinstance(b.value.args[1], ast.Name) and b.value.args[1].id == v)
            if not ok:
                fail(st, "unsupported loop over the table")
            ar = b.targets[0].slice.elts[1].value
            if not 0 <= ar <= 2:
                fail(st, "arity out of range")
            for name in str_lists[st.iter.id]:
                put((name, ar), b.lineno, "%s[(%r, %d)] = getattr(math, %r)" % (T, name, ar, name), ("math", name))
            continue
        fail(st, "unrecognised statement touching %s" % T)
    if not seen_table:
        raise TranslationError("no %s dict literal in logic.py" % T)

    # the evaluator's skeleton
    fns = {n.name: n for n in tree.body if isinstance(n, ast.FunctionDef)}
    for name in ("unquote", "compute_function"):
        if name not in fns:
            raise TranslationError("logic.py has no function %s" % name)
    if not same_shape(fns["unquote"], EXPECTED["unquote"]):
        fail(fns["unquote"], "unquote changed")
    caught = handlers_of(fns["compute_function"])
    for cls in ("Term", "Constant", "Var"):
        if not same_shape(find_method(tree, cls, "compute_value"), EXPECTED[cls + ".compute_value"]):
            fail(find_method(tree, cls, "compute_value"), "%s.compute_value changed" % cls)

    out = []
    out.append("(* GENERATED by gen/c16_arith.py from problog/logic.py -- do not edit.")
    out.append("   One definition per key of `_arithmetic_functions` (%d keys; later duplicates of a key win, as in Python). *)" % len(order))
    out.append("From Coq Require Import ZArith QArith String List.")
    out.append("From PL.C16 Require Import PyNum.")
    out.append("Import ListNotations.")
    out.append("Open Scope Z_scope.")
    out.append("")
    names = {}
    table = []
    opaque = []
    for key in order:
        name, arity = key
        lineno, text, value = entries[key]
        ident = mangle(name, arity)
        if ident in names:
            raise TranslationError("mangled name clash: %r and %r" % (key, names[ident]))
        names[ident] = key
        if isinstance(value, tuple):
            params, body, opq = tr_math(ast.parse("0").body[0], value[1], arity, ["p%d" % i for i in range(arity)])
        else:
            params, body, opq = tr_value(name, arity, value)
        if opq:
            opaque.append(key)
        out.append("(* logic.py:%d  %s *)" % (lineno, text.replace("(*", "( *").replace("*)", "* )")))
        binders = (" (" + " ".join(params) + " : val)") if params else ""
        out.append("Definition %s%s : pres := %s." % (ident, binders, body))
        table.append("(%s, F%d %s)" % (coq_string(name), arity, ident))
    out.append("")
    for key, l1, l2 in dups:
        out.append("(* duplicate key %r at logic.py:%d overridden by logic.py:%d *)" % (key, l1, l2))
    out.append("Definition arith_table : list (string * fn) :=\n  [ " + ";\n    ".join(table) + " ].")
    out.append("")
    out.append("(* compute_function: Python exceptions re-raised as problog ArithmeticError: %s *)" % ", ".join(caught))
    out.append("Definition cf_catches (e : pyexc) : bool :=\n  match e with\n" + "\n".join(
        "  | Py%s => %s" % (e, "true" if e in caught else "false") for e in PYEXC) + "\n  end.")
    out.append("")
    info = {"keys": order, "opaque": opaque, "duplicates": [(k, a, b) for k, a, b in dups], "caught": caught,
            "idents": {v: k for k, v in names.items()}}
    return "\n".join(out) + "\n", info


if __name__ == "__main__":
    text, info = translate(sys.argv[1] if len(sys.argv) > 1 else os.environ.get("VERIF_REPO", "/repo"))
    sys.stdout.write(text)
    sys.stderr.write("keys=%d opaque=%d dups=%d caught=%s\n" % (len(info["keys"]), len(info["opaque"]), len(info["duplicates"]), info["caught"]))
