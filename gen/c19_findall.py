"""C19 helper: record what the real findall/3 and all/3 builtins do on a program.

`capture(src)` grounds `src` with the real engine while
  * problog.engine_builtin._builtin_findall_base / _builtin_all,
  * problog.engine_builtin._select_sublist,
  * LogicFormula.enumerate_branches (top-level calls only),
  * the engine.call made by the builtin (to see the (term, node) results)
are wrapped by recorders that call the ORIGINAL code (nothing of /repo is replaced or edited;
the wrappers are removed again in a finally block).  Everything returned is plain data.
"""
import itertools


def dump_formula(f):
    """[(kind, payload)]: ("atom", identifier_repr, det) with det in (None, True, False) for
    probabilistic / deterministically true / deterministically false; ("conj"|"disj", children)."""
    out = []
    for n in f._nodes:
        t = type(n).__name__
        if t == "atom":
            det = True if n.probability is None else (False if n.probability is False else None)
            out.append(("atom", repr(n.identifier), det))
        elif t in ("conj", "disj"):
            out.append((t, list(n.children)))
        else:
            raise ValueError("unknown node type %r" % t)
    return out


def capture(src, timeout=30):
    import problog.engine_builtin as ebm
    from problog.formula import LogicFormula
    from problog.program import PrologString
    from problog.engine import DefaultEngine
    import pl

    calls = []
    stack = []
    orig_base = ebm._builtin_findall_base
    orig_all = ebm._builtin_all
    orig_enum = LogicFormula.enumerate_branches
    orig_sel = ebm._select_sublist

    def wrap_enum(self, index, anc=()):
        out = [(mx, list(b)) for mx, b in orig_enum(self, index, anc)]
        if anc == () and stack and stack[-1]["kind"] == "findall":
            rec = stack[-1]
            rec["_src"] = self
            try:
                mult = self.get_node_multiplicity(index)
            except RecursionError:
                mult = "RecursionError"
            rec["enum"].append((index, out, mult))
        return iter(out)

    def wrap_sel(lst, target):
        out = [(tuple(l), tuple(n)) for l, n in orig_sel(lst, target)]
        if stack and "lst" not in stack[-1]:
            stack[-1]["lst"] = [(str(t), n) for t, n in lst]
            stack[-1]["entries"] = [([str(t) for t in l], list(n)) for l, n in out]
        return iter(out)

    def builtin_wrapper(kind, orig):
        def wrapped(pattern, goal, result, **kw):
            rec = {"kind": kind, "enum": [], "allow_none": bool(kw.get("allow_none", False))}
            engine = kw.get("engine")
            target = kw.get("target")
            depth = [0]
            saved = engine.__dict__.get("call")
            orig_call = engine.call

            def call_rec(*a, **k):
                depth[0] += 1
                try:
                    r = orig_call(*a, **k)
                finally:
                    depth[0] -= 1
                if depth[0] == 0 and "results" not in rec:
                    r = list(r)
                    rec["results"] = [(str(res[0]), n) for res, n in r]
                return r
            engine.call = call_rec
            stack.append(rec)
            try:
                out = orig(pattern, goal, result, **kw)
            finally:
                stack.pop()
                if saved is None:
                    del engine.call
                else:
                    engine.call = saved
            rec["out"] = [(str(args[2]), node) for args, node in out]
            if "entries" in rec:
                # target.add_and is idempotent here (node reuse by content): pair entries with outputs
                # (the entry all/3 skips is not touched: the code never builds a node for it)
                rec["cn"] = ["skip" if (kind == "all" and not l and not rec["allow_none"]) else target.add_and(n)
                             for l, n in rec["entries"]]
            rec["target"] = dump_formula(target)
            src_f = rec.pop("_src", None)
            rec["src"] = dump_formula(src_f) if src_f is not None else []
            calls.append(rec)
            return out
        return wrapped

    ebm._builtin_findall_base = builtin_wrapper("findall", orig_base)
    ebm._builtin_all = builtin_wrapper("all", orig_all)
    ebm._select_sublist = wrap_sel
    LogicFormula.enumerate_branches = wrap_enum
    try:
        def go():
            DefaultEngine().ground_all(PrologString(src))
        try:
            pl.with_timeout(go, timeout)
        except BaseException as e:  # noqa
            if isinstance(e, (KeyboardInterrupt, SystemExit)):
                raise
            return ("err", pl.err_class(e), calls)
    finally:
        ebm._builtin_findall_base = orig_base
        ebm._builtin_all = orig_all
        ebm._select_sublist = orig_sel
        LogicFormula.enumerate_branches = orig_enum
    return ("ok", None, calls)


# ------------------------------------------------------------------ semantics of a dumped formula
class Cyclic(Exception):
    pass


def is_acyclic(nodes):
    state = {}

    def visit(k):
        if state.get(k) == 1:
            raise Cyclic()
        if state.get(k) == 2:
            return
        state[k] = 1
        n = nodes[k - 1]
        if n[0] != "atom":
            for c in n[1]:
                if c is None:
                    raise ValueError("FALSE child")
                if c != 0:
                    visit(abs(c))
        state[k] = 2
    try:
        for k in range(1, len(nodes) + 1):
            visit(k)
    except Cyclic:
        return False
    return True


def atom_ids(nodes):
    """identifiers of the probabilistic atoms"""
    return [n[1] for n in nodes if n[0] == "atom" and n[2] is None]


class Unsupported(Exception):
    """negation through a cycle: no least-model reading"""


def sccs(nodes):
    """strongly connected components of the child relation, children first (Tarjan)"""
    index, low, on, stack, out, cnt = {}, {}, set(), [], [], [0]

    def visit(v):
        index[v] = low[v] = cnt[0]
        cnt[0] += 1
        stack.append(v)
        on.add(v)
        n = nodes[v - 1]
        if n[0] != "atom":
            for c in n[1]:
                if c is None or c == 0:
                    continue
                w = abs(c)
                if w not in index:
                    visit(w)
                    low[v] = min(low[v], low[w])
                elif w in on:
                    low[v] = min(low[v], index[w])
        if low[v] == index[v]:
            comp = []
            while True:
                w = stack.pop()
                on.discard(w)
                comp.append(w)
                if w == v:
                    break
            out.append(comp)
    for k in range(1, len(nodes) + 1):
        if k not in index:
            visit(k)
    return out


def evaluator(nodes, assign):
    """value of a key (None / 0 / +-k) of a dumped formula under `assign` (identifier_repr -> bool);
    deterministic atoms have their fixed value.  Cyclic formulas: least model, component by component
    (Kleene iteration inside a component); a negative edge inside a component raises Unsupported.
    On acyclic formulas this is the plain bottom-up value."""
    val = {}

    def lit(c):
        if c is None:
            return False
        if c == 0:
            return True
        return val[c] if c > 0 else not val[-c]

    def step(k):
        n = nodes[k - 1]
        if n[0] == "atom":
            return n[2] if n[2] is not None else assign[n[1]]
        if n[0] == "conj":
            return all(lit(c) for c in n[1])
        return any(lit(c) for c in n[1])

    for comp in sccs(nodes):
        cs = set(comp)
        for k in comp:
            n = nodes[k - 1]
            if n[0] != "atom" and any(c is not None and c < 0 and -c in cs for c in n[1]):
                raise Unsupported()
            val[k] = False
        changed = True
        while changed:
            changed = False
            for k in comp:
                if not val[k] and step(k):
                    val[k] = True
                    changed = True
    return lit


def assignments(ids):
    for bits in itertools.product([False, True], repeat=len(ids)):
        yield dict(zip(ids, bits))


# ------------------------------------------------------------------ generator
def gen_rich_program(rng):
    """Acyclic propositional program: probabilistic facts, optionally one AD and a deterministic
    fact, intermediate predicates t0.. (several clauses, negation), answer predicate p/1 whose
    clause bodies use facts, AD atoms, t's and their negations; query over findall/3, all/3 or
    all_or_none/3."""
    nf = rng.randint(1, 3)
    lines = ["0.%d::f%d." % (rng.randint(1, 9), i) for i in range(nf)]
    lits = ["f%d" % i for i in range(nf)]
    if rng.random() < 0.35:
        lines.append("0.3::a0; 0.4::a1.")
        lits += ["a0", "a1"]
    if rng.random() < 0.4:
        lines.append("d.")
        lits.append("d")
    nt = rng.randint(0, 2)
    defined = []
    for t in range(nt):
        for _ in range(rng.randint(1, 2)):
            body = rng.sample(lits + defined, rng.randint(1, min(2, len(lits + defined))))
            body = [("\\+" + b) if rng.random() < 0.3 else b for b in body]
            lines.append("t%d :- %s." % (t, ", ".join(body)))
        defined.append("t%d" % t)
    pool = lits + defined
    ncl = rng.randint(1, 4)
    for _ in range(ncl):
        v = rng.choice(["a", "b", "c"])
        k = rng.randint(0, min(2, len(pool)))
        body = rng.sample(pool, k)
        body = [("\\+" + b) if rng.random() < 0.3 else b for b in body]
        lines.append("p(%s)%s." % (v, (" :- " + ", ".join(body)) if body else ""))
    kind = rng.choice(["findall", "findall", "all", "all_or_none"])
    lines.append("q(L) :- %s(X, p(X), L)." % kind)
    lines.append("query(q(_)).")
    return "\n".join(lines), kind


def gen_relational_program(rng):
    """Non-ground, acyclic: probabilistic edges of a small DAG over a<b<c<d, a two-step path
    predicate (several proofs per answer, answers sharing sub-proofs), findall/all over a
    partially bound goal with a compound or plain template, one call per binding of an outer
    variable in half of the programs (several builtin calls per program)."""
    names = ["a", "b", "c", "d"]
    pairs = [(x, y) for i, x in enumerate(names) for y in names[i + 1:]]
    edges = rng.sample(pairs, rng.randint(2, 4))
    lines = []
    for x, y in edges:
        if rng.random() < 0.2:
            lines.append("e(%s,%s)." % (x, y))
        else:
            lines.append("0.%d::e(%s,%s)." % (rng.randint(1, 9), x, y))
    lines.append("p(X,Y) :- e(X,Y).")
    if rng.random() < 0.8:
        lines.append("p(X,Y) :- e(X,Z), e(Z,Y).")
    if rng.random() < 0.3:
        lines.append("p(X,Y) :- e(X,Y), \\+e(a,b).")
    kind = rng.choice(["findall", "findall", "all", "all_or_none"])
    shape = rng.randint(0, 2)
    if shape == 0:
        lines.append("q(L) :- %s(Y, p(%s,Y), L)." % (kind, rng.choice(["a", "b"])))
        lines.append("query(q(_)).")
    elif shape == 1:
        lines.append("q(L) :- %s(X-Y, p(X,Y), L)." % kind)
        lines.append("query(q(_)).")
    else:
        lines.append("s(a). s(b).")
        lines.append("q(S,L) :- s(S), %s(Y, p(S,Y), L)." % kind)
        lines.append("query(q(_,_)).")
    return "\n".join(lines), kind


def gen_cyclic_program(rng):
    """Recursive goal over a small digraph WITH cycles (probabilistic edges): the findall_target is a
    cyclic formula, enumerate_branches relies on its cycle guard."""
    names = ["a", "b", "c"]
    pairs = [(x, y) for x in names for y in names if x != y]
    edges = rng.sample(pairs, rng.randint(2, 4))
    lines = ["0.%d::e(%s,%s)." % (rng.randint(1, 9), x, y) for x, y in edges]
    if rng.random() < 0.5:
        lines += ["r(X) :- e(a,X).", "r(X) :- r(Y), e(Y,X)."]
    else:
        lines += ["r(X) :- e(a,X).", "r(X) :- e(Y,X), r(Y)."]
    kind = rng.choice(["findall", "findall", "findall", "all"])
    lines.append("q(L) :- %s(X, r(X), L)." % kind)
    lines.append("query(q(_)).")
    return "\n".join(lines), kind


CYCLIC_WITNESS = """0.5::e(a,b). 0.5::e(b,c). 0.5::e(c,b). 0.5::e(a,c).
r(X) :- e(a,X).
r(X) :- r(Y), e(Y,X).
q(L) :- findall(X, r(X), L).
query(q(_))."""
