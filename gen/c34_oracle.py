"""C34: extraction of the three container models to OCaml + line-oriented drivers (unverified glue).

Protocol: one request per line, tokens are decimal integers separated by blanks, the first token is a
mode letter.  One answer line per request: a flat, prefix-coded (hence injective) sequence of integers.
The harness serialises the observations of the real classes with the same code (ser_* below) and
compares the two strings; a wrong decoder/printer can only make the comparison fail, not pass.
"""

COMMON_ML = r"""
open Oracle
let rec nat_of_int i = if i <= 0 then O else S (nat_of_int (i - 1))
let rec int_of_nat = function O -> 0 | S n -> 1 + int_of_nat n
let rec pos_of_int n = if n = 1 then XH else if n land 1 = 1 then XI (pos_of_int (n lsr 1)) else XO (pos_of_int (n lsr 1))
let n_of_int n = if n = 0 then N0 else Npos (pos_of_int n)
let rec int_of_pos = function XH -> 1 | XO p -> 2 * int_of_pos p | XI p -> 2 * int_of_pos p + 1
let int_of_n = function N0 -> 0 | Npos p -> int_of_pos p
let buf = Buffer.create 4096
let emit i = Buffer.add_string buf (string_of_int i); Buffer.add_char buf ' '
let emit_bool b = emit (if b then 1 else 0)
let emit_nlist l = emit (List.length l); List.iter (fun x -> emit (int_of_n x)) l
let toks : int list ref = ref []
let next () = match !toks with x :: r -> toks := r; x | [] -> failwith "short request"
let next_list () = let n = next () in List.init n (fun _ -> n_of_int (next ()))
let main handle =
  try
    while true do
      let line = input_line stdin in
      (match List.filter (fun s -> s <> "") (String.split_on_char ' ' line) with
       | mode :: rest ->
           toks := List.map int_of_string rest;
           Buffer.clear buf;
           handle mode;
           print_string (Buffer.contents buf); print_newline ()
       | [] -> print_newline ())
    done
  with End_of_file -> ()
"""

# ---------------------------------------------------------------- BitVector
BV_EXTRACT = """From Coq Require Import NArith List Extraction ExtrOcamlBasic.
From PL.C34 Require Import BitVectorModel.
Extraction Language OCaml.
Set Extraction Output Directory ".".
Extraction "oracle.ml" bv_trace bv_iand.
"""

BV_DRIVER = COMMON_ML + r"""
let rec read_ops () =
  match !toks with
  | [] -> []
  | _ ->
    let c = next () in
    let o = (match c with
      | 0 -> let r = next () in let x = next () in OAdd (nat_of_int r, n_of_int x)
      | 1 -> let d = next () in let a = next () in let b = next () in OAnd (nat_of_int d, nat_of_int a, nat_of_int b)
      | 2 -> let d = next () in let a = next () in let b = next () in OOr (nat_of_int d, nat_of_int a, nat_of_int b)
      | 3 -> let a = next () in let b = next () in OIand (nat_of_int a, nat_of_int b)
      | 4 -> let a = next () in let b = next () in OIor (nat_of_int a, nat_of_int b)
      | _ -> failwith "op") in
    o :: read_ops ()
let handle _mode =
  let ops = read_ops () in
  let tr = bv_trace bv_iand [[]; []; []] ops in
  List.iter (fun step ->
    emit (List.length step);
    List.iter (fun ((it, ln), b) -> emit_nlist it; emit (int_of_n ln); emit_bool b) step) tr
let () = main handle
"""


def bv_ops_ints(ops):
    out = []
    code = {"add": 0, "and": 1, "or": 2, "iand": 3, "ior": 4}
    for o in ops:
        out.append(code[o[0]])
        out.extend(int(x) for x in o[1:])
    return out


def bv_ser_trace(trace):
    out = []
    for step in trace:
        out.append(len(step))
        for (it, ln, b) in step:
            out.append(len(it))
            out.extend(it)
            out.append(ln)
            out.append(1 if b else 0)
    return out


# ---------------------------------------------------------------- OrderedSet
OS_EXTRACT = """From Coq Require Import NArith List Extraction ExtrOcamlBasic.
From PL.C34 Require Import OrderedSetModel.
Extraction Language OCaml.
Set Extraction Output Directory ".".
Extraction "oracle.ml" otrace oregs0 srun oset_mapkeys orun.
"""

OS_DRIVER = COMMON_ML + r"""
let rec read_ops () =
  match !toks with
  | [] -> []
  | _ ->
    let c = next () in
    let nn () = nat_of_int (next ()) in
    let kk () = n_of_int (next ()) in
    let o = (match c with
      | 0 -> let r = nn () in let k = kk () in OAdd (r, k)
      | 1 -> let r = nn () in let k = kk () in ODiscard (r, k)
      | 2 -> let r = nn () in let l = next () in OPop (r, l <> 0)
      | 3 -> let r = nn () in let k = kk () in OContains (r, k)
      | 4 -> let r = nn () in let a = nn () in OIor (r, a)
      | 5 -> let r = nn () in let l = next_list () in OIorList (r, l)
      | 6 -> let d = nn () in let l = next_list () in OFromList (d, l)
      | 7 -> let d = nn () in let a = nn () in let b = nn () in OOr (d, a, b)
      | 8 -> let d = nn () in let a = nn () in let b = nn () in OAnd (d, a, b)
      | 9 -> let d = nn () in let a = nn () in let b = nn () in OSub (d, a, b)
      | 10 -> let d = nn () in let a = nn () in let l = next_list () in OSubSet (d, a, l)
      | 11 -> let r = nn () in let a = nn () in OIsub (r, a)
      | 12 -> let r = nn () in let a = nn () in OIand (r, a)
      | 13 -> let a = nn () in let b = nn () in OEq (a, b)
      | 14 -> let a = nn () in let l = next_list () in OEqSet (a, l)
      | _ -> failwith "op") in
    o :: read_ops ()
let emit_out = function
  | RNone -> emit 0
  | RBool b -> emit 1; emit_bool b
  | RKey k -> emit 2; emit (int_of_n k)
  | RKeyError -> emit 3
let emit_olist = function None -> emit (-1) | Some l -> emit_nlist l
let handle mode =
  let ops = read_ops () in
  match mode with
  | "T" ->   (* pointer model, step by step: out, then (iter, reversed, len) per register *)
    List.iter (function
      | None -> emit (-1)
      | Some (out, obs) ->
          emit_out out; emit (List.length obs);
          List.iter (fun ((it, rv), n) -> emit_olist it; emit_olist rv; emit (int_of_nat n)) obs) (otrace oregs0 ops)
  | "S" ->   (* list specification: final lists, all outs *)
    let (ls, outs) = srun ops in
    emit (List.length ls); List.iter emit_nlist ls;
    emit (List.length outs); List.iter emit_out outs
  | "M" ->   (* dict order of self.map in the final state *)
    (match orun ops with
     | None -> emit (-1)
     | Some (rs, _) -> emit (List.length rs); List.iter (fun s -> emit_nlist (oset_mapkeys s)) rs)
  | _ -> failwith "mode"
let () = main handle
"""

OS_CODE = {"add": 0, "discard": 1, "pop": 2, "contains": 3, "ior": 4, "iorlist": 5, "fromlist": 6, "or": 7,
           "and": 8, "sub": 9, "subset": 10, "isub": 11, "iand": 12, "eq": 13, "eqset": 14}


def os_ops_ints(ops):
    out = []
    for o in ops:
        out.append(OS_CODE[o[0]])
        for x in o[1:]:
            if isinstance(x, (list, tuple)):
                out.append(len(x))
                out.extend(int(y) for y in x)
            else:
                out.append(int(x))
    return out


def os_ser_out(out):
    if out is None:
        return [0]
    if out == "KeyError":
        return [3]
    if out is True or out is False:
        return [1, 1 if out else 0]
    return [2, int(out)]


def os_ser_trace(trace):
    res = []
    for out, obs in trace:
        res.extend(os_ser_out(out))
        res.append(len(obs))
        for (it, rv, n) in obs:
            res.append(len(it))
            res.extend(it)
            res.append(len(rv))
            res.extend(rv)
            res.append(n)
    return res


def os_ser_spec(trace):
    """final lists + all outs of a python-reference trace"""
    res = []
    final = [i for (i, _, _) in trace[-1][1]] if trace else [[], [], []]
    res.append(len(final))
    for l in final:
        res.append(len(l))
        res.extend(l)
    res.append(len(trace))
    for out, _ in trace:
        res.extend(os_ser_out(out))
    return res


# ---------------------------------------------------------------- UHeap
UH_EXTRACT = """From Coq Require Import NArith List Extraction ExtrOcamlBasic.
From PL.C34 Require Import UHeapModel.
Extraction Language OCaml.
Set Extraction Output Directory ".".
Extraction "oracle.ml" utrace uheap_empty sp_accepts.
"""

UH_DRIVER = COMMON_ML + r"""
let read_op () =
  let c = next () in
  match c with
  | 0 -> let it = next () in let k = next () in UPush (n_of_int it, n_of_int k)
  | 1 -> UPop
  | 2 -> UPopKey
  | 3 -> UPeek
  | 4 -> ULenOp
  | _ -> failwith "op"
let read_out () =
  let c = next () in
  match c with
  | 0 -> let b = next () in UBool (b <> 0)
  | 1 -> let it = next () in UItem (n_of_int it)
  | 2 -> let k = next () in let it = next () in UPair (n_of_int k, n_of_int it)
  | 3 -> UAssert
  | 4 -> let n = next () in ULen (nat_of_int n)
  | _ -> failwith "out"
let emit_out = function
  | UBool b -> emit 0; emit_bool b
  | UItem it -> emit 1; emit (int_of_n it)
  | UPair (k, it) -> emit 2; emit (int_of_n k); emit (int_of_n it)
  | UAssert -> emit 3
  | ULen n -> emit 4; emit (int_of_nat n)
let handle mode =
  match mode with
  | "T" ->   (* T nuniv u1..un nops ops : array+index model step by step *)
    let univ = next_list () in
    let nops = next () in
    let ops = List.init nops (fun _ -> read_op ()) in
    List.iter (function
      | None -> emit (-1)
      | Some (out, (heap, idx)) ->
          emit_out out;
          emit (List.length heap); List.iter (fun (k, it) -> emit (int_of_n k); emit (int_of_n it)) heap;
          emit (List.length idx); List.iter (function None -> emit (-1) | Some i -> emit (int_of_nat i)) idx)
      (utrace univ uheap_empty ops)
  | "A" ->   (* A nops ops outs : does the specification accept these answers *)
    let nops = next () in
    let ops = List.init nops (fun _ -> read_op ()) in
    let outs = List.init nops (fun _ -> read_out ()) in
    emit_bool (sp_accepts [] ops outs)
  | _ -> failwith "mode"
let () = main handle
"""

UH_CODE = {"push": 0, "pop": 1, "popkey": 2, "peek": 3, "len": 4}


def uh_ops_ints(ops):
    out = []
    for o in ops:
        out.append(UH_CODE[o[0]])
        out.extend(int(x) for x in o[1:])
    return out


def uh_ser_out(out):
    if out[0] == "bool":
        return [0, 1 if out[1] else 0]
    if out[0] == "item":
        return [1, int(out[1])]
    if out[0] == "pair":
        return [2, int(out[1]), int(out[2])]
    if out[0] == "assert":
        return [3]
    return [4, int(out[1])]


def uh_ser_trace(trace):
    res = []
    for out, (heap, index) in trace:
        res.extend(uh_ser_out(out))
        res.append(len(heap))
        for (k, it) in heap:
            res.extend((int(k), int(it)))
        res.append(len(index))
        res.extend(-1 if i is None else int(i) for i in index)
    return res


def line(mode, ints):
    return mode + " " + " ".join(str(i) for i in ints)


def answer(ints):
    return " ".join(str(i) for i in ints)
