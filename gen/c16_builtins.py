"""C16 harness part 2: between/succ/plus/length/functor/arg/=../atom_number and the type tests.

Every call mode of each builtin (accepted and rejected) on a small term grid, through
DefaultEngine().query; compared with ModelBuiltins.v (vm_compute, variables erased) and judged
against a Python reference of the standard Prolog behaviour (with a small unifier).
"""
import itertools

import vf

HEADER = """From Coq Require Import ZArith QArith String List Bool.
From PL.C16 Require Import GenModes ModelBuiltins.
Import ListNotations.
Open Scope Z_scope.
Fixpoint erase (t : term) : term :=
  match t with TVar _ => TVar 0 | TApp f args => TApp f (map erase args) | other => other end.
Fixpoint tuple_eqb (a b : list term) : bool :=
  match a, b with [], [] => true | x :: a', y :: b' => term_eqb (erase x) (erase y) && tuple_eqb a' b' | _, _ => false end.
Fixpoint sols_eqb (a b : list (list term)) : bool :=
  match a, b with [], [] => true | x :: a', y :: b' => tuple_eqb x y && sols_eqb a' b' | _, _ => false end.
Inductive bobs := BSols (l : list (list term)) | BModeErr | BUnify | BOtherErr.
Definition bres_matches (m : bres) (o : bobs) : bool :=
  match m, o with
  | Sols a, BSols b => sols_eqb a b
  | ModeErr, BModeErr => true
  | RaiseUnify, BUnify => true
  | NotModelled, _ => true
  | _, _ => false
  end.
"""


# ------------------------------------------------------------------ terms
def V(k):
    return ("v", k)


def I(n):
    return ("i", n)


def Fl(x):
    return ("f", float(x))


def S(s):
    return ("s", s)


def T(f, *args):
    return ("t", f, tuple(args))


def L(*xs, tail=None):
    t = T("[]") if tail is None else tail
    for x in reversed(xs):
        t = T(".", x, t)
    return t


NEG = lambda x: T("'-'", x)  # noqa: E731  what `Y = -X` builds at run time


def to_problog(t):
    from problog.logic import Term, Constant
    k = t[0]
    if k == "v":
        return None
    if k in ("i", "f", "s"):
        return Constant(t[1])
    return Term(t[1], *[to_problog(a) for a in t[2]])


def from_problog(x):
    from problog.logic import Term, Constant, Var
    if x is None or isinstance(x, (int, Var)) and not isinstance(x, Constant):
        return V(0)
    if isinstance(x, Constant):
        v = x.functor
        if type(v) is int:
            return I(v)
        if type(v) is float:
            return Fl(v)
        return S(str(v))
    if isinstance(x, Term):
        if isinstance(x.functor, Term) and not isinstance(x.functor, Constant) and x.functor.arity == 0 \
                and isinstance(x.functor.functor, str):
            # functor/3 builds Term(<atom Term>, ...): the functor slot holds a Term; it prints and compares as its name
            return T(x.functor.functor, *[from_problog(a) for a in x.args])
        if not isinstance(x.functor, str):
            return ("weird", repr(x))
        return T(x.functor, *[from_problog(a) for a in x.args])
    return ("weird", repr(x))


def erase(t):
    if t[0] == "v":
        return V(0)
    if t[0] == "t":
        return T(t[1], *[erase(a) for a in t[2]])
    return t


def coq_term(t):
    k = t[0]
    if k == "v":
        return "(TVar %d)" % t[1]
    if k == "i":
        return "(TInt %s)" % vf.coq_Z(t[1])
    if k == "f":
        n, d = t[1].as_integer_ratio()
        return "(TFlt ((%d) # %d)%%Q)" % (n, d)
    if k == "s":
        return "(TStr %s)" % vf.coq_string(t[1])
    if k == "t":
        return "(TApp %s %s)" % (vf.coq_string(t[1]), vf.coq_list([coq_term(a) for a in t[2]]))
    raise ValueError(t)


def weird(t):
    return t[0] == "weird" or (t[0] == "t" and any(weird(a) for a in t[2]))


def show(t):
    k = t[0]
    if k == "v":
        return "_"
    if k == "s":
        return '"%s"' % t[1]
    if k in ("i", "f"):
        return repr(t[1])
    if k == "weird":
        return "<%s>" % t[1]
    if not t[2]:
        return t[1]
    return "%s(%s)" % (t[1], ",".join(show(a) for a in t[2]))


# ------------------------------------------------------------------ running the engine
def observe(c16, name, args):
    from problog.logic import Term
    from problog.engine_builtin import CallModeError
    from problog.engine_unify import UnifyError
    from problog.errors import ProbLogError
    st, r = c16.query(Term(name, *[to_problog(a) for a in args]))
    if st == "exc":
        if isinstance(r, CallModeError):
            return ("modeerr",)
        if isinstance(r, UnifyError):
            return ("unify",)
        if isinstance(r, ProbLogError):
            return ("plerr", type(r).__name__)
        return ("raw", type(r).__name__)
    return ("sols", tuple(tuple(from_problog(x) for x in tup) for tup in r))


def obs_coq(o):
    if o[0] == "sols":
        return "(BSols %s)" % vf.coq_list([vf.coq_list([coq_term(x) for x in tup]) for tup in o[1]])
    return {"modeerr": "BModeErr", "unify": "BUnify"}.get(o[0], "BOtherErr")


# ------------------------------------------------------------------ Prolog reference
class NoUnify(Exception):
    pass


def walk(t, s):
    while t[0] == "v" and t[1] in s:
        t = s[t[1]]
    return t


def unify(a, b, s):
    a, b = walk(a, s), walk(b, s)
    if a == b:
        return s
    if a[0] == "v":
        s = dict(s)
        s[a[1]] = b
        return s
    if b[0] == "v":
        s = dict(s)
        s[b[1]] = a
        return s
    if a[0] == "t" and b[0] == "t" and a[1] == b[1] and len(a[2]) == len(b[2]):
        for x, y in zip(a[2], b[2]):
            s = unify(x, y, s)
        return s
    raise NoUnify()


def subst(t, s):
    t = walk(t, s)
    if t[0] == "t":
        return T(t[1], *[subst(a, s) for a in t[2]])
    return t


def number_vars(args):
    """give every variable occurrence of the input its own name (each None is a distinct variable)"""
    cnt = itertools.count(1)

    def go(t):
        if t[0] == "v":
            return V(next(cnt))
        if t[0] == "t":
            return T(t[1], *[go(a) for a in t[2]])
        return t
    return [go(a) for a in args]


def plist(t):
    """(elements, tail) of a list term"""
    xs = []
    while t[0] == "t" and t[1] == "." and len(t[2]) == 2:
        xs.append(t[2][0])
        t = t[2][1]
    return xs, t


def is_int(t):
    return t[0] == "i"


def ref(name, args):
    """Solutions standard Prolog gives (list of argument tuples), or "error" (an exception: no
    solutions), or None when the call is outside what is judged."""
    args = number_vars(args)
    fresh = itertools.count(1000)

    def sol(*pairs):
        try:
            s = {}
            for a, b in pairs:
                s = unify(a, b, s)
            return [tuple(subst(a, s) for a in args)]
        except NoUnify:
            return []
    if any(a[0] == "t" and a[1] == "'-'" for a in args):
        return None                      # '-'(N) compounds: judged by the type-test class only
    if any(a[0] == "s" for a in args):
        return None                      # double-quoted strings: representation differs between Prologs
    if name == "between":
        l, h, x = args
        if not (is_int(l) and is_int(h)) or x[0] not in ("v", "i"):
            return "error"
        if x[0] == "i":
            return [tuple(args)] if l[1] <= x[1] <= h[1] else []
        return [(l, h, I(v)) for v in range(l[1], h[1] + 1)]
    if name == "succ":
        a, b = args
        if any(t[0] not in ("v", "i") for t in args) or (a[0] == "v" and b[0] == "v"):
            return "error"
        if any(is_int(t) and t[1] < 0 for t in args):
            return "error"               # type_error(not_less_than_zero, _)
        if is_int(a):
            return sol((b, I(a[1] + 1)))
        return sol((a, I(b[1] - 1))) if b[1] > 0 else []
    if name == "plus":
        a, b, c = args
        if any(t[0] not in ("v", "i") for t in args) or sum(t[0] == "v" for t in args) > 1:
            return "error"
        if c[0] == "v":
            return sol((c, I(a[1] + b[1])))
        if b[0] == "v":
            return sol((b, I(c[1] - a[1])))
        if a[0] == "v":
            return sol((a, I(c[1] - b[1])))
        return [tuple(args)] if a[1] + b[1] == c[1] else []
    if name == "length":
        l, n = args
        xs, tail = plist(l)
        if n[0] not in ("v", "i"):
            return "error"
        if tail == T("[]"):
            return sol((n, I(len(xs))))
        if tail[0] != "v":
            return "error" if True else []
        if n[0] == "v":
            return None                  # infinitely many solutions: not a supported mode
        if n[1] < len(xs):
            return []
        return sol((tail, L(*[V(next(fresh)) for _ in range(n[1] - len(xs))])))
    if name == "functor":
        t, f, a = args
        if t[0] == "v":
            if a[0] != "i" or f[0] == "v":
                return "error"
            if a[1] < 0:
                return "error"
            if a[1] == 0:
                return sol((t, f)) if f[0] != "t" or not f[2] else "error"
            if not (f[0] == "t" and not f[2]):
                return "error"
            return sol((t, T(f[1], *[V(next(fresh)) for _ in range(a[1])])))
        if t[0] == "t":
            return sol((f, T(t[1])), (a, I(len(t[2]))))
        return sol((f, t), (a, I(0)))
    if name == "arg":
        n, t, a = args
        if n[0] != "i":
            return None if n[0] == "v" else "error"
        if t[0] != "t" or not t[2]:
            return "error"
        if not 1 <= n[1] <= len(t[2]):
            return []
        return sol((a, t[2][n[1] - 1]))
    if name == "=..":
        t, l = args
        if t[0] == "t":
            return sol((l, L(T(t[1]), *t[2])))
        if t[0] != "v":
            return sol((l, L(t)))
        xs, tail = plist(l)
        if tail != T("[]") or not xs:
            return "error"
        h = xs[0]
        if len(xs) == 1 and h[0] == "v":
            return None                  # X =.. [Y]: instantiation error in Prolog, X = Y here: lenient, not judged
        if len(xs) == 1:
            return sol((t, h)) if h[0] != "v" and not (h[0] == "t" and h[2]) else "error"
        if not (h[0] == "t" and not h[2]):
            return "error"
        return sol((t, T(h[1], *xs[1:])))
    return None


# ------------------------------------------------------------------ grids
def grids():
    a, b, foo, bar = T("a"), T("b"), T("foo"), T("bar")
    ints = [I(n) for n in (-2, -1, 0, 1, 2, 3)]
    bad = [Fl(1.5), a, NEG(I(2))]
    g = [("succ", (V(0), I(0))), ("length", (V(0), I(-1))), ("arg", (I(1), T("foo", V(0), b), a)),
         ("functor", (V(0), foo, I(-1)))]      # canonical witnesses of the known deviation classes first
    for l in ints[1:5] + [V(0)] + bad:
        for h in ints[1:] + [V(0), Fl(2.0)]:
            for x in [V(0)] + ints + [I(4), Fl(1.0), a]:
                g.append(("between", (l, h, x)))
    for x in [V(0)] + ints + bad:
        for y in [V(0)] + ints + bad:
            g.append(("succ", (x, y)))
    pv = [V(0), I(-2), I(0), I(1), I(3), NEG(I(2)), Fl(1.5), a]
    for x in pv:
        for y in pv:
            for z in pv:
                g.append(("plus", (x, y, z)))
    lists = [L(), L(a), L(a, b), L(a, tail=V(0)), L(a, b, tail=V(0)), V(0), foo, L(a, tail=b), L(V(0), V(0)), L(L(a), b, foo)]
    for l in lists:
        for n in [V(0)] + ints + [a, Fl(2.0), NEG(I(1))]:
            g.append(("length", (l, n)))
    for t in [V(0), foo, T("foo", a), T("foo", a, V(0)), L(I(1)), I(5), Fl(1.5), S("str"), T("foo", T("g", a), b, I(3))]:
        for f in [V(0), foo, bar, I(5), T("g", a), T(".")]:
            for n in [V(0)] + ints + [foo]:
                g.append(("functor", (t, f, n)))
    for n in [V(0)] + ints + [a]:
        for t in [V(0), foo, T("foo", a), T("foo", a, b), T("foo", V(0), b), I(5), L(I(1), I(2)), T("foo", T("g", V(0)), a)]:
            for x in [V(0), a, b, T("g", V(0)), T("g", a)]:
                g.append(("arg", (n, t, x)))
    for t in [V(0), foo, T("foo", a), T("foo", a, I(1)), T("foo", V(0)), I(5), Fl(1.5), L(I(1), I(2)), S("str")]:
        for l in [V(0), L(), L(foo), L(foo, a), L(foo, a, I(1)), L(foo, V(0)), L(bar, a), L(I(5)), L(I(5), a), L(foo, tail=V(0)),
                  L(V(0), a), L(T("g", a), a), foo, L(foo, tail=bar), L(V(0)), L(Fl(1.5)), L(T("."), I(1), L(I(2)))]:
            g.append(("=..", (t, l)))
    return g


TYPE_TESTS = {"integer": "T_integer", "var": "T_var", "nonvar": "T_nonvar", "atom": "T_atom", "atomic": "T_atomic", "number": "T_number",
              "float": "T_float", "compound": "T_compound", "callable": "T_callable",
              "is_list": "T_is_list", "ground": "T_ground"}


def type_terms():
    a, b = T("a"), T("b")
    return [NEG(I(7)), L(a, tail=V(0)), V(0), a, T("[]"), T("'hello world'"), I(1), I(-1), I(0), Fl(1.5), Fl(-1.5), S("str"), T("foo", a), T("foo", V(0)),
            T("-", I(1)), NEG(I(1)), NEG(Fl(1.5)), NEG(a), NEG(V(0)), T("'-'", I(1), I(2)), L(a), L(a, tail=V(0)), L(a, b, tail=V(0)),
            L(a, tail=b), L(V(0)), T("f", T("g", V(0))), T("f", T("g", a)), L(L(a, tail=V(0))), T(".", a), T(".")]


def classify_builtin(name, args, o, expected):
    def has_neg(ts):
        return any(t[0] == "i" and t[1] < 0 for t in ts)
    if name == "succ" and o[0] == "sols" and o[1] and (has_neg(o[1][0]) or has_neg(args)):
        return "succ-accepts-or-yields-negative-integers"
    if name == "length" and o == ("unify",):
        return "length-negative-length-raises-UnifyError"
    if name == "functor" and args[0][0] == "v" and args[2][0] == "i" and args[2][1] < 0 and o[0] == "sols":
        return "functor-negative-arity-accepted"
    if name == "arg" and o[0] == "sols" and len(o[1]) == 1 and expected not in (None, "error") and len(expected) == 1 \
            and args[2][0] != "v" and erase(o[1][0][1]) == erase(args[1]) and erase(expected[0][1]) != erase(args[1]) \
            and erase(o[1][0][2]) == erase(expected[0][2]):
        return "arg-does-not-bind-variables-of-the-term"
    return None


def classify_type(test, t):
    if t[0] == "t" and t[1] == "'-'" and len(t[2]) == 1 and t[2][0][0] in ("i", "f") and test in ("number", "integer", "float", "atomic"):
        return "type-test-treats-minus-compound-as-number"
    if test == "is_list":
        xs, tail = plist(t)
        if xs and tail[0] == "v":
            return "is_list-accepts-partial-list"
    if test == "atomic" and t[0] == "s":
        return "atomic-rejects-string"
    return None


def run_builtins(ctx):
    import props.C16 as c16
    seen = getattr(ctx, "_c16_seen", {})
    terms, metas = [], []
    fresh = 100
    for name, args in grids():
        o = observe(c16, name, args)
        ctx.count("builtin:" + name)
        ctx.count("builtin-outcome:" + o[0])
        nontrivial = o[0] == "sols" and len(o[1]) > 0
        ctx.case(("builtin", name, args), nontrivial,
                 sample={"goal": "%s(%s)" % (name, ",".join(show(a) for a in args)),
                         "observed": [[show(x) for x in tup] for tup in o[1]] if o[0] == "sols" else list(o)})
        goal = "%s(%s)" % (name, ",".join(show(a) for a in args))
        # judge: exceptions must be ProbLog errors; solutions must be the Prolog solutions
        expected = ref(name, args)
        if o[0] in ("raw", "unify"):
            c16.report(ctx, seen, classify_builtin(name, args, o, expected),
                       "%s raises %s (not a ProbLogError); Prolog: %s" % (goal, o[1] if o[0] == "raw" else "UnifyError",
                                                                           "fails" if expected == [] else expected),
                       {"goal": goal, "observed": list(o), "expected": "no solution / ProbLogError"})
        elif o[0] == "sols" and expected is not None and not any(weird(x) for tup in o[1] for x in tup):
            exp = [] if expected == "error" else expected
            got = [tuple(erase(x) for x in tup) for tup in o[1]]
            want = [tuple(erase(x) for x in tup) for tup in exp]
            if got != want:
                c16.report(ctx, seen, classify_builtin(name, args, o, expected),
                           "%s gives %s; Prolog gives %s" % (goal, [[show(x) for x in tup] for tup in got],
                                                             "an error" if expected == "error" else [[show(x) for x in tup] for tup in want]),
                           {"goal": goal, "observed": [[show(x) for x in tup] for tup in got],
                            "expected": "error" if expected == "error" else [[show(x) for x in tup] for tup in want]})
        # model
        if o[0] == "sols" and any(weird(x) for tup in o[1] for x in tup):
            ctx.count("builtin:skipped-non-term-result")
            continue
        margs = " ".join(coq_term(a) for a in c16_number(args))
        mname = {"=..": "univ_m", "length": "length_m %d" % fresh, "functor": "functor_m %d" % fresh}.get(name, name + "_m")
        terms.append("bres_matches (%s %s) %s" % (mname, margs, obs_coq(o)))
        metas.append((name, args, o))
    # type tests
    tt_model, tt_spec, tt_meta = [], [], []
    for test, ctor in TYPE_TESTS.items():
        for t in type_terms():
            o = observe(c16, test, (t,))
            ctx.count("typetest:" + test)
            ctx.case(("typetest", test, t), True)
            if o[0] != "sols":
                c16.report(ctx, seen, None, "%s(%s) raises %r" % (test, show(t), o), {"goal": "%s(%s)" % (test, show(t)), "observed": list(o)})
                continue
            val = "true" if len(o[1]) == 1 else "false"
            tt_model.append("Bool.eqb (type_test %s %s) %s" % (ctor, coq_term(t), val))
            tt_spec.append("Bool.eqb (iso_type_test %s %s) %s" % (ctor, coq_term(t), val))
            tt_meta.append((test, t, val))
    try:
        bad = ctx.coq_failing(HEADER, terms + tt_model + tt_spec, name="builtins", shard=20000, timeout=600)
    except RuntimeError as ex:
        ctx.broken.append("correspondence:C16 builtin model does not evaluate")
        ctx.notes.append(str(ex))
        return
    nb, nt = len(terms), len(tt_model)
    bad_b = [i for i in bad if i < nb]
    bad_tm = [i - nb for i in bad if nb <= i < nb + nt]
    bad_ts = [i - nb - nt for i in bad if i >= nb + nt]
    ctx.cov["builtin_model_vs_engine_agree"] = nb - len(bad_b)
    ctx.cov["typetest_model_vs_engine_agree"] = nt - len(bad_tm)
    for i in bad_b[:6]:
        name, args, o = metas[i]
        ctx.broken.append("correspondence:ModelBuiltins vs engine on %s(%s) (observed %r)" % (name, ",".join(show(a) for a in args), o))
    for i in bad_tm[:6]:
        test, t, val = tt_meta[i]
        ctx.broken.append("correspondence:type_test vs engine on %s(%s) (observed %s)" % (test, show(t), val))
    for i in bad_ts:
        test, t, val = tt_meta[i]
        c16.report(ctx, seen, classify_type(test, t),
                   "%s(%s) is %s; standard Prolog says %s" % (test, show(t), val, "false" if val == "true" else "true"),
                   {"goal": "%s(%s)" % (test, show(t)), "observed": val, "expected": "false" if val == "true" else "true"})
    run_atom_number(ctx, c16, seen)


def c16_number(args):
    """distinct variable numbers for the model's input (results are compared with variables erased)"""
    return number_vars(args)


def run_atom_number(ctx, c16, seen):
    """atom_number/2 is judged by the reference only (atoms <-> numbers need text)."""
    probes = [((T("'12'"), V(0)), [("'12'", 12)]), ((T("'12'"), I(12)), [("'12'", 12)]), ((T("abc"), V(0)), []),
              ((V(0), I(12)), [("12", 12)]), ((V(0), Fl(1.5)), [("1.5", 1.5)]), ((T("'1.5'"), V(0)), [("'1.5'", 1.5)]),
              ((T("inf"), V(0)), []), ((T("nan"), V(0)), [])]
    for args, want in probes:
        o = observe(c16, "atom_number", args)
        goal = "atom_number(%s)" % ",".join(show(a) for a in args)
        ctx.count("builtin:atom_number")
        ctx.case(("builtin", "atom_number", args), True)
        if o[0] == "raw":
            kl = "atom_number-inf-nan-raises-python-exception" if args[0] in (T("inf"), T("nan")) else None
            c16.report(ctx, seen, kl, "%s raises Python %s; Prolog fails" % (goal, o[1]), {"goal": goal, "observed": list(o)})
        elif o[0] == "sols":
            got = [(str(tup[0][1]).strip("'") if tup[0][0] == "t" else None, tup[1][1] if tup[1][0] in ("i", "f") else None) for tup in o[1]]
            exp = [(a.strip("'"), n) for a, n in want]
            if got != exp:
                kl = "atom_number-quoted-atom-fails" if args[0][0] == "t" and args[0][1].startswith("'") and not got else None
                c16.report(ctx, seen, kl, "%s gives %r; Prolog gives %r" % (goal, got, exp), {"goal": goal, "observed": got, "expected": exp})
