"""Fail-closed translator: problog/constraint.py  ConstraintAD.update_weights (+ is_nontrivial /
is_true / is_false by MRO)  ->  Gallina, state-passing style, over an abstract semiring record.

Python subset understood (anything else raises TranslationError):
  statements   x = e | a, b = d.get(k, (e1, e2)) | d[k] = e | l.append(e) | x = Term(...)/Constant(...) (dropped)
               for n in self.nodes: BODY        (state = variables the body re-binds / mutates)
               if c: BODY [else: BODY]          (rest of the block is duplicated into both arms)
               try: BODY except InvalidValue: raise InvalidValue(...)
               raise InvalidValue(...) | return e | docstring | pass
  expressions  names, self.<attr>, semiring.<m>(args[, key=...]), self.<predicate>(), len(x), int literals,
               tuples (pairs), not / and / or (short-circuit kept when an operand calls something), <=
The mutable dictionary `weights` (the method's only output: it returns None) is threaded through
and returned.  `self.nodes` is a Python set: modelled as a list (the theorems assume NoDup and do
not depend on the order beyond the order of the floating-point sum, which is exact over the reals).
Exception constructor arguments, `Term(...)` names passed as `key=`, `self.group`, `self.location`
are dropped; any other use of a dropped value is an error.
"""
import ast
import hashlib
import os


class TranslationError(Exception):
    pass


def fail(node, msg):
    raise TranslationError("line %s: %s: %s" % (getattr(node, "lineno", "?"), msg,
                                                 ast.dump(node)[:300] if isinstance(node, ast.AST) else node))


# semiring interface used from constraint.py: name -> (parameter types, result type)
SR_SIG = {
    "one": ([], "C"), "zero": ([], "C"),
    "ad_negate": (["C", "C"], "C"),
    "ad_complement": (["L"], "C"),     # key= is dropped
    "in_domain": (["C"], "B"),
    "pos_value": (["C", "K"], "C"), "neg_value": (["C", "K"], "C"),   # (external value, name)
    "true": (["K"], "P"), "false": (["K"], "P"),
}
SELF_ATTRS = {"nodes": ("nodes", "NL"), "extra_node": ("extra_node", "N"), "group": (None, "K"), "location": (None, "K")}
PREDICATES = ["is_true", "is_false", "is_nontrivial"]
DROPPED_LOCALS = {"name"}     # only ever passed as the `key`/name argument of semiring methods


class Tr:
    def __init__(self, classes):
        self.classes = classes
        self.fresh = 0

    def new(self):
        self.fresh += 1
        return "t%d" % self.fresh

    def find(self, name):
        c = "ConstraintAD"
        while c != "object":
            if name in self.classes[c][1]:
                return c, self.classes[c][1][name]
            c = self.classes[c][0]
        return None, None

    # ------------------------------------------------ expressions -> (binds, term, type)
    def expr(self, e, env):
        if isinstance(e, ast.Constant):
            if isinstance(e.value, bool):
                return [], ("true" if e.value else "false"), "B"
            if isinstance(e.value, int):
                return [], "(%d)%%Z" % e.value, "I"
            fail(e, "constant")
        if isinstance(e, ast.Name):
            if e.id not in env:
                fail(e, "unknown name")
            if env[e.id] == "K":
                fail(e, "use of a dropped value")
            return [], e.id, env[e.id]
        if isinstance(e, ast.Attribute) and isinstance(e.value, ast.Name) and e.value.id == "self":
            if e.attr not in SELF_ATTRS:
                fail(e, "self attribute")
            term, ty = SELF_ATTRS[e.attr]
            if ty == "K":
                fail(e, "use of a dropped attribute")
            return [], term, ty
        if isinstance(e, ast.UnaryOp) and isinstance(e.op, ast.Not):
            b, t, ty = self.expr(e.operand, env)
            if ty != "B":
                fail(e, "not on non-bool")
            return b, "(negb %s)" % t, "B"
        if isinstance(e, ast.BoolOp):
            return self.boolop(e, env)
        if isinstance(e, ast.Compare):
            if len(e.ops) != 1 or not isinstance(e.ops[0], ast.LtE):
                fail(e, "comparison")
            b1, t1, ty1 = self.expr(e.left, env)
            b2, t2, ty2 = self.expr(e.comparators[0], env)
            if ty1 != "I" or ty2 != "I":
                fail(e, "<= on non-integers")
            return b1 + b2, "(Z.leb %s %s)" % (t1, t2), "B"
        if isinstance(e, ast.Tuple):
            if len(e.elts) != 2:
                fail(e, "only pairs")
            b1, t1, ty1 = self.expr(e.elts[0], env)
            b2, t2, ty2 = self.expr(e.elts[1], env)
            if ty1 != "C" or ty2 != "C":
                fail(e, "pair of non-weights")
            return b1 + b2, "(%s, %s)" % (t1, t2), "P"
        if isinstance(e, ast.Call):
            f = e.func
            if isinstance(f, ast.Name) and f.id == "len" and len(e.args) == 1 and not e.keywords:
                b, t, ty = self.expr(e.args[0], env)
                if ty not in ("NL", "L"):
                    fail(e, "len of a non-list")
                return b, "(Z.of_nat (length %s))" % t, "I"
            if isinstance(f, ast.Name) and f.id == "abs" and len(e.args) == 1 and not e.keywords:
                b, t, ty = self.expr(e.args[0], env)
                if ty != "N":
                    fail(e, "abs of a non-key")
                return b, "(Z.abs %s)" % t, "N"
            if isinstance(f, ast.Attribute) and isinstance(f.value, ast.Name) and f.value.id == "semiring":
                if f.attr not in SR_SIG:
                    fail(e, "semiring method outside the table")
                ptypes, rty = SR_SIG[f.attr]
                for kw in e.keywords:
                    if kw.arg != "key":
                        fail(e, "keyword argument")
                    self.dropped_expr(kw.value, env)
                if len(e.args) != len(ptypes):
                    fail(e, "arity")
                binds, args = [], []
                for a, pt in zip(e.args, ptypes):
                    if pt == "K":
                        self.dropped_expr(a, env)
                        continue
                    b, t, ty = self.expr(a, env)
                    if ty != pt:
                        fail(e, "argument of type %s where %s is expected" % (ty, pt))
                    binds += b
                    args.append(t)
                v = self.new()
                return binds + [(v, " ".join(["s_%s SR" % f.attr] + args))], v, rty
            if isinstance(f, ast.Attribute) and isinstance(f.value, ast.Name) and f.value.id == "self" \
                    and f.attr in PREDICATES and not e.args and not e.keywords:
                v = self.new()
                return [(v, "ad_%s nodes" % f.attr)], v, "B"
            fail(e, "call")
        fail(e, "expression")

    def boolop(self, e, env):
        # short-circuit: operands after the first are only evaluated when needed
        is_and = isinstance(e.op, ast.And)
        parts = [self.expr(v, env) for v in e.values]
        for _, _, ty in parts:
            if ty != "B":
                fail(e, "boolean operator on non-bool")
        # build from the right: term is monadic when any later operand has binds
        b_last, t_last, _ = parts[-1]
        cur = self.wrap(b_last, "ret %s" % t_last)
        pure = not b_last
        cur_pure_term = t_last
        for b, t, _ in reversed(parts[:-1]):
            if pure:
                cur_pure_term = "(%s %s %s)" % ("andb" if is_and else "orb", t, cur_pure_term)
                cur = "ret %s" % cur_pure_term
                if b:
                    cur = self.wrap(b, cur)
                    pure = False
            else:
                if is_and:
                    cur = self.wrap(b, "(if %s then (%s) else (ret false))" % (t, cur))
                else:
                    cur = self.wrap(b, "(if %s then (ret true) else (%s))" % (t, cur))
        if pure:
            return [], cur_pure_term, "B"
        v = self.new()
        return [(v, "(%s)" % cur)], v, "B"

    def dropped_expr(self, e, env):
        """an expression whose value is dropped: must be free of calls other than Term/Constant
        constructors, and may read dropped names / attributes."""
        for n in ast.walk(e):
            if isinstance(n, ast.Call):
                naming = isinstance(n.func, ast.Attribute) and isinstance(n.func.value, ast.Name) \
                    and n.func.value.id == "self" and n.func.attr == "get_name"
                if not naming and not (isinstance(n.func, ast.Name) and n.func.id in ("Term", "Constant")):
                    fail(e, "call inside a dropped expression")
            elif isinstance(n, (ast.Name, ast.Attribute, ast.Constant, ast.Subscript, ast.Starred, ast.Load, ast.Tuple, ast.BinOp, ast.Mod)):
                continue
            else:
                fail(e, "node inside a dropped expression")

    def wrap(self, binds, tail):
        out = tail
        for v, m in reversed(binds):
            out = "%s <- %s ;;\n%s" % (v, m, out)
        return out

    # ------------------------------------------------ statements
    def assigned(self, stmts):
        """names re-bound or mutated by a statement list"""
        out = []

        def add(n):
            if n not in out:
                out.append(n)
        for st in stmts:
            for n in ast.walk(st):
                if isinstance(n, ast.Assign):
                    for tg in n.targets:
                        if isinstance(tg, ast.Name):
                            add(tg.id)
                        elif isinstance(tg, ast.Tuple):
                            for x in tg.elts:
                                if isinstance(x, ast.Name):
                                    add(x.id)
                        elif isinstance(tg, ast.Subscript) and isinstance(tg.value, ast.Name):
                            add(tg.value.id)
                elif isinstance(n, ast.Call) and isinstance(n.func, ast.Attribute) and n.func.attr == "append" \
                        and isinstance(n.func.value, ast.Name):
                    add(n.func.value.id)
        return out

    def only_dropped(self, st):
        for branch in (st.body, st.orelse):
            for x in branch:
                if not (isinstance(x, ast.Assign) and len(x.targets) == 1 and isinstance(x.targets[0], ast.Name)
                        and x.targets[0].id in DROPPED_LOCALS):
                    return False
                self.dropped_expr(x.value, {})
        t = st.test
        if not (isinstance(t, ast.Call) and isinstance(t.func, ast.Name) and t.func.id == "hasattr"):
            return False
        return bool(st.body) and bool(st.orelse)

    def weight_chain(self, st, env):
        """if w == self.WEIGHT_NEUTRAL and type(self.WEIGHT_NEUTRAL) == type(w): A
           elif w is False: B   elif w is None: C   else: D     ->  (w, [(ctor, body)...])"""
        def is_neutral(t):
            if not (isinstance(t, ast.BoolOp) and isinstance(t.op, ast.And) and len(t.values) == 2):
                return None
            a, b = t.values
            d1 = ast.dump(a)
            if not (isinstance(a, ast.Compare) and isinstance(a.left, ast.Name) and len(a.ops) == 1 and isinstance(a.ops[0], ast.Eq)
                    and ast.dump(a.comparators[0]) == ast.dump(ast.parse("self.WEIGHT_NEUTRAL", mode="eval").body)):
                return None
            w = a.left.id
            want = ast.dump(ast.parse("type(self.WEIGHT_NEUTRAL) == type(%s)" % w, mode="eval").body)
            return w if ast.dump(b) == want else None

        def is_const(t, w, value):
            return (isinstance(t, ast.Compare) and isinstance(t.left, ast.Name) and t.left.id == w and len(t.ops) == 1
                    and isinstance(t.ops[0], ast.Is) and isinstance(t.comparators[0], ast.Constant)
                    and t.comparators[0].value is value)
        w = is_neutral(st.test)
        if w is None or env.get(w) != "W":
            return None
        if len(st.orelse) != 1 or not isinstance(st.orelse[0], ast.If):
            fail(st, "weight-kind chain: second arm")
        s2 = st.orelse[0]
        if not is_const(s2.test, w, False) or len(s2.orelse) != 1 or not isinstance(s2.orelse[0], ast.If):
            fail(st, "weight-kind chain: `is False` arm")
        s3 = s2.orelse[0]
        if not is_const(s3.test, w, None) or not s3.orelse:
            fail(st, "weight-kind chain: `is None` arm")
        return w, [("WNeutral", st.body), ("WFalse", s2.body), ("WNone", s3.body), ("WVal", s3.orelse)]

    def tuple_of(self, names):
        if len(names) == 1:
            return names[0]
        return "(" + ", ".join(names) + ")"

    def pat_of(self, names):
        if len(names) == 1:
            return names[0]
        return "'(" + ", ".join(names) + ")"

    def block(self, stmts, env, final):
        """`final(env)` gives the monadic term evaluated when control falls off the end."""
        if not stmts:
            return final(env)
        st, rest = stmts[0], stmts[1:]
        if isinstance(st, ast.Expr) and isinstance(st.value, ast.Constant) and isinstance(st.value.value, str):
            return self.block(rest, env, final)
        if isinstance(st, ast.Pass):
            return self.block(rest, env, final)
        if isinstance(st, ast.Return):
            if rest or st.value is None:
                fail(st, "return")
            b, t, ty = self.expr(st.value, env)
            if b and b[-1][0] == t:
                return self.wrap(b[:-1], b[-1][1])
            return self.wrap(b, "ret %s" % t)
        if isinstance(st, ast.Raise):
            exc = st.exc.func if isinstance(st.exc, ast.Call) else st.exc
            if not (isinstance(exc, ast.Name) and exc.id == "InvalidValue") or st.cause is not None:
                fail(st, "raise")
            if isinstance(st.exc, ast.Call):
                for a in st.exc.args:
                    self.dropped_expr(a, env)
                for kw in st.exc.keywords:
                    self.dropped_expr(kw.value, env)
            return "Raise InvalidValue"
        if isinstance(st, ast.Expr) and isinstance(st.value, ast.Call):
            c = st.value
            if isinstance(c.func, ast.Attribute) and c.func.attr == "append" and isinstance(c.func.value, ast.Name) \
                    and len(c.args) == 1 and not c.keywords:
                lst = c.func.value.id
                if env.get(lst) != "L":
                    fail(st, "append on a non-list")
                b, t, ty = self.expr(c.args[0], env)
                if ty != "C":
                    fail(st, "append of a non-weight")
                return self.wrap(b + [(lst, "ret (%s ++ [%s])" % (lst, t))], self.block(rest, env, final))
            fail(st, "expression statement")
        if isinstance(st, ast.Assign):
            if len(st.targets) != 1:
                fail(st, "multiple targets")
            tg, val = st.targets[0], st.value
            # result = {}
            if isinstance(tg, ast.Name) and isinstance(val, ast.Dict) and not val.keys:
                env2 = dict(env)
                env2[tg.id] = "D"
                return self.wrap([(tg.id, "ret (@nil (Z * (C * C)))")], self.block(rest, env2, final))
            # name = key / name = self.get_name(key): a value only ever passed as a dropped argument
            if isinstance(tg, ast.Name) and tg.id in DROPPED_LOCALS:
                self.dropped_expr(val, env)
                env2 = dict(env)
                env2[tg.id] = "K"
                return self.block(rest, env2, final)
            # x = Term(...) : dropped
            if isinstance(tg, ast.Name) and isinstance(val, ast.Call) and isinstance(val.func, ast.Name) \
                    and val.func.id in ("Term", "Constant"):
                self.dropped_expr(val, env)
                env2 = dict(env)
                env2[tg.id] = "K"
                return self.block(rest, env2, final)
            # ws = []
            if isinstance(tg, ast.Name) and isinstance(val, ast.List) and not val.elts:
                env2 = dict(env)
                env2[tg.id] = "L"
                return self.wrap([(tg.id, "ret (@nil C)")], self.block(rest, env2, final))
            # a, b = d.get(k, (e1, e2))
            if isinstance(tg, ast.Tuple) and len(tg.elts) == 2 and all(isinstance(x, ast.Name) for x in tg.elts) \
                    and isinstance(val, ast.Call) and isinstance(val.func, ast.Attribute) and val.func.attr == "get" \
                    and isinstance(val.func.value, ast.Name) and env.get(val.func.value.id) == "D" \
                    and len(val.args) == 2 and not val.keywords:
                bk, tk, tyk = self.expr(val.args[0], env)
                bd, td, tyd = self.expr(val.args[1], env)
                if tyk != "N" or tyd != "P":
                    fail(st, "dict.get key/default types")
                env2 = dict(env)
                env2[tg.elts[0].id] = "C"
                env2[tg.elts[1].id] = "C"
                return self.wrap(bk + bd, "let '(%s, %s) := dict_get %s %s %s in\n%s"
                                 % (tg.elts[0].id, tg.elts[1].id, val.func.value.id, tk, td, self.block(rest, env2, final)))
            # d[k] = e
            if isinstance(tg, ast.Subscript) and isinstance(tg.value, ast.Name) and env.get(tg.value.id) == "D":
                bk, tk, tyk = self.expr(tg.slice, env)
                bv, tv, tyv = self.expr(val, env)
                if tyk != "N" or tyv != "P":
                    fail(st, "dict store key/value types")
                # Python evaluates the right-hand side before the subscript target
                return self.wrap(bv + bk + [(tg.value.id, "ret (dict_set %s %s %s)" % (tg.value.id, tk, tv))],
                                 self.block(rest, env, final))
            # x = e
            if isinstance(tg, ast.Name):
                b, t, ty = self.expr(val, env)
                env2 = dict(env)
                env2[tg.id] = ty
                if b and b[-1][0] == t:
                    b = b[:-1] + [(tg.id, b[-1][1])]
                else:
                    b = b + [(tg.id, "ret %s" % t)]
                return self.wrap(b, self.block(rest, env2, final))
            fail(st, "assignment")
        if isinstance(st, ast.For) and isinstance(st.target, ast.Tuple):
            # for key, w in self.get_weights().items(): BODY
            it = st.iter
            ok = (isinstance(it, ast.Call) and isinstance(it.func, ast.Attribute) and it.func.attr == "items" and not it.args
                  and isinstance(it.func.value, ast.Call) and isinstance(it.func.value.func, ast.Attribute)
                  and isinstance(it.func.value.func.value, ast.Name) and it.func.value.func.value.id == "self"
                  and it.func.value.func.attr == "get_weights" and not it.func.value.args)
            if not ok or st.orelse or len(st.target.elts) != 2 or not all(isinstance(x, ast.Name) for x in st.target.elts):
                fail(st, "for over items shape")
            kname, wname = st.target.elts[0].id, st.target.elts[1].id
            state = [v for v in self.assigned(st.body) if v in env and env[v] != "K"]
            if not state:
                fail(st, "loop without state")
            env2 = dict(env)
            env2[kname] = "N"
            env2[wname] = "W"
            body = self.block(st.body, env2, lambda e: "ret %s" % self.tuple_of(state))
            m = "fold_res (fun %s '(%s, %s) =>\n%s) atoms %s" % (self.pat_of(state), kname, wname, body, self.tuple_of(state))
            return "%s <- %s ;;\n%s" % (self.pat_of(state), m, self.block(rest, env, final))
        if isinstance(st, ast.For) and isinstance(st.iter, ast.Call):
            # for c in self.constraints(): c.update_weights(result, semiring)
            it = st.iter
            ok = (isinstance(it.func, ast.Attribute) and isinstance(it.func.value, ast.Name) and it.func.value.id == "self"
                  and it.func.attr == "constraints" and not it.args and isinstance(st.target, ast.Name) and not st.orelse
                  and len(st.body) == 1 and isinstance(st.body[0], ast.Expr) and isinstance(st.body[0].value, ast.Call))
            if not ok:
                fail(st, "for over constraints shape")
            c = st.body[0].value
            ok = (isinstance(c.func, ast.Attribute) and isinstance(c.func.value, ast.Name) and c.func.value.id == st.target.id
                  and c.func.attr == "update_weights" and len(c.args) == 2 and not c.keywords
                  and isinstance(c.args[0], ast.Name) and env.get(c.args[0].id) == "D"
                  and isinstance(c.args[1], ast.Name) and c.args[1].id == "semiring")
            if not ok:
                fail(st, "constraint loop body")
            d = c.args[0].id
            m = "fold_res (fun %s '(c_nodes, c_extra) => ad_update_weights SR c_nodes c_extra %s) constraints %s" % (d, d, d)
            return "%s <- %s ;;\n%s" % (d, m, self.block(rest, env, final))
        if isinstance(st, ast.For):
            if st.orelse or not isinstance(st.target, ast.Name):
                fail(st, "for shape")
            bi, ti, tyi = self.expr(st.iter, env)
            if bi or tyi != "NL":
                fail(st, "for over something else than self.nodes")
            state = [v for v in self.assigned(st.body) if v in env and env[v] != "K"]
            if not state:
                fail(st, "loop without state")
            env2 = dict(env)
            env2[st.target.id] = "N"
            body = self.block(st.body, env2, lambda e: "ret %s" % self.tuple_of(state))
            m = "fold_res (fun %s %s =>\n%s) %s %s" % (self.pat_of(state), st.target.id, body, ti, self.tuple_of(state))
            return "%s <- %s ;;\n%s" % (self.pat_of(state), m, self.block(rest, env, final))
        if isinstance(st, ast.If):
            # (a) test on a parameter specialised to None: `weights is not None`
            tst = st.test
            if isinstance(tst, ast.Compare) and len(tst.ops) == 1 and isinstance(tst.left, ast.Name) \
                    and env.get(tst.left.id) == "NONE" and isinstance(tst.comparators[0], ast.Constant) \
                    and tst.comparators[0].value is None and isinstance(tst.ops[0], (ast.Is, ast.IsNot)):
                taken = st.body if isinstance(tst.ops[0], ast.Is) else st.orelse
                return self.block(list(taken) + rest, env, final)
            # (b) an if that only chooses how a dropped local is computed
            if self.only_dropped(st):
                env2 = dict(env)
                for n in self.assigned([st]):
                    env2[n] = "K"
                return self.block(rest, env2, final)
            # (c) `if result.get(abs(key)) is None:`
            if isinstance(tst, ast.Compare) and len(tst.ops) == 1 and isinstance(tst.ops[0], ast.Is) \
                    and isinstance(tst.comparators[0], ast.Constant) and tst.comparators[0].value is None \
                    and isinstance(tst.left, ast.Call) and isinstance(tst.left.func, ast.Attribute) \
                    and tst.left.func.attr == "get" and isinstance(tst.left.func.value, ast.Name) \
                    and env.get(tst.left.func.value.id) == "D" and len(tst.left.args) == 1:
                bk, tk, tyk = self.expr(tst.left.args[0], env)
                if tyk != "N":
                    fail(st, "dict.get key")
                then = self.block(list(st.body) + rest, env, final)
                els = self.block(list(st.orelse) + rest, env, final)
                return self.wrap(bk, "(if (negb (dict_mem %s %s)) then (%s) else (%s))" % (tst.left.func.value.id, tk, then, els))
            # (d) the weight-kind chain: NEUTRAL / False / None / a value
            chain = self.weight_chain(st, env)
            if chain is not None:
                w, arms = chain
                texts = []
                for ctor, body in arms:
                    env2 = dict(env)
                    if ctor == "WVal":
                        env2[w] = "C"
                        texts.append("| WVal %s => %s" % (w, self.block(list(body) + rest, env2, final)))
                    else:
                        env2[w] = "K"
                        texts.append("| %s => %s" % (ctor, self.block(list(body) + rest, env2, final)))
                return "match %s with\n%s\nend" % (w, "\n".join(texts))
            b, t, ty = self.expr(st.test, env)
            if ty != "B":
                fail(st, "if on non-bool")
            then = self.block(list(st.body) + rest, env, final)
            els = self.block(list(st.orelse) + rest, env, final)
            return self.wrap(b, "(if %s then (%s) else (%s))" % (t, then, els))
        if isinstance(st, ast.Try):
            if st.orelse or st.finalbody or len(st.handlers) != 1:
                fail(st, "try shape")
            h = st.handlers[0]
            if not (isinstance(h.type, ast.Name) and h.type.id == "InvalidValue" and h.name is None
                    and len(h.body) == 1 and isinstance(h.body[0], ast.Raise)):
                fail(st, "except handler")
            hb = self.block(h.body, env, final)
            if hb != "Raise InvalidValue":
                fail(st, "except handler body")
            new = [v for v in self.assigned(st.body)]
            # types of the variables the body defines: translate once to learn them
            env_after = {}

            def fin(e):
                for v in new:
                    if v not in e:
                        fail(st, "variable %s not definitely assigned in try body" % v)
                    env_after[v] = e[v]
                return "ret %s" % self.tuple_of(new)
            body = self.block(st.body, env, fin)
            env2 = dict(env)
            env2.update(env_after)
            return "%s <- try_reraise (%s) InvalidValue InvalidValue ;;\n%s" % (self.pat_of(new), body, self.block(rest, env2, final))
        fail(st, "statement")


HEADER = """(* GENERATED by gen/c30_constraint.py from %(path)s (sha1 %(sha)s) - do not edit.
   State-passing Gallina image of ConstraintAD.update_weights and the triviality predicates
   (resolved by the MRO ConstraintAD -> Constraint).  `self.nodes` (a set) is a list of node ids,
   `weights` (dict, mutated in place, the method's only output) is threaded and returned.
   Dropped: exception arguments, Term(...) names passed as key=, self.group, self.location. *)
From Coq Require Import ZArith String List Bool.
From PL.C12 Require Import ModelPy.
From PL.C30 Require Import ModelAD.
Import ListNotations.
Local Open Scope Z_scope.

Section Gen.
Context {C : Type}.
Variable SR : SemiringOps C.
"""


def indent(text, n=2):
    return "\n".join(" " * n + l for l in text.split("\n"))


def translate(repo):
    path = os.path.join(repo, "problog", "constraint.py")
    with open(path) as f:
        src = f.read()
    tree = ast.parse(src)
    classes = {}
    for st in tree.body:
        if isinstance(st, ast.ClassDef) and st.name in ("Constraint", "ConstraintAD"):
            if len(st.bases) != 1 or not isinstance(st.bases[0], ast.Name):
                fail(st, "bases")
            classes[st.name] = (st.bases[0].id, {f.name: f for f in st.body if isinstance(f, ast.FunctionDef)})
    if set(classes) != {"Constraint", "ConstraintAD"} or classes["Constraint"][0] != "object" or classes["ConstraintAD"][0] != "Constraint":
        raise TranslationError("class hierarchy Constraint <- ConstraintAD not found")
    tr = Tr(classes)
    out = [HEADER % {"path": "problog/constraint.py", "sha": hashlib.sha1(src.encode()).hexdigest()[:12]}]
    for name in PREDICATES:
        cls, fn = tr.find(name)
        if fn is None:
            raise TranslationError("method %s not found" % name)
        if [a.arg for a in fn.args.args] != ["self"]:
            fail(fn, "signature")
        tr.fresh = 0
        body = tr.block(fn.body, {}, lambda e: fail(fn, "falls off the end"))
        out.append("(* ConstraintAD.%s, defined in class %s, lines %d-%d *)\nDefinition ad_%s (nodes : list Z) : res bool :=\n%s.\n"
                   % (name, cls, fn.lineno, fn.end_lineno, name, indent(body)))
    cls, fn = tr.find("update_weights")
    if [a.arg for a in fn.args.args] != ["self", "weights", "semiring"] or fn.args.defaults or fn.args.kwonlyargs:
        fail(fn, "signature of update_weights")
    tr.fresh = 0
    body = tr.block(fn.body, {"weights": "D"}, lambda e: "ret weights")
    out.append("(* ConstraintAD.update_weights, defined in class %s, lines %d-%d; returns the updated `weights` *)\n"
               "Definition ad_update_weights (nodes : list Z) (extra_node : Z) (weights : dict C) : res (dict C) :=\n%s.\n"
               % (cls, fn.lineno, fn.end_lineno, indent(body)))
    out.append("End Gen.\n")
    check_other_constraints(tree)
    out.append(translate_extract(repo))
    return "\n".join(out)


def check_other_constraints(tree):
    """Constraint.update_weights must be a no-op and only ConstraintAD may override it."""
    for st in tree.body:
        if isinstance(st, ast.ClassDef):
            for f in st.body:
                if isinstance(f, ast.FunctionDef) and f.name == "update_weights" and st.name != "ConstraintAD":
                    body = [x for x in f.body if not (isinstance(x, ast.Expr) and isinstance(x.value, ast.Constant)) and not isinstance(x, ast.Pass)]
                    if body or st.name != "Constraint":
                        fail(f, "update_weights of class %s is not a no-op" % st.name)


EXTRACT_HEADER = """
(* ---- %(cls)s.extract_weights, problog/formula.py (sha1 %(sha)s) lines %(l0)d-%(l1)d, specialised to weights=None
   (the block under `if weights is not None:` is not taken).  `self.get_weights().items()` is the
   list `atoms` of (key, weight-kind); `self.constraints()` is the list of annotated-disjunction
   constraints (nodes, extra_node): every other constraint class inherits the no-op
   Constraint.update_weights (checked by the translator). *)
Section GenExtract.
Context {C : Type}.
Variable SR : SemiringOps C.
"""


def translate_extract(repo):
    path = os.path.join(repo, "problog", "formula.py")
    with open(path) as f:
        src = f.read()
    tree = ast.parse(src)
    found = None
    for st in tree.body:
        if isinstance(st, ast.ClassDef):
            for f in st.body:
                if isinstance(f, ast.FunctionDef) and f.name == "extract_weights":
                    if found is not None:
                        fail(f, "second definition of extract_weights")
                    found = (st.name, f)
    if found is None:
        raise TranslationError("extract_weights not found")
    cls, fn = found
    if [a.arg for a in fn.args.args] != ["self", "semiring", "weights"] or len(fn.args.defaults) != 1 \
            or not (isinstance(fn.args.defaults[0], ast.Constant) and fn.args.defaults[0].value is None):
        fail(fn, "signature of extract_weights")
    tr = Tr({})
    body = tr.block(fn.body, {"weights": "NONE"}, lambda e: fail(fn, "falls off the end"))
    out = EXTRACT_HEADER % {"cls": cls, "sha": hashlib.sha1(src.encode()).hexdigest()[:12], "l0": fn.lineno, "l1": fn.end_lineno}
    out += ("Definition extract_weights (atoms : list (Z * wt C)) (constraints : list (list Z * Z)) : res (dict C) :=\n%s.\n"
            "End GenExtract.\n" % indent(body))
    return out


if __name__ == "__main__":
    import sys
    print(translate(sys.argv[1] if len(sys.argv) > 1 else os.environ.get("VERIF_REPO", "/repo")))
