From Coq Require Import Arith NArith List Bool Lia ZArith ZifyNat Sorted.
From PL.C34 Require Import UHeapModel.
Import ListNotations.
Ltac Zify.zify_post_hook ::= Z.to_euclidean_division_equations.

(* ---------- arrays ---------- *)
Lemma set_nth_length {A} (l : list A) i v : length (set_nth l i v) = length l.
Proof. revert i. induction l as [|x l IH]; intros [|i]; cbn; try reflexivity. rewrite IH. reflexivity. Qed.

Lemma nth_set_nth {A} (l : list A) i v j d :
  i < length l -> nth j (set_nth l i v) d = if Nat.eqb j i then v else nth j l d.
Proof.
  revert i j. induction l as [|x l IH]; intros [|i] [|j] H; cbn in *; try lia; try reflexivity.
  apply IH. lia.
Qed.

Lemma nth_removelast {A} (l : list A) j d : j < length l - 1 -> nth j (removelast l) d = nth j l d.
Proof.
  revert j. induction l as [|x l IH]; intros j H; [reflexivity|].
  destruct l as [|y l]; [cbn in H; lia|].
  change (removelast (x :: y :: l)) with (x :: removelast (y :: l)).
  destruct j; [reflexivity|]. cbn [nth]. apply IH. cbn [length] in *. lia.
Qed.

Lemma removelast_length {A} (l : list A) : length (removelast l) = length l - 1.
Proof.
  induction l as [|x l IH]; [reflexivity|]. destruct l as [|y l]; [reflexivity|].
  change (removelast (x :: y :: l)) with (x :: removelast (y :: l)). cbn [length] in *. lia.
Qed.

Lemma In_nth_iff {A} (l : list A) e d : In e l <-> exists i, i < length l /\ nth i l d = e.
Proof.
  split.
  - intros H. apply (In_nth l e d) in H. exact H.
  - intros (i & Hi & <-). apply nth_In, Hi.
Qed.

(* ---------- positions ---------- *)
Definition par (j : nat) : nat := (j - 1) / 2.
Lemma parent_eq i : parent i = if Nat.eqb i 0 then None else Some (par i).
Proof. reflexivity. Qed.

(* the transposition (i j) *)
Definition tr (i j q : nat) : nat := if Nat.eqb q j then i else if Nat.eqb q i then j else q.
Lemma tr_invol i j q : tr i j (tr i j q) = q.
Proof.
  unfold tr. destruct (Nat.eqb_spec q j), (Nat.eqb_spec q i); subst;
  repeat (match goal with |- context [Nat.eqb ?a ?b] => destruct (Nat.eqb_spec a b) end); congruence.
Qed.
Lemma tr_lt i j q n : i < n -> j < n -> (tr i j q < n <-> q < n).
Proof. unfold tr. intros. destruct (Nat.eqb_spec q j), (Nat.eqb_spec q i); subst; tauto. Qed.

(* ---------- swap ---------- *)
Lemma ent_pair h i : ent h i = (key_at h i, item_at h i).
Proof. unfold key_at, item_at. destruct (ent h i); reflexivity. Qed.

Lemma swap_hp h i j :
  hp (swap h i j) = set_nth (set_nth (hp h) i (ent h j)) j (ent h i).
Proof. unfold swap. destruct (ent h i), (ent h j). reflexivity. Qed.
Lemma swap_ix h i j :
  ix (swap h i j) = upd_ix (upd_ix (ix h) (item_at h i) (Some j)) (item_at h j) (Some i).
Proof. unfold swap, item_at. destruct (ent h i), (ent h j). reflexivity. Qed.

Lemma swap_len h i j : hlen (swap h i j) = hlen h.
Proof. unfold hlen. rewrite swap_hp, !set_nth_length. reflexivity. Qed.

Lemma swap_ent h i j q : i < hlen h -> j < hlen h -> ent (swap h i j) q = ent h (tr i j q).
Proof.
  intros Hi Hj. unfold ent at 1. rewrite swap_hp.
  rewrite nth_set_nth by (rewrite set_nth_length; exact Hj).
  unfold tr. destruct (Nat.eqb_spec q j); [reflexivity|].
  rewrite nth_set_nth by exact Hi. destruct (Nat.eqb_spec q i); reflexivity.
Qed.

Lemma swap_key h i j q : i < hlen h -> j < hlen h -> key_at (swap h i j) q = key_at h (tr i j q).
Proof. intros. unfold key_at. rewrite swap_ent by assumption. reflexivity. Qed.
Lemma swap_item h i j q : i < hlen h -> j < hlen h -> item_at (swap h i j) q = item_at h (tr i j q).
Proof. intros. unfold item_at. rewrite swap_ent by assumption. reflexivity. Qed.

Lemma In_ent h e : In e (hp h) <-> exists q, q < hlen h /\ ent h q = e.
Proof. apply In_nth_iff. Qed.

Lemma swap_In h i j e : i < hlen h -> j < hlen h -> (In e (hp (swap h i j)) <-> In e (hp h)).
Proof.
  intros Hi Hj. rewrite !In_ent, swap_len. split; intros (q & Hq & He).
  - exists (tr i j q). rewrite swap_ent in He by assumption. split; [apply tr_lt; assumption|assumption].
  - exists (tr i j q). rewrite swap_ent, tr_invol by assumption. split; [apply tr_lt; assumption|assumption].
Qed.

(* ---------- index consistency ---------- *)
Definition wf (h : uheap) : Prop :=
  forall x q, ix h x = Some q <-> (q < hlen h /\ item_at h q = x).

Lemma wf_at h q : wf h -> q < hlen h -> ix h (item_at h q) = Some q.
Proof. intros H Hq. apply H. split; [assumption|reflexivity]. Qed.

Lemma wf_inj h p q : wf h -> p < hlen h -> q < hlen h -> item_at h p = item_at h q -> p = q.
Proof.
  intros H Hp Hq E. pose proof (wf_at h p H Hp) as A. rewrite E, (wf_at h q H Hq) in A. congruence.
Qed.

Lemma upd_ix_same f x v : upd_ix f x v x = v.
Proof. unfold upd_ix. rewrite N.eqb_refl. reflexivity. Qed.
Lemma upd_ix_other f x v y : y <> x -> upd_ix f x v y = f y.
Proof. unfold upd_ix. intros H. apply N.eqb_neq in H. rewrite H. reflexivity. Qed.

Lemma swap_wf h i j : wf h -> i < hlen h -> j < hlen h -> wf (swap h i j).
Proof.
  intros H Hi Hj x q. rewrite swap_len, swap_ix, swap_item by assumption.
  destruct (N.eq_dec x (item_at h j)) as [->|Hxj].
  - rewrite upd_ix_same. split.
    + intros [= <-]. split; [assumption|]. unfold tr.
      destruct (Nat.eqb_spec i j) as [->|]; [reflexivity|]. rewrite Nat.eqb_refl. reflexivity.
    + intros [Hq E]. f_equal.
      assert (T : tr i j q = j) by (apply (wf_inj h); [assumption|apply tr_lt; assumption|assumption|assumption]).
      rewrite <- (tr_invol i j q), T. unfold tr. rewrite Nat.eqb_refl. reflexivity.
  - rewrite upd_ix_other by assumption.
    destruct (N.eq_dec x (item_at h i)) as [->|Hxi].
    + rewrite upd_ix_same. split.
      * intros [= <-]. split; [assumption|]. unfold tr. rewrite Nat.eqb_refl. reflexivity.
      * intros [Hq E]. f_equal.
        assert (T : tr i j q = i) by (apply (wf_inj h); [assumption|apply tr_lt; assumption|assumption|assumption]).
        rewrite <- (tr_invol i j q), T. unfold tr.
        destruct (Nat.eqb_spec i j) as [->|]; [reflexivity|]. rewrite Nat.eqb_refl. reflexivity.
    + rewrite upd_ix_other by assumption. rewrite (H x q). unfold tr.
      destruct (Nat.eqb_spec q j) as [->|]; [split; intros [A B]; congruence|].
      destruct (Nat.eqb_spec q i) as [->|]; [split; intros [A B]; congruence|]. tauto.
Qed.

(* ---------- heap order ---------- *)
Definition le_par (h : uheap) (j : nat) : Prop := j = 0 \/ (key_at h (par j) <= key_at h j)%N.
Definition ordered (h : uheap) : Prop := forall j, j < hlen h -> le_par h j.

(* ordered except for the edge (parent i, i) *)
Definition swim_inv (h : uheap) (i : nat) : Prop :=
  i < hlen h /\
  (forall j, j < hlen h -> j <> i -> le_par h j) /\
  (i > 0 -> forall c, c < hlen h -> c > 0 -> par c = i -> (key_at h (par i) <= key_at h c)%N).

(* ordered except for the edges (i, child of i) *)
Definition sink_inv (h : uheap) (i : nat) : Prop :=
  i < hlen h /\
  (forall j, j < hlen h -> j > 0 -> par j <> i -> le_par h j) /\
  (i > 0 -> forall c, c < hlen h -> c > 0 -> par c = i -> (key_at h (par i) <= key_at h c)%N).

Definition same_entries (h h' : uheap) : Prop :=
  hlen h' = hlen h /\ forall e, In e (hp h') <-> In e (hp h).

Ltac case_tr :=
  unfold tr; repeat match goal with |- context [Nat.eqb ?a ?b] => destruct (Nat.eqb_spec a b) end.

Lemma swim_ok : forall fuel h i, wf h -> swim_inv h i -> i < fuel ->
  exists h', swim fuel h i = Some h' /\ wf h' /\ ordered h' /\ same_entries h h'.
Proof.
  induction fuel as [|fu IH]; intros h i Hwf (Hi & Hord & Hgp) Hf; [lia|].
  cbn [swim]. rewrite parent_eq. destruct (Nat.eqb_spec i 0) as [->|Hi0].
  { exists h. split; [reflexivity|]. split; [assumption|]. split; [|split; [reflexivity|tauto]].
    intros j Hj. destruct (Nat.eq_dec j 0) as [->|]; [left; reflexivity|apply Hord; assumption]. }
  assert (Hp : par i < i) by (unfold par; lia).
  destruct (N.ltb_spec (key_at h i) (key_at h (par i))) as [Hlt|Hge].
  2:{ exists h. split; [reflexivity|]. split; [assumption|]. split; [|split; [reflexivity|tauto]].
      intros j Hj. destruct (Nat.eq_dec j i) as [->|]; [right; assumption|apply Hord; assumption]. }
  set (p := par i) in *.
  assert (Hpn : p < hlen h) by lia.
  destruct (IH (swap h p i) p) as (h' & Hs & Hwf' & Hord' & Hlen' & Hin').
  - apply swap_wf; assumption.
  - unfold swim_inv. rewrite swap_len. split; [assumption|]. split.
    + intros j Hj Hjp. destruct (Nat.eq_dec j 0) as [->|Hj0]; [left; reflexivity|]. right.
      rewrite !swap_key by assumption.
      destruct (Nat.eq_dec j i) as [->|Hji].
      * fold p. case_tr; try lia.
      * assert (Hoj := Hord j Hj Hji). destruct Hoj as [->|Hoj]; [lia|].
        destruct (Nat.eq_dec (par j) p) as [Ejp|Njp].
        { rewrite Ejp in *. case_tr; try lia. }
        destruct (Nat.eq_dec (par j) i) as [Eji|Nji].
        { rewrite Eji in *. assert (G := Hgp ltac:(lia) j Hj ltac:(lia) Eji). fold p in G. case_tr; try lia. }
        case_tr; try lia.
    + intros Hp0 c Hc Hc0 Hcp. rewrite !swap_key by assumption.
      assert (Hpp : par p < p) by (unfold par; lia).
      assert (Hop := Hord p Hpn ltac:(lia)). destruct Hop as [->|Hop]; [lia|].
      destruct (Nat.eq_dec c i) as [->|Hci].
      * case_tr; try lia.
      * assert (Hoc := Hord c Hc Hci). destruct Hoc as [->|Hoc]; [lia|]. rewrite Hcp in Hoc.
        assert (c <> p) by (unfold par in Hcp; lia).
        case_tr; try lia.
  - lia.
  - exists h'. split; [exact Hs|]. split; [assumption|]. split; [assumption|].
    rewrite swap_len in Hlen'. split; [assumption|].
    intros e. rewrite Hin'. apply swap_In; assumption.
Qed.

Lemma sink_step h i c : wf h -> sink_inv h i -> c < hlen h -> c > 0 -> par c = i ->
  (key_at h c < key_at h i)%N ->
  (forall c', c' < hlen h -> c' > 0 -> par c' = i -> (key_at h c <= key_at h c')%N) ->
  sink_inv (swap h i c) c.
Proof.
  intros Hwf (Hi & Hord & Hgp) Hc Hc0 Hpc Hlt Hmin.
  assert (Hic : i < c) by (unfold par in Hpc; lia).
  unfold sink_inv. rewrite swap_len. split; [assumption|]. split.
  - intros j Hj Hj0 Hjc. right. rewrite !swap_key by assumption.
    destruct (Nat.eq_dec j c) as [->|Njc].
    { rewrite Hpc. case_tr; try lia. }
    destruct (Nat.eq_dec j i) as [->|Nji].
    { assert (G := Hgp ltac:(lia) c Hc Hc0 Hpc). assert (par i < i) by (unfold par; lia). case_tr; try lia. }
    destruct (Nat.eq_dec (par j) i) as [Eji|Nji'].
    { assert (G := Hmin j Hj Hj0 Eji). rewrite Eji. case_tr; try lia. }
    assert (G := Hord j Hj Hj0 Nji'). destruct G as [->|G]; [lia|]. case_tr; try lia.
  - intros _ d Hd Hd0 Hdc. rewrite !swap_key by assumption. rewrite Hpc.
    assert (Hcd : c < d) by (unfold par in Hdc; lia).
    assert (G := Hord d Hd Hd0 ltac:(lia)). destruct G as [->|G]; [lia|]. rewrite Hdc in G.
    case_tr; try lia.
Qed.

Lemma sink_done h i : sink_inv h i ->
  (forall c, c < hlen h -> c > 0 -> par c = i -> (key_at h i <= key_at h c)%N) -> ordered h.
Proof.
  intros (Hi & Hord & Hgp) Hmin j Hj. destruct (Nat.eq_dec j 0) as [->|Hj0]; [left; reflexivity|].
  destruct (Nat.eq_dec (par j) i) as [E|N].
  - right. rewrite E. apply Hmin; [assumption|lia|assumption].
  - apply Hord; [assumption|lia|assumption].
Qed.

Lemma child_cases c i : c > 0 -> par c = i -> c = 2 * i + 1 \/ c = 2 * i + 2.
Proof. unfold par. lia. Qed.
Lemma par_c1 i : par (2 * i + 1) = i. Proof. unfold par. lia. Qed.
Lemma par_c2 i : par (2 * i + 2) = i. Proof. unfold par. lia. Qed.

Lemma sink_ok : forall fuel h i, wf h -> sink_inv h i -> hlen h - i <= fuel ->
  exists h', sink fuel h i = Some h' /\ wf h' /\ ordered h' /\ same_entries h h'.
Proof.
  induction fuel as [|fu IH]; intros h i Hwf Hinv Hf; [destruct Hinv; lia|].
  assert (Hi : i < hlen h) by (destruct Hinv; assumption).
  assert (Rec : forall c, c < hlen h -> c > 0 -> par c = i -> (key_at h c < key_at h i)%N ->
            (forall c', c' < hlen h -> c' > 0 -> par c' = i -> (key_at h c <= key_at h c')%N) ->
            exists h', sink fu (swap h i c) c = Some h' /\ wf h' /\ ordered h' /\ same_entries h h').
  { intros c Hc Hc0 Hpc Hlt Hmin.
    assert (Hic : i < c) by (unfold par in Hpc; lia).
    destruct (IH (swap h i c) c) as (h' & Hs & Hwf' & Hord' & Hlen' & Hin').
    - apply swap_wf; assumption.
    - apply sink_step; assumption.
    - rewrite swap_len. lia.
    - exists h'. split; [exact Hs|]. split; [assumption|]. split; [assumption|].
      rewrite swap_len in Hlen'. split; [assumption|]. intros e. rewrite Hin'. apply swap_In; assumption. }
  assert (Done : (forall c, c < hlen h -> c > 0 -> par c = i -> (key_at h i <= key_at h c)%N) ->
            exists h', Some h = Some h' /\ wf h' /\ ordered h' /\ same_entries h h').
  { intros Hmin. exists h. split; [reflexivity|]. split; [assumption|].
    split; [eapply sink_done; eassumption|split; [reflexivity|tauto]]. }
  cbn [sink]. set (c1 := 2 * i + 1). set (c2 := 2 * i + 2).
  assert (P1 : par c1 = i) by apply par_c1. assert (P2 : par c2 = i) by apply par_c2.
  destruct (Nat.ltb_spec c1 (hlen h)) as [H1|H1]; cbn [andb gt_opt].
  2:{ apply Done. intros c Hc Hc0 Hpc. destruct (child_cases c i Hc0 Hpc); subst c1; lia. }
  destruct (Nat.ltb_spec c2 (hlen h)) as [H2|H2]; cbn [gt_opt].
  - (* two children *)
    destruct (N.ltb_spec (key_at h c1) (key_at h i)) as [L1|L1].
    + destruct (N.ltb_spec (key_at h c2) (key_at h c1)) as [L21|L21].
      * apply Rec; try assumption; try (subst c2; lia).
        intros c Hc Hc0 Hpc. destruct (child_cases c i Hc0 Hpc) as [-> | ->]; fold c1 c2; lia.
      * apply Rec; try assumption; try (subst c1; lia).
        intros c Hc Hc0 Hpc. destruct (child_cases c i Hc0 Hpc) as [-> | ->]; fold c1 c2; lia.
    + destruct (N.ltb_spec (key_at h c2) (key_at h i)) as [L2|L2].
      * apply Rec; try assumption; try (subst c2; lia).
        intros c Hc Hc0 Hpc. destruct (child_cases c i Hc0 Hpc) as [-> | ->]; fold c1 c2; lia.
      * apply Done. intros c Hc Hc0 Hpc. destruct (child_cases c i Hc0 Hpc) as [-> | ->]; fold c1 c2; lia.
  - (* only the left child *)
    destruct (N.ltb_spec (key_at h c1) (key_at h i)) as [L1|L1].
    + apply Rec; try assumption; try (subst c1; lia).
      intros c Hc Hc0 Hpc. destruct (child_cases c i Hc0 Hpc) as [-> | ->]; fold c1 c2; try lia; subst c2; lia.
    + apply Done. intros c Hc Hc0 Hpc. destruct (child_cases c i Hc0 Hpc) as [-> | ->]; fold c1 c2; try lia; subst c2; lia.
Qed.

(* ---------- consequences of the invariants ---------- *)
Lemma root_min h : ordered h -> forall q, q < hlen h -> (key_at h 0 <= key_at h q)%N.
Proof.
  intros Ho q. induction q as [q IH] using lt_wf_ind. intros Hq.
  destruct (Nat.eq_dec q 0) as [->|Hq0]; [lia|].
  destruct (Ho q Hq) as [->|Hle]; [lia|].
  assert (Hp : par q < q) by (unfold par; lia).
  specialize (IH (par q) Hp ltac:(lia)). lia.
Qed.

Lemma In_pair h k x : In (k, x) (hp h) <-> exists q, q < hlen h /\ key_at h q = k /\ item_at h q = x.
Proof.
  rewrite In_ent. split; intros (q & Hq & E); exists q; (split; [assumption|]).
  - rewrite ent_pair in E. injection E as -> ->. tauto.
  - destruct E as [<- <-]. apply ent_pair.
Qed.

Lemma entry_unique h k k' x : wf h -> In (k, x) (hp h) -> In (k', x) (hp h) -> k = k'.
Proof.
  intros Hwf H1 H2. apply In_pair in H1 as (q1 & Hq1 & <- & E1). apply In_pair in H2 as (q2 & Hq2 & <- & E2).
  rewrite (wf_inj h q1 q2 Hwf Hq1 Hq2) by congruence. reflexivity.
Qed.

Lemma ix_none h x : wf h -> (ix h x = None <-> forall k, ~ In (k, x) (hp h)).
Proof.
  intros Hwf. split.
  - intros Hn k Hin. apply In_pair in Hin as (q & Hq & _ & E).
    assert (A : ix h x = Some q) by (apply Hwf; tauto). congruence.
  - intros Hno. destruct (ix h x) as [q|] eqn:E; [|reflexivity].
    apply Hwf in E as [Hq E]. exfalso. apply (Hno (key_at h q)). apply In_pair. exists q. tauto.
Qed.

Lemma min_entry h k x : ordered h -> In (k, x) (hp h) -> (key_at h 0 <= k)%N.
Proof. intros Ho Hin. apply In_pair in Hin as (q & Hq & <- & _). apply root_min; assumption. Qed.

(* ---------- push ---------- *)
Definition push_entries (h h' : uheap) (it : item) (key : hkey) : Prop :=
  forall e, In e (hp h') <-> e = (key, it) \/ (In e (hp h) /\ snd e <> it).

Lemma push_new_ok h it key : wf h -> ordered h -> ix h it = None ->
  exists h', uheap_push h it key = Some (h', true) /\ wf h' /\ ordered h' /\
             hlen h' = S (hlen h) /\ push_entries h h' it key.
Proof.
  intros Hwf Ho Hn. unfold uheap_push. rewrite Hn.
  set (n := hlen h).
  set (h1 := {| hp := hp h ++ [(key, it)]; ix := upd_ix (ix h) it (Some n) |}).
  assert (Hlen1 : hlen h1 = S n) by (unfold hlen, h1; cbn [hp]; rewrite app_length; cbn [length]; fold (hlen h); lia).
  assert (Hent_lt : forall q, q < n -> ent h1 q = ent h q).
  { intros q Hq. unfold ent, h1. cbn [hp]. apply app_nth1. exact Hq. }
  assert (Hent_n : ent h1 n = (key, it)).
  { unfold ent, h1. cbn [hp]. rewrite app_nth2 by (fold (hlen h); lia). fold (hlen h). fold n. rewrite Nat.sub_diag. reflexivity. }
  assert (Hwf1 : wf h1).
  { intros x q. rewrite Hlen1. unfold h1 at 1. cbn [ix].
    destruct (N.eq_dec x it) as [->|Hx].
    - rewrite upd_ix_same. split.
      + intros [= <-]. split; [lia|]. unfold item_at. rewrite Hent_n. reflexivity.
      + intros [Hq E]. f_equal. destruct (Nat.eq_dec q n) as [->|Hqn]; [reflexivity|].
        exfalso. assert (q < n) by lia. unfold item_at in E. rewrite Hent_lt in E by assumption.
        assert (A : ix h it = Some q) by (apply Hwf; split; assumption). congruence.
    - rewrite upd_ix_other by assumption. rewrite (Hwf x q). fold n. split; intros [Hq E].
      + split; [lia|]. unfold item_at. rewrite Hent_lt by assumption. exact E.
      + destruct (Nat.eq_dec q n) as [->|Hqn].
        * unfold item_at in E. rewrite Hent_n in E. cbn in E. congruence.
        * assert (q < n) by lia. split; [assumption|]. unfold item_at in E. rewrite Hent_lt in E by assumption. exact E. }
  assert (Hinv : swim_inv h1 n).
  { unfold swim_inv. rewrite Hlen1. split; [lia|]. split.
    - intros j Hj Hjn. assert (Hjn' : j < n) by lia.
      destruct (Ho j Hjn') as [->|Hle]; [left; reflexivity|]. right.
      destruct (Nat.eq_dec j 0) as [->|Hj0]; [unfold par; cbn; lia|].
      assert (par j < n) by (unfold par; lia).
      unfold key_at. rewrite !Hent_lt by assumption. exact Hle.
    - intros _ c Hc Hc0 Hpc. unfold par in Hpc. lia. }
  destruct (swim_ok (hlen h1) h1 n Hwf1 Hinv ltac:(lia)) as (h' & Hs & Hwf' & Ho' & Hlen' & Hin').
  rewrite Hs. cbn [obind]. exists h'. split; [reflexivity|]. split; [assumption|]. split; [assumption|].
  split; [lia|]. intros e. rewrite Hin'. unfold h1. cbn [hp]. rewrite in_app_iff. cbn [In].
  pose proof (proj1 (ix_none h it Hwf) Hn) as Hno.
  split.
  - intros [H|[H|[]]]; [right|left; congruence]. split; [assumption|]. intro E. destruct e as [k x]. cbn in E. subst x. apply (Hno k H).
  - intros [->|[H _]]; [right; left; reflexivity|left; assumption].
Qed.

Lemma push_upd_ok h it key index : wf h -> ordered h -> ix h it = Some index ->
  exists h', uheap_push h it key = Some (h', false) /\ wf h' /\ ordered h' /\
             hlen h' = hlen h /\ push_entries h h' it key.
Proof.
  intros Hwf Ho Hix. unfold uheap_push. rewrite Hix.
  apply Hwf in Hix as [Hidx Hitem].
  assert (Hne : nth_error (hp h) index = Some (ent h index)) by (apply nth_error_nth'; exact Hidx).
  rewrite Hne, ent_pair, Hitem.
  set (oldkey := key_at h index).
  assert (Hold : In (oldkey, it) (hp h)) by (apply In_pair; exists index; tauto).
  assert (Hother : forall e, In e (hp h) -> snd e <> it <-> e <> (oldkey, it)).
  { intros [k x] He. cbn [snd]. split; [congruence|]. intros Hn E. subst x. apply Hn. f_equal.
    eapply entry_unique; eassumption. }
  destruct (N.eqb_spec oldkey key) as [Ek|Nk].
  { exists h. split; [reflexivity|]. split; [assumption|]. split; [assumption|]. split; [reflexivity|].
    intros e. subst key. split.
    - intros He. destruct (N.eq_dec (snd e) it) as [E|E]; [left|right; tauto].
      destruct e as [k x]. cbn in E. subst x. f_equal. eapply entry_unique; eassumption.
    - intros [->|[He _]]; assumption. }
  set (h1 := {| hp := set_nth (hp h) index (key, it); ix := ix h |}).
  assert (Hlen1 : hlen h1 = hlen h) by (unfold hlen, h1; cbn [hp]; apply set_nth_length).
  assert (Hent1 : forall q, ent h1 q = if Nat.eqb q index then (key, it) else ent h q).
  { intros q. unfold ent, h1. cbn [hp]. apply nth_set_nth. exact Hidx. }
  assert (Hkey1 : forall q, q <> index -> key_at h1 q = key_at h q).
  { intros q Hq. unfold key_at. rewrite Hent1. destruct (Nat.eqb_spec q index); [contradiction|reflexivity]. }
  assert (Hkeyi : key_at h1 index = key) by (unfold key_at; rewrite Hent1, Nat.eqb_refl; reflexivity).
  assert (Hitem1 : forall q, item_at h1 q = item_at h q).
  { intros q. unfold item_at. rewrite Hent1. destruct (Nat.eqb_spec q index) as [->|]; [symmetry; exact Hitem|reflexivity]. }
  assert (Hwf1 : wf h1).
  { intros x q. rewrite Hlen1, Hitem1. unfold h1 at 1. cbn [ix]. apply Hwf. }
  assert (Hin1 : push_entries h h1 it key).
  { intros e. rewrite In_ent, Hlen1. split.
    - intros (q & Hq & E). rewrite Hent1 in E. destruct (Nat.eqb_spec q index) as [->|Hqi]; [left; congruence|right].
      assert (He : In e (hp h)) by (apply In_ent; exists q; tauto). split; [assumption|].
      rewrite <- E. fold (item_at h q). intro Eit. apply Hqi. apply (wf_inj h); try assumption. congruence.
    - intros [->|[He Hs]].
      + exists index. split; [assumption|]. rewrite Hent1, Nat.eqb_refl. reflexivity.
      + apply In_ent in He as (q & Hq & E). exists q. split; [assumption|]. rewrite Hent1.
        destruct (Nat.eqb_spec q index) as [->|]; [|assumption].
        exfalso. apply Hs. rewrite <- E. exact Hitem. }
  assert (Fin : forall h', (if match parent index with Some p => N.ltb key (key_at h1 p) | None => false end
                            then swim (hlen h1) h1 index else sink (hlen h1) h1 index) = Some h' ->
                wf h' -> ordered h' -> same_entries h1 h' ->
                exists h'0, obind (if match parent index with Some p => N.ltb key (key_at h1 p) | None => false end
                            then swim (hlen h1) h1 index else sink (hlen h1) h1 index) (fun h2 => Some (h2, false)) = Some (h'0, false) /\
                  wf h'0 /\ ordered h'0 /\ hlen h'0 = hlen h /\ push_entries h h'0 it key).
  { intros h' Hs Hwf' Ho' [Hlen' Hin']. rewrite Hs. cbn [obind]. exists h'. split; [reflexivity|].
    split; [assumption|]. split; [assumption|]. split; [lia|]. intros e. rewrite Hin'. apply Hin1. }
  rewrite parent_eq.
  destruct (Nat.eqb_spec index 0) as [Hi0|Hi0].
  - (* root: sink *)
    destruct (sink_ok (hlen h1) h1 index Hwf1) as (h' & Hs & Hwf' & Ho' & Hse); [|lia|].
    + unfold sink_inv. rewrite Hlen1. split; [assumption|]. split; [|lia].
      intros j Hj Hj0 Hpj. destruct (Ho j Hj) as [->|Hle]; [lia|]. right.
      assert (j <> index) by lia. rewrite !Hkey1 by assumption. exact Hle.
    + rewrite parent_eq in Fin. destruct (Nat.eqb_spec index 0); [|contradiction]. eapply Fin; eassumption.
  - assert (Hp : par index < index) by (unfold par; lia).
    rewrite parent_eq in Fin. destruct (Nat.eqb_spec index 0); [contradiction|].
    rewrite (Hkey1 (par index)) in * by lia.
    assert (Hopar : (key_at h (par index) <= oldkey)%N) by (destruct (Ho index Hidx) as [->|Hle]; [lia|exact Hle]).
    assert (Hchild : forall c, c < hlen h -> c > 0 -> par c = index -> (oldkey <= key_at h c)%N).
    { intros c Hc Hc0 Hpc. destruct (Ho c Hc) as [->|Hle]; [lia|]. rewrite Hpc in Hle. exact Hle. }
    destruct (N.ltb_spec key (key_at h (par index))) as [Hlt|Hge].
    + (* swim *)
      destruct (swim_ok (hlen h1) h1 index Hwf1) as (h' & Hs & Hwf' & Ho' & Hse); [|lia|].
      * unfold swim_inv. rewrite Hlen1. split; [assumption|]. split.
        { intros j Hj Hji. destruct (Nat.eq_dec j 0) as [->|Hj0]; [left; reflexivity|]. right.
          destruct (Ho j Hj) as [->|Hle]; [lia|].
          rewrite (Hkey1 j) by assumption.
          destruct (Nat.eq_dec (par j) index) as [E|N].
          - rewrite E, Hkeyi. specialize (Hchild j Hj ltac:(lia) E). lia.
          - rewrite Hkey1 by assumption. exact Hle. }
        { intros _ c Hc Hc0 Hpc. assert (c <> index) by (unfold par in Hpc; lia).
          rewrite (Hkey1 c) by assumption. rewrite (Hkey1 (par index)) by lia.
          specialize (Hchild c Hc Hc0 Hpc). lia. }
      * eapply Fin; eassumption.
    + (* sink *)
      destruct (sink_ok (hlen h1) h1 index Hwf1) as (h' & Hs & Hwf' & Ho' & Hse); [|lia|].
      * unfold sink_inv. rewrite Hlen1. split; [assumption|]. split.
        { intros j Hj Hj0 Hpj. right. destruct (Nat.eq_dec j index) as [->|Hji].
          - rewrite Hkeyi, Hkey1 by lia. lia.
          - destruct (Ho j Hj) as [->|Hle]; [lia|]. rewrite !Hkey1 by assumption. exact Hle. }
        { intros _ c Hc Hc0 Hpc. assert (c <> index) by (unfold par in Hpc; lia).
          rewrite (Hkey1 c) by assumption. rewrite (Hkey1 (par index)) by lia.
          specialize (Hchild c Hc Hc0 Hpc). lia. }
      * eapply Fin; eassumption.
Qed.

(* ---------- pop ---------- *)
Lemma pop_ok h : wf h -> ordered h -> hlen h > 0 ->
  exists h' k x, uheap_pop_with_key h = Some (h', (k, x)) /\
    In (k, x) (hp h) /\ (forall k' x', In (k', x') (hp h) -> (k <= k')%N) /\
    wf h' /\ ordered h' /\ S (hlen h') = hlen h /\
    (forall e, In e (hp h') <-> In e (hp h) /\ snd e <> x).
Proof.
  intros Hwf Ho Hpos. unfold uheap_pop_with_key.
  destruct (hp h) as [|[key it] rest] eqn:Ehp; [unfold hlen in Hpos; rewrite Ehp in Hpos; cbn in Hpos; lia|].
  rewrite <- Ehp.
  assert (Hent0 : ent h 0 = (key, it)) by (unfold ent; rewrite Ehp; reflexivity).
  assert (Hk0 : key_at h 0 = key) by (unfold key_at; rewrite Hent0; reflexivity).
  assert (Hi0 : item_at h 0 = it) by (unfold item_at; rewrite Hent0; reflexivity).
  set (n := hlen h) in *. set (l := n - 1).
  assert (Hl : l < n) by lia.
  set (h1 := swap h 0 l).
  assert (Hwf1 : wf h1) by (apply swap_wf; assumption).
  assert (Hlen1 : hlen h1 = n) by apply swap_len.
  assert (Hlast : item_at h1 l = it).
  { unfold h1. rewrite swap_item by assumption. unfold tr. rewrite Nat.eqb_refl. exact Hi0. }
  set (h2 := {| hp := removelast (hp h1); ix := upd_ix (ix h1) it None |}).
  assert (Hlen2 : hlen h2 = l).
  { unfold hlen at 1, h2. cbn [hp]. rewrite removelast_length. fold (hlen h1). lia. }
  assert (Hent2 : forall q, q < l -> ent h2 q = ent h1 q).
  { intros q Hq. unfold ent, h2. cbn [hp]. apply nth_removelast. fold (hlen h1). lia. }
  assert (Hwf2 : wf h2).
  { intros x q. rewrite Hlen2. unfold h2 at 1. cbn [ix].
    destruct (N.eq_dec x it) as [->|Hx].
    - rewrite upd_ix_same. split; [discriminate|]. intros [Hq E]. exfalso.
      unfold item_at in E. rewrite Hent2 in E by assumption. fold (item_at h1 q) in E.
      assert (q = l) by (apply (wf_inj h1); try assumption; try lia; congruence). lia.
    - rewrite upd_ix_other by assumption. rewrite (Hwf1 x q), Hlen1. split; intros [Hq E].
      + destruct (Nat.eq_dec q l) as [->|Hql]; [congruence|].
        split; [lia|]. unfold item_at. rewrite Hent2 by lia. exact E.
      + split; [lia|]. unfold item_at in E. rewrite Hent2 in E by assumption. exact E. }
  assert (Hin2 : forall e, In e (hp h2) <-> In e (hp h) /\ snd e <> it).
  { intros e. rewrite <- (swap_In h 0 l e) by assumption. fold h1. rewrite !In_ent, Hlen1, Hlen2. split.
    - intros (q & Hq & E). rewrite Hent2 in E by assumption. split; [exists q; split; [lia|assumption]|].
      rewrite <- E. fold (item_at h1 q). intro Eit.
      assert (q = l) by (apply (wf_inj h1); try assumption; try lia; congruence). lia.
    - intros [(q & Hq & E) Hs]. exists q. destruct (Nat.eq_dec q l) as [->|Hql].
      + exfalso. apply Hs. rewrite <- E. exact Hlast.
      + split; [lia|]. rewrite Hent2 by lia. exact E. }
  assert (Hmin : forall k' x', In (k', x') (hp h) -> (key <= k')%N).
  { intros k' x' Hin. rewrite <- Hk0. eapply min_entry; eassumption. }
  assert (Hhead : In (key, it) (hp h)) by (rewrite Ehp; left; reflexivity).
  fold h1. fold h2. rewrite Hlen2.
  destruct (Nat.eqb_spec l 0) as [Hl0|Hl0].
  - exists h2, key, it. split; [reflexivity|]. split; [assumption|]. split; [assumption|].
    split; [assumption|]. split; [intros j Hj; rewrite Hlen2 in Hj; lia|]. split; [lia|assumption].
  - destruct (sink_ok l h2 0 Hwf2) as (h' & Hs & Hwf' & Ho' & Hlen' & Hin'); [|lia|].
    + unfold sink_inv. rewrite Hlen2. split; [lia|]. split; [|lia].
      intros j Hj Hj0 Hpj. assert (Hpj' : par j < j) by (unfold par; lia).
      destruct (Ho j ltac:(lia)) as [->|Hle]; [lia|]. right.
      unfold key_at. rewrite !Hent2 by lia. unfold h1. rewrite !swap_ent by assumption.
      replace (tr 0 l j) with j by (unfold tr; case_tr; lia).
      replace (tr 0 l (par j)) with (par j) by (unfold tr; case_tr; lia). exact Hle.
    + rewrite Hs. cbn [obind]. exists h', key, it. split; [reflexivity|]. split; [assumption|]. split; [assumption|].
      split; [assumption|]. split; [assumption|]. split; [lia|]. intros e. rewrite Hin'. apply Hin2.
Qed.

(* ---------- the finite-map specification ---------- *)
Lemma sp_get_In m x k : sp_get m x = Some k -> In (x, k) m.
Proof.
  induction m as [|[y k'] m IH]; cbn [sp_get]; [discriminate|].
  destruct (N.eqb_spec x y) as [->|]; [intros [= ->]; left; reflexivity|]. intros H. right. apply IH, H.
Qed.
Lemma sp_In_get m x k : NoDup (map fst m) -> In (x, k) m -> sp_get m x = Some k.
Proof.
  induction m as [|[y k'] m IH]; cbn [sp_get map fst]; intros Hnd Hin; [destruct Hin|].
  apply NoDup_cons_iff in Hnd as [Hy Hnd]. destruct Hin as [[= -> ->]|Hin]; [rewrite N.eqb_refl; reflexivity|].
  destruct (N.eqb_spec x y) as [->|]; [|apply IH; assumption].
  exfalso. apply Hy. apply (in_map fst) in Hin. exact Hin.
Qed.
Lemma sp_get_set m x k y : sp_get (sp_set m x k) y = if N.eqb y x then Some k else sp_get m y.
Proof.
  induction m as [|[z k'] m IH]; cbn [sp_set sp_get].
  - destruct (N.eqb y x); reflexivity.
  - destruct (N.eqb_spec x z) as [->|Hxz]; cbn [sp_get].
    + destruct (N.eqb y z); reflexivity.
    + rewrite IH. destruct (N.eqb_spec y z) as [->|]; [|reflexivity].
      destruct (N.eqb_spec z x); [congruence|reflexivity].
Qed.
Lemma sp_set_keys m x k :
  map fst (sp_set m x k) = match sp_get m x with Some _ => map fst m | None => map fst m ++ [x] end.
Proof.
  induction m as [|[z k'] m IH]; cbn [sp_set sp_get map fst app]; [reflexivity|].
  destruct (N.eqb_spec x z) as [->|]; cbn [map fst]; [reflexivity|]. rewrite IH.
  destruct (sp_get m x); reflexivity.
Qed.
Lemma sp_get_none m x : sp_get m x = None -> ~ In x (map fst m).
Proof.
  induction m as [|[z k'] m IH]; cbn [sp_get map fst]; [tauto|].
  destruct (N.eqb_spec x z) as [->|]; [discriminate|]. intros H [E|E]; [congruence|]. apply IH; assumption.
Qed.
Lemma sp_set_nodup m x k : NoDup (map fst m) -> NoDup (map fst (sp_set m x k)).
Proof.
  intros H. rewrite sp_set_keys. destruct (sp_get m x) eqn:E; [assumption|].
  apply sp_get_none in E. apply NoDup_rev in H. rewrite <- (rev_involutive (_ ++ _)), rev_app_distr.
  apply NoDup_rev. cbn [rev app]. constructor; [rewrite <- in_rev; assumption|assumption].
Qed.
Lemma sp_set_length m x k :
  length (sp_set m x k) = match sp_get m x with Some _ => length m | None => S (length m) end.
Proof.
  rewrite <- !(map_length fst), sp_set_keys. destruct (sp_get m x); [reflexivity|].
  rewrite app_length. cbn. lia.
Qed.
Lemma sp_get_del m x y : NoDup (map fst m) -> sp_get (sp_del m x) y = if N.eqb y x then None else sp_get m y.
Proof.
  induction m as [|[z k'] m IH]; cbn [sp_del sp_get map fst]; intros Hnd.
  - destruct (N.eqb y x); reflexivity.
  - apply NoDup_cons_iff in Hnd as [Hz Hnd]. destruct (N.eqb_spec x z) as [->|Hxz]; cbn [sp_get].
    + destruct (N.eqb_spec y z) as [Eyz|Nyz]; [rewrite Eyz|reflexivity].
      destruct (sp_get m z) eqn:E; [|reflexivity]. apply sp_get_In in E. apply (in_map fst) in E. contradiction.
    + rewrite IH by assumption. destruct (N.eqb_spec y z) as [Eyz|Nyz]; [rewrite Eyz|reflexivity].
      destruct (N.eqb_spec z x); [congruence|reflexivity].
Qed.
Lemma sp_del_incl m x : incl (map fst (sp_del m x)) (map fst m).
Proof.
  induction m as [|[z k'] m IH]; cbn [sp_del map fst]; [apply incl_refl|].
  destruct (N.eqb x z); [apply incl_tl, incl_refl|]. cbn [map fst].
  intros a [<-|Ha]; [left; reflexivity|right; apply IH, Ha].
Qed.
Lemma sp_del_nodup m x : NoDup (map fst m) -> NoDup (map fst (sp_del m x)).
Proof.
  induction m as [|[z k'] m IH]; cbn [sp_del map fst]; intros Hnd; [constructor|].
  apply NoDup_cons_iff in Hnd as [Hz Hnd]. destruct (N.eqb x z); [assumption|]. cbn [map fst].
  constructor; [|apply IH; assumption]. intro Hin. apply Hz. eapply sp_del_incl, Hin.
Qed.
Lemma sp_del_length m x k : sp_get m x = Some k -> S (length (sp_del m x)) = length m.
Proof.
  induction m as [|[z k'] m IH]; cbn [sp_del sp_get length]; [discriminate|].
  destruct (N.eqb x z); [reflexivity|]. intros H. cbn [length]. rewrite IH by assumption. reflexivity.
Qed.

Definition Rel (h : uheap) (m : smap) : Prop :=
  wf h /\ ordered h /\ NoDup (map fst m) /\ hlen h = length m /\
  forall x k, In (k, x) (hp h) <-> sp_get m x = Some k.

Lemma Rel_min h m k x : Rel h m -> In (k, x) (hp h) -> (forall k' x', In (k', x') (hp h) -> (k <= k')%N) ->
  sp_get m x = Some k /\ sp_min_ok m k = true.
Proof.
  intros (Hwf & Ho & Hnd & Hlen & Hrel) Hin Hmin. split; [apply Hrel; assumption|].
  unfold sp_min_ok. apply forallb_forall. intros [y k'] Hy. cbn [snd]. apply N.leb_le.
  apply (Hmin k' y). apply Hrel. apply sp_In_get; assumption.
Qed.

Lemma Rel_empty : Rel uheap_empty [].
Proof.
  split; [|split; [|split; [constructor|split; [reflexivity|]]]].
  - intros x q. cbn. split; [discriminate|lia].
  - intros j Hj. cbn in Hj. lia.
  - intros x k. cbn. split; [tauto|discriminate].
Qed.

Lemma Rel_pop h m : Rel h m -> hlen h > 0 ->
  exists h' k x, uheap_pop_with_key h = Some (h', (k, x)) /\ hp h <> [] /\
    sp_get m x = Some k /\ sp_min_ok m k = true /\ Rel h' (sp_del m x).
Proof.
  intros HR Hpos. pose proof HR as (Hwf & Ho & Hnd & Hlen & Hrel).
  destruct (pop_ok h Hwf Ho Hpos) as (h' & k & x & Hp & Hin & Hmin & Hwf' & Ho' & Hlen' & Hin').
  destruct (Rel_min h m k x HR Hin Hmin) as [Hg Hm].
  exists h', k, x. split; [assumption|]. split; [intro E; unfold hlen in Hpos; rewrite E in Hpos; cbn in Hpos; lia|].
  split; [assumption|]. split; [assumption|].
  split; [assumption|]. split; [assumption|]. split; [apply sp_del_nodup; assumption|].
  split; [pose proof (sp_del_length m x k Hg); lia|].
  intros y k'. rewrite Hin', sp_get_del by assumption. cbn [snd].
  destruct (N.eqb_spec y x) as [->|Hyx]; [split; [tauto|discriminate]|]. rewrite Hrel. tauto.
Qed.

Lemma Rel_push h m it key : Rel h m ->
  exists h', uheap_push h it key = Some (h', match sp_get m it with None => true | Some _ => false end) /\
             Rel h' (sp_set m it key).
Proof.
  intros (Hwf & Ho & Hnd & Hlen & Hrel).
  assert (Fin : forall h' (b : bool), wf h' -> ordered h' -> push_entries h h' it key ->
            hlen h' = (if b then S (hlen h) else hlen h) ->
            b = match sp_get m it with None => true | Some _ => false end ->
            Rel h' (sp_set m it key)).
  { intros h' b Hwf' Ho' Hpe Hl Hb. split; [assumption|]. split; [assumption|].
    split; [apply sp_set_nodup; assumption|]. split.
    - rewrite sp_set_length, Hl, Hb. destruct (sp_get m it); lia.
    - intros y k'. rewrite (Hpe (k', y)), sp_get_set, Hrel. cbn [snd].
      destruct (N.eqb_spec y it) as [->|Hy].
      + split; [intros [[= ->]|[_ C]]; [reflexivity|congruence]|intros [= ->]; left; reflexivity].
      + split; [intros [[= _ C]|[A _]]; [congruence|assumption]|intros A; right; split; assumption]. }
  destruct (ix h it) as [index|] eqn:Eix.
  - destruct (push_upd_ok h it key index Hwf Ho Eix) as (h' & Hp & Hwf' & Ho' & Hl & Hpe).
    assert (Hg : exists k0, sp_get m it = Some k0).
    { apply Hwf in Eix as [Hq Hi]. exists (key_at h index). apply Hrel. apply In_pair. exists index. tauto. }
    destruct Hg as [k0 Hg]. exists h'. rewrite Hg. split; [assumption|].
    apply (Fin h' false); try assumption. rewrite Hg. reflexivity.
  - destruct (push_new_ok h it key Hwf Ho Eix) as (h' & Hp & Hwf' & Ho' & Hl & Hpe).
    assert (Hg : sp_get m it = None).
    { destruct (sp_get m it) as [k0|] eqn:E; [|reflexivity]. apply Hrel in E.
      exfalso. eapply (proj1 (ix_none h it Hwf)); eassumption. }
    exists h'. rewrite Hg. split; [assumption|].
    apply (Fin h' true); try assumption. rewrite Hg. reflexivity.
Qed.

Lemma step_ok h m o : Rel h m ->
  exists h' out m', ustep h o = Some (h', out) /\ sp_step m o out = Some m' /\ Rel h' m'.
Proof.
  intros HR. pose proof HR as (Hwf & Ho & Hnd & Hlen & Hrel).
  assert (Hnil : hlen h = 0 -> m = []) by (intros E; rewrite E in Hlen; destruct m; [reflexivity|discriminate]).
  destruct o as [it key| | | |]; cbn [ustep].
  - destruct (Rel_push h m it key HR) as (h' & Hp & HR'). rewrite Hp. cbn [obind].
    eexists _, _, _. split; [reflexivity|]. split; [|exact HR']. cbn [sp_step]. rewrite eqb_reflx. reflexivity.
  - destruct (Nat.eqb_spec (hlen h) 0) as [E|E].
    + exists h, UAssert, m. split; [reflexivity|]. split; [|assumption]. cbn [sp_step]. rewrite (Hnil E). reflexivity.
    + destruct (Rel_pop h m HR ltac:(lia)) as (h' & k & x & Hp & _ & Hg & Hm & HR'). rewrite Hp. cbn [obind].
      exists h', (UItem x), (sp_del m x). split; [reflexivity|]. split; [|assumption]. cbn [sp_step]. rewrite Hg, Hm. reflexivity.
  - destruct (Nat.eqb_spec (hlen h) 0) as [E|E].
    + exists h, UAssert, m. split; [reflexivity|]. split; [|assumption]. cbn [sp_step]. rewrite (Hnil E). reflexivity.
    + destruct (Rel_pop h m HR ltac:(lia)) as (h' & k & x & Hp & _ & Hg & Hm & HR'). rewrite Hp. cbn [obind].
      exists h', (UPair k x), (sp_del m x). split; [reflexivity|]. split; [|assumption].
      cbn [sp_step]. unfold sp_pop_ok. rewrite Hg, Hm, N.eqb_refl. reflexivity.
  - destruct (hp h) as [|[k x] rest] eqn:Ehp.
    + exists h, UAssert, m. split; [reflexivity|]. split; [|assumption]. cbn [sp_step].
      rewrite Hnil; [reflexivity|]. unfold hlen. rewrite Ehp. reflexivity.
    + exists h, (UItem x), m. split; [reflexivity|]. split; [|assumption]. cbn [sp_step].
      assert (Hin : In (k, x) (hp h)) by (rewrite Ehp; left; reflexivity).
      assert (Hk : key_at h 0 = k) by (unfold key_at, ent; rewrite Ehp; reflexivity).
      destruct (Rel_min h m k x HR Hin) as [Hg Hm].
      { intros k' x' Hin'. rewrite <- Hk. eapply min_entry; eassumption. }
      rewrite Hg, Hm. reflexivity.
  - exists h, (ULen (hlen h)), m. split; [reflexivity|]. split; [|assumption]. cbn [sp_step].
    rewrite Hlen, Nat.eqb_refl. reflexivity.
Qed.

Lemma run_from_ok ops : forall h m, Rel h m ->
  exists h' outs, urun_from h ops = Some (h', outs) /\ sp_accepts m ops outs = true /\ exists m', Rel h' m'.
Proof.
  induction ops as [|o ops IH]; intros h m HR; cbn [urun_from sp_accepts].
  - exists h, []. split; [reflexivity|]. split; [reflexivity|]. exists m. assumption.
  - destruct (step_ok h m o HR) as (h1 & out & m1 & Hs & Hsp & HR1). rewrite Hs.
    destruct (IH h1 m1 HR1) as (h2 & outs & Hr & Hacc & Hm2). rewrite Hr.
    exists h2, (out :: outs). split; [reflexivity|]. cbn [sp_accepts]. rewrite Hsp. split; assumption.
Qed.

Lemma run_ok ops :
  exists h outs, urun ops = Some (h, outs) /\ wf h /\ ordered h /\ sp_accepts [] ops outs = true.
Proof.
  destruct (run_from_ok ops uheap_empty [] Rel_empty) as (h & outs & Hr & Hacc & m & HR).
  exists h, outs. split; [assumption|]. destruct HR as (Hwf & Ho & _). tauto.
Qed.

(* ---------- repeated pop yields non-decreasing keys ---------- *)
Lemma drain_ok : forall n h, wf h -> ordered h -> hlen h = n ->
  exists ks, drain n h = Some ks /\ length ks = n /\ StronglySorted N.le ks /\
             forall k, In k ks -> exists x, In (k, x) (hp h).
Proof.
  induction n as [|n IH]; intros h Hwf Ho Hn.
  - exists []. cbn [drain]. unfold hlen in Hn. destruct (hp h); [|discriminate].
    split; [reflexivity|]. split; [reflexivity|]. split; [constructor|intros k []].
  - cbn [drain]. destruct (pop_ok h Hwf Ho ltac:(lia)) as (h' & k & x & Hp & Hin & Hmin & Hwf' & Ho' & Hlen' & Hin').
    destruct (hp h) as [|e rest] eqn:Ehp; [unfold hlen in Hn; rewrite Ehp in Hn; discriminate|]. rewrite <- Ehp in *.
    rewrite Hp. cbn [obind].
    destruct (IH h' Hwf' Ho' ltac:(lia)) as (ks & Hd & Hl & Hs & Hk). rewrite Hd. cbn [obind].
    exists (k :: ks). split; [reflexivity|]. split; [cbn; lia|]. split.
    + constructor; [assumption|]. apply Forall_forall. intros k' Hk'.
      destruct (Hk k' Hk') as (x' & Hx'). apply Hin' in Hx' as [Hx' _]. eapply Hmin, Hx'.
    + intros k' [<-|Hk']; [exists x; assumption|]. destruct (Hk k' Hk') as (x' & Hx'). exists x'. apply Hin', Hx'.
Qed.
