(* Hand model of problog/util.py class UHeap (lines 449-587).
     hp : list (key * item)     -- self._heap   (array-embedded binary heap)
     ix : item -> option nat    -- self._index  (dict item -> position; only get / set / del are used)
   The `key` function given to the constructor may answer differently each time
   it is asked (ProbLog's forward.py re-pushes a node when its heuristic key
   changed), so `push` takes the key computed at that moment as an argument.
   Keys are naturals (any total order would do; only < > == are used).
   Recursion of _swim_up / _sink_down: explicit fuel (= len(self._heap)),
   None when it runs out or when Python would raise IndexError.
   No proofs in this file: it must keep running when a proof breaks. *)
From Coq Require Import Arith NArith List Bool.
Import ListNotations.

Definition hkey := N.
Definition item := N.

Record uheap := { hp : list (hkey * item); ix : item -> option nat }.

Definition uheap_empty : uheap := {| hp := []; ix := fun _ => None |}.

(* l[i] = v *)
Fixpoint set_nth {A} (l : list A) (i : nat) (v : A) : list A :=
  match l, i with
  | [], _ => []
  | _ :: t, O => v :: t
  | x :: t, S i' => x :: set_nth t i' v
  end.

Definition upd_ix (f : item -> option nat) (x : item) (v : option nat) : item -> option nat :=
  fun y => if N.eqb y x then v else f y.

Definition ent (h : uheap) (i : nat) : hkey * item := nth i (hp h) (0%N, 0%N).
Definition key_at (h : uheap) (i : nat) : hkey := fst (ent h i).
Definition item_at (h : uheap) (i : nat) : item := snd (ent h i).
Definition hlen (h : uheap) : nat := length (hp h).

(* _swap(index1, index2) *)
Definition swap (h : uheap) (i j : nat) : uheap :=
  let '(k1, it1) := ent h i in
  let '(k2, it2) := ent h j in
  {| hp := set_nth (set_nth (hp h) i (k2, it2)) j (k1, it1);
     ix := upd_ix (upd_ix (ix h) it1 (Some j)) it2 (Some i) |}.

(* _parent(index) *)
Definition parent (i : nat) : option nat := if Nat.eqb i 0 then None else Some ((i - 1) / 2).

(* _swim_up(index):  p = parent(index)
                     if p is not None and heap[p].key > heap[index].key: swap(p, index); swim_up(p) *)
Fixpoint swim (fuel : nat) (h : uheap) (i : nat) : option uheap :=
  match fuel with
  | O => None
  | S fu => match parent i with
            | Some p => if N.ltb (key_at h i) (key_at h p) then swim fu (swap h p i) p else Some h
            | None => Some h
            end
  end.

(* `o is not None and k > o` *)
Definition gt_opt (k : hkey) (o : option hkey) : bool :=
  match o with Some v => N.ltb v k | None => false end.

(* _sink_down(index) *)
Fixpoint sink (fuel : nat) (h : uheap) (i : nat) : option uheap :=
  match fuel with
  | O => None
  | S fu =>
      let c1 := 2 * i + 1 in
      let c2 := 2 * i + 2 in
      let n := hlen h in
      let k1 := if Nat.ltb c1 n then Some (key_at h c1) else None in
      let k2 := if Nat.ltb c1 n && Nat.ltb c2 n then Some (key_at h c2) else None in
      let k := key_at h i in
      if gt_opt k k1 then
        if (match k1, k2 with Some a, Some b => N.ltb b a | _, _ => false end)
        then sink fu (swap h i c2) c2
        else sink fu (swap h i c1) c1
      else if gt_opt k k2 then sink fu (swap h i c2) c2
      else Some h
  end.

Definition obind {A B} (x : option A) (f : A -> option B) : option B :=
  match x with Some a => f a | None => None end.

(* push(item) with key = self._compute_key(item) *)
Definition uheap_push (h : uheap) (it : item) (key : hkey) : option (uheap * bool) :=
  match ix h it with
  | None =>
      let index := hlen h in
      let h1 := {| hp := hp h ++ [(key, it)]; ix := upd_ix (ix h) it (Some index) |} in
      obind (swim (hlen h1) h1 index) (fun h2 => Some (h2, true))
  | Some index =>
      match nth_error (hp h) index with
      | None => None                                   (* IndexError *)
      | Some (oldkey, it') =>
          if N.eqb oldkey key then Some (h, false)
          else
            let h1 := {| hp := set_nth (hp h) index (key, it'); ix := ix h |} in
            let up := match parent index with
                      | Some p => N.ltb key (key_at h1 p)
                      | None => false
                      end in
            obind (if up then swim (hlen h1) h1 index else sink (hlen h1) h1 index)
                  (fun h2 => Some (h2, false))
      end
  end.

(* pop_with_key(); the caller has checked `assert bool(self)` *)
Definition uheap_pop_with_key (h : uheap) : option (uheap * (hkey * item)) :=
  match hp h with
  | [] => None
  | (key, it) :: _ =>
      let h1 := swap h 0 (hlen h - 1) in
      let h2 := {| hp := removelast (hp h1); ix := upd_ix (ix h1) it None |} in
      if Nat.eqb (hlen h2) 0 then Some (h2, (key, it))
      else obind (sink (hlen h2) h2 0) (fun h3 => Some (h3, (key, it)))
  end.

Inductive uop :=
| UPush (it : item) (key : hkey)
| UPop
| UPopKey
| UPeek
| ULenOp.

Inductive uout :=
| UBool (b : bool)
| UItem (it : item)
| UPair (key : hkey) (it : item)
| UAssert                      (* AssertionError: pop / peek on the empty heap *)
| ULen (n : nat).

Definition ustep (h : uheap) (o : uop) : option (uheap * uout) :=
  match o with
  | UPush it key => obind (uheap_push h it key) (fun '(h', b) => Some (h', UBool b))
  | UPop => if Nat.eqb (hlen h) 0 then Some (h, UAssert)
            else obind (uheap_pop_with_key h) (fun '(h', (k, it)) => Some (h', UItem it))
  | UPopKey => if Nat.eqb (hlen h) 0 then Some (h, UAssert)
               else obind (uheap_pop_with_key h) (fun '(h', (k, it)) => Some (h', UPair k it))
  | UPeek => match hp h with
             | [] => Some (h, UAssert)
             | (k, it) :: _ => Some (h, UItem it)
             end
  | ULenOp => Some (h, ULen (hlen h))
  end.

Fixpoint urun_from (h : uheap) (ops : list uop) : option (uheap * list uout) :=
  match ops with
  | [] => Some (h, [])
  | o :: t => match ustep h o with
              | None => None
              | Some (h', out) => match urun_from h' t with
                                  | None => None
                                  | Some (h'', outs) => Some (h'', out :: outs)
                                  end
              end
  end.
Definition urun (ops : list uop) : option (uheap * list uout) := urun_from uheap_empty ops.

(* pop until empty, collecting the keys *)
Fixpoint drain (fuel : nat) (h : uheap) : option (list hkey) :=
  match fuel with
  | O => match hp h with [] => Some [] | _ => None end
  | S fu => match hp h with
            | [] => Some []
            | _ => obind (uheap_pop_with_key h) (fun '(h', (k, _)) =>
                   obind (drain fu h') (fun ks => Some (k :: ks)))
            end
  end.

(* ---- specification: a finite map item -> key; pop may return ANY item of minimal key ---- *)
Definition smap := list (item * hkey).
Fixpoint sp_get (m : smap) (x : item) : option hkey :=
  match m with
  | [] => None
  | (y, k) :: t => if N.eqb x y then Some k else sp_get t x
  end.
Fixpoint sp_set (m : smap) (x : item) (k : hkey) : smap :=
  match m with
  | [] => [(x, k)]
  | (y, k') :: t => if N.eqb x y then (x, k) :: t else (y, k') :: sp_set t x k
  end.
Fixpoint sp_del (m : smap) (x : item) : smap :=
  match m with
  | [] => []
  | (y, k') :: t => if N.eqb x y then t else (y, k') :: sp_del t x
  end.
Definition sp_min_ok (m : smap) (k : hkey) : bool := forallb (fun p => N.leb k (snd p)) m.
Definition sp_pop_ok (m : smap) (x : item) (k : hkey) : bool :=
  match sp_get m x with Some k' => N.eqb k' k && sp_min_ok m k | None => false end.

(* is `out` an answer the specification allows for `o` in state m, and the next state *)
Definition sp_step (m : smap) (o : uop) (out : uout) : option smap :=
  match o, out with
  | UPush x k, UBool b =>
      if Bool.eqb b (match sp_get m x with None => true | Some _ => false end) then Some (sp_set m x k) else None
  | UPopKey, UPair k x => if sp_pop_ok m x k then Some (sp_del m x) else None
  | UPop, UItem x => match sp_get m x with
                     | Some k => if sp_min_ok m k then Some (sp_del m x) else None
                     | None => None
                     end
  | UPeek, UItem x => match sp_get m x with
                      | Some k => if sp_min_ok m k then Some m else None
                      | None => None
                      end
  | UPop, UAssert | UPopKey, UAssert | UPeek, UAssert => match m with [] => Some m | _ => None end
  | ULenOp, ULen n => if Nat.eqb n (length m) then Some m else None
  | _, _ => None
  end.

Fixpoint sp_accepts (m : smap) (ops : list uop) (outs : list uout) : bool :=
  match ops, outs with
  | [], [] => true
  | o :: t, out :: outs' => match sp_step m o out with
                            | Some m' => sp_accepts m' t outs'
                            | None => false
                            end
  | _, _ => false
  end.

(* ---- step-by-step traces for the correspondence with problog.util.UHeap ---- *)
Definition uobs := (list (hkey * item) * list (option nat))%type.   (* _heap, [_index.get(x) for x in universe] *)
Definition uheap_obs (univ : list item) (h : uheap) : uobs := (hp h, map (ix h) univ).

Fixpoint utrace (univ : list item) (h : uheap) (ops : list uop) : list (option (uout * uobs)) :=
  match ops with
  | [] => []
  | o :: t => match ustep h o with
              | None => [None]
              | Some (h', out) => Some (out, uheap_obs univ h') :: utrace univ h' t
              end
  end.

Definition uout_eqb (a b : uout) : bool :=
  match a, b with
  | UBool x, UBool y => Bool.eqb x y
  | UItem x, UItem y => N.eqb x y
  | UPair k x, UPair k' y => N.eqb k k' && N.eqb x y
  | UAssert, UAssert => true
  | ULen n, ULen m => Nat.eqb n m
  | _, _ => false
  end.
Fixpoint all2 {A B} (e : A -> B -> bool) (x : list A) (y : list B) : bool :=
  match x, y with
  | [], [] => true
  | a :: x', b :: y' => e a b && all2 e x' y'
  | _, _ => false
  end.
Definition pair_eqb (a b : hkey * item) : bool := N.eqb (fst a) (fst b) && N.eqb (snd a) (snd b).
Definition optnat_eqb (a b : option nat) : bool :=
  match a, b with
  | Some x, Some y => Nat.eqb x y
  | None, None => true
  | _, _ => false
  end.
Definition uobs_eqb (a b : uobs) : bool := all2 pair_eqb (fst a) (fst b) && all2 optnat_eqb (snd a) (snd b).
Definition utrace_step_eqb (a : option (uout * uobs)) (b : uout * uobs) : bool :=
  match a with
  | None => false
  | Some (o, s) => uout_eqb o (fst b) && uobs_eqb s (snd b)
  end.
Definition utrace_eqb := all2 utrace_step_eqb.
