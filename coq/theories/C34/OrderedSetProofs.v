From Coq Require Import Arith NArith List Bool Lia.
From PL.C34 Require Import OrderedSetModel.
Import ListNotations.

(* ---------- field updates ---------- *)
Lemma upd_same {A} (f : addr -> A) a v : upd f a v a = v.
Proof. unfold upd. rewrite Nat.eqb_refl. reflexivity. Qed.
Lemma upd_other {A} (f : addr -> A) a v x : x <> a -> upd f a v x = f x.
Proof. unfold upd. intros H. apply Nat.eqb_neq in H. rewrite H. reflexivity. Qed.

(* ---------- linked paths:  a -> l1 -> l2 -> ... -> ln -> b  along field f ---------- *)
Fixpoint path (f : addr -> addr) (a : addr) (l : list addr) (b : addr) : Prop :=
  match l with
  | [] => f a = b
  | x :: t => f a = x /\ path f x t b
  end.

Lemma path_app f a l1 x l2 b : path f a (l1 ++ x :: l2) b <-> path f a l1 x /\ path f x l2 b.
Proof.
  revert a. induction l1 as [|y l1 IH]; intros a; cbn [app path]; [tauto|].
  rewrite IH. tauto.
Qed.

Lemma path_hd f a l b : path f a l b -> f a = hd b l.
Proof. destruct l; cbn; tauto. Qed.

Lemma path_ext f g a l b : (forall x, In x (a :: l) -> f x = g x) -> path f a l b -> path g a l b.
Proof.
  revert a. induction l as [|y l IH]; intros a H; cbn [path].
  - intros <-. symmetry. apply H. left. reflexivity.
  - intros [<- Hp]. split; [symmetry; apply H; left; reflexivity|].
    apply IH; [|assumption]. intros x Hx. apply H. right. assumption.
Qed.

Lemma last_indep (l : list addr) : forall z a b, last (z :: l) a = last (z :: l) b.
Proof.
  induction l as [|w l IH]; intros z a b; [reflexivity|].
  change (last (w :: l) a = last (w :: l) b). apply IH.
Qed.
Lemma last_cons (l : list addr) y a : last (y :: l) a = last l y.
Proof.
  destruct l as [|z l]; [reflexivity|].
  change (last (z :: l) a = last (z :: l) y). apply last_indep.
Qed.

Lemma last_in (l : list addr) a : In (last l a) (a :: l).
Proof.
  revert a. induction l as [|y l IH]; intros a; [left; reflexivity|].
  rewrite last_cons. right. apply IH.
Qed.

(* append a fresh node n at the end of the path (next side of add) *)
Lemma path_snoc f a l b n :
  path f a l b -> NoDup (a :: l) -> ~ In n (a :: l) ->
  path (upd (upd f n b) (last l a) n) a (l ++ [n]) b.
Proof.
  revert a. induction l as [|z t IH]; intros a Hp Hnd Hn.
  - cbn [last app path]. split; [apply upd_same|].
    rewrite upd_other by (intro E; apply Hn; left; congruence). apply upd_same.
  - destruct Hp as [Hz Hp]. rewrite last_cons. cbn [app path]. split.
    + rewrite !upd_other; [assumption| |].
      * intro E. apply Hn. left. congruence.
      * intro E. apply NoDup_cons_iff in Hnd as [Hna _]. apply Hna.
        pose proof (last_in t z) as Hl. rewrite <- E in Hl. exact Hl.
    + apply IH; [assumption| |].
      * apply NoDup_cons_iff in Hnd as [_ Hnd]. assumption.
      * intro E. apply Hn. right. assumption.
Qed.

(* insert a fresh node n right after a (prev side of add) *)
Lemma path_cons g a l b n :
  path g a l b -> ~ In n (a :: l) -> ~ In a l ->
  path (upd (upd g n (g a)) a n) a (n :: l) b.
Proof.
  intros Hp Hn Ha. cbn [path]. split; [apply upd_same|].
  assert (Hna : n <> a) by (intro E; apply Hn; left; congruence).
  destruct l as [|z t]; cbn [path] in *.
  - rewrite upd_other, upd_same by assumption. assumption.
  - destruct Hp as [Hz Hp]. split; [rewrite upd_other, upd_same by assumption; assumption|].
    eapply path_ext; [|exact Hp]. intros x Hx.
    rewrite !upd_other; [reflexivity| |].
    + intro E. subst x. apply Hn. right. assumption.
    + intro E. subst x. apply Ha. assumption.
Qed.

(* unlink node x (both sides of discard) *)
Lemma path_skip f a l1 x l2 b :
  path f a (l1 ++ x :: l2) b -> NoDup (a :: l1 ++ x :: l2) ->
  path (upd f (last l1 a) (f x)) a (l1 ++ l2) b.
Proof.
  revert a. induction l1 as [|z t IH]; intros a Hp Hnd.
  - cbn [app last] in *. destruct Hp as [Hx Hp].
    apply NoDup_cons_iff in Hnd as [Hna Hnd'].
    destruct l2 as [|y l2]; cbn [path] in *.
    + rewrite upd_same. assumption.
    + destruct Hp as [Hy Hp]. split; [rewrite upd_same; assumption|].
      eapply path_ext; [|exact Hp]. intros w Hw. rewrite upd_other; [reflexivity|].
      intro E. subst w. apply Hna. right. assumption.
  - cbn [app path] in *. destruct Hp as [Hz Hp]. rewrite last_cons.
    apply NoDup_cons_iff in Hnd as [Hna Hnd']. split.
    + rewrite upd_other; [assumption|]. intro E. apply Hna.
      pose proof (last_in t z) as Hl. rewrite <- E in Hl.
      destruct Hl as [Hl|Hl]; [left; assumption|right; apply in_or_app; left; assumption].
    + apply IH; assumption.
Qed.

Lemma walk_path f kf : forall l a fuel,
  path f a l 0 -> ~ In 0 l -> length l < fuel -> walk f kf fuel (f a) = Some (map kf l).
Proof.
  induction l as [|x t IH]; intros a fuel Hp H0 Hf; (destruct fuel as [|fu]; [cbn in Hf; lia|]).
  - cbn [path] in Hp. rewrite Hp. reflexivity.
  - destruct Hp as [Hx Hp]. rewrite Hx. cbn [walk].
    destruct (Nat.eqb_spec x 0) as [->|Hne]; [exfalso; apply H0; left; reflexivity|].
    rewrite (IH x fu); [reflexivity|assumption| |cbn in Hf; lia].
    intro E. apply H0. right. assumption.
Qed.

(* ---------- the dict ---------- *)
Lemma mem_keys m k : mem k (map fst m) = match map_get m k with Some _ => true | None => false end.
Proof.
  induction m as [|[k' a] m IH]; [reflexivity|]. cbn [map fst mem existsb map_get].
  destruct (N.eqb k k'); [reflexivity|]. apply IH.
Qed.

Lemma mem_In k l : mem k l = true <-> In k l.
Proof.
  unfold mem. rewrite existsb_exists. split.
  - intros (x & Hx & E). apply N.eqb_eq in E. subst. assumption.
  - intros H. exists k. split; [assumption|apply N.eqb_refl].
Qed.

Lemma map_get_In m k a : map_get m k = Some a -> In (k, a) m.
Proof.
  induction m as [|[k' a'] m IH]; cbn [map_get]; [discriminate|].
  destruct (N.eqb_spec k k') as [->|]; [intros [= ->]; left; reflexivity|].
  intros H. right. apply IH, H.
Qed.

Lemma map_get_split m k a : map_get m k = Some a ->
  exists m1 m2, m = m1 ++ (k, a) :: m2 /\ ~ In k (map fst m1) /\ map_del m k = m1 ++ m2.
Proof.
  induction m as [|[k' a'] m IH]; cbn [map_get map_del]; [discriminate|].
  destruct (N.eqb_spec k k') as [->|Hne].
  - intros [= ->]. exists [], m. repeat split. intros [].
  - intros H. destruct (IH H) as (m1 & m2 & -> & Hn & Hd).
    exists ((k', a') :: m1), m2. repeat split.
    + cbn [map fst In]. intros [E|E]; [congruence|contradiction].
    + cbn [app]. rewrite Hd. reflexivity.
Qed.

Lemma discard_split l1 k l2 : NoDup (l1 ++ k :: l2) -> s_discard (l1 ++ k :: l2) k = l1 ++ l2.
Proof.
  intros H. unfold s_discard. rewrite filter_app. cbn [filter]. rewrite N.eqb_refl. cbn [negb].
  apply NoDup_remove_2 in H.
  assert (Hid : forall l, ~ In k l -> filter (fun x => negb (N.eqb k x)) l = l).
  { induction l as [|y l IH]; intros Hn; [reflexivity|]. cbn [filter].
    destruct (N.eqb_spec k y) as [->|]; [exfalso; apply Hn; left; reflexivity|].
    cbn [negb]. rewrite IH; [reflexivity|]. intro E. apply Hn. right. assumption. }
  rewrite !Hid; [reflexivity| |]; intro E; apply H, in_or_app; [right|left]; assumption.
Qed.

Lemma discard_absent l k : ~ In k l -> s_discard l k = l.
Proof.
  induction l as [|y l IH]; intros Hn; [reflexivity|]. unfold s_discard in *. cbn [filter].
  destruct (N.eqb_spec k y) as [->|]; [exfalso; apply Hn; left; reflexivity|].
  cbn [negb]. rewrite IH; [reflexivity|]. intro E. apply Hn. right. assumption.
Qed.

(* ---------- the representation invariant ---------- *)
Definition addrs (s : oset) : list addr := map snd (omap s).
Definition keys (s : oset) : list key := map fst (omap s).

Record inv (s : oset) : Prop := {
  inv_keys : NoDup (keys s);
  inv_addrs : NoDup (0 :: addrs s);
  inv_range : forall a, In a (addrs s) -> a < ofresh s;
  inv_len : length (omap s) < ofresh s;
  inv_key : forall k a, In (k, a) (omap s) -> okey s a = k;
  inv_next : path (onext s) 0 (addrs s) 0;
  inv_prev : path (oprev s) 0 (rev (addrs s)) 0
}.

Lemma inv_empty : inv oset_empty.
Proof.
  split; cbn; try tauto; try lia.
  - constructor.
  - constructor; [intros []|constructor].
Qed.

Lemma map_okey s : inv s -> map (okey s) (addrs s) = keys s.
Proof.
  intros H. pose proof (inv_key s H) as Hk. unfold addrs, keys.
  induction (omap s) as [|[k a] m IH]; [reflexivity|]. cbn [map fst snd].
  rewrite (Hk k a) by (left; reflexivity). f_equal. apply IH. intros; apply Hk; right; assumption.
Qed.

Lemma hd_rev_last (l : list addr) d : hd d (rev l) = last l d.
Proof.
  induction l as [|x l IH] using rev_ind; [reflexivity|].
  rewrite rev_app_distr, last_last. reflexivity.
Qed.

Lemma nodup_rev0 (l : list addr) : NoDup (0 :: l) -> NoDup (0 :: rev l).
Proof.
  intros H. apply NoDup_cons_iff in H as [H0 H]. constructor.
  - rewrite <- in_rev. assumption.
  - apply NoDup_rev. assumption.
Qed.

(* observations under the invariant *)
Lemma iter_spec s : inv s -> oset_iter s = Some (keys s).
Proof.
  intros H. unfold oset_iter. rewrite <- (map_okey s H).
  apply walk_path; [apply (inv_next s H)| |].
  - pose proof (inv_addrs s H) as Hn. apply NoDup_cons_iff in Hn. tauto.
  - unfold addrs. rewrite map_length. apply (inv_len s H).
Qed.

Lemma reversed_spec s : inv s -> oset_reversed s = Some (rev (keys s)).
Proof.
  intros H. unfold oset_reversed. rewrite <- (map_okey s H), <- map_rev.
  apply walk_path; [apply (inv_prev s H)| |].
  - pose proof (inv_addrs s H) as Hn. apply NoDup_cons_iff in Hn. rewrite <- in_rev. tauto.
  - unfold addrs. rewrite rev_length, map_length. apply (inv_len s H).
Qed.

Lemma len_spec s : oset_len s = length (keys s).
Proof. unfold oset_len, keys. rewrite map_length. reflexivity. Qed.

Lemma contains_spec s k : oset_contains s k = mem k (keys s).
Proof. unfold oset_contains, keys. rewrite mem_keys. reflexivity. Qed.

Lemma obs_spec s : inv s -> oset_obs s = spec_obs (keys s).
Proof. intros H. unfold oset_obs, spec_obs. rewrite iter_spec, reversed_spec, len_spec by assumption. reflexivity. Qed.

(* ---------- add ---------- *)
Lemma nodup_snoc {A} (l : list A) x : NoDup l -> ~ In x l -> NoDup (l ++ [x]).
Proof.
  intros H Hx. apply NoDup_rev in H. rewrite <- (rev_involutive (l ++ [x])), rev_app_distr.
  apply NoDup_rev. cbn [rev app]. constructor; [rewrite <- in_rev; assumption|assumption].
Qed.

Lemma add_spec s k : inv s -> inv (oset_add s k) /\ keys (oset_add s k) = s_add (keys s) k.
Proof.
  intros H. unfold oset_add, s_add. unfold keys at 2. rewrite mem_keys.
  destruct (map_get (omap s) k) eqn:E; [split; [assumption|reflexivity]|].
  assert (Hk : ~ In k (keys s)).
  { rewrite <- mem_In. unfold keys. rewrite mem_keys, E. discriminate. }
  split; [|unfold keys; cbn [omap]; rewrite map_app; reflexivity].
  set (n := ofresh s).
  assert (Hn : ~ In n (0 :: addrs s)).
  { intros [E0|E1]; [pose proof (inv_len s H); lia|apply (inv_range s H) in E1; lia]. }
  assert (Hcurr : oprev s 0 = last (addrs s) 0).
  { rewrite (path_hd _ _ _ _ (inv_prev s H)). apply hd_rev_last. }
  split; cbn [omap okey oprev onext ofresh]; unfold keys, addrs; cbn [omap]; rewrite ?map_app; cbn [map fst snd].
  - apply nodup_snoc; [apply (inv_keys s H)|assumption].
  - change (NoDup ((0 :: addrs s) ++ [n])). apply nodup_snoc; [apply (inv_addrs s H)|assumption].
  - intros a Ha. apply in_app_or in Ha as [Ha|[<-|[]]]; [apply (inv_range s H) in Ha; lia|lia].
  - rewrite app_length. cbn [length]. pose proof (inv_len s H). lia.
  - intros k' a Ha. apply in_app_or in Ha as [Ha|[[= <- <-]|[]]]; [|apply upd_same].
    rewrite upd_other; [apply (inv_key s H); assumption|].
    intro Ea. apply Hn. right. subst a. unfold addrs. apply (in_map snd) in Ha. exact Ha.
  - rewrite Hcurr. apply path_snoc; [apply (inv_next s H)|apply (inv_addrs s H)|assumption].
  - rewrite rev_app_distr. cbn [rev app]. apply path_cons; [apply (inv_prev s H)| |].
    + intros [E0|E1]; apply Hn; [left; assumption|right; apply in_rev; assumption].
    + rewrite <- in_rev. pose proof (inv_addrs s H) as Hnd. apply NoDup_cons_iff in Hnd. tauto.
Qed.

(* ---------- discard ---------- *)
Lemma discard_spec s k : inv s -> inv (oset_discard s k) /\ keys (oset_discard s k) = s_discard (keys s) k.
Proof.
  intros H. unfold oset_discard.
  destruct (map_get (omap s) k) as [a|] eqn:E.
  2:{ split; [assumption|]. symmetry. apply discard_absent. rewrite <- mem_In.
      unfold keys. rewrite mem_keys, E. discriminate. }
  destruct (map_get_split _ _ _ E) as (m1 & m2 & Hm & Hk1 & Hd).
  set (l1 := map snd m1). set (l2 := map snd m2).
  assert (Ha : addrs s = l1 ++ a :: l2) by (unfold addrs; rewrite Hm, map_app; reflexivity).
  assert (Hks : keys s = map fst m1 ++ k :: map fst m2) by (unfold keys; rewrite Hm, map_app; reflexivity).
  pose proof (inv_next s H) as Hnx. rewrite Ha in Hnx.
  pose proof (inv_prev s H) as Hpv. rewrite Ha, rev_app_distr in Hpv. cbn [rev] in Hpv.
  rewrite <- app_assoc in Hpv. cbn [app] in Hpv.
  assert (Hprv : oprev s a = last l1 0).
  { apply path_app in Hpv as [_ Hp2]. rewrite (path_hd _ _ _ _ Hp2). apply hd_rev_last. }
  assert (Hnxt : onext s a = last (rev l2) 0).
  { apply path_app in Hnx as [_ Hp2]. rewrite (path_hd _ _ _ _ Hp2).
    rewrite <- hd_rev_last, rev_involutive. reflexivity. }
  pose proof (inv_addrs s H) as Hnd. rewrite Ha in Hnd.
  pose proof (inv_keys s H) as Hkd. rewrite Hks in Hkd.
  split.
  2:{ unfold keys at 1. cbn [omap]. rewrite Hd, map_app, Hks. symmetry. apply discard_split. assumption. }
  split; cbn [omap okey oprev onext ofresh]; unfold keys, addrs; cbn [omap]; rewrite Hd, ?map_app; fold l1 l2.
  - apply NoDup_remove_1 in Hkd. assumption.
  - change (NoDup ((0 :: l1) ++ l2)). apply (NoDup_remove_1 (0 :: l1) l2 a). assumption.
  - intros x Hx. apply (inv_range s H). rewrite Ha. apply in_or_app.
    apply in_app_or in Hx as [Hx|Hx]; [left|right; right]; assumption.
  - pose proof (inv_len s H) as Hl. rewrite Hm in Hl. rewrite app_length in *. cbn [length] in Hl. lia.
  - intros k' a' Hx. apply (inv_key s H). rewrite Hm. apply in_or_app.
    apply in_app_or in Hx as [Hx|Hx]; [left|right; right]; assumption.
  - rewrite Hprv. apply path_skip; assumption.
  - rewrite Hnxt, rev_app_distr. apply path_skip; [assumption|].
    apply nodup_rev0 in Hnd. rewrite rev_app_distr in Hnd. cbn [rev] in Hnd.
    rewrite <- app_assoc in Hnd. exact Hnd.
Qed.

(* ---------- pop ---------- *)
Definition out_of (r : option key) : oout := match r with Some k => RKey k | None => RKeyError end.

Lemma pop_spec s lst : inv s ->
  inv (fst (oset_pop s lst)) /\
  (keys (fst (oset_pop s lst)), out_of (snd (oset_pop s lst))) = s_pop (keys s) lst.
Proof.
  intros H. unfold oset_pop. rewrite len_spec.
  destruct (keys s) as [|x t] eqn:Ek; cbn [length Nat.eqb fst snd s_pop out_of].
  - split; [assumption|]. rewrite Ek. reflexivity.
  - destruct lst.
    + assert (Hne : omap s <> []) by (intro E0; unfold keys in Ek; rewrite E0 in Ek; discriminate).
      destruct (exists_last Hne) as (m' & [kl al] & Hm).
      assert (Hks : keys s = map fst m' ++ [kl]) by (unfold keys; rewrite Hm, map_app; reflexivity).
      assert (Hal : oprev s 0 = al).
      { rewrite (path_hd _ _ _ _ (inv_prev s H)), hd_rev_last. unfold addrs. rewrite Hm, map_app.
        cbn [map snd]. apply last_last. }
      rewrite Hal, (inv_key s H kl al) by (rewrite Hm; apply in_or_app; right; left; reflexivity).
      destruct (discard_spec s kl H) as [Hi Hk]. split; [assumption|].
      rewrite Hk, <- Ek, Hks. rewrite removelast_last, last_last. f_equal.
      rewrite <- (app_nil_r (map fst m')) at 2. apply discard_split. rewrite <- Hks. apply (inv_keys s H).
    + destruct (omap s) as [|[k0 a0] m] eqn:Hm; [unfold keys in Ek; rewrite Hm in Ek; discriminate|].
      assert (Hks : x = k0 /\ t = map fst m) by (unfold keys in Ek; rewrite Hm in Ek; cbn in Ek; split; congruence).
      destruct Hks as [-> ->].
      assert (Hal : onext s 0 = a0).
      { rewrite (path_hd _ _ _ _ (inv_next s H)). unfold addrs. rewrite Hm. reflexivity. }
      rewrite Hal, (inv_key s H k0 a0) by (rewrite Hm; left; reflexivity).
      destruct (discard_spec s k0 H) as [Hi Hk]. split; [assumption|].
      rewrite Hk, Ek. f_equal. apply (discard_split [] k0 (map fst m)). cbn [app]. rewrite <- Ek. apply (inv_keys s H).
Qed.

(* ---------- loops over add / discard ---------- *)
Lemma ior_list_spec l : forall s, inv s ->
  inv (oset_ior_list s l) /\ keys (oset_ior_list s l) = fold_left s_add l (keys s).
Proof.
  unfold oset_ior_list. induction l as [|k l IH]; intros s H; cbn [fold_left]; [split; [assumption|reflexivity]|].
  destruct (add_spec s k H) as [Hi Hk]. rewrite <- Hk. apply IH, Hi.
Qed.

Lemma discard_list_spec l : forall s, inv s ->
  inv (fold_left oset_discard l s) /\ keys (fold_left oset_discard l s) = fold_left s_discard l (keys s).
Proof.
  induction l as [|k l IH]; intros s H; cbn [fold_left]; [split; [assumption|reflexivity]|].
  destruct (discard_spec s k H) as [Hi Hk]. rewrite <- Hk. apply IH, Hi.
Qed.

Lemma from_list_spec l : inv (oset_from_list l) /\ keys (oset_from_list l) = s_from_list l.
Proof. apply (ior_list_spec l oset_empty inv_empty). Qed.

(* `s |= s`: the suspended generator always finds its key already present *)
Lemma ior_self_spec s : inv s -> forall l a fuel,
  path (onext s) a l 0 -> incl l (addrs s) -> ~ In 0 l -> length l < fuel ->
  oset_ior_self fuel s (onext s a) = Some s.
Proof.
  intros H. induction l as [|x t IH]; intros a fuel Hp Hin H0 Hf; (destruct fuel as [|fu]; [cbn in Hf; lia|]).
  - cbn [path] in Hp. rewrite Hp. reflexivity.
  - destruct Hp as [Hx Hp]. rewrite Hx. cbn [oset_ior_self].
    destruct (Nat.eqb_spec x 0) as [->|Hne]; [exfalso; apply H0; left; reflexivity|].
    assert (Hadd : oset_add s (okey s x) = s).
    { unfold oset_add. assert (Hm : mem (okey s x) (keys s) = true).
      { apply mem_In. assert (Hxa : In x (addrs s)) by (apply Hin; left; reflexivity).
        unfold addrs in Hxa. apply in_map_iff in Hxa as ([k' a'] & Ea & Hxa). cbn in Ea. subst a'.
        rewrite (inv_key s H k' x Hxa). unfold keys. apply (in_map fst) in Hxa. exact Hxa. }
      unfold keys in Hm. rewrite mem_keys in Hm. destruct (map_get (omap s) (okey s x)); [reflexivity|discriminate]. }
    rewrite Hadd. apply IH; [assumption| | |cbn in Hf; lia].
    + intros y Hy. apply Hin. right. assumption.
    + intro E. apply H0. right. assumption.
Qed.

(* clear() *)
Lemma removelast_len {A} (l : list A) : l <> [] -> S (length (removelast l)) = length l.
Proof.
  intros H. destruct (exists_last H) as (l' & z & ->). rewrite removelast_last, app_length. cbn. lia.
Qed.
Lemma clear_spec n : forall s, inv s -> length (omap s) = n ->
  exists s', oset_clear (S n) s = Some s' /\ inv s' /\ keys s' = [].
Proof.
  induction n as [|n IH]; intros s H Hl.
  - exists s. cbn [oset_clear]. unfold oset_pop, oset_len. rewrite Hl. cbn [Nat.eqb].
    split; [reflexivity|]. split; [assumption|]. unfold keys. destruct (omap s); [reflexivity|discriminate].
  - cbn [oset_clear]. destruct (pop_spec s true H) as [Hi Hk].
    destruct (oset_pop s true) as [s1 r] eqn:Ep. cbn [fst snd] in *.
    assert (Hne : keys s <> []) by (unfold keys; destruct (omap s); [discriminate|cbn; discriminate]).
    unfold s_pop in Hk. destruct (keys s) as [|x t] eqn:Ek; [congruence|].
    injection Hk as Hk1 Hk2. destruct r; [|discriminate].
    apply IH; [assumption|].
    assert (Hlen : length (keys s1) = n).
    { rewrite Hk1. assert (Hl' : length (x :: t) = S n) by (rewrite <- Ek; unfold keys; rewrite map_length; assumption).
      pose proof (removelast_len (x :: t)) as Hr. rewrite Hl' in Hr.
      assert (S (length (removelast (x :: t))) = S n) by (apply Hr; discriminate).
      change (length (removelast (x :: t)) = n). lia. }
    unfold keys in Hlen. rewrite map_length in Hlen. assumption.
Qed.

(* ---------- facts about the list specification ---------- *)
Lemma mem_app v a b : mem v (a ++ b) = mem v a || mem v b.
Proof. apply existsb_app. Qed.

Lemma mem_filter v p l : mem v (filter p l) = mem v l && p v.
Proof.
  induction l as [|x l IH]; [reflexivity|]. cbn [filter].
  destruct (p x) eqn:Ep; cbn [mem existsb] in *.
  - destruct (N.eqb_spec v x) as [->|]; [rewrite Ep; reflexivity|]. cbn [orb]. apply IH.
  - destruct (N.eqb_spec v x) as [->|]; [|apply IH]. cbn [orb]. rewrite Ep, andb_false_r in *. rewrite IH. reflexivity.
Qed.

Lemma filter_false {A} (p : A -> bool) l : (forall x, In x l -> p x = false) -> filter p l = [].
Proof.
  induction l as [|x l IH]; intros H; [reflexivity|]. cbn [filter].
  rewrite (H x) by (left; reflexivity). apply IH. intros; apply H; right; assumption.
Qed.
Lemma filter_true {A} (p : A -> bool) l : (forall x, In x l -> p x = true) -> filter p l = l.
Proof.
  induction l as [|x l IH]; intros H; [reflexivity|]. cbn [filter].
  rewrite (H x) by (left; reflexivity). f_equal. apply IH. intros; apply H; right; assumption.
Qed.

Lemma fold_add_union b : forall a, NoDup b -> fold_left s_add b a = s_union a b.
Proof.
  induction b as [|x t IH]; intros a Hb; cbn [fold_left].
  - unfold s_union. cbn [filter]. rewrite app_nil_r. reflexivity.
  - apply NoDup_cons_iff in Hb as [Hx Ht]. rewrite IH by assumption.
    unfold s_add, s_union. cbn [filter]. destruct (mem x a) eqn:Em; cbn [negb]; [reflexivity|].
    rewrite <- app_assoc. cbn [app]. do 2 f_equal. apply filter_ext_in. intros v Hv.
    rewrite mem_app. cbn [mem existsb]. destruct (N.eqb_spec v x) as [->|]; [contradiction|].
    rewrite !orb_false_r. reflexivity.
Qed.

Lemma union_nil l : s_union [] l = l.
Proof. unfold s_union. cbn [app]. apply filter_true. reflexivity. Qed.

Lemma from_list_nodup l : NoDup l -> s_from_list l = l.
Proof. intros H. unfold s_from_list. rewrite fold_add_union by assumption. apply union_nil. Qed.

Lemma union_self l : s_union l l = l.
Proof.
  unfold s_union. rewrite filter_false; [apply app_nil_r|].
  intros x Hx. apply mem_In in Hx. rewrite Hx. reflexivity.
Qed.

Lemma diff_self l : s_diff l l = [].
Proof. unfold s_diff. apply filter_false. intros x Hx. apply mem_In in Hx. rewrite Hx. reflexivity. Qed.

Lemma fold_discard_diff b : forall a, fold_left s_discard b a = s_diff a b.
Proof.
  induction b as [|x t IH]; intros a; cbn [fold_left].
  - unfold s_diff. symmetry. apply filter_true. reflexivity.
  - rewrite IH. unfold s_diff, s_discard. induction a as [|y a IHa]; [reflexivity|].
    cbn [filter mem existsb]. rewrite (N.eqb_sym x y).
    destruct (N.eqb y x); cbn [negb orb filter]; [apply IHa|].
    destruct (negb _); [f_equal|]; apply IHa.
Qed.

Lemma diff_diff_inter a b : s_diff a (s_diff a b) = s_inter a b.
Proof.
  unfold s_diff, s_inter. apply filter_ext_in. intros v Hv.
  rewrite mem_filter. apply mem_In in Hv. rewrite Hv. cbn [andb]. apply negb_involutive.
Qed.

Lemma keys_eqb_length a : forall b, keys_eqb a b = true -> length a = length b.
Proof.
  induction a as [|x a IH]; intros [|y b]; cbn [keys_eqb length]; try discriminate; [reflexivity|].
  intros H. apply andb_true_iff in H as [_ H]. f_equal. apply IH, H.
Qed.

(* ---------- histories ---------- *)
Definition R (s : oset) (l : list key) : Prop := inv s /\ keys s = l.

Lemma R_get rs ls r : Forall2 R rs ls -> R (ogetr rs r) (sgetr ls r).
Proof.
  intros H. revert r. induction H as [|s l rs ls Hs H IH]; intros r.
  - unfold ogetr, sgetr. destruct r; split; try apply inv_empty; reflexivity.
  - destruct r; [exact Hs|apply IH].
Qed.

Lemma R_set_nil r v w : R v w -> Forall2 R (osetr [] r v) (ssetr [] r w).
Proof.
  intros Hv. induction r as [|r IH]; cbn [osetr ssetr].
  - constructor; [assumption|constructor].
  - constructor; [split; [apply inv_empty|reflexivity]|assumption].
Qed.

Lemma R_set rs ls r v w : Forall2 R rs ls -> R v w -> Forall2 R (osetr rs r v) (ssetr ls r w).
Proof.
  intros H Hv. revert r. induction H as [|s l rs ls Hs H IH]; intros r.
  - apply R_set_nil, Hv.
  - destruct r; cbn [osetr ssetr]; constructor; try assumption. apply IH.
Qed.

Lemma step_refines rs ls o : Forall2 R rs ls ->
  exists rs', ostep rs o = Some (rs', snd (sstep ls o)) /\ Forall2 R rs' (fst (sstep ls o)).
Proof.
  intros H.
  assert (G : forall r, R (ogetr rs r) (sgetr ls r)) by (intro; apply R_get, H).
  destruct o; cbn [ostep sstep fst snd].
  - (* add *) eexists; split; [reflexivity|]. apply R_set; [assumption|].
    destruct (G r) as [Hi <-]. apply add_spec, Hi.
  - (* discard *) eexists; split; [reflexivity|]. apply R_set; [assumption|].
    destruct (G r) as [Hi <-]. apply discard_spec, Hi.
  - (* pop *) destruct (G r) as [Hi <-]. destruct (pop_spec (ogetr rs r) last Hi) as [Hi' Hp].
    destruct (oset_pop (ogetr rs r) last) as [s' res]. cbn [fst snd] in *. rewrite <- Hp. cbn [fst snd].
    eexists; split; [reflexivity|]. apply R_set; [assumption|]. split; [assumption|reflexivity].
  - (* contains *) destruct (G r) as [Hi <-]. rewrite contains_spec. eexists; split; [reflexivity|assumption].
  - (* |= *) destruct (G r) as [Hi Hk]. destruct (G a) as [Hia Hka].
    destruct (Nat.eqb_spec r a) as [->|Hne].
    + rewrite (ior_self_spec _ Hi (addrs (ogetr rs a)) 0).
      * cbn [obind]. eexists; split; [reflexivity|]. apply R_set; [assumption|].
        split; [assumption|]. rewrite union_self. assumption.
      * apply (inv_next _ Hi).
      * apply incl_refl.
      * pose proof (inv_addrs _ Hi) as Hn. apply NoDup_cons_iff in Hn. tauto.
      * unfold addrs. rewrite map_length. apply (inv_len _ Hi).
    + rewrite (iter_spec _ Hia). cbn [obind]. eexists; split; [reflexivity|]. apply R_set; [assumption|].
      destruct (ior_list_spec (keys (ogetr rs a)) _ Hi) as [Hi' Hk'].
      split; [assumption|]. rewrite Hk', fold_add_union by apply (inv_keys _ Hia). congruence.
  - (* |= list *) destruct (G r) as [Hi <-]. eexists; split; [reflexivity|]. apply R_set; [assumption|].
    apply ior_list_spec, Hi.
  - (* OrderedSet(list) *) eexists; split; [reflexivity|]. apply R_set; [assumption|]. apply from_list_spec.
  - (* | *) destruct (G a) as [Hia <-]. destruct (G b) as [Hib <-].
    unfold oset_or. rewrite (iter_spec _ Hia), (iter_spec _ Hib). cbn [obind].
    eexists; split; [reflexivity|]. apply R_set; [assumption|].
    destruct (from_list_spec (keys (ogetr rs a) ++ keys (ogetr rs b))) as [Hi' Hk'].
    split; [assumption|]. rewrite Hk'. unfold s_from_list. rewrite fold_left_app.
    fold (s_from_list (keys (ogetr rs a))). rewrite from_list_nodup by apply (inv_keys _ Hia).
    apply fold_add_union, (inv_keys _ Hib).
  - (* & *) destruct (G a) as [Hia <-]. destruct (G b) as [Hib <-].
    unfold oset_and. rewrite (iter_spec _ Hib). cbn [obind].
    eexists; split; [reflexivity|]. apply R_set; [assumption|].
    destruct (from_list_spec (filter (oset_contains (ogetr rs a)) (keys (ogetr rs b)))) as [Hi' Hk'].
    split; [assumption|]. rewrite Hk', from_list_nodup by (apply NoDup_filter, (inv_keys _ Hib)).
    unfold s_inter_other_order. apply filter_ext. intros v. apply contains_spec.
  - (* - *) destruct (G a) as [Hia <-]. destruct (G b) as [Hib <-].
    unfold oset_sub. rewrite (iter_spec _ Hia). cbn [obind].
    eexists; split; [reflexivity|]. apply R_set; [assumption|].
    match goal with |- R (oset_from_list ?l) _ => destruct (from_list_spec l) as [Hi' Hk'] end.
    split; [assumption|]. rewrite Hk', from_list_nodup by (apply NoDup_filter, (inv_keys _ Hia)).
    unfold s_diff. apply filter_ext. intros v. rewrite contains_spec. reflexivity.
  - (* - set *) destruct (G a) as [Hia <-].
    unfold oset_sub_set. rewrite (iter_spec _ Hia). cbn [obind].
    eexists; split; [reflexivity|]. apply R_set; [assumption|].
    match goal with |- R (oset_from_list ?l) _ => destruct (from_list_spec l) as [Hi' Hk'] end.
    split; [assumption|]. rewrite Hk', from_list_nodup by (apply NoDup_filter, (inv_keys _ Hia)). reflexivity.
  - (* -= *) destruct (G r) as [Hi Hk]. destruct (G a) as [Hia Hka].
    destruct (Nat.eqb_spec r a) as [->|Hne].
    + destruct (clear_spec (oset_len (ogetr rs a)) _ Hi eq_refl) as (s' & Hc & Hi' & Hk').
      rewrite Hc. cbn [obind]. eexists; split; [reflexivity|]. apply R_set; [assumption|].
      split; [assumption|]. rewrite diff_self. assumption.
    + unfold oset_isub. rewrite (iter_spec _ Hia). cbn [obind].
      eexists; split; [reflexivity|]. apply R_set; [assumption|].
      destruct (discard_list_spec (keys (ogetr rs a)) _ Hi) as [Hi' Hk'].
      split; [assumption|]. rewrite Hk', fold_discard_diff. congruence.
  - (* &= *) destruct (G r) as [Hi <-]. destruct (G a) as [Hia <-].
    unfold oset_iand, oset_sub. rewrite (iter_spec _ Hi). cbn [obind].
    match goal with |- context [oset_iter (oset_from_list ?l)] => destruct (from_list_spec l) as [Hi' Hk'] end.
    rewrite (iter_spec _ Hi'). cbn [obind].
    eexists; split; [reflexivity|]. apply R_set; [assumption|].
    match goal with |- R (fold_left oset_discard ?l ?s) _ => destruct (discard_list_spec l s Hi) as [Hi2 Hk2] end.
    split; [assumption|]. rewrite Hk2, fold_discard_diff, Hk', from_list_nodup by (apply NoDup_filter, (inv_keys _ Hi)).
    rewrite <- diff_diff_inter. f_equal.
    unfold s_diff. apply filter_ext. intros v. rewrite contains_spec. reflexivity.
  - (* == *) destruct (G a) as [Hia <-]. destruct (G b) as [Hib <-].
    unfold oset_eq. rewrite !len_spec, (iter_spec _ Hia), (iter_spec _ Hib). cbn [obind].
    destruct (Nat.eqb_spec (length (keys (ogetr rs a))) (length (keys (ogetr rs b)))) as [He|He].
    + eexists; split; [reflexivity|assumption].
    + destruct (keys_eqb (keys (ogetr rs a)) (keys (ogetr rs b))) eqn:Ek.
      * apply keys_eqb_length in Ek. contradiction.
      * eexists; split; [reflexivity|assumption].
  - (* == set *) destruct (G a) as [Hia <-].
    unfold oset_eq_set. rewrite (iter_spec _ Hia). cbn [obind].
    eexists; split; [reflexivity|assumption].
Qed.

Lemma run_from_refines ops : forall rs ls, Forall2 R rs ls ->
  exists rs', orun_from rs ops = Some (rs', snd (srun_from ls ops)) /\ Forall2 R rs' (fst (srun_from ls ops)).
Proof.
  induction ops as [|o ops IH]; intros rs ls H; cbn [orun_from srun_from].
  - exists rs. split; [reflexivity|assumption].
  - destruct (step_refines rs ls o H) as (rs1 & Hs & H1). rewrite Hs.
    destruct (sstep ls o) as [ls1 out]. cbn [fst snd] in *.
    destruct (IH rs1 ls1 H1) as (rs2 & Hr & H2). rewrite Hr.
    destruct (srun_from ls1 ops) as [ls2 outs]. cbn [fst snd] in *.
    exists rs2. split; [reflexivity|assumption].
Qed.

Lemma R0 : Forall2 R oregs0 [[]; []; []].
Proof.
  assert (Re : R oset_empty []) by (split; [apply inv_empty|reflexivity]).
  unfold oregs0. repeat (apply Forall2_cons; [exact Re|]). apply Forall2_nil.
Qed.

Lemma obs_refines rs ls : Forall2 R rs ls -> map oset_obs rs = map spec_obs ls.
Proof.
  induction 1 as [|s l rs ls [Hi <-] H IH]; [reflexivity|]. cbn [map]. rewrite IH, obs_spec by assumption. reflexivity.
Qed.

Lemma contains_refines rs ls : Forall2 R rs ls -> forall r k, oset_contains (ogetr rs r) k = mem k (sgetr ls r).
Proof. intros H r k. destruct (R_get rs ls r H) as [_ <-]. apply contains_spec. Qed.

Lemma nodup_refines rs ls : Forall2 R rs ls -> Forall (@NoDup key) ls.
Proof. induction 1 as [|s l rs ls [Hi <-] H IH]; constructor; [apply (inv_keys _ Hi)|assumption]. Qed.

Lemma mapkeys_refines rs ls : Forall2 R rs ls -> map oset_mapkeys rs = ls.
Proof. induction 1 as [|s l rs ls [Hi <-] H IH]; [reflexivity|]. cbn [map]. rewrite IH. reflexivity. Qed.

(* main statement *)
Lemma oset_run_refines ops :
  exists rs, orun ops = Some (rs, snd (srun ops)) /\
             map oset_obs rs = map spec_obs (fst (srun ops)) /\
             (forall r k, oset_contains (ogetr rs r) k = mem k (sgetr (fst (srun ops)) r)) /\
             map oset_mapkeys rs = fst (srun ops).
Proof.
  destruct (run_from_refines ops oregs0 _ R0) as (rs & Hr & H).
  exists rs. split; [exact Hr|]. split; [apply obs_refines, H|]. split; [apply contains_refines, H|].
  apply mapkeys_refines, H.
Qed.

Lemma spec_run_nodup ops : Forall (@NoDup key) (fst (srun ops)).
Proof. destruct (run_from_refines ops oregs0 _ R0) as (rs & _ & H). eapply nodup_refines, H. Qed.

(* ---------- the specification is a set, ordered by first insertion ---------- *)
Lemma s_add_in l k x : In x (s_add l k) <-> x = k \/ In x l.
Proof.
  unfold s_add. destruct (mem k l) eqn:E.
  - apply mem_In in E. split; [tauto|]. intros [->|H]; assumption.
  - rewrite in_app_iff. cbn [In]. split; [intros [H|[H|[]]]; auto|intros [H|H]; auto].
Qed.
Lemma s_discard_in l k x : In x (s_discard l k) <-> x <> k /\ In x l.
Proof.
  unfold s_discard. rewrite filter_In. destruct (N.eqb_spec k x) as [->|]; cbn [negb]; split; intros [A B]; try tauto; try discriminate.
  all: split; try assumption; try reflexivity; congruence.
Qed.
Lemma s_union_in a b x : In x (s_union a b) <-> In x a \/ In x b.
Proof.
  unfold s_union. rewrite in_app_iff, filter_In. destruct (mem x a) eqn:E; cbn [negb].
  - apply mem_In in E. split; [intros [H|[_ H]]; [auto|discriminate]|auto].
  - split; [intros [H|[H _]]; auto|intros [H|H]; auto].
Qed.
Lemma s_inter_other_order_in a b x : In x (s_inter_other_order a b) <-> In x a /\ In x b.
Proof. unfold s_inter_other_order. rewrite filter_In, mem_In. tauto. Qed.
Lemma s_inter_in a b x : In x (s_inter a b) <-> In x a /\ In x b.
Proof. unfold s_inter. rewrite filter_In, mem_In. tauto. Qed.
Lemma s_diff_in a b x : In x (s_diff a b) <-> In x a /\ ~ In x b.
Proof.
  unfold s_diff. rewrite filter_In, negb_true_iff, <- (mem_In x b).
  destruct (mem x b); split; intros [A B]; split; try assumption; try discriminate; try reflexivity.
  exfalso; apply B; reflexivity.
Qed.
Lemma s_add_existing l k : In k l -> s_add l k = l.
Proof. intros H. unfold s_add. apply mem_In in H. rewrite H. reflexivity. Qed.
Lemma s_add_new l k : ~ In k l -> s_add l k = l ++ [k].
Proof. intros H. unfold s_add. destruct (mem k l) eqn:E; [apply mem_In in E; contradiction|reflexivity]. Qed.
Lemma s_readd_moves_to_end l k : s_add (s_discard l k) k = s_discard l k ++ [k].
Proof. apply s_add_new. rewrite s_discard_in. tauto. Qed.

(* single operations, observed through __iter__ *)
Lemma add_iter_spec s k : inv s ->
  inv (oset_add s k) /\ oset_iter (oset_add s k) = Some (s_add (keys s) k).
Proof. intros H. destruct (add_spec s k H) as [Hi Hk]. split; [exact Hi|]. rewrite <- Hk. exact (iter_spec _ Hi). Qed.
Lemma discard_iter_spec s k : inv s ->
  inv (oset_discard s k) /\ oset_iter (oset_discard s k) = Some (s_discard (keys s) k).
Proof. intros H. destruct (discard_spec s k H) as [Hi Hk]. split; [exact Hi|]. rewrite <- Hk. exact (iter_spec _ Hi). Qed.
