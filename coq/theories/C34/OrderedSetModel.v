(* Hand model of problog/util.py class OrderedSet (lines 252-331) together with
   the collections.abc.Set / MutableSet mixin methods it inherits
   (CPython 3.12 Lib/_collections_abc.py: __ior__, __or__, __and__, __sub__,
   __isub__, __iand__, clear, _from_iterable).

   Pointer model.  A node is the Python list object [key, prev, next]; its
   identity is an address (nat).  Address 0 is the sentinel `self.end`
   ([None, end, end]).  The three list slots are three fields
       okey a = a[0]      oprev a = a[1]      onext a = a[2]
   `self.map` (dict key -> node) is an insertion-ordered association list, which
   is what a CPython >= 3.7 dict is (the order of the dict is not used by the
   class, only get / set-when-absent / pop / len).  A new list object gets the
   fresh address `ofresh`; unreachable nodes are simply never looked at again.

   Every loop of the Python code is a fuelled recursion that returns None when
   the fuel runs out (the theorems show this never happens).
   No proofs in this file: it must keep running when a proof breaks. *)
From Coq Require Import Arith NArith List Bool.
Import ListNotations.

Definition key := N.
Definition addr := nat.

Definition upd {A} (f : addr -> A) (a : addr) (v : A) : addr -> A :=
  fun x => if Nat.eqb x a then v else f x.

Record oset := {
  okey : addr -> key;
  oprev : addr -> addr;
  onext : addr -> addr;
  omap : list (key * addr);
  ofresh : addr
}.

(* __init__ without iterable: end = [None, end, end]; map = {} *)
Definition oset_empty : oset :=
  {| okey := fun _ => 0%N; oprev := fun _ => 0; onext := fun _ => 0; omap := []; ofresh := 1 |}.

(* dict operations *)
Fixpoint map_get (m : list (key * addr)) (k : key) : option addr :=
  match m with
  | [] => None
  | (k', a) :: t => if N.eqb k k' then Some a else map_get t k
  end.
Fixpoint map_del (m : list (key * addr)) (k : key) : list (key * addr) :=
  match m with
  | [] => []
  | (k', a) :: t => if N.eqb k k' then t else (k', a) :: map_del t k
  end.

(* __len__ / __contains__ *)
Definition oset_len (s : oset) : nat := length (omap s).
Definition oset_contains (s : oset) (k : key) : bool :=
  match map_get (omap s) k with Some _ => true | None => false end.

(* add:  if key not in self.map:
           end = self.end; curr = end[1]
           curr[2] = end[1] = self.map[key] = [key, curr, end]
   (targets are assigned left to right: curr[2], then end[1], then map[key]) *)
Definition oset_add (s : oset) (k : key) : oset :=
  match map_get (omap s) k with
  | Some _ => s
  | None =>
      let curr := oprev s 0 in
      let n := ofresh s in
      {| okey := upd (okey s) n k;
         oprev := upd (upd (oprev s) n curr) 0 n;
         onext := upd (upd (onext s) n 0) curr n;
         omap := omap s ++ [(k, n)];
         ofresh := S n |}
  end.

(* discard:  if key in self.map:
               key, prv, nxt = self.map.pop(key); prv[2] = nxt; nxt[1] = prv *)
Definition oset_discard (s : oset) (k : key) : oset :=
  match map_get (omap s) k with
  | None => s
  | Some a =>
      let prv := oprev s a in
      let nxt := onext s a in
      {| okey := okey s;
         oprev := upd (oprev s) nxt prv;
         onext := upd (onext s) prv nxt;
         omap := map_del (omap s) k;
         ofresh := ofresh s |}
  end.

(* __iter__ / __reversed__:  curr = end[2]; while curr is not end: yield curr[0]; curr = curr[2] *)
Fixpoint walk (f : addr -> addr) (kf : addr -> key) (fuel : nat) (curr : addr) : option (list key) :=
  match fuel with
  | O => None
  | S fu => if Nat.eqb curr 0 then Some []
            else match walk f kf fu (f curr) with
                 | Some l => Some (kf curr :: l)
                 | None => None
                 end
  end.
Definition oset_iter (s : oset) : option (list key) := walk (onext s) (okey s) (ofresh s) (onext s 0).
Definition oset_reversed (s : oset) : option (list key) := walk (oprev s) (okey s) (ofresh s) (oprev s 0).

(* pop(last):  if not self: raise KeyError
               key = self.end[1][0] if last else self.end[2][0]; self.discard(key); return key
   None = KeyError *)
Definition oset_pop (s : oset) (last : bool) : oset * option key :=
  if Nat.eqb (oset_len s) 0 then (s, None)
  else let k := okey s (if last then oprev s 0 else onext s 0) in
       (oset_discard s k, Some k).

(* ---- mixins of collections.abc ---- *)
(* MutableSet.__ior__(self, it): for value in it: self.add(value)     (it is another object / a list) *)
Definition oset_ior_list (s : oset) (l : list key) : oset := fold_left oset_add l s.

(* the same loop when `it is self`: the generator of __iter__ is suspended at
   node `curr` while add runs; on resumption it reads curr[2] of the CURRENT ring *)
Fixpoint oset_ior_self (fuel : nat) (s : oset) (curr : addr) : option oset :=
  match fuel with
  | O => None
  | S fu => if Nat.eqb curr 0 then Some s
            else let s' := oset_add s (okey s curr) in
                 oset_ior_self fu s' (onext s' curr)
  end.

(* Set._from_iterable(it) = cls(it) = OrderedSet(it):  empty, then self |= it *)
Definition oset_from_list (l : list key) : oset := oset_ior_list oset_empty l.

(* MutableSet.clear: while True: self.pop()  until KeyError; self.pop is OrderedSet.pop(last=True) *)
Fixpoint oset_clear (fuel : nat) (s : oset) : option oset :=
  match fuel with
  | O => None
  | S fu => match oset_pop s true with
            | (s', None) => Some s'
            | (s', Some _) => oset_clear fu s'
            end
  end.

Definition obind {A B} (x : option A) (f : A -> option B) : option B :=
  match x with Some a => f a | None => None end.

(* Set.__or__: self._from_iterable(e for s in (self, other) for e in s) *)
Definition oset_or (a b : oset) : option oset :=
  obind (oset_iter a) (fun la => obind (oset_iter b) (fun lb => Some (oset_from_list (la ++ lb)))).
(* Set.__and__: self._from_iterable(value for value in other if value in self) *)
Definition oset_and (a b : oset) : option oset :=
  obind (oset_iter b) (fun lb => Some (oset_from_list (filter (oset_contains a) lb))).
(* Set.__sub__ (other is a Set): self._from_iterable(value for value in self if value not in other) *)
Definition oset_sub (a b : oset) : option oset :=
  obind (oset_iter a) (fun la => Some (oset_from_list (filter (fun v => negb (oset_contains b v)) la))).
(* the same against a builtin set given by its elements *)
Definition mem (k : key) (l : list key) : bool := existsb (N.eqb k) l.
Definition oset_sub_set (a : oset) (l : list key) : option oset :=
  obind (oset_iter a) (fun la => Some (oset_from_list (filter (fun v => negb (mem v l)) la))).
(* MutableSet.__isub__ (it is not self): for value in it: self.discard(value) *)
Definition oset_isub (a b : oset) : option oset :=
  obind (oset_iter b) (fun lb => Some (fold_left oset_discard lb a)).
(* MutableSet.__iand__: for value in (self - it): self.discard(value) *)
Definition oset_iand (a b : oset) : option oset :=
  obind (oset_sub a b) (fun d => obind (oset_iter d) (fun ld => Some (fold_left oset_discard ld a))).

Fixpoint keys_eqb (x y : list key) : bool :=
  match x, y with
  | [], [] => true
  | a :: x', b :: y' => N.eqb a b && keys_eqb x' y'
  | _, _ => false
  end.
(* OrderedSet.__eq__(other : OrderedSet): len(self) == len(other) and list(self) == list(other) *)
Definition oset_eq (a b : oset) : option bool :=
  if Nat.eqb (oset_len a) (oset_len b)
  then obind (oset_iter a) (fun la => obind (oset_iter b) (fun lb => Some (keys_eqb la lb)))
  else Some false.
(* OrderedSet.__eq__(other : builtin set): set(self) == set(other) *)
Definition oset_eq_set (a : oset) (l : list key) : option bool :=
  obind (oset_iter a) (fun la => Some (forallb (fun v => mem v l) la && forallb (fun v => mem v la) l)).

(* ---- histories: a register machine over OrderedSet objects ---- *)
Inductive oop :=
| OAdd (r : nat) (k : key)
| ODiscard (r : nat) (k : key)
| OPop (r : nat) (last : bool)
| OContains (r : nat) (k : key)
| OIor (r a : nat)                (* regs[r] |= regs[a]          (a = r allowed) *)
| OIorList (r : nat) (l : list key)   (* regs[r] |= [python list]    *)
| OFromList (d : nat) (l : list key)  (* regs[d] = OrderedSet(list)  *)
| OOr (d a b : nat)               (* regs[d] = regs[a] | regs[b] *)
| OAnd (d a b : nat)              (* regs[d] = regs[a] & regs[b] *)
| OSub (d a b : nat)              (* regs[d] = regs[a] - regs[b] *)
| OSubSet (d a : nat) (l : list key)  (* regs[d] = regs[a] - set(l)  *)
| OIsub (r a : nat)               (* regs[r] -= regs[a]          (a = r: clear()) *)
| OIand (r a : nat)               (* regs[r] &= regs[a]          *)
| OEq (a b : nat)                 (* regs[a] == regs[b]          *)
| OEqSet (a : nat) (l : list key).    (* regs[a] == set(l)           *)

Inductive oout :=
| RNone
| RBool (b : bool)
| RKey (k : key)
| RKeyError.

Definition oregs := list oset.
Definition ogetr (rs : oregs) (r : nat) : oset := nth r rs oset_empty.
Fixpoint osetr (rs : oregs) (r : nat) (v : oset) : oregs :=
  match r, rs with
  | O, _ :: t => v :: t
  | O, [] => [v]
  | S r', x :: t => x :: osetr t r' v
  | S r', [] => oset_empty :: osetr [] r' v
  end.

Definition ostep (rs : oregs) (o : oop) : option (oregs * oout) :=
  match o with
  | OAdd r k => Some (osetr rs r (oset_add (ogetr rs r) k), RNone)
  | ODiscard r k => Some (osetr rs r (oset_discard (ogetr rs r) k), RNone)
  | OPop r last =>
      let '(s', res) := oset_pop (ogetr rs r) last in
      Some (osetr rs r s', match res with Some k => RKey k | None => RKeyError end)
  | OContains r k => Some (rs, RBool (oset_contains (ogetr rs r) k))
  | OIor r a =>
      if Nat.eqb r a
      then let s := ogetr rs r in
           obind (oset_ior_self (ofresh s) s (onext s 0)) (fun s' => Some (osetr rs r s', RNone))
      else obind (oset_iter (ogetr rs a)) (fun la => Some (osetr rs r (oset_ior_list (ogetr rs r) la), RNone))
  | OIorList r l => Some (osetr rs r (oset_ior_list (ogetr rs r) l), RNone)
  | OFromList d l => Some (osetr rs d (oset_from_list l), RNone)
  | OOr d a b => obind (oset_or (ogetr rs a) (ogetr rs b)) (fun s => Some (osetr rs d s, RNone))
  | OAnd d a b => obind (oset_and (ogetr rs a) (ogetr rs b)) (fun s => Some (osetr rs d s, RNone))
  | OSub d a b => obind (oset_sub (ogetr rs a) (ogetr rs b)) (fun s => Some (osetr rs d s, RNone))
  | OSubSet d a l => obind (oset_sub_set (ogetr rs a) l) (fun s => Some (osetr rs d s, RNone))
  | OIsub r a =>
      if Nat.eqb r a
      then obind (oset_clear (S (oset_len (ogetr rs r))) (ogetr rs r)) (fun s => Some (osetr rs r s, RNone))
      else obind (oset_isub (ogetr rs r) (ogetr rs a)) (fun s => Some (osetr rs r s, RNone))
  | OIand r a => obind (oset_iand (ogetr rs r) (ogetr rs a)) (fun s => Some (osetr rs r s, RNone))
  | OEq a b => obind (oset_eq (ogetr rs a) (ogetr rs b)) (fun v => Some (rs, RBool v))
  | OEqSet a l => obind (oset_eq_set (ogetr rs a) l) (fun v => Some (rs, RBool v))
  end.

Definition oregs0 : oregs := [oset_empty; oset_empty; oset_empty].

(* run a history; None = some loop ran out of fuel *)
Fixpoint orun_from (rs : oregs) (ops : list oop) : option (oregs * list oout) :=
  match ops with
  | [] => Some (rs, [])
  | o :: t => match ostep rs o with
              | None => None
              | Some (rs', out) => match orun_from rs' t with
                                   | None => None
                                   | Some (rs'', outs) => Some (rs'', out :: outs)
                                   end
              end
  end.
Definition orun (ops : list oop) : option (oregs * list oout) := orun_from oregs0 ops.

(* what the API shows of one object *)
Definition oobs := (option (list key) * option (list key) * nat)%type.
Definition oset_obs (s : oset) : oobs := (oset_iter s, oset_reversed s, oset_len s).

(* ---- the specification: duplicate-free list in first-insertion order ---- *)
Definition s_add (l : list key) (k : key) : list key := if mem k l then l else l ++ [k].
Definition s_discard (l : list key) (k : key) : list key := filter (fun x => negb (N.eqb k x)) l.
Definition s_pop (l : list key) (last : bool) : list key * oout :=
  match l with
  | [] => (l, RKeyError)
  | x :: t => if last then (removelast l, RKey (List.last l x)) else (t, RKey x)
  end.
Definition s_union (a b : list key) : list key := a ++ filter (fun v => negb (mem v a)) b.
Definition s_inter_other_order (a b : list key) : list key := filter (fun v => mem v a) b.   (* a & b: order of b *)
Definition s_diff (a b : list key) : list key := filter (fun v => negb (mem v b)) a.
Definition s_inter (a b : list key) : list key := filter (fun v => mem v b) a.               (* a &= b: order of a *)
Definition s_from_list (l : list key) : list key := fold_left s_add l [].
Definition s_eq_set (a l : list key) : bool := forallb (fun v => mem v l) a && forallb (fun v => mem v a) l.

Definition sregs := list (list key).
Definition sgetr (rs : sregs) (r : nat) : list key := nth r rs [].
Fixpoint ssetr (rs : sregs) (r : nat) (v : list key) : sregs :=
  match r, rs with
  | O, _ :: t => v :: t
  | O, [] => [v]
  | S r', x :: t => x :: ssetr t r' v
  | S r', [] => [] :: ssetr [] r' v
  end.

Definition sstep (rs : sregs) (o : oop) : sregs * oout :=
  match o with
  | OAdd r k => (ssetr rs r (s_add (sgetr rs r) k), RNone)
  | ODiscard r k => (ssetr rs r (s_discard (sgetr rs r) k), RNone)
  | OPop r last => let '(l', out) := s_pop (sgetr rs r) last in (ssetr rs r l', out)
  | OContains r k => (rs, RBool (mem k (sgetr rs r)))
  | OIor r a => (ssetr rs r (s_union (sgetr rs r) (sgetr rs a)), RNone)
  | OIorList r l => (ssetr rs r (fold_left s_add l (sgetr rs r)), RNone)
  | OFromList d l => (ssetr rs d (s_from_list l), RNone)
  | OOr d a b => (ssetr rs d (s_union (sgetr rs a) (sgetr rs b)), RNone)
  | OAnd d a b => (ssetr rs d (s_inter_other_order (sgetr rs a) (sgetr rs b)), RNone)
  | OSub d a b => (ssetr rs d (s_diff (sgetr rs a) (sgetr rs b)), RNone)
  | OSubSet d a l => (ssetr rs d (s_diff (sgetr rs a) l), RNone)
  | OIsub r a => (ssetr rs r (s_diff (sgetr rs r) (sgetr rs a)), RNone)
  | OIand r a => (ssetr rs r (s_inter (sgetr rs r) (sgetr rs a)), RNone)
  | OEq a b => (rs, RBool (keys_eqb (sgetr rs a) (sgetr rs b)))
  | OEqSet a l => (rs, RBool (s_eq_set (sgetr rs a) l))
  end.

Fixpoint srun_from (rs : sregs) (ops : list oop) : sregs * list oout :=
  match ops with
  | [] => (rs, [])
  | o :: t => let '(rs', out) := sstep rs o in
              let '(rs'', outs) := srun_from rs' t in (rs'', out :: outs)
  end.
Definition srun (ops : list oop) : sregs * list oout := srun_from [[]; []; []] ops.
Definition spec_obs (l : list key) : oobs := (Some l, Some (rev l), length l).

(* ---- step-by-step traces for the correspondence with problog.util.OrderedSet ---- *)
Fixpoint otrace (rs : oregs) (ops : list oop) : list (option (oout * list oobs)) :=
  match ops with
  | [] => []
  | o :: t => match ostep rs o with
              | None => [None]
              | Some (rs', out) => Some (out, map oset_obs rs') :: otrace rs' t
              end
  end.

(* the dict order of self.map, observable in Python as list(s.map) *)
Definition oset_mapkeys (s : oset) : list key := map fst (omap s).

Definition oout_eqb (a b : oout) : bool :=
  match a, b with
  | RNone, RNone => true
  | RBool x, RBool y => Bool.eqb x y
  | RKey x, RKey y => N.eqb x y
  | RKeyError, RKeyError => true
  | _, _ => false
  end.
Definition okeys_eqb (a b : option (list key)) : bool :=
  match a, b with
  | Some x, Some y => keys_eqb x y
  | _, _ => false
  end.
Definition oobs_eqb (a b : oobs) : bool :=
  let '(i1, r1, n1) := a in let '(i2, r2, n2) := b in
  okeys_eqb i1 i2 && okeys_eqb r1 r2 && Nat.eqb n1 n2.
Fixpoint all2 {A B} (e : A -> B -> bool) (x : list A) (y : list B) : bool :=
  match x, y with
  | [], [] => true
  | a :: x', b :: y' => e a b && all2 e x' y'
  | _, _ => false
  end.
(* expected trace from Python: per step (out, [(iter, reversed, len) per register]) with plain lists *)
Definition pyobs := (list key * list key * nat)%type.
Definition pyobs_eqb (a : oobs) (b : pyobs) : bool :=
  let '(i2, r2, n2) := b in oobs_eqb a (Some i2, Some r2, n2).
Definition ostep_eqb (a : option (oout * list oobs)) (b : oout * list pyobs) : bool :=
  match a with
  | None => false
  | Some (o1, obs1) => oout_eqb o1 (fst b) && all2 pyobs_eqb obs1 (snd b)
  end.
Definition otrace_eqb := all2 ostep_eqb.
