(* Hand model of problog/util.py class BitVector (lines 590-677).
   blocks : list N  -- self.blocks; block b holds members 32*b .. 32*b+31.
   No proofs in this file: it must keep running when a proof breaks. *)
From Coq Require Import NArith List Bool.
Import ListNotations.
Open Scope N_scope.

Definition bv := list N.
Definition binsize_bits : N := 5.
Definition mask : N := N.shiftl 1 binsize_bits - 1.

Definition bv_empty : bv := [].

(* self.blocks.extend([0] * (b - n + 1)) when n <= b *)
Fixpoint set_block (bs : bv) (b : nat) (bit : N) : bv :=
  match b, bs with
  | O, [] => [N.lor 0 bit]
  | O, x :: t => N.lor x bit :: t
  | S b', [] => 0 :: set_block [] b' bit
  | S b', x :: t => x :: set_block t b' bit
  end.

Definition bv_add (s : bv) (index : N) : bv :=
  let b := N.shiftr index binsize_bits in
  let i := N.land index mask in
  set_block s (N.to_nat b) (N.shiftl 1 i).

(* __contains__: returns blocks[b] & (1 << i) (truthiness) or False *)
Definition bv_contains (s : bv) (index : N) : bool :=
  let b := N.shiftr index binsize_bits in
  let i := N.land index mask in
  match nth_error s (N.to_nat b) with
  | None => false
  | Some blk => negb (N.land blk (N.shiftl 1 i) =? 0)
  end.

(* __and__: zip *)
Fixpoint bv_and (a b : bv) : bv :=
  match a, b with
  | x :: a', y :: b' => N.land x y :: bv_and a' b'
  | _, _ => []
  end.

(* __or__: zip, then the tails *)
Fixpoint bv_or (a b : bv) : bv :=
  match a, b with
  | x :: a', y :: b' => N.lor x y :: bv_or a' b'
  | [], b' => b'
  | a', [] => a'
  end.

(* __iand__ as it is in the code: only the first len(other) blocks are and-ed,
   the blocks of self beyond len(other.blocks) are LEFT UNTOUCHED. *)
Fixpoint bv_iand_code (a b : bv) : bv :=
  match a, b with
  | x :: a', y :: b' => N.land x y :: bv_iand_code a' b'
  | a', [] => a'
  | [], _ => []
  end.

(* __iand__ after the repair (blocks beyond len(other.blocks) are dropped). *)
Definition bv_iand (a b : bv) : bv := bv_and a b.

(* __ior__ *)
Definition bv_ior (a b : bv) : bv := bv_or a b.

(* __iter__: ascending scan of every block, 32 bits per block *)
Fixpoint bits_of (blk : N) (o : N) (i : nat) (k : N) : list N :=
  match i with
  | O => []
  | S i' => (if negb (N.land (N.shiftl 1 k) blk =? 0) then [o + k] else [])
            ++ bits_of blk o i' (k + 1)
  end.

Fixpoint bv_iter_from (s : bv) (o : N) : list N :=
  match s with
  | [] => []
  | blk :: t => (if blk =? 0 then [] else bits_of blk o 32 0) ++ bv_iter_from t (o + 32)
  end.
Definition bv_iter (s : bv) : list N := bv_iter_from s 0.

(* __len__: popcount per block (bin(block).count("1")) *)
Fixpoint popcount_pos (p : positive) : N :=
  match p with
  | xH => 1
  | xO q => popcount_pos q
  | xI q => 1 + popcount_pos q
  end.
Definition popcount (n : N) : N := match n with N0 => 0 | Npos p => popcount_pos p end.
Definition bv_len (s : bv) : N := fold_right (fun blk acc => popcount blk + acc) 0 s.

Definition bv_bool (s : bv) : bool := existsb (fun b => negb (b =? 0)) s.

(* operation language for histories: a small register machine over 3 vectors *)
Inductive bvop :=
| OAdd (r : nat) (x : N)
| OAnd (dst a b : nat)       (* dst := a & b  *)
| OOr (dst a b : nat)        (* dst := a | b  *)
| OIand (a b : nat)          (* a &= b *)
| OIor (a b : nat).          (* a |= b *)

Definition regs := list bv.
Definition getr (rs : regs) (r : nat) : bv := nth r rs [].
Fixpoint setr (rs : regs) (r : nat) (v : bv) : regs :=
  match r, rs with
  | O, _ :: t => v :: t
  | O, [] => [v]
  | S r', x :: t => x :: setr t r' v
  | S r', [] => [] :: setr [] r' v
  end.

Definition bv_step (iand : bv -> bv -> bv) (rs : regs) (o : bvop) : regs :=
  match o with
  | OAdd r x => setr rs r (bv_add (getr rs r) x)
  | OAnd d a b => setr rs d (bv_and (getr rs a) (getr rs b))
  | OOr d a b => setr rs d (bv_or (getr rs a) (getr rs b))
  | OIand a b => setr rs a (iand (getr rs a) (getr rs b))
  | OIor a b => setr rs a (bv_ior (getr rs a) (getr rs b))
  end.

Definition bv_run (iand : bv -> bv -> bv) (ops : list bvop) : regs :=
  fold_left (bv_step iand) ops [[]; []; []].

(* full observation of one vector: blocks are internal, so observe what the
   API shows: iteration, len, truthiness *)
Definition bv_obs (s : bv) : list N * N * bool := (bv_iter s, bv_len s, bv_bool s).

(* trace of full observations after every operation (step-by-step comparison) *)
Fixpoint bv_trace (iand : bv -> bv -> bv) (rs : regs) (ops : list bvop) : list (list (list N * N * bool)) :=
  match ops with
  | [] => []
  | o :: t => let rs' := bv_step iand rs o in map bv_obs rs' :: bv_trace iand rs' t
  end.

Definition obs_eqb (a b : list N * N * bool) : bool :=
  let '(i1, l1, b1) := a in let '(i2, l2, b2) := b in
  (if list_eq_dec N.eq_dec i1 i2 then true else false) && (l1 =? l2) && Bool.eqb b1 b2.
Fixpoint list_eqb {A} (e : A -> A -> bool) (x y : list A) : bool :=
  match x, y with
  | [], [] => true
  | a :: x', b :: y' => e a b && list_eqb e x' y'
  | _, _ => false
  end.
Definition trace_eqb := list_eqb (list_eqb obs_eqb).
