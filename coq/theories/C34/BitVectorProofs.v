From Coq Require Import Arith NArith List Bool Lia Sorted.
From PL.C34 Require Import BitVectorModel.
Import ListNotations.
Open Scope N_scope.

(* ---------- bit-level helpers ---------- *)
Lemma mask_val : mask = 31. Proof. reflexivity. Qed.

Lemma land_bit_test blk i : negb (N.land blk (N.shiftl 1 i) =? 0) = N.testbit blk i.
Proof.
  rewrite N.shiftl_1_l.
  destruct (N.testbit blk i) eqn:E.
  - apply negb_true_iff, N.eqb_neq. intro H.
    assert (N.testbit (N.land blk (2 ^ i)) i = false) by (rewrite H; apply N.bits_0).
    rewrite N.land_spec, E, N.pow2_bits_true in H0. discriminate.
  - apply negb_false_iff, N.eqb_eq. apply N.bits_inj. intro j.
    rewrite N.land_spec, N.bits_0, N.pow2_bits_eqb.
    destruct (N.eqb_spec i j) as [->|]; [rewrite E|]; auto using andb_false_r.
Qed.

Lemma land_bit_test' blk i : negb (N.land (N.shiftl 1 i) blk =? 0) = N.testbit blk i.
Proof. rewrite N.land_comm. apply land_bit_test. Qed.

Definition blk_at (s : bv) (b : nat) : N := nth b s 0.
Definition hi (x : N) : nat := N.to_nat (N.shiftr x binsize_bits).
Definition lo (x : N) : N := N.land x mask.

Lemma hi_lo_eq x y : hi x = hi y -> lo x = lo y -> x = y.
Proof.
  unfold hi, lo, binsize_bits. rewrite mask_val.
  change 31 with (N.ones 5). rewrite !N.land_ones, !N.shiftr_div_pow2.
  intros H1 H2. apply N2Nat.inj in H1.
  rewrite (N.div_mod x (2^5)), (N.div_mod y (2^5)) by discriminate. congruence.
Qed.

Lemma lo_lt x : lo x < 32.
Proof. unfold lo. rewrite mask_val. change 31 with (N.ones 5). rewrite N.land_ones. apply N.mod_lt. discriminate. Qed.

Lemma x_decomp x : x = 32 * N.of_nat (hi x) + lo x.
Proof.
  unfold hi, lo, binsize_bits. rewrite mask_val. change 31 with (N.ones 5).
  rewrite N.land_ones, N.shiftr_div_pow2, N2Nat.id. change (2^5) with 32. apply N.div_mod. discriminate.
Qed.

Lemma hi_lo_of b j : j < 32 -> hi (32 * N.of_nat b + j) = b /\ lo (32 * N.of_nat b + j) = j.
Proof.
  intros Hj. unfold hi, lo, binsize_bits. rewrite mask_val. change 31 with (N.ones 5).
  rewrite N.land_ones, N.shiftr_div_pow2. change (2^5) with 32.
  assert (H32 : 32 <> 0) by discriminate.
  rewrite (N.mul_comm 32), N.div_add_l, N.div_small, N.add_0_r, Nat2N.id by assumption.
  split; [reflexivity|].
  rewrite N.add_comm, N.mod_add by assumption. apply N.mod_small; assumption.
Qed.

Lemma contains_spec s x : bv_contains s x = N.testbit (blk_at s (hi x)) (lo x).
Proof.
  unfold bv_contains, blk_at, hi, lo.
  destruct (nth_error s (N.to_nat (N.shiftr x binsize_bits))) eqn:E.
  - rewrite land_bit_test. erewrite nth_error_nth by eassumption. reflexivity.
  - apply nth_error_None in E. rewrite nth_overflow by assumption. symmetry. apply N.bits_0.
Qed.

(* ---------- add ---------- *)
Lemma blk_at_set_block s b bit b' :
  blk_at (set_block s b bit) b' = if Nat.eqb b b' then N.lor (blk_at s b) bit else blk_at s b'.
Proof.
  unfold blk_at. revert s b'. induction b as [|b IH]; intros s b'.
  - destruct s, b'; cbn; try reflexivity. destruct b'; reflexivity.
  - destruct s as [|x t], b'; cbn [set_block nth Nat.eqb]; try reflexivity.
    + rewrite IH. destruct (Nat.eqb b b'); destruct b, b'; reflexivity.
    + apply IH.
Qed.

Lemma contains_add s x y : bv_contains (bv_add s x) y = (x =? y) || bv_contains s y.
Proof.
  rewrite !contains_spec. unfold bv_add. fold (hi x). fold (lo x).
  rewrite blk_at_set_block.
  destruct (Nat.eqb_spec (hi x) (hi y)) as [Hh|Hh].
  - rewrite N.lor_spec, N.shiftl_1_l, N.pow2_bits_eqb, Hh.
    destruct (N.eqb_spec (lo x) (lo y)) as [Hl|Hl].
    + rewrite (hi_lo_eq x y Hh Hl), N.eqb_refl. apply orb_comm.
    + destruct (N.eqb_spec x y) as [->|]; [congruence|]. rewrite orb_false_r. reflexivity.
  - destruct (N.eqb_spec x y) as [->|]; [congruence|]. reflexivity.
Qed.

(* ---------- and / or ---------- *)
Lemma blk_at_and a b k : blk_at (bv_and a b) k = N.land (blk_at a k) (blk_at b k).
Proof.
  unfold blk_at. revert b k. induction a as [|x a IH]; intros [|y b] [|k]; cbn; try reflexivity;
    try (symmetry; apply N.land_0_r); try apply IH.
Qed.

Lemma blk_at_or a b k : blk_at (bv_or a b) k = N.lor (blk_at a k) (blk_at b k).
Proof.
  unfold blk_at. revert b k. induction a as [|x a IH]; intros [|y b] [|k]; cbn [bv_or nth]; try reflexivity;
    try (symmetry; apply N.lor_0_r); try apply IH.
Qed.

Lemma contains_and a b x : bv_contains (bv_and a b) x = bv_contains a x && bv_contains b x.
Proof. rewrite !contains_spec, blk_at_and. apply N.land_spec. Qed.

Lemma contains_or a b x : bv_contains (bv_or a b) x = bv_contains a x || bv_contains b x.
Proof. rewrite !contains_spec, blk_at_or. apply N.lor_spec. Qed.

Lemma contains_empty x : bv_contains bv_empty x = false.
Proof. unfold bv_contains, bv_empty. destruct (N.to_nat _); reflexivity. Qed.

(* the code's __iand__ is NOT intersection: witness *)
Lemma iand_code_not_intersection :
  exists a b x, bv_contains (bv_iand_code a b) x <> (bv_contains a x && bv_contains b x).
Proof. exists [0; 1], [0], 32. vm_compute. discriminate. Qed.

(* ---------- iteration ---------- *)
Lemma bits_of_spec blk o n k y :
  In y (bits_of blk o n k) <-> exists j, k <= j < k + N.of_nat n /\ N.testbit blk j = true /\ y = o + j.
Proof.
  revert k. induction n as [|n IH]; intros k.
  - cbn. split; [tauto|]. intros (j & H & _). lia.
  - cbn [bits_of]. rewrite in_app_iff, IH, land_bit_test'. split.
    + intros [H|(j & Hj & Ht & ->)].
      * destruct (N.testbit blk k) eqn:E; [|destruct H].
        destruct H as [<-|[]]. exists k. repeat split; try assumption; lia.
      * exists j. repeat split; try assumption; lia.
    + intros (j & Hj & Ht & ->).
      destruct (N.eq_dec j k) as [->|Hne].
      * left. rewrite Ht. left. reflexivity.
      * right. exists j. repeat split; try assumption; lia.
Qed.

Lemma bits_of_sorted blk o n k : StronglySorted N.lt (bits_of blk o n k).
Proof.
  revert k. induction n as [|n IH]; intros k; cbn [bits_of]; [constructor|].
  destruct (negb _); cbn [app]; [|apply IH].
  constructor; [apply IH|]. apply Forall_forall. intros y Hy.
  apply bits_of_spec in Hy. destruct Hy as (j & Hj & _ & ->). lia.
Qed.

Lemma iter_from_spec s o y :
  In y (bv_iter_from s o) <->
  exists b j, j < 32 /\ N.testbit (blk_at s b) j = true /\ y = o + 32 * N.of_nat b + j.
Proof.
  revert o. induction s as [|blk t IH]; intros o.
  - cbn. split; [tauto|]. intros (b & j & _ & H & _). unfold blk_at in H. destruct b; cbn in H; try rewrite N.bits_0 in H; discriminate.
  - cbn [bv_iter_from]. rewrite in_app_iff, IH. split.
    + intros [H|(b & j & Hj & Ht & ->)].
      * destruct (N.eqb_spec blk 0); [destruct H|].
        apply bits_of_spec in H. destruct H as (j & Hj & Ht & ->).
        exists 0%nat, j. repeat split; [lia|assumption|lia].
      * exists (S b), j. repeat split; [assumption|assumption|lia].
    + intros ([|b] & j & Hj & Ht & ->).
      * left. unfold blk_at in Ht. cbn in Ht.
        destruct (N.eqb_spec blk 0) as [->|]; [rewrite N.bits_0 in Ht; discriminate|].
        apply bits_of_spec. exists j. repeat split; [lia|lia|assumption|lia].
      * right. exists b, j. repeat split; [assumption|assumption|lia].
Qed.

Lemma iter_from_bounds s o y : In y (bv_iter_from s o) -> o <= y.
Proof. intros H. apply iter_from_spec in H. destruct H as (b & j & _ & _ & ->). lia. Qed.

Lemma sorted_app (l1 l2 : list N) :
  StronglySorted N.lt l1 -> StronglySorted N.lt l2 ->
  (forall x y, In x l1 -> In y l2 -> x < y) -> StronglySorted N.lt (l1 ++ l2).
Proof.
  induction l1 as [|a l1 IH]; intros H1 H2 H; cbn; [assumption|].
  inversion H1 as [|? ? Hs Hf]; subst. constructor.
  - apply IH; auto. intros; apply H; [right|]; assumption.
  - apply Forall_app. split; [assumption|]. apply Forall_forall. intros y Hy. apply H; [left; reflexivity|assumption].
Qed.

Lemma iter_from_sorted s o : StronglySorted N.lt (bv_iter_from s o).
Proof.
  revert o. induction s as [|blk t IH]; intros o; cbn [bv_iter_from]; [constructor|].
  apply sorted_app.
  - destruct (blk =? 0); [constructor|apply bits_of_sorted].
  - apply IH.
  - intros x y Hx Hy. apply iter_from_bounds in Hy.
    destruct (blk =? 0); [destruct Hx|]. apply bits_of_spec in Hx. destruct Hx as (j & Hj & _ & ->). lia.
Qed.

Lemma iter_contains s y : In y (bv_iter s) <-> bv_contains s y = true.
Proof.
  unfold bv_iter. rewrite iter_from_spec, contains_spec. split.
  - intros (b & j & Hj & Ht & ->). cbn [N.add].
    destruct (hi_lo_of b j Hj) as [-> ->]. assumption.
  - intros H. exists (hi y), (lo y). repeat split; [apply lo_lt|assumption|]. cbn [N.add]. apply x_decomp.
Qed.

Lemma iter_sorted s : StronglySorted N.lt (bv_iter s).
Proof. apply iter_from_sorted. Qed.

(* ---------- histories: every register of every reachable state is the
   abstract set computed by the reference interpreter ---------- *)
Definition aset := N -> bool.
Definition aregs := list aset.
Definition a_empty : aset := fun _ => false.
Definition geta (rs : aregs) (r : nat) : aset := nth r rs a_empty.
Fixpoint seta (rs : aregs) (r : nat) (v : aset) : aregs :=
  match r, rs with
  | O, _ :: t => v :: t
  | O, [] => [v]
  | S r', x :: t => x :: seta t r' v
  | S r', [] => a_empty :: seta [] r' v
  end.
Definition a_step (rs : aregs) (o : bvop) : aregs :=
  match o with
  | OAdd r x => seta rs r (fun y => (x =? y) || geta rs r y)
  | OAnd d a b => seta rs d (fun y => geta rs a y && geta rs b y)
  | OOr d a b => seta rs d (fun y => geta rs a y || geta rs b y)
  | OIand a b => seta rs a (fun y => geta rs a y && geta rs b y)
  | OIor a b => seta rs a (fun y => geta rs a y || geta rs b y)
  end.
Definition a_run (ops : list bvop) : aregs := fold_left a_step ops [a_empty; a_empty; a_empty].

Definition refines (rs : regs) (as_ : aregs) : Prop :=
  length rs = length as_ /\ forall r y, bv_contains (getr rs r) y = geta as_ r y.

Lemma getr_setr rs r v r' : getr (setr rs r v) r' = if Nat.eqb r r' then v else getr rs r'.
Proof.
  unfold getr. revert rs r'. induction r as [|r IH]; intros [|x t] [|r']; cbn [setr nth Nat.eqb]; try reflexivity.
  - destruct r'; reflexivity.
  - rewrite IH. destruct (Nat.eqb r r'); destruct r'; reflexivity.
  - apply IH.
Qed.
Lemma geta_seta rs r v r' y :
  geta (seta rs r v) r' y = if Nat.eqb r r' then v y else geta rs r' y.
Proof.
  unfold geta. revert rs r'. induction r as [|r IH]; intros [|x t] [|r']; cbn [seta nth Nat.eqb]; try reflexivity.
  - destruct r'; reflexivity.
  - rewrite IH. destruct (Nat.eqb r r'); destruct r'; reflexivity.
  - apply IH.
Qed.
Lemma length_setr rs r v : length (setr rs r v) = Nat.max (length rs) (S r).
Proof. revert rs. induction r as [|r IH]; intros [|x t]; cbn [setr length]; try rewrite IH; cbn [length]; lia. Qed.
Lemma length_seta rs r v : length (seta rs r v) = Nat.max (length rs) (S r).
Proof. revert rs. induction r as [|r IH]; intros [|x t]; cbn [seta length]; try rewrite IH; cbn [length]; lia. Qed.

Lemma step_refines rs as_ o : refines rs as_ -> refines (bv_step bv_iand rs o) (a_step as_ o).
Proof.
  intros [Hl H]. destruct o; cbn [bv_step a_step]; (split; [rewrite length_setr, length_seta, Hl; reflexivity|]);
    intros r' y; rewrite getr_setr, geta_seta; destruct (Nat.eqb _ r'); try apply H.
  - rewrite contains_add, H. reflexivity.
  - rewrite contains_and, !H. reflexivity.
  - rewrite contains_or, !H. reflexivity.
  - unfold bv_iand. rewrite contains_and, !H. reflexivity.
  - unfold bv_ior. rewrite contains_or, !H. reflexivity.
Qed.

Lemma run_refines ops : refines (bv_run bv_iand ops) (a_run ops).
Proof.
  unfold bv_run, a_run.
  assert (H0 : refines [[]; []; []] [a_empty; a_empty; a_empty]).
  { split; [reflexivity|]. intros r y. unfold getr, geta.
    destruct r as [|[|[|r]]]; cbn [nth]; try apply contains_empty. destruct r; apply contains_empty. }
  revert H0. generalize [a_empty; a_empty; a_empty]. generalize ([[]; []; []] : regs).
  induction ops as [|o ops IH]; intros rs as_ H; cbn [fold_left]; [assumption|].
  apply IH, step_refines, H.
Qed.
(* ---------- len = number of iterated members (blocks < 2^32) ---------- *)
Definition blocks_ok (s : bv) : Prop := Forall (fun b => b < 2 ^ 32) s.

Lemma bits_of_len_indep blk o o' n k : length (bits_of blk o n k) = length (bits_of blk o' n k).
Proof.
  revert k. induction n as [|n IH]; intros k; cbn [bits_of]; [reflexivity|].
  rewrite !app_length, (IH (k + 1)). destruct (negb _); reflexivity.
Qed.

Lemma bits_of_len_div2 blk o n k :
  length (bits_of (N.div2 blk) o n k) = length (bits_of blk o n (k + 1)).
Proof.
  revert k. induction n as [|n IH]; intros k; cbn [bits_of]; [reflexivity|].
  rewrite !app_length, IH, !land_bit_test', N.div2_spec, N.shiftr_spec', N.add_1_r.
  destruct (N.testbit blk (N.succ k)); reflexivity.
Qed.

Lemma bits_of_len_zero o n k : length (bits_of 0 o n k) = 0%nat.
Proof.
  revert k. induction n as [|n IH]; intros k; cbn [bits_of]; [reflexivity|].
  rewrite app_length, IH, land_bit_test', N.bits_0. reflexivity.
Qed.

Lemma popcount_bits n : forall p o, Npos p < 2 ^ N.of_nat n ->
  popcount_pos p = N.of_nat (length (bits_of (Npos p) o n 0)).
Proof.
  induction n as [|n IH]; intros p o Hp.
  - cbn in Hp. lia.
  - rewrite Nat2N.inj_succ, N.pow_succ_r' in Hp.
    cbn [bits_of]. rewrite app_length, land_bit_test'.
    rewrite <- (bits_of_len_div2 (Npos p) o n 0).
    destruct p as [q|q|]; cbn [popcount_pos N.div2 N.testbit Pos.testbit length].
    + rewrite (IH q o) by lia. cbn [length]. lia.
    + rewrite (IH q o) by lia. cbn [length]. lia.
    + rewrite bits_of_len_zero. reflexivity.
Qed.

Lemma popcount_block blk o : blk < 2 ^ 32 ->
  popcount blk = N.of_nat (length (if blk =? 0 then [] else bits_of blk o 32 0)).
Proof.
  intros H. destruct blk as [|p]; [reflexivity|].
  cbn [popcount N.eqb]. apply (popcount_bits 32). exact H.
Qed.

Lemma len_iter_from s o : blocks_ok s -> bv_len s = N.of_nat (length (bv_iter_from s o)).
Proof.
  revert o. induction s as [|blk t IH]; intros o H; [reflexivity|].
  inversion H as [|? ? Hb Ht]; subst.
  unfold bv_len in *. cbn [fold_right bv_iter_from]. rewrite app_length, Nat2N.inj_add.
  rewrite <- (IH (o + 32) Ht), <- popcount_block by assumption. reflexivity.
Qed.

Lemma len_iter s : blocks_ok s -> bv_len s = N.of_nat (length (bv_iter s)).
Proof. apply len_iter_from. Qed.

(* ---------- truthiness ---------- *)
Lemma bool_iter s : blocks_ok s -> bv_bool s = negb (match bv_iter s with [] => true | _ => false end).
Proof.
  unfold bv_iter. generalize 0. induction s as [|blk t IH]; intros o H; [reflexivity|].
  inversion H as [|? ? Hb Ht]; subst. cbn [bv_bool existsb bv_iter_from].
  destruct (N.eqb_spec blk 0) as [->|Hne]; cbn [negb orb app].
  - apply IH, Ht.
  - assert (Hin : In (o + N.log2 blk) (bits_of blk o 32 0)).
    { apply bits_of_spec. exists (N.log2 blk). repeat split; try lia.
      - assert (N.log2 blk < 32) by (apply N.log2_lt_pow2; lia). lia.
      - apply N.bit_log2, Hne. }
    destruct (bits_of blk o 32 0); [destruct Hin|reflexivity].
Qed.

Lemma bool_contains s : blocks_ok s -> (bv_bool s = true <-> exists x, bv_contains s x = true).
Proof.
  intros H. rewrite (bool_iter s H). split.
  - destruct (bv_iter s) as [|x l] eqn:E; [discriminate|]. intros _. exists x.
    apply iter_contains. rewrite E. left. reflexivity.
  - intros [x Hx]. apply iter_contains in Hx. destruct (bv_iter s); [destruct Hx|reflexivity].
Qed.

(* ---------- the invariant is preserved by every operation ---------- *)
Lemma ok_set_block s b bit : blocks_ok s -> bit < 2 ^ 32 -> blocks_ok (set_block s b bit).
Proof.
  assert (Hor : forall x y, x < 2 ^ 32 -> y < 2 ^ 32 -> N.lor x y < 2 ^ 32).
  { intros x y Hx Hy. destruct (N.eq_dec (N.lor x y) 0) as [->|Hne]; [reflexivity|].
    apply N.log2_lt_pow2; [lia|]. rewrite N.log2_lor.
    destruct (N.eq_dec x 0) as [->|]; destruct (N.eq_dec y 0) as [->|]; cbn [N.log2 N.max];
      try (apply N.max_lub_lt); try (apply N.log2_lt_pow2; lia); try lia.
    all: rewrite ?N.max_0_r, ?N.max_0_l; try (apply N.log2_lt_pow2; lia). }
  intros Hs Hb. revert s Hs. induction b as [|b IH]; intros [|x t] Hs; cbn [set_block].
  - constructor; [apply Hor; [reflexivity|assumption]|constructor].
  - inversion Hs; subst. constructor; [apply Hor; assumption|assumption].
  - constructor; [reflexivity|apply IH; constructor].
  - inversion Hs; subst. constructor; [assumption|apply IH; assumption].
Qed.

Lemma ok_add s x : blocks_ok s -> blocks_ok (bv_add s x).
Proof.
  intros H. apply ok_set_block; [assumption|].
  rewrite N.shiftl_1_l. apply N.pow_lt_mono_r; [lia|]. apply (lo_lt x).
Qed.

Lemma land_lt x y : x < 2 ^ 32 -> N.land x y < 2 ^ 32.
Proof.
  intros Hx. destruct (N.eq_dec (N.land x y) 0) as [->|Hne]; [reflexivity|].
  apply N.log2_lt_pow2; [lia|].
  eapply N.le_lt_trans; [apply N.log2_land|].
  destruct (N.eq_dec x 0) as [->|]; [rewrite N.land_0_l in Hne; congruence|].
  eapply N.le_lt_trans; [apply N.le_min_l|]. apply N.log2_lt_pow2; lia.
Qed.

Lemma ok_and a b : blocks_ok a -> blocks_ok (bv_and a b).
Proof.
  revert b. induction a as [|x a IH]; intros [|y b] H; cbn [bv_and]; try constructor.
  - inversion H; subst. apply land_lt; assumption.
  - inversion H; subst. apply IH; assumption.
Qed.

Lemma ok_or a b : blocks_ok a -> blocks_ok b -> blocks_ok (bv_or a b).
Proof.
  revert b. induction a as [|x a IH]; intros [|y b] Ha Hb; cbn [bv_or]; try assumption.
  inversion Ha; inversion Hb; subst. constructor; [|apply IH; assumption].
  pose proof (ok_set_block [x] 0 y). cbn [set_block] in H.
  assert (blocks_ok [N.lor x y]) by (apply H; [constructor; [assumption|constructor]|assumption]).
  inversion H0; assumption.
Qed.

Definition regs_ok (rs : regs) : Prop := Forall blocks_ok rs.

Lemma ok_getr rs r : regs_ok rs -> blocks_ok (getr rs r).
Proof.
  intros H. unfold getr. destruct (nth_in_or_default r rs []) as [Hin| ->]; [|constructor].
  unfold regs_ok in H. rewrite Forall_forall in H. apply H, Hin.
Qed.

Lemma ok_setr rs r v : regs_ok rs -> blocks_ok v -> regs_ok (setr rs r v).
Proof.
  intros H Hv. revert rs H. induction r as [|r IH]; intros [|x t] H; cbn [setr].
  - constructor; [assumption|constructor].
  - inversion H; subst. constructor; assumption.
  - constructor; [constructor|apply IH; constructor].
  - inversion H; subst. constructor; [assumption|apply IH; assumption].
Qed.

Lemma step_ok rs o : regs_ok rs -> regs_ok (bv_step bv_iand rs o).
Proof.
  intros H. destruct o; cbn [bv_step]; apply ok_setr; try assumption.
  - apply ok_add, ok_getr, H.
  - apply ok_and, ok_getr, H.
  - apply ok_or; apply ok_getr, H.
  - apply ok_and, ok_getr, H.
  - apply ok_or; apply ok_getr, H.
Qed.

Lemma run_ok ops : regs_ok (bv_run bv_iand ops).
Proof.
  unfold bv_run.
  assert (H0 : regs_ok [[]; []; []]) by (repeat constructor).
  revert H0. generalize ([[]; []; []] : regs).
  induction ops as [|o ops IH]; intros rs H; cbn [fold_left]; [assumption|].
  apply IH, step_ok, H.
Qed.

Lemma run_len ops r :
  bv_len (getr (bv_run bv_iand ops) r) = N.of_nat (length (bv_iter (getr (bv_run bv_iand ops) r))).
Proof. apply len_iter, ok_getr, run_ok. Qed.

Lemma run_bool ops r :
  bv_bool (getr (bv_run bv_iand ops) r) = true <-> exists x, bv_contains (getr (bv_run bv_iand ops) r) x = true.
Proof. apply bool_contains, ok_getr, run_ok. Qed.
