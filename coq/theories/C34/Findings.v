(* Refutation witnesses for the code AS IT WAS at the pinned commit; outside
   the cone of Props.v.  *)
From Coq Require Import NArith List Bool.
From PL.C34 Require Import BitVectorModel BitVectorProofs.
Import ListNotations.
Open Scope N_scope.
(* `a &= b` with len(b.blocks) < len(a.blocks) keeps members of a beyond b's blocks *)
Theorem C34_bv_iand_code_refuted :
  exists a b x, bv_contains (bv_iand_code a b) x <> (bv_contains a x && bv_contains b x).
Proof. exact iand_code_not_intersection. Qed.
