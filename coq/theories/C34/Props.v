(* C34 — Utility containers behave as their abstract models.
   This file contains only property statements, closed by `exact`. *)
From Coq Require Import Arith NArith List Bool Sorted.
From PL.C34 Require BitVectorModel BitVectorProofs OrderedSetModel OrderedSetProofs UHeapModel UHeapProofs.
Import ListNotations.

(* ====================================================================== *)
(* BitVector                                                               *)
(* ====================================================================== *)
Module BV.
Import BitVectorModel BitVectorProofs.
Open Scope N_scope.

(* every register of every state reachable by any history of
   add / & / | / &= / |= denotes exactly the set the reference interpreter
   computes (membership for every index, no bound on indices or history). *)
Theorem C34_bv_refines : forall ops, refines (bv_run bv_iand ops) (a_run ops).
Proof. exact run_refines. Qed.
Print Assumptions C34_bv_refines.

Theorem C34_bv_add : forall s x y, bv_contains (bv_add s x) y = (x =? y) || bv_contains s y.
Proof. exact contains_add. Qed.
Print Assumptions C34_bv_add.

Theorem C34_bv_and : forall a b x, bv_contains (bv_and a b) x = bv_contains a x && bv_contains b x.
Proof. exact contains_and. Qed.
Print Assumptions C34_bv_and.

Theorem C34_bv_or : forall a b x, bv_contains (bv_or a b) x = bv_contains a x || bv_contains b x.
Proof. exact contains_or. Qed.
Print Assumptions C34_bv_or.

(* iteration yields exactly the members, in strictly ascending order *)
Theorem C34_bv_iter_members : forall s y, In y (bv_iter s) <-> bv_contains s y = true.
Proof. exact iter_contains. Qed.
Print Assumptions C34_bv_iter_members.

Theorem C34_bv_iter_ascending : forall s, StronglySorted N.lt (bv_iter s).
Proof. exact iter_sorted. Qed.
Print Assumptions C34_bv_iter_ascending.

(* __len__ (popcount of every block) is the number of members, for every vector whose
   blocks are 32-bit (blocks_ok s := Forall (fun b => b < 2^32) s) ... *)
Theorem C34_bv_len : forall s, blocks_ok s -> bv_len s = N.of_nat (length (bv_iter s)).
Proof. exact len_iter. Qed.
Print Assumptions C34_bv_len.

(* ... and __bool__ is non-emptiness ... *)
Theorem C34_bv_bool : forall s, blocks_ok s -> (bv_bool s = true <-> exists x, bv_contains s x = true).
Proof. exact bool_contains. Qed.
Print Assumptions C34_bv_bool.

(* ... and every vector reachable from the empty ones by any history has 32-bit blocks, so: *)
Theorem C34_bv_blocks_ok : forall ops, Forall blocks_ok (bv_run bv_iand ops).
Proof. exact run_ok. Qed.
Print Assumptions C34_bv_blocks_ok.

Theorem C34_bv_run_len : forall ops r,
  bv_len (getr (bv_run bv_iand ops) r) = N.of_nat (length (bv_iter (getr (bv_run bv_iand ops) r))).
Proof. exact run_len. Qed.
Print Assumptions C34_bv_run_len.

Theorem C34_bv_run_bool : forall ops r,
  bv_bool (getr (bv_run bv_iand ops) r) = true <-> exists x, bv_contains (getr (bv_run bv_iand ops) r) x = true.
Proof. exact run_bool. Qed.
Print Assumptions C34_bv_run_bool.

(* non-vacuity: a concrete multi-block history *)
Example C34_bv_example :
  bv_iter (getr (bv_run bv_iand [OAdd 0 3; OAdd 0 70; OAdd 1 70; OAdd 1 5; OOr 2 0 1; OIand 2 1]) 2) = [5; 70]
  /\ bv_len (getr (bv_run bv_iand [OAdd 0 3; OAdd 0 70; OAdd 1 70; OAdd 1 5; OOr 2 0 1; OIand 2 1]) 2) = 2.
Proof. vm_compute. split; reflexivity. Qed.
End BV.

(* ====================================================================== *)
(* OrderedSet                                                              *)
(* ====================================================================== *)
Module OS.
Import OrderedSetModel OrderedSetProofs.

(* For EVERY history of add / discard / pop(last) / in / |= / | / & / - / -= / &= / == /
   OrderedSet(iterable) over any number of set objects (aliased operands included):
   - no loop of the pointer model runs out of fuel (the run is `Some`),
   - every return value equals the one of the list specification (srun),
   - walking the `next` ring gives the specification list (duplicate-free, first-insertion
     order), walking the `prev` ring gives its reverse, __len__ its length,
   - __contains__ is list membership,
   - the insertion order of the dict self.map is the same list. *)
Theorem C34_oset_refines : forall ops,
  exists rs, orun ops = Some (rs, snd (srun ops)) /\
             map oset_obs rs = map spec_obs (fst (srun ops)) /\
             (forall r k, oset_contains (ogetr rs r) k = mem k (sgetr (fst (srun ops)) r)) /\
             map oset_mapkeys rs = fst (srun ops).
Proof. exact oset_run_refines. Qed.
Print Assumptions C34_oset_refines.

(* the specification lists never contain a key twice *)
Theorem C34_oset_spec_nodup : forall ops, Forall (@NoDup key) (fst (srun ops)).
Proof. exact spec_run_nodup. Qed.
Print Assumptions C34_oset_spec_nodup.

(* the specification is a set ... *)
Theorem C34_oset_spec_add : forall l k x, In x (s_add l k) <-> x = k \/ In x l.
Proof. exact s_add_in. Qed.
Print Assumptions C34_oset_spec_add.
Theorem C34_oset_spec_discard : forall l k x, In x (s_discard l k) <-> x <> k /\ In x l.
Proof. exact s_discard_in. Qed.
Print Assumptions C34_oset_spec_discard.
Theorem C34_oset_spec_union : forall a b x, In x (s_union a b) <-> In x a \/ In x b.
Proof. exact s_union_in. Qed.
Print Assumptions C34_oset_spec_union.
Theorem C34_oset_spec_inter : forall a b x, In x (s_inter_other_order a b) <-> In x a /\ In x b.
Proof. exact s_inter_other_order_in. Qed.
Print Assumptions C34_oset_spec_inter.
Theorem C34_oset_spec_iand : forall a b x, In x (s_inter a b) <-> In x a /\ In x b.
Proof. exact s_inter_in. Qed.
Print Assumptions C34_oset_spec_iand.
Theorem C34_oset_spec_diff : forall a b x, In x (s_diff a b) <-> In x a /\ ~ In x b.
Proof. exact s_diff_in. Qed.
Print Assumptions C34_oset_spec_diff.

(* ... kept in first-insertion order: re-adding does not move, discard + add moves to the end *)
Theorem C34_oset_spec_readd : forall l k, In k l -> s_add l k = l.
Proof. exact s_add_existing. Qed.
Print Assumptions C34_oset_spec_readd.
Theorem C34_oset_spec_add_new : forall l k, ~ In k l -> s_add l k = l ++ [k].
Proof. exact s_add_new. Qed.
Print Assumptions C34_oset_spec_add_new.
Theorem C34_oset_spec_discard_add : forall l k, s_add (s_discard l k) k = s_discard l k ++ [k].
Proof. exact s_readd_moves_to_end. Qed.
Print Assumptions C34_oset_spec_discard_add.

(* single operations on any state satisfying the ring invariant *)
Theorem C34_oset_add : forall s k, inv s ->
  inv (oset_add s k) /\ oset_iter (oset_add s k) = Some (s_add (keys s) k).
Proof. exact add_iter_spec. Qed.
Print Assumptions C34_oset_add.
Theorem C34_oset_discard : forall s k, inv s ->
  inv (oset_discard s k) /\ oset_iter (oset_discard s k) = Some (s_discard (keys s) k).
Proof. exact discard_iter_spec. Qed.
Print Assumptions C34_oset_discard.

(* non-vacuity: add, re-add, discard+add, pop at both ends, `a & b` ordered like b, aliasing *)
Definition C34_oset_example_ops : list oop :=
  [OAdd 0 5%N; OAdd 0 3%N; OAdd 0 5%N; OAdd 0 9%N; ODiscard 0 5%N; OAdd 0 5%N;
   OFromList 1 [5%N; 7%N; 3%N; 5%N]; OAnd 2 0 1; OPop 0 false; OPop 1 true; OIor 0 0; OIsub 1 1; OPop 1 true].
Example C34_oset_example :
  option_map (fun p => (map oset_obs (fst p), snd p)) (orun C34_oset_example_ops)
  = Some (map spec_obs [[9%N; 5%N]; []; [5%N; 3%N]],
          [RNone; RNone; RNone; RNone; RNone; RNone; RNone; RNone; RKey 3%N; RKey 3%N; RNone; RNone; RKeyError])
  /\ srun C34_oset_example_ops
     = ([[9%N; 5%N]; []; [5%N; 3%N]],
        [RNone; RNone; RNone; RNone; RNone; RNone; RNone; RNone; RKey 3%N; RKey 3%N; RNone; RNone; RKeyError]).
Proof. vm_compute. split; reflexivity. Qed.
End OS.

(* ====================================================================== *)
(* UHeap                                                                   *)
(* ====================================================================== *)
Module UH.
Import UHeapModel UHeapProofs.

(* wf h      : _index is exactly the inverse of the item column of _heap
               (forall x q, ix h x = Some q <-> q < len /\ item at q = x)
   ordered h : every non-root entry has a key >= the key of its parent ((j-1)/2). *)

(* For EVERY history of push (with any key per call) / pop / pop_with_key / peek / len from the
   empty heap: swim/sink never run out of fuel and never index out of range (`Some`), the final
   state is index-consistent and heap-ordered, and the produced answers are accepted step by
   step by the finite-map specification sp_step: push answers `item was absent` and (re)binds the
   key; pop / pop_with_key / peek answer an item whose bound key is minimal among all bound keys
   (pop removes exactly that binding); len is the number of bindings; pop/peek on empty assert. *)
Theorem C34_heap_inv : forall ops,
  exists h outs, urun ops = Some (h, outs) /\ wf h /\ ordered h /\ sp_accepts [] ops outs = true.
Proof. exact run_ok. Qed.
Print Assumptions C34_heap_inv.

(* pop returns an entry of minimal key and removes exactly it *)
Theorem C34_heap_pop_min : forall h, wf h -> ordered h -> hlen h > 0 ->
  exists h' k x, uheap_pop_with_key h = Some (h', (k, x)) /\
    In (k, x) (hp h) /\ (forall k' x', In (k', x') (hp h) -> (k <= k')%N) /\
    wf h' /\ ordered h' /\ S (hlen h') = hlen h /\
    (forall e, In e (hp h') <-> In e (hp h) /\ snd e <> x).
Proof. exact pop_ok. Qed.
Print Assumptions C34_heap_pop_min.

(* popping until empty yields all keys in non-decreasing order *)
Theorem C34_heap_sorted_drain : forall n h, wf h -> ordered h -> hlen h = n ->
  exists ks, drain n h = Some ks /\ length ks = n /\ StronglySorted N.le ks /\
             forall k, In k ks -> exists x, In (k, x) (hp h).
Proof. exact drain_ok. Qed.
Print Assumptions C34_heap_sorted_drain.

(* push of an item that is present only changes its key (and answers False) *)
Theorem C34_heap_update : forall h it key index, wf h -> ordered h -> ix h it = Some index ->
  exists h', uheap_push h it key = Some (h', false) /\ wf h' /\ ordered h' /\
             hlen h' = hlen h /\
             (forall e, In e (hp h') <-> e = (key, it) \/ (In e (hp h) /\ snd e <> it)).
Proof. exact push_upd_ok. Qed.
Print Assumptions C34_heap_update.

(* push of an absent item inserts it (and answers True) *)
Theorem C34_heap_insert : forall h it key, wf h -> ordered h -> ix h it = None ->
  exists h', uheap_push h it key = Some (h', true) /\ wf h' /\ ordered h' /\
             hlen h' = S (hlen h) /\
             (forall e, In e (hp h') <-> e = (key, it) \/ (In e (hp h) /\ snd e <> it)).
Proof. exact push_new_ok. Qed.
Print Assumptions C34_heap_insert.

(* under wf an item has at most one entry, and ix is None exactly for absent items *)
Theorem C34_heap_entry_unique : forall h k k' x, wf h -> In (k, x) (hp h) -> In (k', x) (hp h) -> k = k'.
Proof. exact entry_unique. Qed.
Print Assumptions C34_heap_entry_unique.
Theorem C34_heap_index_none : forall h x, wf h -> (ix h x = None <-> forall k, ~ In (k, x) (hp h)).
Proof. exact ix_none. Qed.
Print Assumptions C34_heap_index_none.

(* non-vacuity: inserts, a key decrease (swim), a key increase (sink), pops *)
Example C34_heap_example :
  option_map snd (urun [UPush 1 50; UPush 2 30; UPush 3 40; UPush 4 10; UPush 1 5; UPush 4 60; ULenOp;
                        UPopKey; UPopKey; UPeek; UPop; UPop; UPop]%N)
  = Some [UBool true; UBool true; UBool true; UBool true; UBool false; UBool false; ULen 4;
          UPair 5 1; UPair 30 2; UItem 3; UItem 3; UItem 4; UAssert]%N.
Proof. vm_compute. reflexivity. Qed.
End UH.
