(* C34 — Utility containers behave as their abstract models.
   This file contains only property statements, closed by `exact`. *)
From Coq Require Import NArith List Bool Sorted.
From PL.C34 Require Import BitVectorModel BitVectorProofs.
Import ListNotations.
Open Scope N_scope.

(* BitVector: every register of every state reachable by any history of
   add / & / | / &= / |= denotes exactly the set the reference interpreter
   computes (membership for every index, no bound on indices or history). *)
Theorem C34_bv_refines : forall ops, refines (bv_run bv_iand ops) (a_run ops).
Proof. exact run_refines. Qed.
Print Assumptions C34_bv_refines.

Theorem C34_bv_add : forall s x y, bv_contains (bv_add s x) y = (x =? y) || bv_contains s y.
Proof. exact contains_add. Qed.
Print Assumptions C34_bv_add.

Theorem C34_bv_and : forall a b x, bv_contains (bv_and a b) x = bv_contains a x && bv_contains b x.
Proof. exact contains_and. Qed.
Print Assumptions C34_bv_and.

Theorem C34_bv_or : forall a b x, bv_contains (bv_or a b) x = bv_contains a x || bv_contains b x.
Proof. exact contains_or. Qed.
Print Assumptions C34_bv_or.

(* iteration yields exactly the members, in strictly ascending order *)
Theorem C34_bv_iter_members : forall s y, In y (bv_iter s) <-> bv_contains s y = true.
Proof. exact iter_contains. Qed.
Print Assumptions C34_bv_iter_members.

Theorem C34_bv_iter_ascending : forall s, StronglySorted N.lt (bv_iter s).
Proof. exact iter_sorted. Qed.
Print Assumptions C34_bv_iter_ascending.

(* non-vacuity: a concrete multi-block history *)
Example C34_bv_example :
  bv_iter (getr (bv_run bv_iand [OAdd 0 3; OAdd 0 70; OAdd 1 70; OAdd 1 5; OOr 2 0 1; OIand 2 1]) 2) = [5; 70].
Proof. vm_compute. reflexivity. Qed.
