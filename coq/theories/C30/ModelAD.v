(* C30 — run-time library for the translation of problog/constraint.py (no proofs):
   Python dicts keyed by node ids, the semiring interface as a record, and its two
   instances built from the GENERATED semiring methods of C12/GenSemirings.v. *)
From Coq Require Import ZArith QArith String List Bool.
From PL.C12 Require Import ModelPy GenSemirings.
Import ListNotations.
Open Scope Z_scope.

(* dict[int -> V] as an association list (first binding wins; keys unique by construction) *)
Definition dict (C : Type) := list (Z * (C * C)).

Fixpoint dict_get {C} (d : dict C) (k : Z) (default : C * C) : C * C :=
  match d with
  | [] => default
  | (k', v) :: t => if Z.eqb k k' then v else dict_get t k default
  end.

Fixpoint dict_set {C} (d : dict C) (k : Z) (v : C * C) : dict C :=
  match d with
  | [] => [(k, v)]
  | (k', v') :: t => if Z.eqb k k' then (k', v) :: t else (k', v') :: dict_set t k v
  end.

Definition dict_mem {C} (d : dict C) (k : Z) : bool := existsb (fun kv => Z.eqb k (fst kv)) d.

(* weight of an atom in LogicFormula._weights: WEIGHT_NEUTRAL (True), False, None, or a value *)
Inductive wt (C : Type) : Type := WNeutral | WFalse | WNone | WVal (v : C).
Arguments WNeutral {C}. Arguments WFalse {C}. Arguments WNone {C}. Arguments WVal {C} v.

(* the part of the Semiring interface that constraint.py / formula.py call *)
Record SemiringOps (C : Type) : Type := {
  s_one : res C;
  s_zero : res C;
  s_pos_value : C -> res C;      (* external value (an evaluated float) -> internal *)
  s_neg_value : C -> res C;
  s_in_domain : C -> res bool;
  s_ad_negate : C -> C -> res C;
  s_ad_complement : list C -> res C;
  s_true : res (C * C);
  s_false : res (C * C);
}.
Arguments s_one {C}. Arguments s_zero {C}. Arguments s_pos_value {C}. Arguments s_neg_value {C}.
Arguments s_in_domain {C}. Arguments s_ad_negate {C}. Arguments s_ad_complement {C}.
Arguments s_true {C}. Arguments s_false {C}.

Definition prob_sr (N : NumOps) : SemiringOps (fl N) := {|
  s_one := prob_one N; s_zero := prob_zero N;
  s_pos_value := prob_pos_value N; s_neg_value := prob_neg_value N;
  s_in_domain := prob_in_domain N; s_ad_negate := prob_ad_negate N;
  s_ad_complement := prob_ad_complement N; s_true := prob_true N; s_false := prob_false N |}.

Definition log_sr (N : NumOps) : SemiringOps (fl N) := {|
  s_one := log_one N; s_zero := log_zero N;
  s_pos_value := log_pos_value N; s_neg_value := log_neg_value N;
  s_in_domain := log_in_domain N; s_ad_negate := log_ad_negate N;
  s_ad_complement := log_ad_complement N; s_true := log_true N; s_false := log_false N |}.

(* ---- executable comparison helpers for the correspondence (QE instance) *)
Definition pair_close (tol : Q) (a b : qfl * qfl) : bool :=
  fl_close tol (fst a) (fst b) && fl_close tol (snd a) (snd b).

Definition dict_close (tol : Q) (d : dict qfl) (expected : list (Z * (qfl * qfl))) : bool :=
  Nat.eqb (length d) (length expected) &&
  forallb (fun kv => dict_mem d (fst kv) && pair_close tol (dict_get d (fst kv) (FNaN, FNaN)) (snd kv)) expected.

(* expected = None: must raise InvalidValue; Some l: must return exactly the bindings l (within tol) *)
Definition res_dict_close (tol : Q) (r : res (dict qfl)) (expected : option (list (Z * (qfl * qfl)))) : bool :=
  match r, expected with
  | Raise e, None => exn_eqb e InvalidValue
  | Ok d, Some l => dict_close tol d l
  | _, _ => false
  end.

Definition res_status {A} (r : res A) : Z := match r with Ok _ => 0 | Raise e => exn_code e end.
