(* C30 — whole-extraction theorem for the log semiring (generated extract_weights, weights=None).
   Part 1 (any semiring whose one()/ad_negate are constant): what a run of update_weights over all
   constraints leaves in the dictionary.  Part 2: the atom loop and the constraint loop at log_sr Rops. *)
From Coq Require Import Reals Lra ZArith Lia Bool String List.
From PL.C12 Require Import ModelPy ModelR GenSemirings ProofsBase ProofsProb ProofsLog.
From PL.C30 Require Import ModelAD GenConstraint ProofsAD.
Import ListNotations.
Local Open Scope R_scope.

(* ---------------------------------------------------------------- spec-level vocabulary *)
Definition nontriv (c : list Z * Z) : bool := (2 <=? length (fst c))%nat.
(* k is a node of the NON-TRIVIAL group c *)
Definition in_group (k : Z) (c : list Z * Z) : bool := nontriv c && existsb (Z.eqb k) (fst c).

(* the weight pair an atom gets before the constraints are applied *)
Definition atom_val {C} (SR : SemiringOps C) (w : wt C) : res (C * C) :=
  match w with
  | WNeutral => t1 <- s_one SR ;; t2 <- s_one SR ;; ret (t1, t2)
  | WFalse => s_false SR
  | WNone => s_true SR
  | WVal v => p <- s_pos_value SR v ;; n <- s_neg_value SR v ;; ret (p, n)
  end.

(* the sum check of a group: ad_complement, then in_domain *)
Definition gcheck {C} (SR : SemiringOps C) (ws : list C) : res C :=
  try_reraise (c <- s_ad_complement SR ws ;; t <- s_in_domain SR c ;;
               if negb t then Raise InvalidValue else ret c) InvalidValue InvalidValue.

Definition updf {C} (SR : SemiringOps C) :=
  (fun (result : dict C) '(c_nodes, c_extra) => ad_update_weights SR c_nodes c_extra result).

(* ---------------------------------------------------------------- Part 1 *)
Section Upd.
Context {C : Type}.
Variable SR : SemiringOps C.
Variable o : C.
Hypothesis Hone : s_one SR = Ok o.
Hypothesis Hneg : forall p n, s_ad_negate SR p n = Ok o.

Lemma steps_get nodes : forall w k,
  dict_get (fold_left (step_w o) nodes w) k (o, o) =
  if existsb (Z.eqb k) nodes then (posw o w k, o) else dict_get w k (o, o).
Proof.
  induction nodes as [|n t IH]; intros w k; cbn [fold_left existsb]; [reflexivity|].
  rewrite IH. rewrite posw_step. destruct (existsb (Z.eqb k) t) eqn:E.
  - rewrite orb_true_r. reflexivity.
  - rewrite orb_false_r. unfold step_w. rewrite dict_get_set. destruct (Z.eqb k n) eqn:E'; [|reflexivity].
    apply Z.eqb_eq in E'. subst. reflexivity.
Qed.

Lemma update_cases nodes extra w w' : ad_update_weights SR nodes extra w = Ok w' ->
  ((length nodes <= 1)%nat /\ w' = w) \/
  ((2 <= length nodes)%nat /\ exists c, gcheck SR (map (posw o w) nodes) = Ok c /\
                                        w' = dict_set (fold_left (step_w o) nodes w) extra (c, o)).
Proof.
  intro H. destruct (le_lt_dec (length nodes) 1) as [L|L].
  - left. rewrite update_trivial in H by exact L. inversion H. auto.
  - right. split; [lia|]. rewrite (update_nontrivial SR o Hone Hneg) in H by lia.
    change (c <- gcheck SR (map (posw o w) nodes) ;; ret (dict_set (fold_left (step_w o) nodes w) extra (c, o)) = Ok w') in H.
    destruct (gcheck SR (map (posw o w) nodes)) as [c|e]; cbn [bind ret] in H; [|discriminate].
    exists c. inversion H. auto.
Qed.

Lemma update_get k nodes extra w w' : ad_update_weights SR nodes extra w = Ok w' -> k <> extra ->
  dict_get w' k (o, o) =
  if (2 <=? length nodes)%nat && existsb (Z.eqb k) nodes then (posw o w k, o) else dict_get w k (o, o).
Proof.
  intros H Hk. destruct (update_cases nodes extra w w' H) as [[L ->]|[L (c & _ & ->)]].
  - replace (2 <=? length nodes)%nat with false by (symmetry; apply Nat.leb_gt; lia). reflexivity.
  - replace (2 <=? length nodes)%nat with true by (symmetry; apply Nat.leb_le; lia). cbn [andb].
    rewrite dict_get_set. replace (Z.eqb k extra) with false by (symmetry; apply Z.eqb_neq; exact Hk).
    apply steps_get.
Qed.

Lemma update_posw k nodes extra w w' : ad_update_weights SR nodes extra w = Ok w' -> k <> extra ->
  posw o w' k = posw o w k.
Proof.
  intros H Hk. unfold posw at 1. rewrite (update_get k nodes extra w w' H Hk).
  destruct (_ && _); reflexivity.
Qed.

Lemma update_get_extra nodes extra w w' : (2 <= length nodes)%nat -> ad_update_weights SR nodes extra w = Ok w' ->
  exists c, gcheck SR (map (posw o w) nodes) = Ok c /\ dict_get w' extra (o, o) = (c, o).
Proof.
  intros L H. destruct (update_cases nodes extra w w' H) as [[L' _]|[_ (c & E & ->)]]; [lia|].
  exists c. split; [exact E|]. rewrite dict_get_set, Z.eqb_refl. reflexivity.
Qed.

(* the constraint loop: an entry that is nobody's extra node *)
Lemma fold_get : forall cs w w' k, fold_res (updf SR) cs w = Ok w' -> (forall c, In c cs -> k <> snd c) ->
  dict_get w' k (o, o) = if existsb (in_group k) cs then (posw o w k, o) else dict_get w k (o, o).
Proof.
  induction cs as [|[nodes extra] t IH]; intros w w' k H Hk; cbn [fold_res] in H.
  - inversion H. reflexivity.
  - change (updf SR w (nodes, extra)) with (ad_update_weights SR nodes extra w) in H.
    destruct (ad_update_weights SR nodes extra w) as [w1|e] eqn:E; cbn [bind] in H; [|discriminate].
    rewrite (IH w1 w' k H) by (intros; apply Hk; right; auto).
    assert (k <> extra) as Hne by (apply (Hk (nodes, extra)); left; reflexivity).
    rewrite (update_posw k nodes extra w w1 E Hne), (update_get k nodes extra w w1 E Hne).
    cbn [existsb]. unfold in_group at 2. unfold nontriv. cbn [fst].
    destruct ((2 <=? length nodes)%nat && existsb (Z.eqb k) nodes); destruct (existsb (in_group k) t); reflexivity.
Qed.

Lemma fold_posw cs w w' k : fold_res (updf SR) cs w = Ok w' -> (forall c, In c cs -> k <> snd c) ->
  posw o w' k = posw o w k.
Proof.
  intros H Hk. unfold posw at 1. rewrite (fold_get cs w w' k H Hk). destruct (existsb _ _); reflexivity.
Qed.

Lemma not_in_group k cs : (forall c, In c cs -> ~ In k (fst c)) -> existsb (in_group k) cs = false.
Proof.
  intro H. destruct (existsb (in_group k) cs) eqn:E; [exfalso|reflexivity].
  apply existsb_exists in E. destruct E as [c [Hc Hg]]. unfold in_group in Hg.
  apply andb_true_iff in Hg. destruct Hg as [_ Hg]. apply existsb_exists in Hg. destruct Hg as [n [Hn En]].
  apply Z.eqb_eq in En. subst n. exact (H c Hc Hn).
Qed.

(* the constraint loop: the extra node of a non-trivial group *)
Lemma fold_get_extra : forall cs w w', fold_res (updf SR) cs w = Ok w' ->
  NoDup (map snd cs) -> (forall c c', In c cs -> In c' cs -> ~ In (snd c) (fst c')) ->
  forall c, In c cs -> nontriv c = true ->
  exists cv, gcheck SR (map (posw o w) (fst c)) = Ok cv /\ dict_get w' (snd c) (o, o) = (cv, o).
Proof.
  induction cs as [|[nodes extra] t IH]; intros w w' H Hnd Hex c Hc Hnt; [destruct Hc|].
  cbn [fold_res] in H.
  change (updf SR w (nodes, extra)) with (ad_update_weights SR nodes extra w) in H.
  destruct (ad_update_weights SR nodes extra w) as [w1|e] eqn:E; cbn [bind] in H; [|discriminate].
  cbn [map snd] in Hnd. inversion Hnd as [|? ? Hnotin Hnd']; subst.
  destruct Hc as [Hc|Hc].
  - subst c. cbn [fst snd]. unfold nontriv in Hnt. cbn [fst] in Hnt. apply Nat.leb_le in Hnt.
    destruct (update_get_extra nodes extra w w1 Hnt E) as (cv & Ec & Eg).
    exists cv. split; [exact Ec|]. rewrite <- Eg.
    rewrite (fold_get t w1 w' extra H).
    + rewrite not_in_group; [reflexivity|]. intros c' Hc'. apply (Hex (nodes, extra) c'); [left; reflexivity|right; exact Hc'].
    + intros c' Hc' Heq. apply Hnotin. rewrite Heq. apply in_map. exact Hc'.
  - destruct (IH w1 w' H Hnd') with (c := c) as (cv & Ec & Eg); auto.
    { intros a b Ha Hb. apply Hex; right; assumption. }
    exists cv. split; [|exact Eg]. rewrite <- Ec. f_equal. apply map_ext_in. intros n Hn.
    symmetry. apply (update_posw n nodes extra w w1 E). intro Heq. subst n.
    apply (Hex (nodes, extra) c); [left; reflexivity|right; exact Hc|exact Hn].
Qed.

End Upd.

Lemma atom_step_val {C} (SR : SemiringOps C) r k w : atom_step SR r (k, w) =
  if negb (dict_mem r (Z.abs k)) then (v <- atom_val SR w ;; ret (dict_set r k v)) else ret r.
Proof.
  rewrite atom_step_eq. destruct (negb _); [|reflexivity]. destruct w; cbn [atom_val].
  - destruct (s_one SR); reflexivity.
  - reflexivity.
  - reflexivity.
  - destruct (s_pos_value SR v); cbn [bind]; [|reflexivity]. destruct (s_neg_value SR v); reflexivity.
Qed.

(* ---------------------------------------------------------------- Part 2: the log semiring *)
Definition fact_ok (x : rfl) : Prop := exists v, x = RF v /\ - (1/10^9) <= v <= exp (1/10^12).
Definition wt_ok (w : wt rfl) : Prop := match w with WVal x => fact_ok x | _ => True end.

(* the probability an atom's positive weight stands for *)
Definition wprob (w : wt rfl) : R :=
  match w with
  | WNeutral => 1 | WFalse => 0 | WNone => 1
  | WVal (FFin v) => if Rlt_dec v (1/10^9) then 0 else v
  | WVal _ => 0
  end.
(* ... of a node: a node without weight entry counts as one() *)
Fixpoint nprob (atoms : list (Z * wt rfl)) (n : Z) : R :=
  match atoms with
  | [] => 1
  | (k, w) :: t => if Z.eqb n k then wprob w else nprob t n
  end.

Lemma wprob_nonneg w : 0 <= wprob w.
Proof.
  destruct w as [| | |[| |v|]]; cbn [wprob]; try lra. destruct (Rlt_dec v (1/10^9)) as [H|H]; [lra|].
  cbn in v. assert (0 < 1/10^9) by lra. lra.
Qed.

Lemma nprob_nonneg atoms n : 0 <= nprob atoms n.
Proof.
  induction atoms as [|[k w] t IH]; cbn; [lra|]. destruct (Z.eqb n k); [apply wprob_nonneg|exact IH].
Qed.

Lemma nprob_spec atoms n :
  (In n (map fst atoms) -> exists w, In (n, w) atoms /\ nprob atoms n = wprob w) /\
  (~ In n (map fst atoms) -> nprob atoms n = 1).
Proof.
  induction atoms as [|[k w] t [IH1 IH2]]; cbn [map fst In nprob].
  - split; [intros []|reflexivity].
  - destruct (Z.eqb n k) eqn:E.
    + apply Z.eqb_eq in E. subst k. split; [|intro H; exfalso; apply H; left; reflexivity].
      intros _. exists w. split; [left; reflexivity|reflexivity].
    + apply Z.eqb_neq in E. split.
      * intros [H|H]; [exfalso; apply E; symmetry; exact H|]. destruct (IH1 H) as (w' & Hin & Ew).
        exists w'. split; [right; exact Hin|exact Ew].
      * intro H. apply IH2. intro K. apply H. right. exact K.
Qed.

Lemma wt_ok_dec w : wt_ok w \/ ~ wt_ok w.
Proof.
  destruct w as [| | |x]; try (left; exact I). cbn [wt_ok]. destruct x as [| |r|].
  - right. intros (v & E & _). discriminate.
  - right. intros (v & E & _). discriminate.
  - destruct (Rle_dec (- (1/10^9)) r) as [H1|H1]; [destruct (Rle_dec r (exp (1/10^12))) as [H2|H2]|].
    + left. exists r. split; [reflexivity|lra].
    + right. intros (v & E & H). injection E as E. subst v. lra.
    + right. intros (v & E & H). injection E as E. subst v. lra.
  - right. intros (v & E & _). discriminate.
Qed.

Lemma llog_1 : llog 1 = RF 0.
Proof. unfold llog. destruct (Rlt_dec 0 1); [rewrite ln_1; reflexivity|lra]. Qed.
Lemma llog_0 : llog 0 = FNInf.
Proof. unfold llog. destruct (Rlt_dec 0 0); [lra|reflexivity]. Qed.

Lemma log_atom_val_ok w : wt_ok w ->
  exists v, atom_val (log_sr Rops) w = Ok v /\ fst v = llog (wprob w).
Proof.
  destruct w as [| | |x]; cbn [atom_val s_one s_false s_true s_pos_value s_neg_value log_sr wt_ok wprob]; intro H.
  - rewrite log_one_R. cbn [bind ret]. eexists; split; [reflexivity|]. cbn [fst]. symmetry. apply llog_1.
  - cbv [log_false]. rewrite log_zero_R, log_one_R. cbn [bind ret]. eexists; split; [reflexivity|]. cbn [fst]. symmetry. apply llog_0.
  - cbv [log_true]. rewrite log_zero_R, log_one_R. cbn [bind ret]. eexists; split; [reflexivity|]. cbn [fst]. symmetry. apply llog_1.
  - destruct H as (r & -> & Hr). destruct (log_fact_ok r Hr) as (p & n & E1 & E2). rewrite E1, E2. cbn [bind ret].
    eexists; split; [reflexivity|]. cbn [fst]. pose proof exp_bracket as [B1 B2].
    cbv [log_pos_value] in E1. unfold RF at 1. cbn [wprob]. destruct (Rlt_dec r (1/10^9)) as [L|L].
    + rewrite log_value_zero in E1 by lra. inversion E1. symmetry. apply llog_0.
    + rewrite log_value_ln in E1 by lra. inversion E1. unfold llog. destruct (Rlt_dec 0 r); [reflexivity|lra].
Qed.

Lemma log_atom_val_bad w : ~ wt_ok w -> atom_val (log_sr Rops) w = Raise InvalidValue.
Proof.
  destruct w as [| | |x]; cbn [wt_ok]; intro H; try (exfalso; apply H; exact I).
  cbn [atom_val s_pos_value s_neg_value log_sr].
  assert (log_neg_value Rops x = Raise InvalidValue) as En.
  { destruct x as [| |r|].
    - cbv [log_neg_value]. rewrite (proj1 log_value_nonfinite). reflexivity.
    - cbv [log_neg_value]. rewrite (proj1 (proj2 log_value_nonfinite)). reflexivity.
    - apply (log_fact_raises r).
      destruct (Rle_dec (- (1/10^9)) r) as [H1|H1]; [destruct (Rle_dec r (exp (1/10^12))) as [H2|H2]|]; try lra.
      exfalso. apply H. exists r. split; [reflexivity|lra].
    - cbv [log_neg_value]. rewrite (proj2 (proj2 log_value_nonfinite)). reflexivity. }
  cbv [log_pos_value log_neg_value] in *. destruct (log_value Rops x) as [p|e]; cbn [bind] in *.
  - rewrite En. reflexivity.
  - injection En as En. subst e. reflexivity.
Qed.

Definition D0 : rfl * rfl := (RF 0, RF 0).

Lemma log_atoms_fold : forall atoms r0,
  (forall k w, In (k, w) atoms -> 0 < k)%Z -> NoDup (map fst atoms) ->
  (forall k w, In (k, w) atoms -> dict_mem r0 k = false) ->
  (Forall (fun kw => wt_ok (snd kw)) atoms ->
     exists r, fold_res (atom_step (log_sr Rops)) atoms r0 = Ok r /\
       (forall k w, In (k, w) atoms -> atom_val (log_sr Rops) w = Ok (dict_get r k D0)) /\
       (forall k, ~ In k (map fst atoms) -> dict_get r k D0 = dict_get r0 k D0)) /\
  (Exists (fun kw => ~ wt_ok (snd kw)) atoms ->
     fold_res (atom_step (log_sr Rops)) atoms r0 = Raise InvalidValue).
Proof.
  induction atoms as [|[k0 w0] t IH]; intros r0 Hpos Hnd Hfresh.
  - split.
    + intros _. exists r0. split; [reflexivity|]. split; [intros k w []|reflexivity].
    + intro H. inversion H.
  - cbn [fold_res]. inversion Hnd as [|? ? Hnotin Hnd']; subst.
    assert (Hk0 : (0 < k0)%Z) by (eapply Hpos; left; reflexivity).
    assert (Hm : dict_mem r0 (Z.abs k0) = false) by (rewrite Z.abs_eq by lia; eapply Hfresh; left; reflexivity).
    rewrite (atom_step_val (log_sr Rops)), Hm. cbn [negb].
    assert (Hpos' : (forall k w, In (k, w) t -> 0 < k)%Z) by (intros; eapply Hpos; right; eauto).
    assert (Hfresh' : forall v1 k w, In (k, w) t -> dict_mem (dict_set r0 k0 v1) k = false).
    { intros v1 k' w' Hin'. rewrite dict_mem_set. rewrite (Hfresh k' w') by (right; auto). rewrite orb_false_r.
      apply Z.eqb_neq. intro; subst. apply Hnotin. change k0 with (fst (k0, w')). apply in_map; auto. }
    split.
    + intro HF. inversion HF as [|? ? Hok0 HFt]; subst. cbn [snd] in Hok0.
      destruct (log_atom_val_ok w0 Hok0) as (v0 & E0 & _). rewrite E0. cbn [bind ret].
      destruct (IH (dict_set r0 k0 v0) Hpos' Hnd' (Hfresh' v0)) as [IHok _].
      destruct (IHok HFt) as (r & Er & Hin & Hout). exists r. split; [exact Er|]. split.
      * intros k w [Heq|Hkw].
        -- inversion Heq; subst. rewrite (Hout k Hnotin). rewrite dict_get_set, Z.eqb_refl. exact E0.
        -- apply Hin. exact Hkw.
      * intros k Hk. cbn [map fst] in Hk. rewrite (Hout k) by (intro K; apply Hk; right; exact K).
        rewrite dict_get_set. replace (Z.eqb k k0) with false; [reflexivity|].
        symmetry. apply Z.eqb_neq. intro; subst. apply Hk. left. reflexivity.
    + intro HE. destruct (wt_ok_dec w0) as [Hok0|Hbad0].
      * destruct (log_atom_val_ok w0 Hok0) as (v0 & E0 & _). rewrite E0. cbn [bind ret].
        destruct (IH (dict_set r0 k0 v0) Hpos' Hnd' (Hfresh' v0)) as [_ IHbad]. apply IHbad.
        inversion HE as [? ? Hb|? ? Hb]; subst; [exfalso; apply Hb; exact Hok0|exact Hb].
      * rewrite (log_atom_val_bad w0 Hbad0). reflexivity.
Qed.

Lemma Forall_or_Exists_ok atoms :
  Forall (fun kw : Z * wt rfl => wt_ok (snd kw)) atoms \/ Exists (fun kw : Z * wt rfl => ~ wt_ok (snd kw)) atoms.
Proof.
  induction atoms as [|[k w] t [IH|IH]].
  - left. constructor.
  - destruct (wt_ok_dec w) as [H|H]; [left; constructor; assumption|right; apply Exists_cons_hd; exact H].
  - right. apply Exists_cons_tl. exact IH.
Qed.

(* the constraint loop at the log semiring: P n = the probability the positive weight of node n stands for *)
Lemma log_fold_cs (P : Z -> R) : (forall n, 0 <= P n) -> forall cs w,
  (forall c c', In c cs -> In c' cs -> ~ In (snd c) (fst c')) ->
  (forall c n, In c cs -> In n (fst c) -> posw (RF 0) w n = llog (P n)) ->
  (fold_res (updf (log_sr Rops)) cs w = Raise InvalidValue <->
     exists c, In c cs /\ (2 <= length (fst c))%nat /\ Rsum (map P (fst c)) > exp (1/10^12)) /\
  ((forall c, In c cs -> (2 <= length (fst c))%nat -> Rsum (map P (fst c)) <= exp (1/10^12)) ->
     exists w', fold_res (updf (log_sr Rops)) cs w = Ok w').
Proof.
  intros HP. induction cs as [|[nodes extra] t IH]; intros w Hex Hinv.
  - cbn [fold_res]. split; [split; [discriminate|intros (c & [] & _)]|intros _; eexists; reflexivity].
  - cbn [fold_res].
    change (updf (log_sr Rops) w (nodes, extra)) with (ad_update_weights (log_sr Rops) nodes extra w).
    assert (Hex' : forall c c', In c t -> In c' t -> ~ In (snd c) (fst c')) by (intros; apply Hex; right; assumption).
    destruct (le_lt_dec (length nodes) 1) as [L|L].
    + rewrite update_trivial by exact L. cbn [bind].
      destruct (IH w Hex') as [IH1 IH2]; [intros; eapply Hinv; [right; eassumption|assumption]|].
      split.
      * rewrite IH1. split.
        -- intros (c & Hc & Hr). exists c. split; [right; exact Hc|exact Hr].
        -- intros (c & [Hc|Hc] & Hl & Hr); [subst c; cbn [fst] in Hl; lia|]. exists c. auto.
      * intro Hall. apply IH2. intros c Hc. apply Hall. right. exact Hc.
    + assert (Hlen : (2 <= length nodes)%nat) by lia.
      assert (HF : Forall (fun p => 0 <= p) (map P nodes)).
      { apply Forall_forall. intros p Hp. apply in_map_iff in Hp. destruct Hp as (n & <- & _). apply HP. }
      assert (Hmap : map (posw (RF 0) w) nodes = map llog (map P nodes)).
      { rewrite map_map. apply map_ext_in. intros n Hn. apply (Hinv (nodes, extra)); [left; reflexivity|exact Hn]. }
      destruct (log_update_sum nodes extra w (map P nodes) Hlen HF Hmap) as [Hiff Hok].
      destruct (Rle_dec (Rsum (map P nodes)) (exp (1/10^12))) as [Hle|Hgt].
      * destruct (Hok Hle) as (w1 & E1). rewrite E1. cbn [bind].
        destruct (IH w1 Hex') as [IH1 IH2].
        { intros c n Hc Hn. rewrite (update_posw (log_sr Rops) (RF 0) log_sr_one log_sr_neg n nodes extra w w1 E1).
          - eapply Hinv; [right; eassumption|assumption].
          - intro Heq. subst n. apply (Hex (nodes, extra) c); [left; reflexivity|right; exact Hc|exact Hn]. }
        split.
        -- rewrite IH1. split.
           ++ intros (c & Hc & Hr). exists c. split; [right; exact Hc|exact Hr].
           ++ intros (c & [Hc|Hc] & Hl & Hr); [subst c; cbn [fst] in Hr; lra|]. exists c. auto.
        -- intro Hall. apply IH2. intros c Hc. apply Hall. right. exact Hc.
      * assert (E1 : ad_update_weights (log_sr Rops) nodes extra w = Raise InvalidValue) by (apply Hiff; lra).
        rewrite E1. cbn [bind]. split.
        -- split; [|reflexivity]. intros _. exists (nodes, extra). split; [left; reflexivity|]. cbn [fst]. split; [exact Hlen|lra].
        -- intro Hall. exfalso. specialize (Hall (nodes, extra) (or_introl eq_refl) Hlen). cbn [fst] in Hall. lra.
Qed.

Definition bad_fact (atoms : list (Z * wt rfl)) : Prop :=
  exists k x, In (k, WVal x) atoms /\ ~ fact_ok x.
Definition bad_group (atoms : list (Z * wt rfl)) (cs : list (list Z * Z)) : Prop :=
  exists c, In c cs /\ (2 <= length (fst c))%nat /\ Rsum (map (nprob atoms) (fst c)) > exp (1/10^12).

Theorem log_extract_whole atoms cs :
  (forall k w, In (k, w) atoms -> 0 < k)%Z -> NoDup (map fst atoms) ->
  (forall c c', In c cs -> In c' cs -> ~ In (snd c) (fst c')) ->
  (extract_weights (log_sr Rops) atoms cs = Raise InvalidValue <-> bad_fact atoms \/ bad_group atoms cs) /\
  (~ (bad_fact atoms \/ bad_group atoms cs) ->
   exists r, extract_weights (log_sr Rops) atoms cs = Ok r /\
     (* atoms that are nobody's extra node: (value, negate value), the negative weight reset to one() inside a group *)
     (forall k w, In (k, w) atoms -> (forall c, In c cs -> k <> snd c) ->
        exists p n, atom_val (log_sr Rops) w = Ok (p, n) /\ p = llog (wprob w) /\
                    dict_get r k D0 = (p, if existsb (in_group k) cs then RF 0 else n)) /\
     (* the extra node of every non-trivial group: the complement of the heads' positive weights *)
     (NoDup (map snd cs) -> forall c, In c cs -> nontriv c = true ->
        exists cv, gcheck (log_sr Rops) (map (fun n => llog (nprob atoms n)) (fst c)) = Ok cv /\
                   dict_get r (snd c) D0 = (cv, RF 0))).
Proof.
  intros Hpos Hnd Hex. rewrite extract_weights_unfold.
  change (fold_res (fun result '(c_nodes, c_extra) => ad_update_weights (log_sr Rops) c_nodes c_extra result) cs)
    with (fold_res (updf (log_sr Rops)) cs).
  destruct (log_atoms_fold atoms [] Hpos Hnd (fun _ _ _ => eq_refl)) as [Hok Hbad].
  destruct (Forall_or_Exists_ok atoms) as [HF|HE].
  - destruct (Hok HF) as (r0 & E0 & Hin & Hout). rewrite E0. cbn [bind].
    assert (Hnb : ~ bad_fact atoms).
    { intros (k & x & Hkx & Hb). rewrite Forall_forall in HF. apply Hb. exact (HF (k, WVal x) Hkx). }
    assert (Hposw : forall n, posw (RF 0) r0 n = llog (nprob atoms n)).
    { intro n. destruct (nprob_spec atoms n) as [S1 S2]. destruct (in_dec Z.eq_dec n (map fst atoms)) as [Hn|Hn].
      - destruct (S1 Hn) as (w & Hw & ->). rewrite Forall_forall in HF. pose proof (HF (n, w) Hw) as Hwok. cbn [snd] in Hwok.
        destruct (log_atom_val_ok w Hwok) as (v & Ev & Efst). rewrite (Hin n w Hw) in Ev. inversion Ev as [Ev'].
        unfold posw. fold D0. rewrite Ev'. exact Efst.
      - rewrite (S2 Hn). unfold posw. fold D0. rewrite (Hout n Hn). cbn. symmetry. apply llog_1. }
    destruct (log_fold_cs (nprob atoms) (nprob_nonneg atoms) cs r0 Hex (fun c n _ _ => Hposw n)) as [Hiff Hret].
    split.
    + rewrite Hiff. unfold bad_group. split; [intro H; right; exact H|intros [H|H]; [exfalso; exact (Hnb H)|exact H]].
    + intro Hno. destruct Hret as (r & Er).
      { intros c Hc Hl. destruct (Rle_dec (Rsum (map (nprob atoms) (fst c))) (exp (1/10^12))) as [K|K]; [exact K|].
        exfalso. apply Hno. right. exists c. split; [exact Hc|]. split; [exact Hl|lra]. }
      exists r. split; [exact Er|]. split.
      * intros k w Hkw Hnx. rewrite Forall_forall in HF. pose proof (HF (k, w) Hkw) as Hwok. cbn [snd] in Hwok.
        destruct (log_atom_val_ok w Hwok) as ([p n] & Ev & Efst). cbn [fst] in Efst.
        exists p, n. split; [exact Ev|]. split; [exact Efst|].
        unfold D0. rewrite (fold_get (log_sr Rops) (RF 0) log_sr_one log_sr_neg cs r0 r k Er Hnx).
        pose proof (Hin k w Hkw) as Hg. rewrite Ev in Hg. inversion Hg as [Hg']. fold D0.
        destruct (existsb (in_group k) cs); [|symmetry; exact Hg']. unfold posw. fold D0. rewrite <- Hg'. reflexivity.
      * intros Hndx c Hc Hnt.
        destruct (fold_get_extra (log_sr Rops) (RF 0) log_sr_one log_sr_neg cs r0 r Er Hndx Hex c Hc Hnt) as (cv & Ec & Eg).
        exists cv. split; [|exact Eg]. rewrite <- Ec. f_equal. apply map_ext. intro n. symmetry. apply Hposw.
  - rewrite (Hbad HE). cbn [bind]. split.
    + split; [|reflexivity]. intros _. left. apply Exists_exists in HE. destruct HE as ([k w] & Hkw & Hb). cbn [snd] in Hb.
      destruct w as [| | |x]; try (exfalso; apply Hb; exact I). exists k, x. split; [exact Hkw|exact Hb].
    + intro Hno. exfalso. apply Hno. left. apply Exists_exists in HE. destruct HE as ([k w] & Hkw & Hb). cbn [snd] in Hb.
      destruct w as [| | |x]; try (exfalso; apply Hb; exact I). exists k, x. split; [exact Hkw|exact Hb].
Qed.

(* ---------------------------------------------------------------- corollaries *)
Lemma Exists_bad_fact atoms : Exists (fun kw : Z * wt rfl => ~ wt_ok (snd kw)) atoms -> bad_fact atoms.
Proof.
  intro HE. apply Exists_exists in HE. destruct HE as ([k w] & Hkw & Hb). cbn [snd] in Hb.
  destruct w as [| | |x]; try (exfalso; apply Hb; exact I). exists k, x. split; [exact Hkw|exact Hb].
Qed.

Lemma Forall_no_bad_fact atoms : Forall (fun kw : Z * wt rfl => wt_ok (snd kw)) atoms -> ~ bad_fact atoms.
Proof.
  intros HF (k & x & Hkx & Hb). rewrite Forall_forall in HF. apply Hb. exact (HF (k, WVal x) Hkx).
Qed.

Lemma bad_group_dec atoms cs : bad_group atoms cs \/
  (forall c, In c cs -> (2 <= length (fst c))%nat -> Rsum (map (nprob atoms) (fst c)) <= exp (1/10^12)).
Proof.
  induction cs as [|c t [IH|IH]].
  - right. intros c [].
  - left. destruct IH as (c' & Hc' & H). exists c'. split; [right; exact Hc'|exact H].
  - destruct (le_lt_dec 2 (length (fst c))) as [L|L];
      [destruct (Rle_dec (Rsum (map (nprob atoms) (fst c))) (exp (1/10^12))) as [K|K]|].
    + right. intros c' [<-|Hc'] Hl; [exact K|apply IH; assumption].
    + left. exists c. split; [left; reflexivity|]. split; [exact L|lra].
    + right. intros c' [<-|Hc'] Hl; [lia|apply IH; assumption].
Qed.

Lemma log_invalid_fact_rejected atoms cs k v :
  (forall k w, In (k, w) atoms -> 0 < k)%Z -> NoDup (map fst atoms) ->
  (forall c c', In c cs -> In c' cs -> ~ In (snd c) (fst c')) ->
  In (k, WVal (RF v)) atoms -> (v < - (1/10^9) \/ v > exp (1/10^12)) ->
  extract_weights (log_sr Rops) atoms cs = Raise InvalidValue.
Proof.
  intros H1 H2 H3 Hin Hv. apply (proj1 (log_extract_whole atoms cs H1 H2 H3)). left.
  exists k, (RF v). split; [exact Hin|]. intros (v' & E & H). injection E as E. subst v'. lra.
Qed.

Lemma log_invalid_group_rejected atoms cs nodes extra :
  (forall k w, In (k, w) atoms -> 0 < k)%Z -> NoDup (map fst atoms) ->
  (forall c c', In c cs -> In c' cs -> ~ In (snd c) (fst c')) ->
  In (nodes, extra) cs -> (2 <= length nodes)%nat -> Rsum (map (nprob atoms) nodes) > exp (1/10^12) ->
  extract_weights (log_sr Rops) atoms cs = Raise InvalidValue.
Proof.
  intros H1 H2 H3 Hin Hl Hs. apply (proj1 (log_extract_whole atoms cs H1 H2 H3)). right.
  exists (nodes, extra). split; [exact Hin|]. split; [exact Hl|exact Hs].
Qed.

Lemma log_extract_total atoms cs :
  (forall k w, In (k, w) atoms -> 0 < k)%Z -> NoDup (map fst atoms) ->
  (forall c c', In c cs -> In c' cs -> ~ In (snd c) (fst c')) ->
  (exists r, extract_weights (log_sr Rops) atoms cs = Ok r) \/ extract_weights (log_sr Rops) atoms cs = Raise InvalidValue.
Proof.
  intros H1 H2 H3. destruct (log_extract_whole atoms cs H1 H2 H3) as [Hiff Hret].
  destruct (Forall_or_Exists_ok atoms) as [HF|HE].
  - destruct (bad_group_dec atoms cs) as [Hb|Hg].
    + right. apply Hiff. right. exact Hb.
    + left. destruct Hret as (r & E & _); [|eauto].
      intros [Hb|(c & Hc & Hl & Hs)]; [exact (Forall_no_bad_fact atoms HF Hb)|]. specialize (Hg c Hc Hl). lra.
  - right. apply Hiff. left. apply Exists_bad_fact. exact HE.
Qed.

Definition ex_atoms (p : R) : list (Z * wt rfl) := [(1%Z, WVal (RF p)); (2%Z, WVal (RF p))].
Definition ex_cs : list (list Z * Z) := [([1; 2]%Z, 3%Z)].

Lemma ex_wf p : (forall k w, In (k, w) (ex_atoms p) -> 0 < k)%Z /\ NoDup (map fst (ex_atoms p)) /\
  (forall c c', In c ex_cs -> In c' ex_cs -> ~ In (snd c) (fst c')).
Proof.
  split; [|split].
  - intros k w [H|[H|[]]]; inversion H; lia.
  - cbn. constructor; [intros [H|[]]; discriminate|]. constructor; [intros []|constructor].
  - intros c c' [<-|[]] [<-|[]]. cbn. intros [H|[H|[]]]; discriminate.
Qed.

Lemma ex_sum p : 1/10^9 <= p -> Rsum (map (nprob (ex_atoms p)) [1; 2]%Z) = p + (p + 0).
Proof.
  intro Hp. cbv [ex_atoms map nprob wprob Rsum Z.eqb Pos.eqb RF].
  destruct (Rlt_dec p (1/10^9)); [lra|reflexivity].
Qed.

Lemma log_example_rejected :
  extract_weights (log_sr Rops) [(1%Z, WVal (RF (7/10))); (2%Z, WVal (RF (7/10)))] [([1; 2]%Z, 3%Z)] = Raise InvalidValue.
Proof.
  destruct (ex_wf (7/10)) as (H1 & H2 & H3). pose proof exp_bracket as [B1 B2].
  apply (log_invalid_group_rejected (ex_atoms (7/10)) ex_cs [1; 2]%Z 3%Z H1 H2 H3); [left; reflexivity|cbn; lia|].
  rewrite ex_sum by lra. lra.
Qed.

Lemma log_example_accepted : exists r cv,
  extract_weights (log_sr Rops) [(1%Z, WVal (RF (1/2))); (2%Z, WVal (RF (1/2)))] [([1; 2]%Z, 3%Z)] = Ok r /\
  dict_get r 1%Z (RF 0, RF 0) = (RF (ln (1/2)), RF 0) /\ dict_get r 3%Z (RF 0, RF 0) = (cv, RF 0).
Proof.
  destruct (ex_wf (1/2)) as (H1 & H2 & H3). pose proof exp_bracket as [B1 B2].
  destruct (proj2 (log_extract_whole (ex_atoms (1/2)) ex_cs H1 H2 H3)) as (r & E & Hat & Hext).
  { intros [(k & x & Hin & Hb)|(c & Hc & Hl & Hs)].
    - apply Hb. destruct Hin as [Hin|[Hin|[]]]; inversion Hin; exists (1/2); (split; [reflexivity|lra]).
    - destruct Hc as [<-|[]]. cbn [fst] in Hs. rewrite ex_sum in Hs by lra. lra. }
  destruct (Hat 1%Z (WVal (RF (1/2)))) as (p & n & _ & Ep & Eg).
  { left. reflexivity. }
  { intros c [<-|[]]. cbn. discriminate. }
  destruct (Hext) with (c := ([1; 2]%Z, 3%Z)) as (cv & _ & Ex).
  { cbn. constructor; [intros []|constructor]. }
  { left. reflexivity. }
  { reflexivity. }
  exists r, cv. split; [exact E|]. split; [|exact Ex].
  unfold D0 in Eg. rewrite Eg. replace (existsb (in_group 1%Z) ex_cs) with true by reflexivity.
  f_equal. rewrite Ep. cbv [wprob RF]. destruct (Rlt_dec (1/2) (1/10^9)); [lra|].
  unfold llog. destruct (Rlt_dec 0 (1/2)); [reflexivity|lra].
Qed.
