(* C30 — witness of the known finding, on the generated model: the ground program of
   `0.7::a; 0.7::b. query(a).` contains only head a (atom 1); its AD group has the single node 1
   and is therefore accepted although the declared probabilities sum to 1.4.
   Outside the cone of Props.v. *)
From Coq Require Import Reals Lra ZArith Bool String List.
From PL.C12 Require Import ModelPy ModelR GenSemirings ProofsProb.
From PL.C30 Require Import ModelAD GenConstraint ProofsAD.
Import ListNotations.
Local Open Scope R_scope.

Theorem C30_partial_group_unchecked_refuted :
  7/10 + 7/10 > 1 + 1/10^9 /\
  exists w, extract_weights (prob_sr Rops) [(1%Z, WVal (RF (7/10)))] [([1%Z], 2%Z)] = Ok w.
Proof.
  split. lra.
  rewrite extract_weights_unfold. cbn [fold_res]. rewrite atom_step_eq. cbn [dict_mem existsb negb].
  cbn [s_pos_value s_neg_value prob_sr].
  assert (H : - (1/10^9) <= 7/10 <= 1 + 1/10^9) by lra.
  destruct (prob_fact_ok (7/10) H) as [E1 E2]. rewrite E1, E2. cbn [bind ret fold_res].
  rewrite update_trivial by (cbn; auto). cbn [bind]. eauto.
Qed.
