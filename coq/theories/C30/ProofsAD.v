(* C30 — ConstraintAD.update_weights and extract_weights (generated) over the reals. *)
From Coq Require Import Reals Lra ZArith Lia Bool String List.
From PL.C12 Require Import ModelPy ModelR GenSemirings ProofsBase ProofsProb ProofsLog.
From PL.C30 Require Import ModelAD GenConstraint.
Import ListNotations.
Local Open Scope R_scope.

(* ---------------------------------------------------------------- dictionaries *)
Lemma dict_get_set {C} (d : dict C) k v k' def :
  dict_get (dict_set d k v) k' def = if Z.eqb k' k then v else dict_get d k' def.
Proof.
  induction d as [|[k0 v0] t IH]; cbn.
  - destruct (Z.eqb k' k); reflexivity.
  - destruct (Z.eqb k k0) eqn:E; cbn.
    + apply Z.eqb_eq in E; subst. destruct (Z.eqb k' k0); reflexivity.
    + destruct (Z.eqb k' k0) eqn:E'.
      * apply Z.eqb_eq in E'; subst. rewrite Z.eqb_sym, E. reflexivity.
      * apply IH.
Qed.

(* ---------------------------------------------------------------- triviality *)
Lemma ad_is_nontrivial_spec nodes :
  ad_is_nontrivial nodes = Ok (negb (Z.leb (Z.of_nat (length nodes)) 1)).
Proof. cbv [ad_is_nontrivial ad_is_true ad_is_false ret bind]. destruct (Z.leb _ _); reflexivity. Qed.

Lemma nontrivial_true nodes : (2 <= length nodes)%nat -> ad_is_nontrivial nodes = Ok true.
Proof. intros. rewrite ad_is_nontrivial_spec. f_equal. apply negb_true_iff. apply Z.leb_gt. lia. Qed.

Lemma nontrivial_false nodes : (length nodes <= 1)%nat -> ad_is_nontrivial nodes = Ok false.
Proof. intros. rewrite ad_is_nontrivial_spec. f_equal. apply negb_false_iff. apply Z.leb_le. lia. Qed.

(* a group with fewer than two (grounded) nodes is left alone: no sum check at all *)
Lemma update_trivial {C} (SR : SemiringOps C) nodes extra w :
  (length nodes <= 1)%nat -> ad_update_weights SR nodes extra w = Ok w.
Proof. intros. cbv [ad_update_weights]. rewrite nontrivial_false by auto. reflexivity. Qed.

(* ---------------------------------------------------------------- the loop *)
Section Loop.
Context {C : Type}.
Variable SR : SemiringOps C.
Variable o : C.
Hypothesis Hone : s_one SR = Ok o.
Hypothesis Hneg : forall p n, s_ad_negate SR p n = Ok o.

(* positive weight of a node (default: one) *)
Definition posw (w : dict C) (n : Z) : C := fst (dict_get w n (o, o)).
Definition step_w (w : dict C) (n : Z) : dict C := dict_set w n (posw w n, o).

Lemma posw_step w n k : posw (step_w w n) k = posw w k.
Proof.
  unfold posw, step_w. rewrite dict_get_set. destruct (Z.eqb k n) eqn:E; auto.
  apply Z.eqb_eq in E; subst. reflexivity.
Qed.

Lemma posw_steps nodes : forall w k, posw (fold_left step_w nodes w) k = posw w k.
Proof. induction nodes; intros; cbn; auto. rewrite IHnodes. apply posw_step. Qed.

Definition loop_body := (fun '(weights, ws) n =>
  t2 <- s_one SR ;; t3 <- s_one SR ;;
  let '(pos, neg) := dict_get weights n (t2, t3) in
  t4 <- s_ad_negate SR pos neg ;;
  weights <- ret (dict_set weights n (pos, t4)) ;;
  ws <- ret ((ws ++ [pos])%list) ;;
  ret (weights, ws)).

Lemma loop_spec nodes : forall w acc,
  fold_res loop_body nodes (w, acc) = Ok (fold_left step_w nodes w, acc ++ map (posw w) nodes).
Proof.
  induction nodes as [|n t IH]; intros; cbn [fold_res fold_left map].
  - rewrite app_nil_r. reflexivity.
  - assert (E : loop_body (w, acc) n = Ok (step_w w n, acc ++ [posw w n])).
    { cbv [loop_body]. rewrite Hone. cbv [bind ret]. unfold step_w, posw.
      destruct (dict_get w n (o, o)) as [pos neg]. rewrite Hneg. reflexivity. }
    rewrite E. cbn [bind]. rewrite IH. rewrite <- app_assoc. cbn [app].
    do 4 f_equal. apply map_ext. intros. apply posw_step.
Qed.

(* update_weights of a non-trivial group = the sum check on the nodes' positive weights *)
Lemma update_nontrivial nodes extra w : (2 <= length nodes)%nat ->
  ad_update_weights SR nodes extra w =
  (complement <- try_reraise (c <- s_ad_complement SR (map (posw w) nodes) ;;
                               t <- s_in_domain SR c ;;
                               if negb t then Raise InvalidValue else ret c) InvalidValue InvalidValue ;;
   ret (dict_set (fold_left step_w nodes w) extra (complement, o))).
Proof.
  intros. cbv [ad_update_weights]. rewrite nontrivial_true by auto. cbn [bind ret].
  change (fold_res _ nodes (w, [])) with (fold_res loop_body nodes (w, [])).
  rewrite loop_spec. cbn [bind app].
  destruct (try_reraise _ _ _); cbn [bind]; auto. rewrite Hone. cbn [bind]. rewrite Hneg. reflexivity.
Qed.
End Loop.

(* ---------------------------------------------------------------- probability semiring *)
Lemma prob_sr_one : s_one (prob_sr Rops) = Ok (RF 1).
Proof. apply prob_one_R. Qed.
Lemma prob_sr_neg p n : s_ad_negate (prob_sr Rops) p n = Ok (RF 1).
Proof. apply prob_one_R. Qed.

Definition in_unit_tol (c : R) : Prop := - (1/10^9) <= c <= 1 + 1/10^9.

Lemma prob_in_domain_dec c : prob_in_domain Rops (RF c) = Ok true \/ (prob_in_domain Rops (RF c) = Ok false /\ ~ in_unit_tol c).
Proof.
  destruct (Rle_dec (- (1/10^9)) c); [destruct (Rle_dec c (1 + 1/10^9))|].
  - left. apply prob_in_domain_R. lra.
  - right. split; [|unfold in_unit_tol; lra]. cbv [prob_in_domain]. py_cbv.
    replace (IZR 1000000000) with (10^9) by (simpl; lra). rdec; auto.
  - right. split; [|unfold in_unit_tol; lra]. cbv [prob_in_domain]. py_cbv.
    replace (IZR 1000000000) with (10^9) by (simpl; lra). rdec; auto.
Qed.

Lemma prob_group_check ps :
  (c <- s_ad_complement (prob_sr Rops) (map RF ps) ;; t <- s_in_domain (prob_sr Rops) c ;;
   if negb t then Raise InvalidValue else ret c) =
  if Rle_dec (- (1/10^9)) (1 - Rsum ps) then if Rle_dec (1 - Rsum ps) (1 + 1/10^9) then Ok (RF (1 - Rsum ps)) else Raise InvalidValue
  else Raise InvalidValue.
Proof.
  cbn [s_ad_complement s_in_domain prob_sr]. rewrite prob_ad_complement_R. cbn [bind].
  destruct (prob_in_domain_dec (1 - Rsum ps)) as [E|[E H]]; rewrite E; cbn [bind negb ret].
  - apply prob_in_domain_R in E. destruct (Rle_dec _ _); [destruct (Rle_dec _ _)|]; auto; lra.
  - unfold in_unit_tol in H. destruct (Rle_dec _ _); [destruct (Rle_dec _ _)|]; auto; lra.
Qed.

Lemma prob_update_sum nodes extra w ps :
  (2 <= length nodes)%nat -> map (posw (RF 1) w) nodes = map RF ps ->
  (ad_update_weights (prob_sr Rops) nodes extra w = Raise InvalidValue <-> (Rsum ps > 1 + 1/10^9 \/ Rsum ps < - (1/10^9))) /\
  (~ (Rsum ps > 1 + 1/10^9 \/ Rsum ps < - (1/10^9)) ->
     exists w', ad_update_weights (prob_sr Rops) nodes extra w = Ok w' /\
                dict_get w' extra (RF 1, RF 1) = (RF (1 - Rsum ps), RF 1)).
Proof.
  intros Hlen Hps.
  rewrite (update_nontrivial (prob_sr Rops) (RF 1) prob_sr_one prob_sr_neg) by auto.
  rewrite Hps, prob_group_check.
  destruct (Rle_dec (- (1/10^9)) (1 - Rsum ps)); [destruct (Rle_dec (1 - Rsum ps) (1 + 1/10^9))|]; cbn [try_reraise bind ret exn_eqb].
  - split. split; [discriminate | intros; lra]. intros _. eexists; split; eauto. rewrite dict_get_set, Z.eqb_refl. reflexivity.
  - split. split; [intros; lra | auto]. intros H; exfalso; apply H; lra.
  - split. split; [intros; lra | auto]. intros H; exfalso; apply H; lra.
Qed.

(* ---------------------------------------------------------------- log semiring *)
Lemma log_sr_one : s_one (log_sr Rops) = Ok (RF 0).
Proof. apply log_one_R. Qed.
Lemma log_sr_neg p n : s_ad_negate (log_sr Rops) p n = Ok (RF 0).
Proof. apply log_one_R. Qed.

Lemma log_in_domain_R v : log_in_domain Rops (RF v) = Ok (if Rle_dec v (1/10^12) then true else false).
Proof.
  cbv [log_in_domain]. py_cbv. replace (IZR 1000000000000) with (10^12) by (simpl; lra).
  destruct (Rle_dec v (1/10^12)); [rewrite Rleb_true | rewrite Rleb_false]; auto.
Qed.

Lemma log_group_check ps : Forall (fun p => 0 <= p) ps ->
  (exists c, (c0 <- s_ad_complement (log_sr Rops) (map llog ps) ;; t <- s_in_domain (log_sr Rops) c0 ;;
              if negb t then Raise InvalidValue else ret c0) = Ok c) \/
  ((c0 <- s_ad_complement (log_sr Rops) (map llog ps) ;; t <- s_in_domain (log_sr Rops) c0 ;;
              if negb t then Raise InvalidValue else ret c0) = Raise InvalidValue /\ Rsum ps > exp (1/10^12)).
Proof.
  intros Hps. cbn [s_ad_complement s_in_domain log_sr]. cbv [log_ad_complement]. rewrite log_zero_R. cbn [bind].
  replace (FNInf (N:=Rops)) with (llog 0) by (unfold llog; destruct (Rlt_dec 0 0); auto; lra).
  rewrite log_fold_plus by (auto; lra). cbn [bind]. rewrite Rplus_0_l.
  pose proof (Rsum_nonneg ps Hps) as Hs.
  unfold llog. destruct (Rlt_dec 0 (Rsum ps)) as [Hp|Hz].
  - destruct (Rle_dec (ln (Rsum ps)) (- (1/10^10))).
    + rewrite log_negate_ln by auto. cbn [bind]. rewrite log_in_domain_R.
      assert (exp (ln (Rsum ps)) < 1). { rewrite <- exp_0. apply exp_increasing. lra. }
      assert (ln (1 - exp (ln (Rsum ps))) < 0).
      { rewrite <- ln_1. apply ln_increasing. pose proof (exp_pos (ln (Rsum ps))). lra. pose proof (exp_pos (ln (Rsum ps))). lra. }
      destruct (Rle_dec _ _); try lra. left; eexists; reflexivity.
    + destruct (Rle_dec (ln (Rsum ps)) (1/10^12)).
      * rewrite log_negate_cut by lra. cbn. left; eexists; reflexivity.
      * right. assert (E : log_negate Rops (RF (ln (Rsum ps))) = Raise InvalidValue) by (apply log_negate_raises; lra).
        rewrite E. split; auto. rewrite <- (exp_ln (Rsum ps)) by auto. apply exp_increasing. lra.
  - rewrite log_negate_ninf. cbn [bind]. rewrite log_in_domain_R. destruct (Rle_dec _ _); try lra. left; eexists; reflexivity.
Qed.

Lemma log_group_raises ps : Forall (fun p => 0 <= p) ps -> Rsum ps > exp (1/10^12) ->
  (c0 <- s_ad_complement (log_sr Rops) (map llog ps) ;; t <- s_in_domain (log_sr Rops) c0 ;;
              if negb t then Raise InvalidValue else ret c0) = Raise InvalidValue.
Proof.
  intros Hps Hgt. cbn [s_ad_complement s_in_domain log_sr]. cbv [log_ad_complement]. rewrite log_zero_R. cbn [bind].
  replace (FNInf (N:=Rops)) with (llog 0) by (unfold llog; destruct (Rlt_dec 0 0); auto; lra).
  rewrite log_fold_plus by (auto; lra). cbn [bind]. rewrite Rplus_0_l.
  pose proof (exp_pos (1/10^12)).
  unfold llog. destruct (Rlt_dec 0 (Rsum ps)); try lra.
  assert (E : log_negate Rops (RF (ln (Rsum ps))) = Raise InvalidValue).
  { apply log_negate_raises. rewrite <- (ln_exp (1/10^12)). apply ln_increasing; auto. }
  rewrite E. reflexivity.
Qed.

Lemma log_update_sum nodes extra w ps :
  (2 <= length nodes)%nat -> Forall (fun p => 0 <= p) ps -> map (posw (RF 0) w) nodes = map llog ps ->
  (ad_update_weights (log_sr Rops) nodes extra w = Raise InvalidValue <-> Rsum ps > exp (1/10^12)) /\
  (Rsum ps <= exp (1/10^12) -> exists w', ad_update_weights (log_sr Rops) nodes extra w = Ok w').
Proof.
  intros Hlen Hps Hw.
  rewrite (update_nontrivial (log_sr Rops) (RF 0) log_sr_one log_sr_neg) by auto.
  rewrite Hw.
  destruct (Rle_dec (Rsum ps) (exp (1/10^12))) as [Hle|Hgt].
  - destruct (log_group_check ps Hps) as [(c & E)|(E & H)]; try lra.
    rewrite E. cbn [try_reraise bind ret exn_eqb]. split. split; [discriminate|intros; lra]. intros _. eexists; reflexivity.
  - rewrite log_group_raises by (auto; lra). cbn [try_reraise bind ret exn_eqb]. split. split; [intros; lra|auto]. intros; lra.
Qed.

(* exp(1e-12) is between 1+1e-12 and 1+1e-9: the log semiring rejects strictly earlier than the probability semiring *)
Lemma exp_bracket : 1 + 1/10^12 < exp (1/10^12) < 1 + 1/10^9.
Proof.
  split.
  - apply exp_ineq1. lra.
  - (* exp x < 1/(1-x) for 0 < x < 1, via exp(-x) > 1 - x *)
    assert (H : 1 - 1/10^12 < exp (- (1/10^12))).
    { pose proof (exp_ineq1 (- (1/10^12))). lra. }
    rewrite exp_Ropp in H.
    assert (P : 0 < exp (1/10^12)) by apply exp_pos.
    assert (Q : exp (1/10^12) * (1 - 1/10^12) < 1).
    { apply Rmult_lt_reg_r with (/ exp (1/10^12)). apply Rinv_0_lt_compat; auto.
      rewrite Rmult_1_l. replace (exp (1/10^12) * (1 - 1/10^12) * / exp (1/10^12)) with (1 - 1/10^12) by (field; lra). auto. }
    nra.
Qed.

(* ---------------------------------------------------------------- extract_weights *)
Lemma fold_res_ok_all {A B} (f : A -> B -> res A) l : forall s s',
  fold_res f l s = Ok s' -> Forall (fun x => exists a b, f a x = Ok b) l.
Proof.
  induction l; intros s s' H; constructor; cbn in H.
  - destruct (f s a) eqn:E; cbn in H; try discriminate. eauto.
  - destruct (f s a) eqn:E; cbn in H; try discriminate. eauto.
Qed.

Section Extract.
Context {C : Type}.
Variable SR : SemiringOps C.

Definition atom_step := (fun (result : dict C) '(key, w) =>
  if negb (dict_mem result (Z.abs key)) then
    match w with
    | WNeutral => t1 <- s_one SR ;; t2 <- s_one SR ;; result <- ret (dict_set result key (t1, t2)) ;; ret result
    | WFalse => t3 <- s_false SR ;; result <- ret (dict_set result key t3) ;; ret result
    | WNone => t4 <- s_true SR ;; result <- ret (dict_set result key t4) ;; ret result
    | WVal w => t5 <- s_pos_value SR w ;; t6 <- s_neg_value SR w ;; result <- ret (dict_set result key (t5, t6)) ;; ret result
    end
  else ret result).

Lemma atom_step_eq result key w : atom_step result (key, w) =
  if negb (dict_mem result (Z.abs key)) then
    match w with
    | WNeutral => t1 <- s_one SR ;; t2 <- s_one SR ;; ret (dict_set result key (t1, t2))
    | WFalse => t3 <- s_false SR ;; ret (dict_set result key t3)
    | WNone => t4 <- s_true SR ;; ret (dict_set result key t4)
    | WVal w => t5 <- s_pos_value SR w ;; t6 <- s_neg_value SR w ;; ret (dict_set result key (t5, t6))
    end
  else ret result.
Proof. reflexivity. Qed.

Lemma extract_weights_unfold atoms cs :
  extract_weights SR atoms cs =
  (r <- fold_res atom_step atoms [] ;;
   fold_res (fun result '(c_nodes, c_extra) => ad_update_weights SR c_nodes c_extra result) cs r).
Proof.
  cbv [extract_weights]. cbn [bind ret].
  change (fold_res _ atoms []) with (fold_res atom_step atoms []).
  destruct (fold_res atom_step atoms []); cbn [bind]; auto.
  destruct (fold_res _ cs a); reflexivity.
Qed.

(* keys already stored: exactly the keys processed so far *)
Lemma dict_mem_set (d : dict C) k v k' : dict_mem (dict_set d k v) k' = Z.eqb k' k || dict_mem d k'.
Proof.
  unfold dict_mem. induction d as [|[k0 v0] t IH]; cbn.
  - rewrite orb_false_r. reflexivity.
  - destruct (Z.eqb k k0) eqn:E; cbn.
    + apply Z.eqb_eq in E; subst. destruct (Z.eqb k' k0); reflexivity.
    + rewrite IH. destruct (Z.eqb k' k0), (Z.eqb k' k); reflexivity.
Qed.

(* every value weight goes through pos_value and neg_value, every group through update_weights *)
Lemma atoms_all_checked : forall atoms r0 r,
  (forall k w, In (k, w) atoms -> 0 < k)%Z ->
  NoDup (map fst atoms) ->
  (forall k w, In (k, w) atoms -> dict_mem r0 k = false) ->
  fold_res atom_step atoms r0 = Ok r ->
  forall k v, In (k, WVal v) atoms -> exists p n, s_pos_value SR v = Ok p /\ s_neg_value SR v = Ok n.
Proof.
  induction atoms as [|[k0 w0] t IH]; intros r0 r Hpos Hnd Hfresh H k v Hin; [destruct Hin|].
  cbn [fold_res] in H. inversion Hnd as [|? ? Hnotin Hnd']; subst.
  assert (Hk0 : (0 < k0)%Z) by (eapply Hpos; left; reflexivity).
  assert (Hm : dict_mem r0 (Z.abs k0) = false) by (rewrite Z.abs_eq by lia; eapply Hfresh; left; reflexivity).
  rewrite atom_step_eq, Hm in H. cbn [negb] in H.
  assert (Hrest : forall r1, (exists v1, r1 = dict_set r0 k0 v1) -> fold_res atom_step t r1 = Ok r ->
             forall k v, In (k, WVal v) t -> exists p n, s_pos_value SR v = Ok p /\ s_neg_value SR v = Ok n).
  { intros r1 (v1 & ->) Hf. eapply IH; eauto.
    - intros; eapply Hpos; right; eauto.
    - intros k' w' Hin'. rewrite dict_mem_set. rewrite (Hfresh k' w') by (right; auto). rewrite orb_false_r.
      apply Z.eqb_neq. intro; subst. apply Hnotin. change k0 with (fst (k0, w')). apply in_map; auto. }
  destruct Hin as [Heq|Hin].
  - inversion Heq; subst. destruct (s_pos_value SR v) eqn:E1; cbn [bind] in H; try discriminate.
    destruct (s_neg_value SR v) eqn:E2; cbn [bind] in H; try discriminate. eauto.
  - destruct w0.
    + destruct (s_one SR); cbn [bind ret] in H; try discriminate. eapply Hrest; eauto.
    + destruct (s_false SR); cbn [bind ret] in H; try discriminate. eapply Hrest; eauto.
    + destruct (s_true SR); cbn [bind ret] in H; try discriminate. eapply Hrest; eauto.
    + destruct (s_pos_value SR v0); cbn [bind ret] in H; try discriminate.
      destruct (s_neg_value SR v0); cbn [bind ret] in H; try discriminate. eapply Hrest; eauto.
Qed.

Lemma extract_all_checked atoms cs r :
  (forall k w, In (k, w) atoms -> 0 < k)%Z -> NoDup (map fst atoms) ->
  extract_weights SR atoms cs = Ok r ->
  (forall k v, In (k, WVal v) atoms -> exists p n, s_pos_value SR v = Ok p /\ s_neg_value SR v = Ok n) /\
  Forall (fun c => exists a b, ad_update_weights SR (fst c) (snd c) a = Ok b) cs.
Proof.
  intros Hpos Hnd H. rewrite extract_weights_unfold in H.
  destruct (fold_res atom_step atoms []) as [r0|] eqn:E; cbn [bind] in H; try discriminate.
  split.
  - eapply (atoms_all_checked atoms [] r0); eauto.
  - apply fold_res_ok_all in H. eapply Forall_impl; [|exact H]. intros [n e] (a & b & Hab). exists a, b. exact Hab.
Qed.
End Extract.

(* ---------------------------------------------------------------- facts: pos_value / neg_value *)
Lemma prob_fact_ok v : - (1/10^9) <= v <= 1 + 1/10^9 ->
  prob_pos_value Rops (RF v) = Ok (RF v) /\ prob_neg_value Rops (RF v) = Ok (RF (1 - v)).
Proof.
  intros. cbv [prob_pos_value prob_neg_value]. rewrite prob_value_ok by auto. cbn [bind]. split; auto.
  apply prob_negate_R.
Qed.

Lemma prob_fact_raises v : (v < - (1/10^9) \/ v > 1 + 1/10^9) ->
  prob_pos_value Rops (RF v) = Raise InvalidValue /\ prob_neg_value Rops (RF v) = Raise InvalidValue.
Proof.
  intros H. apply prob_value_raises in H. cbv [prob_pos_value prob_neg_value]. rewrite H. split; reflexivity.
Qed.

(* log semiring: the NEGATIVE weight is stricter than value(): ln v must be <= 1e-12 *)
Lemma log_fact_ok v : - (1/10^9) <= v <= exp (1/10^12) ->
  exists p n, log_pos_value Rops (RF v) = Ok p /\ log_neg_value Rops (RF v) = Ok n.
Proof.
  intros [Hl Hu]. pose proof exp_bracket as [B1 B2]. cbv [log_pos_value log_neg_value].
  destruct (Rlt_dec v (1/10^9)).
  - rewrite log_value_zero by lra. cbn [bind]. rewrite log_negate_ninf. eauto.
  - rewrite log_value_ln by lra. cbn [bind].
    assert (Hv : 0 < v) by lra.
    assert (ln v <= 1/10^12).
    { rewrite <- (ln_exp (1/10^12)). destruct Hu as [Hu|Hu]. left; apply ln_increasing; auto. rewrite Hu; lra. }
    destruct (Rle_dec (ln v) (- (1/10^10))).
    + rewrite log_negate_ln by auto. eauto.
    + rewrite log_negate_cut by lra. eauto.
Qed.

Lemma log_fact_raises v : (v < - (1/10^9) \/ v > exp (1/10^12)) ->
  log_neg_value Rops (RF v) = Raise InvalidValue.
Proof.
  intros H. pose proof exp_bracket as [B1 B2]. cbv [log_neg_value].
  destruct (Rle_dec (- (1/10^9)) v) as [Hl|Hl]; [destruct (Rle_dec v (1 + 1/10^9)) as [Hu|Hu]|].
  - assert (Hv : v > exp (1/10^12)) by lra.
    rewrite log_value_ln by lra. cbn [bind]. apply log_negate_raises.
    rewrite <- (ln_exp (1/10^12)). apply ln_increasing; auto. apply exp_pos.
  - assert (E : log_value Rops (RF v) = Raise InvalidValue) by (apply log_value_raises; lra). rewrite E. reflexivity.
  - assert (E : log_value Rops (RF v) = Raise InvalidValue) by (apply log_value_raises; lra). rewrite E. reflexivity.
Qed.

(* ---------------------------------------------------------------- whole extract_weights, probability semiring *)
Definition ok_or_invalid {A} (m : res A) : Prop := (exists a, m = Ok a) \/ m = Raise InvalidValue.

Lemma fold_res_ok_or_invalid {A B} (f : A -> B -> res A) l :
  (forall s x, ok_or_invalid (f s x)) -> forall s, ok_or_invalid (fold_res f l s).
Proof.
  intros Hf. induction l; intros s; cbn.
  - left; eauto.
  - destruct (Hf s a) as [(s' & E)|E]; rewrite E; cbn [bind]; auto. right; reflexivity.
Qed.

Lemma prob_value_total x : ok_or_invalid (prob_value Rops x).
Proof.
  destruct x as [| |r|]; try (right; reflexivity).
  destruct (Rle_dec (- (1/10^9)) r); [destruct (Rle_dec r (1 + 1/10^9))|].
  - left. rewrite prob_value_ok by lra. eauto.
  - right. apply prob_value_raises. lra.
  - right. apply prob_value_raises. lra.
Qed.

Lemma prob_negate_total x : exists y, prob_negate Rops x = Ok y.
Proof. cbv [prob_negate ret]. eauto. Qed.

Lemma prob_fold_plus_total ws : forall s, exists c, fold_res (fun s w => prob_plus Rops s w) ws s = Ok c.
Proof. induction ws; intros; cbn; eauto. Qed.

Lemma prob_ad_complement_total ws : exists c, prob_ad_complement Rops ws = Ok c.
Proof.
  cbv [prob_ad_complement]. cbn [prob_zero ret bind].
  destruct (prob_fold_plus_total ws (flit Rops 0 1)) as (c & E). rewrite E. cbn [bind]. apply prob_negate_total.
Qed.

Lemma prob_in_domain_total c : exists b, prob_in_domain Rops c = Ok b.
Proof. cbv [prob_in_domain ret]. eauto. Qed.

Lemma prob_update_total nodes extra w : ok_or_invalid (ad_update_weights (prob_sr Rops) nodes extra w).
Proof.
  destruct (le_lt_dec (length nodes) 1).
  - rewrite update_trivial by auto. left; eauto.
  - rewrite (update_nontrivial (prob_sr Rops) (RF 1) prob_sr_one prob_sr_neg) by lia.
    cbn [s_ad_complement s_in_domain prob_sr].
    destruct (prob_ad_complement_total (map (posw (RF 1) w) nodes)) as (c & E). rewrite E. cbn [bind].
    destruct (prob_in_domain_total c) as ([|] & E'); rewrite E'; cbn [bind negb ret try_reraise exn_eqb].
    + left; eauto.
    + right; reflexivity.
Qed.

Lemma prob_atom_step_total r x : ok_or_invalid (atom_step (prob_sr Rops) r x).
Proof.
  destruct x as [k w]. rewrite atom_step_eq. destruct (negb _); [|left; cbv [ret]; eauto].
  destruct w; cbn [s_one s_false s_true s_pos_value s_neg_value prob_sr].
  - left. cbv [prob_one ret bind]. eauto.
  - left. cbv [prob_false prob_zero prob_one ret bind]. eauto.
  - left. cbv [prob_true prob_zero prob_one ret bind]. eauto.
  - cbv [prob_pos_value prob_neg_value]. destruct (prob_value_total v) as [(a & E)|E]; rewrite E; cbn [bind].
    + destruct (prob_negate_total a) as (y & E'). rewrite E'. cbn [bind]. left; cbv [ret]; eauto.
    + right; reflexivity.
Qed.

Lemma prob_extract_total atoms cs : ok_or_invalid (extract_weights (prob_sr Rops) atoms cs).
Proof.
  rewrite extract_weights_unfold.
  destruct (fold_res_ok_or_invalid (atom_step (prob_sr Rops)) atoms (prob_atom_step_total) []) as [(r0 & E)|E]; rewrite E; cbn [bind].
  - apply fold_res_ok_or_invalid. intros s [n e]. apply prob_update_total.
  - right; reflexivity.
Qed.

(* a fact / AD head whose probability is outside [-1e-9, 1+1e-9] makes weight extraction raise InvalidValue *)
Lemma prob_invalid_fact_rejected atoms cs k v :
  (forall k w, In (k, w) atoms -> 0 < k)%Z -> NoDup (map fst atoms) ->
  In (k, WVal (RF v)) atoms -> (v < - (1/10^9) \/ v > 1 + 1/10^9) ->
  extract_weights (prob_sr Rops) atoms cs = Raise InvalidValue.
Proof.
  intros Hpos Hnd Hin Hv. destruct (prob_extract_total atoms cs) as [(r & E)|E]; auto.
  exfalso. destruct (extract_all_checked (prob_sr Rops) atoms cs r Hpos Hnd E) as [H _].
  destruct (H k (RF v) Hin) as (p & n & Ep & _). cbn [s_pos_value prob_sr] in Ep.
  destruct (prob_fact_raises v Hv) as [E1 _]. rewrite E1 in Ep. discriminate.
Qed.
