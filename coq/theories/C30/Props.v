(* C30 — invalid probability annotations are rejected.  Only statements; every proof is `exact <lemma>`.
   All statements are about definitions GENERATED from the current sources:
     prob_* / log_*            problog/evaluator.py      (C12/GenSemirings.v)
     ad_update_weights, ad_is_* problog/constraint.py    (C30/GenConstraint.v)
     extract_weights           problog/formula.py        (C30/GenConstraint.v, weights=None)
   instantiated at the reals (Rops).  RF v is the float v; llog p = ln p (-inf for p = 0). *)
From Coq Require Import Reals Lra ZArith Bool String List.
From PL.C12 Require Import ModelPy ModelR GenSemirings ProofsProb ProofsLog.
From PL.C30 Require Import ModelAD GenConstraint ProofsAD.
Import ListNotations.
Local Open Scope R_scope.

(* ---- value(): exact raise condition, both semirings *)
Theorem C30_value_prob : forall v,
  (prob_value Rops (RF v) = Raise InvalidValue <-> (v < - (1/10^9) \/ v > 1 + 1/10^9)) /\
  (- (1/10^9) <= v <= 1 + 1/10^9 -> prob_value Rops (RF v) = Ok (RF v)).
Proof. exact (fun v => conj (conj (proj2 (prob_value_raises v)) (proj1 (prob_value_raises v))) (prob_value_ok v)). Qed.
Print Assumptions C30_value_prob.

Theorem C30_value_log : forall v,
  (log_value Rops (RF v) = Raise InvalidValue <-> (v < - (1/10^9) \/ v > 1 + 1/10^9)) /\
  (- (1/10^9) <= v < 1/10^9 -> log_value Rops (RF v) = Ok FNInf) /\
  (1/10^9 <= v <= 1 + 1/10^9 -> log_value Rops (RF v) = Ok (RF (ln v))).
Proof.
  exact (fun v => conj (conj (proj2 (log_value_raises v)) (proj1 (log_value_raises v)))
                       (conj (log_value_zero v) (log_value_ln v))).
Qed.
Print Assumptions C30_value_log.

(* nan / +-inf are rejected as well *)
Theorem C30_value_nonfinite :
  (prob_value Rops FNaN = Raise InvalidValue /\ prob_value Rops FNInf = Raise InvalidValue /\ prob_value Rops FPInf = Raise InvalidValue) /\
  (log_value Rops FNaN = Raise InvalidValue /\ log_value Rops FNInf = Raise InvalidValue /\ log_value Rops FPInf = Raise InvalidValue).
Proof. exact (conj prob_value_nonfinite log_value_nonfinite). Qed.
Print Assumptions C30_value_nonfinite.

(* ---- a probabilistic fact / AD head: extract_weights calls pos_value and neg_value *)
Theorem C30_fact_prob : forall v,
  (- (1/10^9) <= v <= 1 + 1/10^9 ->
     prob_pos_value Rops (RF v) = Ok (RF v) /\ prob_neg_value Rops (RF v) = Ok (RF (1 - v))) /\
  ((v < - (1/10^9) \/ v > 1 + 1/10^9) ->
     prob_pos_value Rops (RF v) = Raise InvalidValue /\ prob_neg_value Rops (RF v) = Raise InvalidValue).
Proof. exact (fun v => conj (prob_fact_ok v) (prob_fact_raises v)). Qed.
Print Assumptions C30_fact_prob.

(* log semiring: accepted exactly on [-1e-9, exp(1e-12)] (the negative weight requires ln v <= 1e-12) *)
Theorem C30_fact_log : forall v,
  (- (1/10^9) <= v <= exp (1/10^12) ->
     exists p n, log_pos_value Rops (RF v) = Ok p /\ log_neg_value Rops (RF v) = Ok n) /\
  ((v < - (1/10^9) \/ v > exp (1/10^12)) -> log_neg_value Rops (RF v) = Raise InvalidValue).
Proof. exact (fun v => conj (log_fact_ok v) (log_fact_raises v)). Qed.
Print Assumptions C30_fact_log.

Theorem C30_exp_bracket : 1 + 1/10^12 < exp (1/10^12) < 1 + 1/10^9.
Proof. exact exp_bracket. Qed.
Print Assumptions C30_exp_bracket.

(* ---- annotated disjunctions: ConstraintAD.update_weights on a NON-TRIVIAL group (>= 2 grounded heads)
   whose heads carry the positive weights ps raises InvalidValue iff the sum is out of tolerance *)
Theorem C30_ad_sum_prob : forall nodes extra w ps,
  (2 <= length nodes)%nat -> map (posw (RF 1) w) nodes = map RF ps ->
  (ad_update_weights (prob_sr Rops) nodes extra w = Raise InvalidValue <-> (Rsum ps > 1 + 1/10^9 \/ Rsum ps < - (1/10^9))) /\
  (~ (Rsum ps > 1 + 1/10^9 \/ Rsum ps < - (1/10^9)) ->
     exists w', ad_update_weights (prob_sr Rops) nodes extra w = Ok w' /\
                dict_get w' extra (RF 1, RF 1) = (RF (1 - Rsum ps), RF 1)).
Proof. exact prob_update_sum. Qed.
Print Assumptions C30_ad_sum_prob.

Theorem C30_ad_sum_log : forall nodes extra w ps,
  (2 <= length nodes)%nat -> Forall (fun p => 0 <= p) ps -> map (posw (RF 0) w) nodes = map llog ps ->
  (ad_update_weights (log_sr Rops) nodes extra w = Raise InvalidValue <-> Rsum ps > exp (1/10^12)) /\
  (Rsum ps <= exp (1/10^12) -> exists w', ad_update_weights (log_sr Rops) nodes extra w = Ok w').
Proof. exact log_update_sum. Qed.
Print Assumptions C30_ad_sum_log.

(* a group with fewer than two grounded heads is never sum-checked (any semiring): this is the
   mechanism behind the known finding `0.7::a; 0.7::b. query(a).` *)
Theorem C30_trivial_group_unchecked : forall (C : Type) (SR : SemiringOps C) nodes extra w,
  (length nodes <= 1)%nat -> ad_update_weights SR nodes extra w = Ok w.
Proof. exact (@update_trivial). Qed.
Print Assumptions C30_trivial_group_unchecked.

(* ---- extract_weights: every value weight goes through pos_value AND neg_value, every group through
   update_weights (any semiring); keys are the positive atom ids of the ground program *)
Theorem C30_every_weight_checked : forall (C : Type) (SR : SemiringOps C) atoms cs r,
  (forall k w, In (k, w) atoms -> 0 < k)%Z -> NoDup (map fst atoms) ->
  extract_weights SR atoms cs = Ok r ->
  (forall k v, In (k, WVal v) atoms -> exists p n, s_pos_value SR v = Ok p /\ s_neg_value SR v = Ok n) /\
  Forall (fun c => exists a b, ad_update_weights SR (fst c) (snd c) a = Ok b) cs.
Proof. exact (@extract_all_checked). Qed.
Print Assumptions C30_every_weight_checked.

(* probability semiring, whole extraction: an out-of-range fact anywhere in the ground program => InvalidValue,
   and extraction never fails in any other way *)
Theorem C30_invalid_fact_rejected_prob : forall atoms cs k v,
  (forall k w, In (k, w) atoms -> 0 < k)%Z -> NoDup (map fst atoms) ->
  In (k, WVal (RF v)) atoms -> (v < - (1/10^9) \/ v > 1 + 1/10^9) ->
  extract_weights (prob_sr Rops) atoms cs = Raise InvalidValue.
Proof. exact prob_invalid_fact_rejected. Qed.
Print Assumptions C30_invalid_fact_rejected_prob.

Theorem C30_extract_prob_only_invalid : forall atoms cs,
  (exists r, extract_weights (prob_sr Rops) atoms cs = Ok r) \/ extract_weights (prob_sr Rops) atoms cs = Raise InvalidValue.
Proof. exact prob_extract_total. Qed.
Print Assumptions C30_extract_prob_only_invalid.

(* ---- non-vacuity: `0.7::a; 0.7::b.` fully grounded is rejected, `0.5::a; 0.5::b.` accepted *)
Example C30_example_rejected :
  ad_update_weights (prob_sr Rops) [1; 2]%Z 3%Z [(1%Z, (RF (7/10), RF (3/10))); (2%Z, (RF (7/10), RF (3/10)))] = Raise InvalidValue.
Proof.
  apply (proj2 (proj1 (prob_update_sum [1;2]%Z 3%Z [(1%Z, (RF (7/10), RF (3/10))); (2%Z, (RF (7/10), RF (3/10)))] [7/10; 7/10] (le_n 2) eq_refl))). cbn [Rsum]. left; lra.
Qed.
Example C30_example_accepted : exists w',
  ad_update_weights (prob_sr Rops) [1; 2]%Z 3%Z [(1%Z, (RF (1/2), RF (1/2))); (2%Z, (RF (1/2), RF (1/2)))] = Ok w'.
Proof.
  destruct (proj2 (prob_update_sum [1;2]%Z 3%Z [(1%Z, (RF (1/2), RF (1/2))); (2%Z, (RF (1/2), RF (1/2)))] [1/2; 1/2] (le_n 2) eq_refl)) as (w' & E & _).
  - cbn [Rsum]. lra.
  - eauto.
Qed.
