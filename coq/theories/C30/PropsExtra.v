(* C30 (extra) — whole-extraction theorem for the LOG semiring.  Only statements; proofs in C30/ProofsExtractLog.v.
   About the GENERATED definitions (C30/GenConstraint.v: extract_weights with weights=None, ad_update_weights;
   C12/GenSemirings.v: the log_ methods), instantiated at the reals.

   Vocabulary (ProofsExtractLog.v):
     fact_ok x           x = RF v with -1e-9 <= v <= exp(1e-12)   (the interval of C30_fact_log)
     wprob w             the probability the atom's positive weight stands for (1 for neutral/None, 0 for False,
                         v for a value, 0 below the 1e-9 cut-off); nprob atoms n: the same for node n, 1 if n has no entry
     nontriv c           the group c = (nodes, extra) has >= 2 grounded nodes; in_group k c: k is one of them
     atom_val SR w       the pair extract_weights stores for the weight kind w: (one,one) | false() | true() |
                         (pos_value v, neg_value v) = (value v, negate (value v))
     gcheck SR ws        update_weights' sum check: c = ad_complement ws, InvalidValue unless in_domain c
     bad_fact atoms      some grounded atom carries a value weight x with ~ fact_ok x
     bad_group atoms cs  some group with >= 2 grounded nodes has  sum of its nodes' probabilities > exp(1e-12)
                         (the condition of C30_ad_sum_log)
   Well-formedness of the input (what LogicFormula provides): atom keys positive and distinct; the extra node
   of a group is not a head node of any group. *)
From Coq Require Import Reals Lra ZArith Lia Bool String List.
From PL.C12 Require Import ModelPy ModelR GenSemirings ProofsBase ProofsProb ProofsLog.
From PL.C30 Require Import ModelAD GenConstraint ProofsAD ProofsExtractLog.
Import ListNotations.
Local Open Scope R_scope.

(* extract_weights(log semiring, weights=None) raises InvalidValue IFF a grounded annotation is outside
   [-1e-9, exp(1e-12)] (also nan/inf) or a group with >= 2 grounded nodes has sum > exp(1e-12); otherwise it
   returns, and: every atom that is not an extra node holds (value p, negate(value p)) — with the negative weight
   reset to one() when the atom is a head of a non-trivial group —, the positive weight being log(probability);
   the extra node of every non-trivial group holds (ad_complement of the heads' weights, one()). *)
Theorem C30_extract_log_whole : forall atoms cs,
  (forall k w, In (k, w) atoms -> 0 < k)%Z -> NoDup (map fst atoms) ->
  (forall c c', In c cs -> In c' cs -> ~ In (snd c) (fst c')) ->
  (extract_weights (log_sr Rops) atoms cs = Raise InvalidValue <-> bad_fact atoms \/ bad_group atoms cs) /\
  (~ (bad_fact atoms \/ bad_group atoms cs) ->
   exists r, extract_weights (log_sr Rops) atoms cs = Ok r /\
     (forall k w, In (k, w) atoms -> (forall c, In c cs -> k <> snd c) ->
        exists p n, atom_val (log_sr Rops) w = Ok (p, n) /\ p = llog (wprob w) /\
                    dict_get r k (RF 0, RF 0) = (p, if existsb (in_group k) cs then RF 0 else n)) /\
     (NoDup (map snd cs) -> forall c, In c cs -> nontriv c = true ->
        exists cv, gcheck (log_sr Rops) (map (fun n => llog (nprob atoms n)) (fst c)) = Ok cv /\
                   dict_get r (snd c) (RF 0, RF 0) = (cv, RF 0))).
Proof. exact log_extract_whole. Qed.
Print Assumptions C30_extract_log_whole.

(* the two raise conditions spelled out, as in C30_invalid_fact_rejected_prob *)
Theorem C30_invalid_fact_rejected_log : forall atoms cs k v,
  (forall k w, In (k, w) atoms -> 0 < k)%Z -> NoDup (map fst atoms) ->
  (forall c c', In c cs -> In c' cs -> ~ In (snd c) (fst c')) ->
  In (k, WVal (RF v)) atoms -> (v < - (1/10^9) \/ v > exp (1/10^12)) ->
  extract_weights (log_sr Rops) atoms cs = Raise InvalidValue.
Proof. exact log_invalid_fact_rejected. Qed.
Print Assumptions C30_invalid_fact_rejected_log.

Theorem C30_invalid_group_rejected_log : forall atoms cs nodes extra,
  (forall k w, In (k, w) atoms -> 0 < k)%Z -> NoDup (map fst atoms) ->
  (forall c c', In c cs -> In c' cs -> ~ In (snd c) (fst c')) ->
  In (nodes, extra) cs -> (2 <= length nodes)%nat -> Rsum (map (nprob atoms) nodes) > exp (1/10^12) ->
  extract_weights (log_sr Rops) atoms cs = Raise InvalidValue.
Proof. exact log_invalid_group_rejected. Qed.
Print Assumptions C30_invalid_group_rejected_log.

(* the analogue of C30_extract_prob_only_invalid (under the well-formedness of the input) *)
Theorem C30_extract_log_only_invalid : forall atoms cs,
  (forall k w, In (k, w) atoms -> 0 < k)%Z -> NoDup (map fst atoms) ->
  (forall c c', In c cs -> In c' cs -> ~ In (snd c) (fst c')) ->
  (exists r, extract_weights (log_sr Rops) atoms cs = Ok r) \/ extract_weights (log_sr Rops) atoms cs = Raise InvalidValue.
Proof. exact log_extract_total. Qed.
Print Assumptions C30_extract_log_only_invalid.

(* ---- non-vacuity: `0.7::a; 0.7::b.` fully grounded is rejected by the whole extraction, `0.5::a; 0.5::b.` accepted
   with the extra node holding the complement *)
Example C30_example_log_rejected :
  extract_weights (log_sr Rops) [(1%Z, WVal (RF (7/10))); (2%Z, WVal (RF (7/10)))] [([1; 2]%Z, 3%Z)] = Raise InvalidValue.
Proof. exact log_example_rejected. Qed.
Example C30_example_log_accepted : exists r cv,
  extract_weights (log_sr Rops) [(1%Z, WVal (RF (1/2))); (2%Z, WVal (RF (1/2)))] [([1; 2]%Z, 3%Z)] = Ok r /\
  dict_get r 1%Z (RF 0, RF 0) = (RF (ln (1/2)), RF 0) /\ dict_get r 3%Z (RF 0, RF 0) = (cv, RF 0).
Proof. exact log_example_accepted. Qed.
