(* C27 -- hand models of builtin bodies over PARTIAL primitives.
   A primitive applied outside its Python domain yields `OStuck <exception name>`: the model of
   "a non-ProbLog exception escapes".  Mode safety = an accepted call never reaches OStuck.
   The accepted mode strings are read from the TRANSLATED call-site table (site_modes), never
   restated by hand.  No proofs in this file. *)
From Coq Require Import ZArith List Bool String Ascii.
From PL.C27 Require Import ModelTerms GenModes ModelModes.
Import ListNotations.
Open Scope string_scope.

Inductive outcome :=
| ORes (rs : list (list pterm))    (* returns this list of result tuples ([] = failure) *)
| OBool (b : bool)                 (* boolean builtin *)
| OAny                             (* returns normally; values not modelled (unify_value / struct_cmp territory) *)
| OUnknown                         (* outside the modelled fragment: no claim at all *)
| OCallModeError                   (* ProbLog errors ... *)
| OArithError                      (*   ArithmeticError / InstantiationError (GroundingError) *)
| OOtherPLError                    (*   another ProbLogError subclass (e.g. OccursCheck out of unify_value): only ever observed *)
| OUnifyError                      (* UnifyError: the engine turns it into failure *)
| OStuck (e : string).             (* any other Python exception: a crash *)

(* UnifyError is not a ProbLogError: the engine turns it into failure only when the call is the first goal of a
   clause body (engine_stack.eval_clause); anywhere else it escapes -- so it counts as stuck. *)
Definition is_stuck (o : outcome) : bool := match o with OStuck _ | OUnifyError => true | _ => false end.

(* ---- partial primitives *)
Inductive res (A : Type) := RVal (a : A) | ROut (o : outcome).
Arguments RVal {A} a.
Arguments ROut {A} o.
Definition bindo {A} (r : res A) (k : A -> outcome) : outcome :=
  match r with RVal a => k a | ROut o => o end.

(* x.functor / x.args / x.arity / x.with_args: AttributeError on None and int *)
Definition attr_ok (t : pterm) : res unit :=
  match t with PNone | PSlot _ => ROut (OStuck "AttributeError") | _ => RVal tt end.

(* x.with_args() with NO arguments: Term subclasses with their own constructor signature (Not, And, Or, Clause,
   AnnotatedDisjunction) raise TypeError.  The Python class of a term is not observable in pterm, so for the
   functors those classes use the model makes no claim (OUnknown) and the safety theorem excludes them. *)
Definition class_functor (t : pterm) : bool :=
  match t with
  | PApp f [_] => existsb (String.eqb f) ["\+"; "not"]
  | PApp f [_; _] => existsb (String.eqb f) [","; ";"; ":-"; "<-"]
  | _ => false
  end.
Definition with_args0_ok (t : pterm) : res unit :=
  match t with
  | PNone | PSlot _ => ROut (OStuck "AttributeError")
  | _ => if class_functor t then ROut OUnknown else RVal tt
  end.

(* int(x).  On a Python-int variable slot int() would silently return the slot number: modelled as stuck
   (a variable must never reach int()). *)
Definition int_of (t : pterm) : res Z :=
  match t with
  | PNone => ROut (OStuck "TypeError")
  | PSlot _ => ROut (OStuck "TypeError")
  | PVarObj _ => ROut OArithError
  | PInt z => RVal z
  | PFloat (FFin _ tr) => RVal tr
  | PFloat (FInf _) => ROut (OStuck "OverflowError")
  | PFloat FNan => ROut (OStuck "ValueError")
  | PStr _ => ROut (OStuck "ValueError")
  | PObj _ => ROut (OStuck "TypeError")
  | PApp f (PInt z :: nil) => if String.eqb f "'-'" then RVal (- z)%Z else ROut OUnknown
  | PApp _ _ => ROut OUnknown          (* int(Term) evaluates the term arithmetically: see aeval *)
  end.

(* elements[0] applied to the rest: Term.__call__ *)
Definition call_term (hd : pterm) (rest : list pterm) : res pterm :=
  match hd with
  | PApp f _ => RVal (PApp f rest)
  | PVarObj n => RVal (PVarObj n)
  | _ => ROut (OStuck "TypeError")
  end.

Definition zrange (lo hi : Z) : list Z := map (fun k => (lo + Z.of_nat k)%Z) (seq 0 (Z.to_nat (hi - lo))).
Definition build_list (els : list pterm) (tail : pterm) : pterm := fold_right (fun e acc => PApp "." [e; acc]) tail els.
Definition nil_term : pterm := PApp "[]" [].

Definition site_modes (f : string) : list string :=
  match find (fun s => String.eqb (s_func s) f) check_sites with Some s => s_modes s | None => [] end.

Definition with_mode (f : string) (args : list pterm) (k : nat -> outcome) : outcome :=
  match check_mode args (site_modes f) with
  | Accept i => k i
  | CallModeError => OCallModeError
  | ModeStuck => OStuck "KeyError"
  end.

Definition bad_arity : outcome := OStuck "TypeError".

(* ---- between/3 *)
Definition body_between (args : list pterm) : outcome :=
  match args with
  | [low; high; value] =>
      with_mode "_builtin_between" args (fun mode =>
        bindo (int_of low) (fun low_v => bindo (int_of high) (fun high_v =>
          if Nat.eqb mode 0 then
            bindo (int_of value) (fun value_v =>
              if (low_v <=? value_v)%Z && (value_v <=? high_v)%Z then ORes [[low; high; value]] else ORes [])
          else ORes (map (fun v => [low; high; PInt v]) (zrange low_v (high_v + 1))))))
  | _ => bad_arity
  end.

(* ---- succ/2 *)
Definition body_succ (args : list pterm) : outcome :=
  match args with
  | [a; b] =>
      with_mode "_builtin_succ" args (fun mode =>
        if Nat.eqb mode 0 then bindo (int_of b) (fun b_v => ORes [[PInt (b_v - 1); b]])
        else if Nat.eqb mode 1 then bindo (int_of a) (fun a_v => ORes [[a; PInt (a_v + 1)]])
        else bindo (int_of a) (fun a_v => bindo (int_of b) (fun b_v =>
               if (b_v =? a_v + 1)%Z then ORes [[a; b]] else ORes [])))
  | _ => bad_arity
  end.

(* ---- plus/3 *)
Definition body_plus (args : list pterm) : outcome :=
  match args with
  | [a; b; c] =>
      with_mode "_builtin_plus" args (fun mode =>
        if Nat.eqb mode 0 then
          bindo (int_of a) (fun a_v => bindo (int_of b) (fun b_v => bindo (int_of c) (fun c_v =>
            if (a_v + b_v =? c_v)%Z then ORes [[a; b; c]] else ORes [])))
        else if Nat.eqb mode 1 then
          bindo (int_of a) (fun a_v => bindo (int_of b) (fun b_v => ORes [[a; b; PInt (a_v + b_v)]]))
        else if Nat.eqb mode 2 then
          bindo (int_of a) (fun a_v => bindo (int_of c) (fun c_v => ORes [[a; PInt (c_v - a_v); c]]))
        else
          bindo (int_of b) (fun b_v => bindo (int_of c) (fun c_v => ORes [[PInt (c_v - b_v); b; c]])))
  | _ => bad_arity
  end.

(* ---- length/2 *)
(* does the source still `raise UnifyError()` for a too-short requested length?  (read off the translated inventory) *)
Definition length_raises_unify : bool := existsb (String.eqb "raise UnifyError") prims_builtin_length.
Definition body_length (args : list pterm) : outcome :=
  match args with
  | [l; n] =>
      with_mode "_builtin_length" args (fun mode =>
        if Nat.eqb mode 0 || Nat.eqb mode 1 then
          let size := Z.of_nat (List.length (fst (list_elements l))) in
          match n with
          | PInt z => if (z =? size)%Z then ORes [[l; PInt size]] else ORes []
          | PNone | PSlot _ | PVarObj _ => ORes [[l; PInt size]]
          | _ => OAny
          end
        else
          let elements := if Nat.eqb mode 2 then fst (list_elements l) else [] in
          bindo (int_of n) (fun n_v =>
            let remain := (n_v - Z.of_nat (List.length elements))%Z in
            if (remain <? 0)%Z then (if length_raises_unify then OUnifyError else ORes [])
            else ORes [[build_list (elements ++ repeat (PSlot 0) (Z.to_nat remain)) nil_term; n]]))
  | _ => bad_arity
  end.

(* ---- functor/3 *)
Definition body_functor (args : list pterm) : outcome :=
  match args with
  | [term; functor; arity] =>
      with_mode "_builtin_functor" args (fun mode =>
        if Nat.eqb mode 0 then
          bindo (int_of arity) (fun n =>
            match functor with
            | PApp f _ => ORes [[PApp f (repeat PNone (Z.to_nat n)); functor; arity]]
            | _ => OAny
            end)
        else bindo (attr_ok term) (fun _ => OAny))          (* term.functor, term.arity, then unify_value *)
  | _ => bad_arity
  end.

(* ---- arg/3 *)
Definition body_arg (args : list pterm) : outcome :=
  match args with
  | [index; term; arguments] =>
      with_mode "_builtin_arg" args (fun _ =>
        bindo (int_of index) (fun i =>
          bindo (attr_ok term) (fun _ =>
            let targs := match term with PApp _ a => a | _ => [] end in
            let index_v := (i - 1)%Z in
            if (0 <=? index_v)%Z && (index_v <? Z.of_nat (List.length targs))%Z then
              match nth_error targs (Z.to_nat index_v) with
              | Some _ => OAny                                   (* unify_value(arg, arguments) *)
              | None => OStuck "IndexError"
              end
            else ORes [])))
  | _ => bad_arity
  end.

(* ---- =../2 *)
Definition body_split_call (args : list pterm) : outcome :=
  match args with
  | [term; parts] =>
      with_mode "_builtin_split_call" args (fun mode =>
        if Nat.eqb mode 0 then
          match fst (list_elements parts) with
          | [] => OCallModeError
          | [e] => ORes [[e; parts]]
          | hd :: rest =>
              if negb (is_atom_b hd) then OCallModeError
              else bindo (call_term hd rest) (fun t => ORes [[t; parts]])
          end
        else bindo (with_args0_ok term) (fun _ => OAny))     (* term.with_args(), term.args, unify_value, elements[0](...) *)
  | _ => bad_arity
  end.

(* ---- compare/3 : struct_cmp is C15's; here only the attribute accesses and the tuple index *)
Definition body_compare (args : list pterm) : outcome :=
  match args with
  | [c; a; b] =>
      with_mode "_builtin_compare" args (fun mode =>
        if Nat.eqb mode 0 then bindo (attr_ok c) (fun _ => OAny) else OAny)
  | _ => bad_arity
  end.

(* ---- sort/2 *)
Definition body_sort (args : list pterm) : outcome :=
  match args with
  | [l; s] => with_mode "_builtin_sort" args (fun _ => OAny)
  | _ => bad_arity
  end.

(* ---- atom_number/2 *)
Definition lower (s : string) : string :=
  string_of_list_ascii (map (fun c => let n := nat_of_ascii c in if (65 <=? n)%nat && (n <=? 90)%nat then ascii_of_nat (n + 32) else c)
                            (list_ascii_of_string s)).
Definition strip_sign (s : string) : string :=
  match s with String c r => if Ascii.eqb c "+" || Ascii.eqb c "-" then r else s | _ => s end.
(* float(s) for the spellings Python accepts for the special values (case-insensitive, optional sign) *)
Definition special_float (s : string) : option fval :=
  let b := lower (strip_sign s) in
  if String.eqb b "inf" || String.eqb b "infinity" then Some (FInf false)
  else if String.eqb b "nan" then Some FNan else None.

Definition body_atom_number (args : list pterm) : outcome :=
  match args with
  | [atom; number] =>
      with_mode "_builtin_atom_number" args (fun mode =>
        if Nat.eqb mode 0 || Nat.eqb mode 1 then OAny                     (* Term(str(number)) *)
        else if Nat.eqb mode 2 then
          match atom with
          | PApp f _ =>
              match special_float f with                                  (* v = float(atom.functor) *)
              | Some (FInf _) => if atom_number_round_guarded then OAny else OStuck "OverflowError"   (* round(v) *)
              | Some FNan => if atom_number_round_guarded then OAny else OStuck "ValueError"       (* round(v), outside the try *)
              | _ => OUnknown                                              (* numeral syntax is not modelled *)
              end
          | _ => OStuck "AttributeError"
          end
        else ORes [])                                                     (* `atom == str(number)`: a Term never equals a str *)
  | _ => bad_arity
  end.

(* ---- nocache/2 *)
Definition body_nocache (args : list pterm) : outcome :=
  match args with
  | [functor; arity] => with_mode "_builtin_nocache" args (fun _ => bindo (int_of arity) (fun _ => OBool true))
  | _ => bad_arity
  end.

(* ---- numbervars/3: `term.apply(...)` *)
Definition body_numbervars (args : list pterm) : outcome :=
  match args with
  | [term; start; output] =>
      with_mode "_builtin_numbervars" args (fun _ => bindo (int_of start) (fun _ => bindo (attr_ok term) (fun _ =>
        (* unify_value(term.apply(..), output) outside any try: UnifyError escapes unless output is unbound *)
        if is_var_b output || negb (existsb (String.eqb "unguarded:unify_value") prims_builtin_numbervars) then OAny else OUnknown)))
  | _ => bad_arity
  end.

(* ---- type tests: the translated one-line bodies *)
Definition body_tt (name : string) (args : list pterm) : outcome :=
  match args with
  | [t] =>
      match find (fun r => String.eqb (fst r) name) type_tests with
      | Some r => match snd r t with Some b => OBool b | None => OStuck "AttributeError" end
      | None => OUnknown
      end
  | _ => bad_arity
  end.

(* ------------------------------------------------------------------ arithmetic (is/2 and the comparisons) *)
Inductive aval := VI (z : Z) | VF | VS (s : string).
Inductive ares := AV (v : aval) | AErr | AStuck (e : string) | AUnknown.

(* logic.unquote: s.strip("'") *)
Fixpoint lstrip_q (l : list ascii) : list ascii :=
  match l with c :: r => if Ascii.eqb c "'" then lstrip_q r else l | nil => nil end.
Definition unquote (s : string) : string :=
  string_of_list_ascii (rev (lstrip_q (rev (lstrip_q (list_ascii_of_string s))))).

Definition known_function (name : string) (arity : nat) : bool :=
  existsb (fun r => String.eqb (fst r) name && Nat.eqb (snd r) arity) arith_functions.

Definition mem (s : string) (l : list string) : bool := existsb (String.eqb s) l.
Definition big : Z := 4096%Z.

Definition un_op (name : string) (v : aval) : ares :=
  match v with
  | VI a =>
      if String.eqb name "-" then AV (VI (- a)) else
      if String.eqb name "+" then AV (VI a) else
      if String.eqb name "\" then AV (VI (Z.lnot a)) else
      if String.eqb name "abs" then AV (VI (Z.abs a)) else
      if String.eqb name "sign" then AV (VI (Z.sgn a)) else
      if mem name ["integer"; "ceiling"; "round"; "floor"; "truncate"; "float_integer_part"] then AV (VI a) else
      if String.eqb name "float_fractional_part" then AV (VI 0) else AUnknown
  | VF => if mem name ["-"; "+"; "abs"] then AV VF else AUnknown
  | VS s =>
      if String.eqb name "+" then AV (VS s) else
      if mem name ["-"; "\"; "abs"; "sign"] then AStuck "TypeError" else AUnknown
  end.

Definition type_error_ops : list string := ["-"; "/\"; "\/"; "xor"; "#"; "><"; "/"; "//"; "<<"; ">>"; "**"; "^"].

Definition bin_op (name : string) (v w : aval) : ares :=
  match v, w with
  | VI a, VI b =>
      if String.eqb name "+" then AV (VI (a + b)) else
      if String.eqb name "-" then AV (VI (a - b)) else
      if String.eqb name "*" then AV (VI (a * b)) else
      if String.eqb name "//" then (if (b =? 0)%Z then AErr else AV (VI (Z.quot a b))) else   (* truncating since repo commit 0b983d1 *)
      if mem name ["mod"; "rem"] then (if (b =? 0)%Z then AErr else AV (VI (a mod b))) else
      if String.eqb name "div" then (if (b =? 0)%Z then AErr else AV (VI ((a - a mod b) / b))) else
      if String.eqb name "/" then (if (b =? 0)%Z then AErr else AUnknown) else
      if String.eqb name "/\" then AV (VI (Z.land a b)) else
      if String.eqb name "\/" then AV (VI (Z.lor a b)) else
      if mem name ["xor"; "#"; "><"] then AV (VI (Z.lxor a b)) else
      if String.eqb name "<<" then (if (b <? 0)%Z then AErr else if (big <? b)%Z then AUnknown else AV (VI (Z.shiftl a b))) else
      if String.eqb name ">>" then (if (b <? 0)%Z then AErr else AV (VI (Z.shiftr a b))) else
      if mem name ["**"; "^"] then
        (if (b <? 0)%Z then (if (a =? 0)%Z then AErr else AUnknown) else if (big <? b)%Z then AUnknown else AV (VI (a ^ b))) else
      if String.eqb name "min" then AV (VI (Z.min a b)) else
      if String.eqb name "max" then AV (VI (Z.max a b)) else AUnknown
  | VS s, VS s' =>
      if String.eqb name "+" then AV (VS (s ++ s')) else
      if String.eqb name "*" || mem name type_error_ops then AStuck "TypeError" else AUnknown
  | VS _, VI _ | VI _, VS _ =>
      if String.eqb name "+" || mem name type_error_ops || mem name ["min"; "max"] then AStuck "TypeError" else AUnknown
  | _, _ => AUnknown
  end.

(* the `except` clauses of compute_function (translated: arith_caught) turn these exceptions into ArithmeticError *)
Definition catch (r : ares) : ares :=
  match r with AStuck e => if mem e arith_caught then AErr else r | _ => r end.

(* Term.compute_value -> compute_function (shape pinned by the translator, handlers translated) *)
Fixpoint aeval (t : pterm) : ares :=
  match t with
  | PNone | PSlot _ => AStuck "AttributeError"
  | PVarObj _ => AErr
  | PInt z => AV (VI z)
  | PFloat _ => AV VF
  | PStr s => AV (VS s)
  | PObj _ => AUnknown
  | PApp f args =>
      let name := unquote f in
      if negb (known_function name (List.length args)) then AErr else
      catch
      match args with
      | [] => AV VF
      | [x] => match aeval x with AV v => un_op name v | r => r end
      | [x; y] => match aeval x with
                  | AV v => match aeval y with AV w => bin_op name v w | r => r end
                  | r => r end
      | _ => AUnknown
      end
  end.

Definition body_is (args : list pterm) : outcome :=
  match args with
  | [a; b] =>
      with_mode "_builtin_is" args (fun _ =>
        match aeval b with
        | AV (VI z) =>
            match a with
            | PNone | PSlot _ | PVarObj _ => ORes [[PInt z; b]]
            | PInt z' => if (z =? z')%Z then ORes [[PInt z; b]] else ORes []
            | _ => OAny
            end
        | AV _ => OAny
        | AErr => OArithError
        | AStuck e => OStuck e
        | AUnknown => OUnknown
        end)
  | _ => bad_arity
  end.

Definition cmp_fun (pyname : string) : option (Z -> Z -> bool) :=
  if String.eqb pyname "_builtin_gt" then Some Z.gtb else
  if String.eqb pyname "_builtin_lt" then Some Z.ltb else
  if String.eqb pyname "_builtin_le" then Some Z.leb else
  if String.eqb pyname "_builtin_ge" then Some Z.geb else
  if String.eqb pyname "_builtin_val_eq" then Some Z.eqb else
  if String.eqb pyname "_builtin_val_neq" then Some (fun a b => negb (Z.eqb a b)) else None.
Definition is_ordering (pyname : string) : bool := mem pyname ["_builtin_gt"; "_builtin_lt"; "_builtin_le"; "_builtin_ge"].

Definition body_cmp (pyname : string) (args : list pterm) : outcome :=
  match args, cmp_fun pyname with
  | [a; b], Some f =>
      with_mode pyname args (fun _ =>
        match aeval a with
        | AV v =>
            match aeval b with
            | AV w =>
                match v, w with
                | VI x, VI y => OBool (f x y)
                | VS _, (VI _ | VF) | (VI _ | VF), VS _ =>
                    if is_ordering pyname then (if mem pyname cmp_type_guarded then OArithError else OStuck "TypeError") else OAny
                | _, _ => OAny
                end
            | AErr => OArithError | AStuck e => OStuck e | AUnknown => OUnknown
            end
        | AErr => OArithError | AStuck e => OStuck e | AUnknown => OUnknown
        end)
  | _, _ => bad_arity
  end.

(* ------------------------------------------------------------------ comparing with the implementation *)
Definition fval_eqb (a b : fval) : bool :=
  match a, b with
  | FFin i t, FFin i' t' => Bool.eqb i i' && (t =? t')%Z
  | FInf n, FInf n' => Bool.eqb n n'
  | FNan, FNan => true
  | _, _ => false
  end.
(* variable-blind equality: variable numbering is the engine's business *)
Fixpoint pterm_eqb (a b : pterm) : bool :=
  match a, b with
  | (PNone | PSlot _ | PVarObj _), (PNone | PSlot _ | PVarObj _) => true
  | PInt x, PInt y => (x =? y)%Z
  | PFloat x, PFloat y => fval_eqb x y
  | PStr x, PStr y => String.eqb x y
  | PObj _, PObj _ => true
  | PApp f xs, PApp g ys =>
      String.eqb f g &&
      (fix go (l1 l2 : list pterm) : bool :=
         match l1, l2 with
         | nil, nil => true
         | x :: r1, y :: r2 => pterm_eqb x y && go r1 r2
         | _, _ => false
         end) xs ys
  | _, _ => false
  end.
Fixpoint list_eqb {A} (eq : A -> A -> bool) (l1 l2 : list A) : bool :=
  match l1, l2 with
  | nil, nil => true
  | x :: r1, y :: r2 => eq x y && list_eqb eq r1 r2
  | _, _ => false
  end.

Definition mres_eqb (a b : mres) : bool :=
  match a, b with
  | Accept i, Accept j => Nat.eqb i j
  | CallModeError, CallModeError => true
  | ModeStuck, ModeStuck => true
  | _, _ => false
  end.

(* model outcome vs observed outcome (observed is never OAny/OUnknown) *)
Definition outcome_agrees (model observed : outcome) : bool :=
  match model, observed with
  | OUnknown, _ => true
  | OAny, (ORes _ | OBool _ | OOtherPLError) => true
  | ORes a, ORes b => list_eqb (list_eqb pterm_eqb) a b
  | OBool a, OBool b => Bool.eqb a b
  | OBool false, ORes [] => true
  | OCallModeError, OCallModeError => true
  | OArithError, OArithError => true
  | OUnifyError, OUnifyError => true
  | OStuck e, OStuck e' => String.eqb e e'
  | _, _ => false
  end.

(* ------------------------------------------------------------------ which partial Python primitives the bodies above account for.
   The translator regenerates the inventory from the source (GenModes.all_prims); Props.v states that every
   generated entry is accounted for here, so a NEW `int(x)` / attribute access / subscript / raise / unguarded
   unify_value in a modelled body breaks an obligation.
     int(x)            -> int_of            x.functor/.args/.arity/.with_args/.apply -> attr_ok
     x.args[i]         -> nth_error (OStuck "IndexError")      elements[0](...)     -> call_term
     compares[1 - cp]  -> in range because struct_cmp returns -1/0/1 (C15)
     float(atom.functor), round(v), int(v) -> special_float / OUnknown
     x.compute_value, cmp:a < b -> aeval / body_cmp            range(..), cmp on ints -> total
     raise UnifyError -> OUnifyError      raise CallModeError -> OCallModeError
     raise ArithmeticError (only once the comparisons are wrapped, see cmp_type_guarded) -> OArithError
     set(..)/sorted(..) -> OAny under the C15 assumption *)
Definition accounted_prims : list (string * list string) :=
  [("_builtin_between", ["cmp:low_v <= value_v <= high_v"; "int(high)"; "int(low)"; "int(value)"; "range(low_v, high_v + 1)"]);
   ("_builtin_succ", ["int(a)"; "int(b)"]);
   ("_builtin_plus", ["int(a)"; "int(b)"; "int(c)"]);
   ("_builtin_length", ["cmp:remain < 0"; "int(n)"; "raise UnifyError"; "range(min_var, min_var - remain, -1)"]);
   ("_builtin_functor", ["int(arity)"; "term.arity"; "term.functor"]);
   ("_builtin_arg", ["cmp:0 <= index_v < len(term.args)"; "int(index)"; "term.args"; "term.args[index_v]"]);
   ("_builtin_split_call", ["call:elements[0]"; "cmp:len(elements) > 1"; "elements[0]"; "elements[1:]"; "raise CallModeError"; "term.args"; "term.with_args"]);
   ("_builtin_sort", ["set(elements)"; "sorted(set(elements), key=StructSort)"]);
   ("_builtin_compare", ["c.functor"; "compares[1 - cp]"]);
   ("_builtin_atom_number", ["atom.functor"; "float(atom.functor)"; "int(v)"; "round(v)"]);
   ("_builtin_is", ["b.compute_value"]);
   ("_builtin_gt", ["arg1.compute_value"; "arg2.compute_value"; "cmp:a_value > b_value"; "raise ArithmeticError"]);
   ("_builtin_lt", ["arg1.compute_value"; "arg2.compute_value"; "cmp:a_value < b_value"; "raise ArithmeticError"]);
   ("_builtin_le", ["arg1.compute_value"; "arg2.compute_value"; "cmp:a_value <= b_value"; "raise ArithmeticError"]);
   ("_builtin_ge", ["arg1.compute_value"; "arg2.compute_value"; "cmp:a_value >= b_value"; "raise ArithmeticError"]);
   ("_builtin_val_neq", ["a.compute_value"; "b.compute_value"]);
   ("_builtin_val_eq", ["a.compute_value"; "b.compute_value"]);
   ("_builtin_nocache", ["int(arity)"]);
   ("_builtin_numbervars", ["int(start)"; "self._table[item]"; "term.apply"; "unguarded:unify_value"])].

(* every primitive the translator finds in a modelled body is accounted for (removing one, e.g. by a repair, is fine) *)
Definition prims_accounted : bool :=
  forallb (fun g => match find (fun a => String.eqb (fst a) (fst g)) accounted_prims with
                    | Some a => forallb (fun p => mem p (snd a)) (snd g)
                    | None => false end) all_prims
  && Nat.eqb (List.length all_prims) (List.length accounted_prims).
