(* C27 -- refutation witnesses: declared call modes that do NOT guard the body's partial operations.
   Outside the cone of Props.v.  If one of these stops compiling, the defect is gone (recorded, never a violation). *)
From Coq Require Import ZArith List Bool String Ascii.
From PL.C27 Require Import ModelTerms GenModes ModelModes ModelBuiltins ProofsBuiltins.
Import ListNotations.
Open Scope string_scope.

(* atom_number(inf, X): mode "av" accepts, round(float('inf')) raises OverflowError.
   program: `q :- atom_number(inf, X). query(q).` *)
Theorem C27_mode_safe_atom_number_refuted :
  exists a n i, check_mode [a; n] (site_modes "_builtin_atom_number") = Accept i /\ is_stuck (body_atom_number [a; n]) = true.
Proof. exists (PApp "inf" []), (PSlot (-1)), 2%nat. split; vm_compute; reflexivity. Qed.

(* atom_number(nan, X): round(float('nan')) raises ValueError outside the try.
   program: `q :- atom_number(nan, X). query(q).` *)
Theorem C27_mode_safe_atom_number_nan_refuted :
  exists a n i, check_mode [a; n] (site_modes "_builtin_atom_number") = Accept i /\ body_atom_number [a; n] = OStuck "ValueError".
Proof. exists (PApp "nan" []), (PSlot (-1)), 2%nat. split; vm_compute; reflexivity. Qed.

(* numbervars(X, 0, E) with X unbound: '*' accepts, term.apply raises AttributeError on the int slot.
   program: `q :- numbervars(X, 0, E). query(q).` *)
Theorem C27_mode_safe_numbervars_refuted :
  exists t s o i, check_mode [t; s; o] (site_modes "_builtin_numbervars") = Accept i /\ body_numbervars [t; s; o] = OStuck "AttributeError".
Proof. exists (PSlot (-1)), (PInt 0), (PSlot (-2)), 0%nat. split; vm_compute; reflexivity. Qed.

(* (removed) C27_is_safe_refuted -- `X is "a" + 1` raised TypeError because compute_function converted only ValueError and
   ZeroDivisionError.  Repo commit 168ee04 added OverflowError and TypeError to that `except` clause; the translator reads
   the clause (arith_caught), the model now answers OArithError, and the witness no longer exists. *)

(* "a" < 1: the comparison `a_value < b_value` itself raises TypeError.   program: `q :- "a" < 1. query(q).` *)
Theorem C27_compare_safe_refuted :
  exists a b i, check_mode [a; b] (site_modes "_builtin_lt") = Accept i /\ body_cmp "_builtin_lt" [a; b] = OStuck "TypeError".
Proof. exists (PStr """a"""), (PInt 1), 0%nat. split; vm_compute; reflexivity. Qed.

(* length(L, -1) (or length([a,b|T], 1)): mode "vI"/"lI" accepts, the body does `raise UnifyError()`, which is not a
   ProbLogError and escapes whenever the call is not the first goal of the clause body.
   program: `b(a). q :- b(_), length(L, -1). query(q).` *)
Theorem C27_mode_safe_length_refuted :
  exists l n i, check_mode [l; n] (site_modes "_builtin_length") = Accept i /\ body_length [l; n] = OUnifyError.
Proof. exists (PSlot (-1)), (PInt (-1)), 3%nat. split; vm_compute; reflexivity. Qed.
