(* C27 -- term classification (specification level) and `check_mode`, as the code computes it.
   No proofs in this file. *)
From Coq Require Import ZArith List Bool String Ascii.
From PL.C27 Require Import ModelTerms GenModes.
Import ListNotations.
Open Scope string_scope.

(* ---- specification-level classification of a builtin argument.  ProofsModes.v shows that every
   translated `_is_*` predicate equals `Some` of its classifier: the predicates never raise. *)
Definition is_var_b (t : pterm) : bool := match t with PNone | PSlot _ | PVarObj _ => true | _ => false end.
Definition is_nonvar_b (t : pterm) : bool := negb (is_var_b t).
Definition is_constant_b (t : pterm) : bool := match t with PInt _ | PFloat _ | PStr _ | PObj _ => true | _ => false end.
Definition is_term_b (t : pterm) : bool := match t with PApp _ _ => true | _ => false end.
Definition is_integer_pos_b (t : pterm) : bool := match t with PInt _ => true | _ => false end.
Definition is_float_pos_b (t : pterm) : bool := match t with PFloat _ => true | _ => false end.
Definition is_minus1 (p : pterm -> bool) (t : pterm) : bool :=
  match t with PApp f (a :: nil) => String.eqb f "'-'" && p a | _ => false end.
Definition is_integer_neg_b := is_minus1 is_integer_pos_b.
Definition is_float_neg_b := is_minus1 is_float_pos_b.
Definition is_integer_b t := is_integer_pos_b t || is_integer_neg_b t.
Definition is_float_b t := is_float_pos_b t || is_float_neg_b t.
Definition is_number_b t := is_float_b t || is_integer_b t.
Definition is_string_b (t : pterm) : bool := match t with PStr _ => true | _ => false end.
Definition is_atom_b (t : pterm) : bool := match t with PApp _ nil => true | _ => false end.
Definition is_compound_b (t : pterm) : bool := match t with PApp _ (_ :: _) => true | _ => false end.
Definition is_atomic_b t := is_nonvar_b t && negb (is_compound_b t).
Definition is_list_maybe_b (t : pterm) : bool :=
  match t with PApp f (_ :: _ :: nil) => String.eqb f "." | _ => false end.
Definition is_list_empty_b (t : pterm) : bool := match t with PApp f nil => String.eqb f "[]" | _ => false end.
Definition is_list_nonempty_b t := is_list_maybe_b t && (is_list_empty_b (list_tail t) || is_var_b (list_tail t)).
Definition is_fixed_list_nonempty_b t := is_list_maybe_b t && is_list_empty_b (list_tail t).
Definition is_list_b t := is_list_empty_b t || is_list_nonempty_b t.
Definition is_fixed_list_b t := is_list_empty_b t || is_fixed_list_nonempty_b t.
Definition is_compare_b (t : pterm) : bool :=
  match t with PApp f nil => existsb (String.eqb f) ["'<'"; "'='"; "'>'"] | _ => false end.
Definition is_object_b (t : pterm) : bool := match t with PObj _ => true | _ => false end.

(* the letters of mode_types at specification level *)
Definition letter_spec (c : ascii) : option (pterm -> bool) :=
  if Ascii.eqb c "i" then Some is_integer_b else
  if Ascii.eqb c "I" then Some is_integer_pos_b else
  if Ascii.eqb c "f" then Some is_float_b else
  if Ascii.eqb c "v" then Some is_var_b else
  if Ascii.eqb c "n" then Some is_nonvar_b else
  if Ascii.eqb c "l" then Some is_list_b else
  if Ascii.eqb c "L" then Some is_fixed_list_b else
  if Ascii.eqb c "*" then Some (fun _ => true) else
  if Ascii.eqb c "<" then Some is_compare_b else
  if Ascii.eqb c "g" then Some ground else
  if Ascii.eqb c "a" then Some is_atom_b else
  if Ascii.eqb c "c" then Some is_term_b else
  if Ascii.eqb c "o" then Some is_object_b else
  if Ascii.eqb c "s" then Some (fun t => is_string_b t || is_atom_b t) else None.

(* ---- check_mode, as written in engine_builtin.py (shape pinned by the translator) *)
(* mode_types[t]  -- KeyError when the letter is not in the table *)
Definition lookup_letter (c : ascii) : option (pterm -> option bool) :=
  match find (fun r => Ascii.eqb (fst r) c) mode_types with
  | Some r => Some (snd (snd r))
  | None => None
  end.

Inductive mres := Accept (i : nat) | CallModeError | ModeStuck.

(* inner loop:  for a, t in zip(args, mode): name, test = mode_types[t]; if not test(a): correct = False; break *)
Fixpoint mode_matches (args : list pterm) (mode : list ascii) : option bool :=
  match args, mode with
  | a :: args', t :: mode' =>
      match lookup_letter t with
      | None => None
      | Some test =>
          match test a with
          | None => None
          | Some false => Some false
          | Some true => mode_matches args' mode'
          end
      end
  | _, _ => Some true
  end.

(* outer loop: for i, mode in enumerate(accepted): ... if correct: return i;  then raise CallModeError *)
Fixpoint check_mode_from (i : nat) (args : list pterm) (accepted : list (list ascii)) : mres :=
  match accepted with
  | nil => CallModeError
  | m :: rest =>
      match mode_matches args m with
      | None => ModeStuck
      | Some true => Accept i
      | Some false => check_mode_from (S i) args rest
      end
  end.

Definition check_mode (args : list pterm) (accepted : list string) : mres :=
  check_mode_from 0 args (map list_ascii_of_string accepted).

(* specification of one mode string: zip-wise conjunction of the letters' classifiers *)
Fixpoint mode_spec (args : list pterm) (mode : list ascii) : option bool :=
  match args, mode with
  | a :: args', t :: mode' =>
      match letter_spec t with
      | None => None
      | Some p => if p a then mode_spec args' mode' else Some false
      end
  | _, _ => Some true
  end.

Definition known_mode (m : list ascii) : bool := forallb (fun c => match lookup_letter c with Some _ => true | None => false end) m.

(* a call site is well formed when every mode string has one known letter per checked argument *)
Definition site_wf (s : site) : bool :=
  forallb (fun m => Nat.eqb (String.length m) (List.length (s_argidx s)) && known_mode (list_ascii_of_string m)) (s_modes s)
  && negb (match s_modes s with nil => true | _ => false end).

Definition site_check (s : site) (args : list pterm) : mres := check_mode args (s_modes s).

Definition sites_of (name : string) (arity : nat) : list site :=
  flat_map (fun r => match r with (n, a, idx) =>
     if String.eqb n name && Nat.eqb a arity then flat_map (fun i => match nth_error check_sites i with Some s => [s] | None => [] end) idx else [] end)
   builtin_sites.
