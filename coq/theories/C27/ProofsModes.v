(* C27 -- lemmas about the translated type predicates and check_mode. *)
From Coq Require Import ZArith List Bool String Ascii Lia.
From PL.C27 Require Import ModelTerms GenModes ModelModes.
Import ListNotations.
Open Scope string_scope.

(* ------------------------------------------------------------------ induction on pterm *)
Section PtermInd.
  Variable P : pterm -> Prop.
  Hypothesis HNone : P PNone.
  Hypothesis HSlot : forall z, P (PSlot z).
  Hypothesis HVarObj : forall n, P (PVarObj n).
  Hypothesis HInt : forall z, P (PInt z).
  Hypothesis HFloat : forall f, P (PFloat f).
  Hypothesis HStr : forall s, P (PStr s).
  Hypothesis HObj : forall o, P (PObj o).
  Hypothesis HApp : forall f args, Forall P args -> P (PApp f args).
  Fixpoint pterm_ind' (t : pterm) : P t :=
    match t with
    | PNone => HNone | PSlot z => HSlot z | PVarObj n => HVarObj n | PInt z => HInt z
    | PFloat f => HFloat f | PStr s => HStr s | PObj o => HObj o
    | PApp f args => HApp f args ((fix go (l : list pterm) : Forall P l :=
                                     match l with nil => Forall_nil P | x :: r => Forall_cons x (pterm_ind' x) (go r) end) args)
    end.
End PtermInd.

(* ------------------------------------------------------------------ arity arithmetic *)
Lemma len_eq0 : forall (l : list pterm), Z.eqb (Z.of_nat (List.length l)) 0 = match l with nil => true | _ => false end.
Proof. destruct l; [reflexivity|]. apply Z.eqb_neq. cbn [List.length]. lia. Qed.
Lemma len_eq1 : forall (l : list pterm), Z.eqb (Z.of_nat (List.length l)) 1 = match l with _ :: nil => true | _ => false end.
Proof. destruct l as [|a [|b r]]; try reflexivity. apply Z.eqb_neq. cbn [List.length]. lia. Qed.
Lemma len_eq2 : forall (l : list pterm), Z.eqb (Z.of_nat (List.length l)) 2 = match l with _ :: _ :: nil => true | _ => false end.
Proof. destruct l as [|a [|b [|c r]]]; try reflexivity. apply Z.eqb_neq. cbn [List.length]. lia. Qed.
Lemma len_gt0 : forall (l : list pterm), Z.gtb (Z.of_nat (List.length l)) 0 = match l with nil => false | _ => true end.
Proof. destruct l; [reflexivity|]. rewrite Z.gtb_ltb. apply Z.ltb_lt. cbn [List.length]. lia. Qed.

Ltac arity := cbn [a_arity omap obind]; rewrite ?len_eq0, ?len_eq1, ?len_eq2, ?len_gt0.

(* ------------------------------------------------------------------ each predicate = Some (its classifier) *)
Lemma py_is_var_spec : forall t, py_is_var t = Some (is_var_b t).
Proof. destruct t; reflexivity. Qed.
Lemma py_is_nonvar_spec : forall t, py_is_nonvar t = Some (is_nonvar_b t).
Proof. intro t. unfold py_is_nonvar. cbn [obind]. rewrite py_is_var_spec. reflexivity. Qed.
Lemma py_is_constant_spec : forall t, py_is_constant t = Some (is_constant_b t).
Proof. intro t. unfold py_is_constant. cbn [obind]. rewrite py_is_var_spec. destruct t; reflexivity. Qed.
Lemma py_is_term_spec : forall t, py_is_term t = Some (is_term_b t).
Proof. intro t. unfold py_is_term. cbn [obind]. rewrite py_is_var_spec, py_is_constant_spec. destruct t; reflexivity. Qed.
Lemma py_is_integer_pos_spec : forall t, py_is_integer_pos t = Some (is_integer_pos_b t).
Proof. intro t. unfold py_is_integer_pos. cbn [obind]. rewrite py_is_constant_spec. destruct t; reflexivity. Qed.
Lemma py_is_float_pos_spec : forall t, py_is_float_pos t = Some (is_float_pos_b t).
Proof. intro t. unfold py_is_float_pos. cbn [obind]. rewrite py_is_constant_spec. destruct t; reflexivity. Qed.
Lemma py_is_string_spec : forall t, py_is_string t = Some (is_string_b t).
Proof. intro t. unfold py_is_string. cbn [obind]. rewrite py_is_constant_spec. destruct t; reflexivity. Qed.
Lemma py_is_integer_neg_spec : forall t, py_is_integer_neg t = Some (is_integer_neg_b t).
Proof.
  intro t. unfold py_is_integer_neg. cbn [obind]. rewrite py_is_term_spec.
  destruct t as [| | | | | | |f args]; try reflexivity. arity.
  destruct args as [|a [|b r]]; try reflexivity.
  cbn [is_term_b pand a_functor_eq a_args_nth nth_error obind]. rewrite py_is_integer_pos_spec.
  unfold is_integer_neg_b, is_minus1. destruct (String.eqb f "'-'"); reflexivity.
Qed.
Lemma py_is_float_neg_spec : forall t, py_is_float_neg t = Some (is_float_neg_b t).
Proof.
  intro t. unfold py_is_float_neg. cbn [obind]. rewrite py_is_term_spec.
  destruct t as [| | | | | | |f args]; try reflexivity. arity.
  destruct args as [|a [|b r]]; try reflexivity.
  cbn [is_term_b pand a_functor_eq a_args_nth nth_error obind]. rewrite py_is_float_pos_spec.
  unfold is_float_neg_b, is_minus1. destruct (String.eqb f "'-'"); reflexivity.
Qed.
Lemma py_is_integer_spec : forall t, py_is_integer t = Some (is_integer_b t).
Proof. intro t. unfold py_is_integer. cbn [obind]. rewrite py_is_integer_pos_spec, py_is_integer_neg_spec.
  unfold is_integer_b. destruct (is_integer_pos_b t); reflexivity. Qed.
Lemma py_is_float_spec : forall t, py_is_float t = Some (is_float_b t).
Proof. intro t. unfold py_is_float. cbn [obind]. rewrite py_is_float_pos_spec, py_is_float_neg_spec.
  unfold is_float_b. destruct (is_float_pos_b t); reflexivity. Qed.
Lemma py_is_number_spec : forall t, py_is_number t = Some (is_number_b t).
Proof. intro t. unfold py_is_number. cbn [obind]. rewrite py_is_float_spec, py_is_integer_spec.
  unfold is_number_b. destruct (is_float_b t); reflexivity. Qed.
Lemma py_is_atom_spec : forall t, py_is_atom t = Some (is_atom_b t).
Proof. intro t. unfold py_is_atom. cbn [obind]. rewrite py_is_term_spec.
  destruct t as [| | | | | | |f args]; try reflexivity. arity. destruct args; reflexivity. Qed.
Lemma py_is_compound_spec : forall t, py_is_compound t = Some (is_compound_b t).
Proof. intro t. unfold py_is_compound. cbn [obind]. rewrite py_is_term_spec.
  destruct t as [| | | | | | |f args]; try reflexivity. arity. destruct args; reflexivity. Qed.
Lemma py_is_atomic_spec : forall t, py_is_atomic t = Some (is_atomic_b t).
Proof. intro t. unfold py_is_atomic. cbn [obind]. rewrite py_is_nonvar_spec, py_is_compound_spec.
  unfold is_atomic_b. destruct (is_nonvar_b t); reflexivity. Qed.
Lemma py_is_list_empty_spec : forall t, py_is_list_empty t = Some (is_list_empty_b t).
Proof. intro t. unfold py_is_list_empty. cbn [obind]. rewrite py_is_atom_spec.
  destruct t as [| | | | | | |f args]; try reflexivity. destruct args; reflexivity. Qed.
Lemma py_is_list_maybe_spec : forall t, py_is_list_maybe t = Some (is_list_maybe_b t).
Proof. intro t. unfold py_is_list_maybe. cbn [obind]. rewrite py_is_compound_spec.
  destruct t as [| | | | | | |f args]; try reflexivity. arity.
  destruct args as [|a [|b [|c r]]]; cbn; try reflexivity; destruct (String.eqb f "."); reflexivity. Qed.
Lemma py_is_list_nonempty_spec : forall t, py_is_list_nonempty t = Some (is_list_nonempty_b t).
Proof. intro t. unfold py_is_list_nonempty. cbn [obind omap]. rewrite py_is_list_maybe_spec, py_is_list_empty_spec, py_is_var_spec.
  unfold is_list_nonempty_b. destruct (is_list_maybe_b t); cbn [pif andb]; [|reflexivity].
  destruct (is_list_empty_b (list_tail t)); reflexivity. Qed.
Lemma py_is_fixed_list_nonempty_spec : forall t, py_is_fixed_list_nonempty t = Some (is_fixed_list_nonempty_b t).
Proof. intro t. unfold py_is_fixed_list_nonempty. cbn [obind omap]. rewrite py_is_list_maybe_spec, py_is_list_empty_spec.
  unfold is_fixed_list_nonempty_b. destruct (is_list_maybe_b t); reflexivity. Qed.
Lemma py_is_list_spec : forall t, py_is_list t = Some (is_list_b t).
Proof. intro t. unfold py_is_list. cbn [obind]. rewrite py_is_list_empty_spec, py_is_list_nonempty_spec.
  unfold is_list_b. destruct (is_list_empty_b t); reflexivity. Qed.
Lemma py_is_fixed_list_spec : forall t, py_is_fixed_list t = Some (is_fixed_list_b t).
Proof. intro t. unfold py_is_fixed_list. cbn [obind]. rewrite py_is_list_empty_spec, py_is_fixed_list_nonempty_spec.
  unfold is_fixed_list_b. destruct (is_list_empty_b t); reflexivity. Qed.
Lemma py_is_compare_spec : forall t, py_is_compare t = Some (is_compare_b t).
Proof. intro t. unfold py_is_compare. cbn [obind]. rewrite py_is_atom_spec.
  destruct t as [| | | | | | |f args]; try reflexivity. destruct args; reflexivity. Qed.
Lemma py_is_object_spec : forall t, py_is_object t = Some (is_object_b t).
Proof. destruct t; reflexivity. Qed.

(* the hand-written loop of list_tail satisfies the Python loop's unfolding equation w.r.t. the
   *translated* `_is_list_maybe` *)
Lemma list_tail_unfold : forall t,
  list_tail t = match py_is_list_maybe t with
                | Some true => match a_args_nth 1 t with Some tl => list_tail tl | None => t end
                | _ => t end.
Proof.
  intro t. rewrite py_is_list_maybe_spec.
  destruct t as [| | | | | | |f args]; try reflexivity.
  destruct args as [|a [|b [|c r]]]; try reflexivity;
  try (cbn; destruct (String.eqb f "."); reflexivity).
Qed.
Lemma list_elements_unfold : forall t,
  list_elements t = match py_is_list_maybe t with
                    | Some true => match a_args_nth 0 t, a_args_nth 1 t with
                                   | Some h, Some tl => let (es, tail) := list_elements tl in (h :: es, tail)
                                   | _, _ => (nil, t) end
                    | _ => (nil, t) end.
Proof.
  intro t. rewrite py_is_list_maybe_spec.
  destruct t as [| | | | | | |f args]; try reflexivity.
  destruct args as [|a [|b [|c r]]]; try reflexivity;
  try (cbn; destruct (String.eqb f "."); reflexivity).
Qed.
Lemma list_elements_tail : forall t, snd (list_elements t) = list_tail t.
Proof.
  induction t using pterm_ind'; try reflexivity.
  destruct args as [|a [|b [|c r]]]; try reflexivity.
  cbn. destruct (String.eqb f "."); [|reflexivity].
  inversion H as [|? ? _ H2]; subst. inversion H2 as [|? ? Hb _]; subst.
  destruct (list_elements b) eqn:E. cbn in *. exact Hb.
Qed.

(* ------------------------------------------------------------------ the table: every letter's predicate = Some (letter_spec) *)
Lemma lookup_letter_spec : forall c p,
  lookup_letter c = Some p -> exists q, letter_spec c = Some q /\ forall t, p t = Some (q t).
Proof.
  intros c p. unfold lookup_letter, letter_spec, mode_types. cbn [find fst snd].
  repeat match goal with
  | |- context [Ascii.eqb ?x c] => rewrite (Ascii.eqb_sym x c); destruct (Ascii.eqb c x) eqn:?
  end;
  intro H; inversion H; subst; clear H; eexists; split; try reflexivity; intro t; cbn [obind];
  auto using py_is_integer_spec, py_is_integer_pos_spec, py_is_float_spec, py_is_var_spec, py_is_nonvar_spec,
    py_is_list_spec, py_is_fixed_list_spec, py_is_compare_spec, py_is_atom_spec, py_is_term_spec, py_is_object_spec.
  - rewrite py_is_string_spec, py_is_atom_spec. destruct (is_string_b t); reflexivity.
Qed.

Lemma letter_spec_lookup : forall c q, letter_spec c = Some q -> exists p, lookup_letter c = Some p.
Proof.
  intros c q. unfold lookup_letter, letter_spec, mode_types. cbn [find fst snd].
  repeat match goal with
  | |- context [Ascii.eqb ?x c] => rewrite (Ascii.eqb_sym x c); destruct (Ascii.eqb c x) eqn:?
  end; intro H; try discriminate; eexists; reflexivity.
Qed.

Lemma letter_pred_total : forall c p t, lookup_letter c = Some p -> p t <> None.
Proof. intros c p t H. destruct (lookup_letter_spec _ _ H) as (q & _ & Hq). rewrite Hq. discriminate. Qed.

(* ------------------------------------------------------------------ mode_matches / check_mode *)
Lemma mode_matches_spec : forall mode args, mode_matches args mode = mode_spec args mode.
Proof.
  intros mode args; revert mode. induction args as [|a args IH]; intros [|c mode]; try reflexivity.
  cbn [mode_matches mode_spec].
  destruct (lookup_letter c) as [p|] eqn:E.
  - destruct (lookup_letter_spec _ _ E) as (q & Hq & Hp). rewrite Hq, Hp. destruct (q a); [apply IH|reflexivity].
  - destruct (letter_spec c) as [q|] eqn:E2; [|reflexivity].
    destruct (letter_spec_lookup _ _ E2) as (p & Hp). congruence.
Qed.

Lemma mode_matches_total : forall mode args, known_mode mode = true -> mode_matches args mode <> None.
Proof.
  intros mode args; revert mode. induction args as [|a args IH]; intros [|c mode] K; try discriminate.
  cbn [mode_matches]. cbn [known_mode forallb] in K. apply andb_prop in K. destruct K as [K1 K2].
  destruct (lookup_letter c) as [p|] eqn:E; [|discriminate].
  pose proof (letter_pred_total c p a E) as T. destruct (p a) as [[|]|]; [apply IH; exact K2|discriminate|congruence].
Qed.

Lemma check_mode_from_total : forall accepted args i,
  forallb known_mode accepted = true ->
  (exists j, check_mode_from i args accepted = Accept j) \/ check_mode_from i args accepted = CallModeError.
Proof.
  induction accepted as [|m rest IH]; intros args i K; [right; reflexivity|].
  cbn [forallb] in K. apply andb_prop in K. destruct K as [K1 K2].
  cbn [check_mode_from]. pose proof (mode_matches_total m args K1) as T.
  destruct (mode_matches args m) as [[|]|]; [left; eexists; reflexivity|apply IH; exact K2|congruence].
Qed.

(* first-match characterisation *)
Lemma check_mode_from_accept : forall accepted args i j,
  check_mode_from i args accepted = Accept j <->
  exists k, j = (i + k)%nat /\ (exists m, nth_error accepted k = Some m /\ mode_matches args m = Some true)
            /\ forall k' m', (k' < k)%nat -> nth_error accepted k' = Some m' -> mode_matches args m' = Some false.
Proof.
  induction accepted as [|m rest IH]; intros args i j.
  - cbn. split; [discriminate|]. intros (k & _ & (m & Hm & _) & _). destruct k; discriminate.
  - cbn [check_mode_from]. destruct (mode_matches args m) as [[|]|] eqn:E.
    + split.
      * intro H. inversion H; subst. exists 0%nat. split; [lia|]. split; [exists m; auto|]. intros; lia.
      * intros (k & Hj & (m0 & Hm0 & Hmm) & Hlt). destruct k as [|k]; [f_equal; lia|].
        specialize (Hlt 0%nat m ltac:(lia) eq_refl). congruence.
    + rewrite IH. split.
      * intros (k & Hj & (m0 & Hm0 & Hmm) & Hlt). exists (S k). split; [lia|]. split; [exists m0; auto|].
        intros k' m' Hk Hn. destruct k' as [|k']; [cbn in Hn; inversion Hn; subst; exact E|].
        apply (Hlt k' m'); [lia|exact Hn].
      * intros (k & Hj & (m0 & Hm0 & Hmm) & Hlt). destruct k as [|k]; [cbn in Hm0; inversion Hm0; subst; congruence|].
        exists k. split; [lia|]. split; [exists m0; auto|]. intros k' m' Hk Hn. apply (Hlt (S k') m'); [lia|exact Hn].
    + split; [discriminate|]. intros (k & Hj & (m0 & Hm0 & Hmm) & Hlt).
      destruct k as [|k]; [cbn in Hm0; inversion Hm0; subst; congruence|].
      specialize (Hlt 0%nat m ltac:(lia) eq_refl). congruence.
Qed.

Lemma check_mode_from_error : forall accepted args i,
  check_mode_from i args accepted = CallModeError <-> forall m, In m accepted -> mode_matches args m = Some false.
Proof.
  induction accepted as [|m rest IH]; intros args i.
  - cbn. split; [intros _ m []|reflexivity].
  - cbn [check_mode_from]. destruct (mode_matches args m) as [[|]|] eqn:E.
    + split; [discriminate|]. intro H. specialize (H m (or_introl eq_refl)). congruence.
    + rewrite IH. split.
      * intros H m' [->|Hin]; auto.
      * intros H m' Hin. apply H. right; exact Hin.
    + split; [discriminate|]. intro H. specialize (H m (or_introl eq_refl)). congruence.
Qed.

Definition known_modes (accepted : list string) : bool := forallb (fun m => known_mode (list_ascii_of_string m)) accepted.

Lemma forallb_map : forall {A B} (f : A -> B) (p : B -> bool) l, forallb p (map f l) = forallb (fun x => p (f x)) l.
Proof. induction l; cbn; congruence. Qed.

Lemma check_mode_total : forall accepted args, known_modes accepted = true ->
  (exists i, check_mode args accepted = Accept i) \/ check_mode args accepted = CallModeError.
Proof.
  intros accepted args K. unfold check_mode. apply check_mode_from_total.
  rewrite forallb_map. exact K.
Qed.

Lemma check_mode_first_match : forall accepted args i,
  check_mode args accepted = Accept i <->
  (exists m, nth_error accepted i = Some m /\ mode_spec args (list_ascii_of_string m) = Some true)
  /\ forall j m', (j < i)%nat -> nth_error accepted j = Some m' -> mode_spec args (list_ascii_of_string m') = Some false.
Proof.
  intros accepted args i. unfold check_mode. rewrite check_mode_from_accept. split.
  - intros (k & Hk & (m & Hm & Hmm) & Hlt). cbn in Hk. subst k.
    rewrite nth_error_map in Hm. destruct (nth_error accepted i) as [s|] eqn:E; [|discriminate]. cbn in Hm. inversion Hm; subst.
    split; [exists s; split; [reflexivity|rewrite <- mode_matches_spec; exact Hmm]|].
    intros j m' Hj Hn. rewrite <- mode_matches_spec. apply (Hlt j); [exact Hj|]. rewrite nth_error_map, Hn. reflexivity.
  - intros ((m & Hm & Hmm) & Hlt). exists i. split; [reflexivity|]. split.
    + exists (list_ascii_of_string m). rewrite nth_error_map, Hm. split; [reflexivity|rewrite mode_matches_spec; exact Hmm].
    + intros k' m' Hk Hn. rewrite nth_error_map in Hn. destruct (nth_error accepted k') as [s|] eqn:E; [|discriminate].
      cbn in Hn. inversion Hn; subst. rewrite mode_matches_spec. apply (Hlt k' s Hk E).
Qed.

Lemma check_mode_error_iff : forall accepted args,
  check_mode args accepted = CallModeError <->
  forall m, In m accepted -> mode_spec args (list_ascii_of_string m) = Some false.
Proof.
  intros accepted args. unfold check_mode. rewrite check_mode_from_error. split.
  - intros H m Hin. rewrite <- mode_matches_spec. apply H. apply in_map. exact Hin.
  - intros H m Hin. apply in_map_iff in Hin. destruct Hin as (s & <- & Hs). rewrite mode_matches_spec. apply H; exact Hs.
Qed.

(* every call site in engine_builtin.py is well formed: one known letter per checked argument *)
Lemma all_sites_wf : forallb site_wf check_sites = true.
Proof. vm_compute. reflexivity. Qed.

Lemma site_wf_known : forall s, site_wf s = true -> known_modes (s_modes s) = true.
Proof.
  intros s H. unfold site_wf in H. apply andb_prop in H. destruct H as [H _].
  unfold known_modes. rewrite forallb_forall in *. intros m Hm. specialize (H m Hm).
  apply andb_prop in H. tauto.
Qed.

Lemma site_check_total : forall s args, In s check_sites ->
  (exists i, site_check s args = Accept i) \/ site_check s args = CallModeError.
Proof.
  intros s args Hin. apply check_mode_total. apply site_wf_known.
  pose proof all_sites_wf as W. rewrite forallb_forall in W. apply W; exact Hin.
Qed.
