(* C27 -- user errors surface as ProbLog errors, never as crashes.
   Only statements here.  What is provable is the guarding of partial Python operations by
   the declared call modes; GenModes.v is regenerated from problog/engine_builtin.py on every run. *)
From Coq Require Import ZArith List Bool String Ascii.
From PL.C27 Require Import ModelTerms GenModes ModelModes ProofsModes.
Import ListNotations.
Open Scope string_scope.

(* Every letter of `mode_types` has a predicate that never raises, and it computes exactly the
   specification-level classifier of that letter (for every argument a builtin can receive). *)
Theorem C27_mode_letters_total : forall c p,
  lookup_letter c = Some p -> exists q, letter_spec c = Some q /\ forall t, p t = Some (q t).
Proof. exact lookup_letter_spec. Qed.
Print Assumptions C27_mode_letters_total.

(* check_mode is total: with known letters it returns an index or raises CallModeError -- never KeyError,
   never an exception out of a type predicate. *)
Theorem C27_mode_total : forall accepted args, known_modes accepted = true ->
  (exists i, check_mode args accepted = Accept i) \/ check_mode args accepted = CallModeError.
Proof. exact check_mode_total. Qed.
Print Assumptions C27_mode_total.

(* ... and the index it returns is that of the FIRST mode string whose letters all hold. *)
Theorem C27_mode_first_match : forall accepted args i,
  check_mode args accepted = Accept i <->
  (exists m, nth_error accepted i = Some m /\ mode_spec args (list_ascii_of_string m) = Some true)
  /\ forall j m', (j < i)%nat -> nth_error accepted j = Some m' -> mode_spec args (list_ascii_of_string m') = Some false.
Proof. exact check_mode_first_match. Qed.
Print Assumptions C27_mode_first_match.

Theorem C27_mode_error_iff : forall accepted args,
  check_mode args accepted = CallModeError <->
  forall m, In m accepted -> mode_spec args (list_ascii_of_string m) = Some false.
Proof. exact check_mode_error_iff. Qed.
Print Assumptions C27_mode_error_iff.

(* Every check_mode call site of engine_builtin.py (as translated now) passes mode strings with
   exactly one known letter per checked argument ... *)
Theorem C27_sites_wellformed : forallb site_wf check_sites = true.
Proof. exact all_sites_wf. Qed.
Print Assumptions C27_sites_wellformed.

(* ... hence at every site, for every argument tuple, the outcome is an index or CallModeError. *)
Theorem C27_site_check_total : forall s args, In s check_sites ->
  (exists i, site_check s args = Accept i) \/ site_check s args = CallModeError.
Proof. exact site_check_total. Qed.
Print Assumptions C27_site_check_total.

(* the hand-written list_tail / list_elements obey the Python loops' unfolding equations w.r.t. the translated _is_list_maybe *)
Theorem C27_list_tail_loop : forall t,
  list_tail t = match py_is_list_maybe t with
                | Some true => match a_args_nth 1 t with Some tl => list_tail tl | None => t end
                | _ => t end.
Proof. exact list_tail_unfold. Qed.
Print Assumptions C27_list_tail_loop.

(* non-vacuity *)
Example C27_ex_between_enum : check_mode [PInt 1; PApp "'-'" [PInt 3]; PSlot (-1)] ["iii"; "iiv"] = Accept 1.
Proof. vm_compute. reflexivity. Qed.
Example C27_ex_between_err : check_mode [PInt 1; PFloat (FFin true 3); PSlot (-1)] ["iii"; "iiv"] = CallModeError.
Proof. vm_compute. reflexivity. Qed.
Example C27_ex_length_first : check_mode [PApp "[]" []; PInt 0] ["LI"; "Lv"; "lI"; "vI"] = Accept 0.
Proof. vm_compute. reflexivity. Qed.
Example C27_ex_unknown_letter : check_mode [PInt 1] ["z"] = ModeStuck.
Proof. vm_compute. reflexivity. Qed.
