(* C27 -- user errors surface as ProbLog errors, never as crashes.
   Only statements here.  What is provable is the guarding of partial Python operations by
   the declared call modes; GenModes.v is regenerated from problog/engine_builtin.py on every run. *)
From Coq Require Import ZArith List Bool String Ascii.
From PL.C27 Require Import ModelTerms GenModes ModelModes ProofsModes ModelBuiltins ProofsBuiltins.
Import ListNotations.
Open Scope string_scope.

(* Every letter of `mode_types` has a predicate that never raises, and it computes exactly the
   specification-level classifier of that letter (for every argument a builtin can receive). *)
Theorem C27_mode_letters_total : forall c p,
  lookup_letter c = Some p -> exists q, letter_spec c = Some q /\ forall t, p t = Some (q t).
Proof. exact lookup_letter_spec. Qed.
Print Assumptions C27_mode_letters_total.

(* check_mode is total: with known letters it returns an index or raises CallModeError -- never KeyError,
   never an exception out of a type predicate. *)
Theorem C27_mode_total : forall accepted args, known_modes accepted = true ->
  (exists i, check_mode args accepted = Accept i) \/ check_mode args accepted = CallModeError.
Proof. exact check_mode_total. Qed.
Print Assumptions C27_mode_total.

(* ... and the index it returns is that of the FIRST mode string whose letters all hold. *)
Theorem C27_mode_first_match : forall accepted args i,
  check_mode args accepted = Accept i <->
  (exists m, nth_error accepted i = Some m /\ mode_spec args (list_ascii_of_string m) = Some true)
  /\ forall j m', (j < i)%nat -> nth_error accepted j = Some m' -> mode_spec args (list_ascii_of_string m') = Some false.
Proof. exact check_mode_first_match. Qed.
Print Assumptions C27_mode_first_match.

Theorem C27_mode_error_iff : forall accepted args,
  check_mode args accepted = CallModeError <->
  forall m, In m accepted -> mode_spec args (list_ascii_of_string m) = Some false.
Proof. exact check_mode_error_iff. Qed.
Print Assumptions C27_mode_error_iff.

(* Every check_mode call site of engine_builtin.py (as translated now) passes mode strings with
   exactly one known letter per checked argument ... *)
Theorem C27_sites_wellformed : forallb site_wf check_sites = true.
Proof. exact all_sites_wf. Qed.
Print Assumptions C27_sites_wellformed.

(* ... hence at every site, for every argument tuple, the outcome is an index or CallModeError. *)
Theorem C27_site_check_total : forall s args, In s check_sites ->
  (exists i, site_check s args = Accept i) \/ site_check s args = CallModeError.
Proof. exact site_check_total. Qed.
Print Assumptions C27_site_check_total.

(* the hand-written list_tail / list_elements obey the Python loops' unfolding equations w.r.t. the translated _is_list_maybe *)
Theorem C27_list_tail_loop : forall t,
  list_tail t = match py_is_list_maybe t with
                | Some true => match a_args_nth 1 t with Some tl => list_tail tl | None => t end
                | _ => t end.
Proof. exact list_tail_unfold. Qed.
Print Assumptions C27_list_tail_loop.

(* ------------------------------------------------------------------------------------------------
   MODE SAFETY.  Bodies are modelled over partial primitives (int_of, attr_ok, nth_error, call_term, aeval)
   that yield `OStuck <exception>` outside their Python domain; each body starts with the check_mode call of
   the TRANSLATED site, so "for all argument tuples the body is not stuck" says: whenever the declared modes
   accept (first match i), branch i of the body performs no partial operation outside its domain; otherwise
   the outcome is CallModeError.  Arity is fixed by the (translated and live-compared) registration table. *)

(* the hand models account for exactly the partial primitives that occur in the source now *)
Theorem C27_prims_inventory : prims_accounted = true.
Proof. vm_compute. reflexivity. Qed.
Print Assumptions C27_prims_inventory.

Theorem C27_mode_safe_between : forall low high value, is_stuck (body_between [low; high; value]) = false.
Proof. exact between_safe. Qed.
Print Assumptions C27_mode_safe_between.

Theorem C27_mode_safe_succ : forall a b, is_stuck (body_succ [a; b]) = false.
Proof. exact succ_safe. Qed.
Print Assumptions C27_mode_safe_succ.

Theorem C27_mode_safe_plus : forall a b c, is_stuck (body_plus [a; b; c]) = false.
Proof. exact plus_safe. Qed.
Print Assumptions C27_mode_safe_plus.

(* length/2 -- the full statement `forall l n, is_stuck (body_length [l; n]) = false` is FALSE while the source does
   `raise UnifyError()` for a requested length below the known prefix (Findings.v: length(L,-1)); guarded: *)
Theorem C27_mode_safe_length_partial : forall l n, length_guard l n = true -> is_stuck (body_length [l; n]) = false.
Proof. exact length_safe. Qed.
Print Assumptions C27_mode_safe_length_partial.

Theorem C27_mode_safe_functor : forall t f a, is_stuck (body_functor [t; f; a]) = false.
Proof. exact functor_safe. Qed.
Print Assumptions C27_mode_safe_functor.

Theorem C27_mode_safe_arg : forall i t a, is_stuck (body_arg [i; t; a]) = false.
Proof. exact arg_safe. Qed.
Print Assumptions C27_mode_safe_arg.

(* =../2 -- PARTIAL: `term.with_args()` (no arguments) raises TypeError when `term` is an instance of Not/And/Or/Clause
   (found by the stream: `\+a =.. X`); the Python class is not observable in the model, so for the functors those classes
   use (class_functor) the model makes no claim.  Proved: never stuck, and decided (not OUnknown) outside class_functor. *)
Theorem C27_mode_safe_univ_partial : forall t parts, is_stuck (body_split_call [t; parts]) = false.
Proof. exact split_call_safe. Qed.
Print Assumptions C27_mode_safe_univ_partial.

Theorem C27_univ_decided : forall t parts, class_functor t = false -> body_split_call [t; parts] <> OUnknown.
Proof. exact split_call_decided. Qed.
Print Assumptions C27_univ_decided.

(* compare/3 and sort/2: only the attribute accesses / tuple index of the body; struct_cmp and sorted() are C15's *)
Theorem C27_mode_safe_compare_partial : forall c a b, is_stuck (body_compare [c; a; b]) = false.
Proof. exact compare_safe. Qed.
Print Assumptions C27_mode_safe_compare_partial.

Theorem C27_mode_safe_sort_partial : forall l s, is_stuck (body_sort [l; s]) = false.
Proof. exact sort_safe. Qed.
Print Assumptions C27_mode_safe_sort_partial.

Theorem C27_mode_safe_nocache : forall f a, is_stuck (body_nocache [f; a]) = false.
Proof. exact nocache_safe. Qed.
Print Assumptions C27_mode_safe_nocache.

(* the type tests var/atom/atomic/compound/float/integer/nonvar/number/simple/callable/ground/is_list/... never raise *)
Theorem C27_type_tests_total : forall name p t, In (name, p) type_tests -> p t <> None.
Proof. exact type_tests_total. Qed.
Print Assumptions C27_type_tests_total.

(* GUARDED statements: the unguarded ones are refuted in Findings.v *)
(* atom_number/2 -- full statement `forall a n, is_stuck (body_atom_number [a; n]) = false` is FALSE (Findings.v):
   mode "av" admits the atoms inf / nan / infinity (any case, optional sign) on which round(float(..)) raises.
   Guard: the atom is not such a spelling (and then the model makes no claim about numeral syntax: OUnknown). *)
Theorem C27_mode_safe_atom_number_partial : forall a n,
  (forall f args, a = PApp f args -> special_float f = None) -> is_stuck (body_atom_number [a; n]) = false.
Proof. exact atom_number_safe. Qed.
Print Assumptions C27_mode_safe_atom_number_partial.

(* numbervars/3 -- mode "*i*" admits an unbound first argument, the body calls term.apply (refuted in Findings.v) *)
Theorem C27_mode_safe_numbervars_partial : forall t s o, is_nonvar_b t = true -> is_var_b o = true ->
  is_stuck (body_numbervars [t; s; o]) = false.
Proof. exact numbervars_safe. Qed.
Print Assumptions C27_mode_safe_numbervars_partial.

(* is/2 and the six arithmetic comparisons -- mode 'g' (ground) admits strings (TypeError) and float overflow
   (OverflowError): refuted in Findings.v / found by the search.  Proved: on the integer fragment (integer constants
   under the operators whose Python lambdas are pinned by the translator) evaluation yields an integer or
   ArithmeticError (division by zero, negative shift), never another exception. *)
Theorem C27_is_safe_int_fragment_partial : forall a b, int_fragment b = true -> is_stuck (body_is [a; b]) = false.
Proof. exact is_safe_int_fragment. Qed.
Print Assumptions C27_is_safe_int_fragment_partial.

Theorem C27_compare_safe_int_fragment_partial : forall pyname a b, In pyname cmp_names ->
  int_fragment a = true -> int_fragment b = true -> is_stuck (body_cmp pyname [a; b]) = false.
Proof. exact cmp_safe_int_fragment. Qed.
Print Assumptions C27_compare_safe_int_fragment_partial.

Theorem C27_aeval_int_fragment : forall t, int_fragment t = true -> (exists z, aeval t = AV (VI z)) \/ aeval t = AErr.
Proof. exact aeval_int_fragment. Qed.
Print Assumptions C27_aeval_int_fragment.

(* non-vacuity *)
Example C27_ex_between_enum : check_mode [PInt 1; PApp "'-'" [PInt 3]; PSlot (-1)] ["iii"; "iiv"] = Accept 1.
Proof. vm_compute. reflexivity. Qed.
Example C27_ex_between_err : check_mode [PInt 1; PFloat (FFin true 3); PSlot (-1)] ["iii"; "iiv"] = CallModeError.
Proof. vm_compute. reflexivity. Qed.
Example C27_ex_length_first : check_mode [PApp "[]" []; PInt 0] ["LI"; "Lv"; "lI"; "vI"] = Accept 0.
Proof. vm_compute. reflexivity. Qed.
Example C27_ex_unknown_letter : check_mode [PInt 1] ["z"] = ModeStuck.
Proof. vm_compute. reflexivity. Qed.
Example C27_ex_between_enum_body : body_between [PInt 1; PInt 3; PSlot (-1)]
  = ORes [[PInt 1; PInt 3; PInt 1]; [PInt 1; PInt 3; PInt 2]; [PInt 1; PInt 3; PInt 3]].
Proof. vm_compute. reflexivity. Qed.
Example C27_ex_between_cme : body_between [PInt 1; PApp "inf" []; PSlot (-1)] = OCallModeError.
Proof. vm_compute. reflexivity. Qed.
Example C27_ex_univ : body_split_call [PSlot (-1); PApp "." [PApp "foo" []; PApp "." [PInt 1; PApp "[]" []]]]
  = ORes [[PApp "foo" [PInt 1]; PApp "." [PApp "foo" []; PApp "." [PInt 1; PApp "[]" []]]]].
Proof. vm_compute. reflexivity. Qed.
Example C27_ex_is_div0 : body_is [PSlot (-1); PApp "'//'" [PInt 1; PInt 0]] = OArithError.
Proof. vm_compute. reflexivity. Qed.
Example C27_ex_is_int : int_fragment (PApp "'+'" [PInt 1; PApp "'*'" [PInt 2; PApp "'-'" [PInt 3]]]) = true
  /\ body_is [PSlot (-1); PApp "'+'" [PInt 1; PApp "'*'" [PInt 2; PApp "'-'" [PInt 3]]]]
     = ORes [[PInt (-5); PApp "'+'" [PInt 1; PApp "'*'" [PInt 2; PApp "'-'" [PInt 3]]]]].
Proof. split; vm_compute; reflexivity. Qed.
Example C27_ex_atom_number_guard : special_float "foo" = None /\ special_float "-Inf" = Some (FInf false).
Proof. split; vm_compute; reflexivity. Qed.
