(* C27 -- hand model of what a builtin's Python code can observe of its arguments.

   A builtin receives, per argument, one of:
     None                      (anonymous / unbound variable)            PNone
     a Python int              (variable slot of the calling context)    PSlot z
     a logic.Var instance      (only before grounding; kept for _is_var) PVarObj name
     Constant(int|float|str)                                             PInt / PFloat / PStr
     Object(x)                                                           PObj id
     Term(functor, *args)                                                PApp functor args
   Attribute access / method calls on None and int raise AttributeError, `.is_float()` & co exist only
   on Constant/Object, `args[i]` raises IndexError outside the tuple: these operations are
   modelled as returning `None` (= "the Python expression raises a non-ProbLog exception").

   No proofs in this file. *)
From Coq Require Import ZArith List Bool String Ascii.
Import ListNotations.
Open Scope string_scope.

(* float values, abstracted to what int()/round() can observe *)
Inductive fval :=
| FFin (integral : bool) (trunc : Z)   (* finite; is it integral; int(f) (truncation towards 0) *)
| FInf (neg : bool)
| FNan.

Inductive pterm :=
| PNone
| PSlot (z : Z)
| PVarObj (name : string)
| PInt (z : Z)
| PFloat (f : fval)
| PStr (s : string)
| PObj (id : nat)
| PApp (f : string) (args : list pterm).

(* ---- partial booleans: None = raises *)
Definition pand (a b : option bool) : option bool :=
  match a with Some true => b | Some false => Some false | None => None end.
Definition por (a b : option bool) : option bool :=
  match a with Some true => Some true | Some false => b | None => None end.
Definition pnot (a : option bool) : option bool :=
  match a with Some x => Some (negb x) | None => None end.
Definition pif (c a b : option bool) : option bool :=
  match c with Some true => a | Some false => b | None => None end.
Definition obind {A B : Type} (a : option A) (f : A -> option B) : option B :=
  match a with Some x => f x | None => None end.
Definition omap {A B : Type} (f : A -> B) (a : option A) : option B :=
  match a with Some x => Some (f x) | None => None end.

(* ---- logic.py API as seen from engine_builtin.py *)
(* logic.is_variable: `term is None or type(term) == int or term.is_var()`  (pinned by the translator) *)
Definition py_is_variable (t : pterm) : option bool :=
  Some (match t with PNone | PSlot _ | PVarObj _ => true | _ => false end).

(* term.is_var() *)
Definition m_is_var (t : pterm) : option bool :=
  match t with PNone | PSlot _ => None | PVarObj _ => Some true | _ => Some false end.
(* term.is_constant() *)
Definition m_is_constant (t : pterm) : option bool :=
  match t with
  | PNone | PSlot _ => None
  | PInt _ | PFloat _ | PStr _ | PObj _ => Some true
  | PVarObj _ | PApp _ _ => Some false
  end.
(* term.is_float() / is_integer() / is_string(): defined on Constant and Object only *)
Definition m_is_float (t : pterm) : option bool :=
  match t with PFloat _ => Some true | PInt _ | PStr _ | PObj _ => Some false | _ => None end.
Definition m_is_integer (t : pterm) : option bool :=
  match t with PInt _ => Some true | PFloat _ | PStr _ | PObj _ => Some false | _ => None end.
Definition m_is_string (t : pterm) : option bool :=
  match t with PStr _ => Some true | PInt _ | PFloat _ | PObj _ => Some false | _ => None end.
(* term.arity *)
Definition a_arity (t : pterm) : option Z :=
  match t with
  | PNone | PSlot _ => None
  | PApp _ args => Some (Z.of_nat (List.length args))
  | _ => Some 0%Z
  end.
(* term.functor == "literal" *)
Definition a_functor_eq (t : pterm) (s : string) : option bool :=
  match t with
  | PNone | PSlot _ => None
  | PApp f _ => Some (String.eqb f s)
  | PVarObj n => Some (String.eqb n s)
  | PStr s' => Some (String.eqb s' s)
  | PInt _ | PFloat _ | PObj _ => Some false
  end.
Definition a_functor_in (t : pterm) (l : list string) : option bool :=
  match t with
  | PNone | PSlot _ => None
  | PApp f _ => Some (existsb (String.eqb f) l)
  | PVarObj n => Some (existsb (String.eqb n) l)
  | PStr s' => Some (existsb (String.eqb s') l)
  | PInt _ | PFloat _ | PObj _ => Some false
  end.
(* term.args[n] *)
Definition a_args_nth (n : nat) (t : pterm) : option pterm :=
  match t with
  | PApp _ args => nth_error args n
  | _ => None
  end.
Definition isinstance_Var (t : pterm) : bool := match t with PVarObj _ => true | _ => false end.
Definition isinstance_Object (t : pterm) : bool := match t with PObj _ => true | _ => false end.

(* engine_builtin.list_tail / list_elements: `while _is_list_maybe(tail): tail = tail.args[1]`
   (loop shapes pinned by the translator; the unfolding equation against the *generated*
   `_is_list_maybe` is lemma list_tail_unfold in ProofsModes.v) *)
Fixpoint list_tail (t : pterm) : pterm :=
  match t with
  | PApp f (_ :: tl :: nil) => if String.eqb f "." then list_tail tl else t
  | _ => t
  end.
Fixpoint list_elements (t : pterm) : list pterm * pterm :=
  match t with
  | PApp f (h :: tl :: nil) =>
      if String.eqb f "." then let (es, tail) := list_elements tl in (h :: es, tail) else (nil, t)
  | _ => (nil, t)
  end.

(* logic.is_ground(term): no None / int / Var anywhere *)
Fixpoint ground (t : pterm) : bool :=
  match t with
  | PNone | PSlot _ | PVarObj _ => false
  | PApp _ args => forallb ground args
  | _ => true
  end.
Definition py_is_ground (t : pterm) : option bool := Some (ground t).

(* ---- records filled in by the translator *)
Inductive bkind := KBool | KDet | KProb | KRaw.
Record site := mk_site {
  s_func : string;            (* enclosing Python function *)
  s_line : N;
  s_argidx : list nat;        (* the checked tuple, as indices into the function's positional parameters *)
  s_modes : list string;      (* accepted mode strings, in order *)
  s_functor : option string;  (* functor= keyword (error message only) *)
  s_vararg : bool }.
