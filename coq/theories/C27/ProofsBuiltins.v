(* C27 -- mode safety of the modelled builtin bodies. *)
From Coq Require Import ZArith List Bool String Ascii Lia.
From PL.C27 Require Import ModelTerms GenModes ModelModes ProofsModes ModelBuiltins.
Import ListNotations.
Open Scope string_scope.

(* ------------------------------------------------------------------ primitives are defined where the letters say so *)
Lemma int_of_integer_pos : forall t, is_integer_pos_b t = true -> exists z, int_of t = RVal z.
Proof. destruct t; cbn; try discriminate. eauto. Qed.

Lemma int_of_integer : forall t, is_integer_b t = true -> exists z, int_of t = RVal z.
Proof.
  intros t H. unfold is_integer_b in H. apply orb_prop in H. destruct H as [H|H].
  - apply int_of_integer_pos; exact H.
  - unfold is_integer_neg_b, is_minus1 in H. destruct t as [| | | | | | |f args]; try discriminate.
    destruct args as [|a [|b r]]; try discriminate. apply andb_prop in H. destruct H as [Hf Ha].
    destruct a; try discriminate. cbn. rewrite Hf. eauto.
Qed.

Lemma attr_ok_nonvar : forall t, is_nonvar_b t = true -> attr_ok t = RVal tt.
Proof. destruct t; cbn; try discriminate; reflexivity. Qed.
Lemma attr_ok_term : forall t, is_term_b t = true -> attr_ok t = RVal tt.
Proof. destruct t; cbn; try discriminate; reflexivity. Qed.
Lemma attr_ok_atom : forall t, is_atom_b t = true -> attr_ok t = RVal tt.
Proof. destruct t; cbn; try discriminate; reflexivity. Qed.
Lemma attr_ok_compare : forall t, is_compare_b t = true -> attr_ok t = RVal tt.
Proof. destruct t; cbn; try discriminate; reflexivity. Qed.

Lemma call_term_atom : forall hd rest, is_atom_b hd = true -> exists t, call_term hd rest = RVal t.
Proof. destruct hd; cbn; try discriminate. eauto. Qed.

(* ------------------------------------------------------------------ the translated mode lists of the modelled builtins
   (these equations are re-checked against the regenerated GenModes.v: a changed mode string breaks the proofs below) *)
Lemma modes_between : site_modes "_builtin_between" = ["iii"; "iiv"]. Proof. reflexivity. Qed.
Lemma modes_succ : site_modes "_builtin_succ" = ["vI"; "Iv"; "II"]. Proof. reflexivity. Qed.
Lemma modes_plus : site_modes "_builtin_plus" = ["iii"; "iiv"; "ivi"; "vii"]. Proof. reflexivity. Qed.
Lemma modes_length : site_modes "_builtin_length" = ["LI"; "Lv"; "lI"; "vI"]. Proof. reflexivity. Qed.
Lemma modes_functor : site_modes "_builtin_functor" = ["vaI"; "n**"]. Proof. reflexivity. Qed.
Lemma modes_arg : site_modes "_builtin_arg" = ["In*"]. Proof. reflexivity. Qed.
Lemma modes_split_call : site_modes "_builtin_split_call" = ["vL"; "nv"; "nl"]. Proof. reflexivity. Qed.
Lemma modes_compare : site_modes "_builtin_compare" = ["<**"; "v**"]. Proof. reflexivity. Qed.
Lemma modes_sort : site_modes "_builtin_sort" = ["L*"]. Proof. reflexivity. Qed.
Lemma modes_atom_number : site_modes "_builtin_atom_number" = ["vf"; "vi"; "av"; "af"; "ai"]. Proof. reflexivity. Qed.
Lemma modes_nocache : site_modes "_builtin_nocache" = ["ai"]. Proof. reflexivity. Qed.
Lemma modes_numbervars : site_modes "_builtin_numbervars" = ["*i*"]. Proof. reflexivity. Qed.
Lemma modes_is : site_modes "_builtin_is" = ["*g"]. Proof. reflexivity. Qed.

(* ------------------------------------------------------------------ generic: what an accepted mode tells about the arguments *)
Lemma with_mode_cases : forall f args k,
  known_modes (site_modes f) = true ->
  (forall i m, nth_error (site_modes f) i = Some m -> mode_spec args (list_ascii_of_string m) = Some true -> is_stuck (k i) = false) ->
  is_stuck (with_mode f args k) = false.
Proof.
  intros f args k K H. unfold with_mode.
  destruct (check_mode_total (site_modes f) args K) as [[i Hi]|He].
  - rewrite Hi. apply check_mode_first_match in Hi. destruct Hi as [(m & Hn & Hs) _]. eapply H; eauto.
  - rewrite He. reflexivity.
Qed.

Ltac letters H :=
  cbn [mode_spec list_ascii_of_string letter_spec Ascii.eqb Bool.eqb] in H;
  repeat match type of H with
  | (if ?b then _ else _) = Some true => let E := fresh "L" in destruct b eqn:E; [|discriminate H]
  end.

Ltac nth_cases Hn :=
  match type of Hn with
  | nth_error (_ :: _) ?i = Some _ => is_var i; destruct i; cbn [nth_error] in Hn; [inversion Hn; subst | nth_cases Hn]
  | nth_error nil ?i = Some _ => destruct i; discriminate Hn
  end.

Ltac ints := repeat (match goal with
  | L : is_integer_b ?t = true |- context [int_of ?t] =>
      let z := fresh "z" in let Hz := fresh "Hz" in destruct (int_of_integer _ L) as [z Hz]; rewrite Hz; clear L
  | L : is_integer_pos_b ?t = true |- context [int_of ?t] =>
      let z := fresh "z" in let Hz := fresh "Hz" in destruct (int_of_integer_pos _ L) as [z Hz]; rewrite Hz; clear L
  end; cbn [bindo]).

Ltac finish := repeat (cbn [bindo is_stuck Nat.eqb orb]; match goal with
  | |- is_stuck (if ?b then _ else _) = false => destruct b
  | |- is_stuck (match ?x with _ => _ end) = false => destruct x
  end); try reflexivity.

(* ------------------------------------------------------------------ between / succ / plus / nocache *)
Lemma between_safe : forall low high value, is_stuck (body_between [low; high; value]) = false.
Proof.
  intros. unfold body_between. apply with_mode_cases; [reflexivity|]. rewrite modes_between.
  intros i m Hn Hs. nth_cases Hn; letters Hs; cbn [Nat.eqb].
  - ints. finish.
  - ints. reflexivity.
Qed.

Lemma succ_safe : forall a b, is_stuck (body_succ [a; b]) = false.
Proof.
  intros. unfold body_succ. apply with_mode_cases; [reflexivity|]. rewrite modes_succ.
  intros i m Hn Hs. nth_cases Hn; letters Hs; cbn [Nat.eqb].
  - ints. reflexivity.
  - ints. reflexivity.
  - ints. finish.
Qed.

Lemma plus_safe : forall a b c, is_stuck (body_plus [a; b; c]) = false.
Proof.
  intros. unfold body_plus. apply with_mode_cases; [reflexivity|]. rewrite modes_plus.
  intros i m Hn Hs. nth_cases Hn; letters Hs; cbn [Nat.eqb].
  - ints. finish.
  - ints. reflexivity.
  - ints. reflexivity.
  - ints. reflexivity.
Qed.

Lemma nocache_safe : forall f a, is_stuck (body_nocache [f; a]) = false.
Proof.
  intros. unfold body_nocache. apply with_mode_cases; [reflexivity|]. rewrite modes_nocache.
  intros i m Hn Hs. nth_cases Hn; letters Hs. ints. reflexivity.
Qed.

(* ------------------------------------------------------------------ length *)
(* requested length not below the number of known leading elements *)
Definition length_guard (l n : pterm) : bool :=
  match n with PInt z => (Z.of_nat (List.length (fst (list_elements l))) <=? z)%Z | _ => true end.

Lemma length_safe : forall l n, length_guard l n = true -> is_stuck (body_length [l; n]) = false.
Proof.
  intros l n G. unfold body_length. apply with_mode_cases; [reflexivity|]. rewrite modes_length.
  intros i m Hn Hs. nth_cases Hn; letters Hs; cbn [Nat.eqb orb].
  - destruct n; try discriminate. finish.
  - destruct n; try discriminate; reflexivity.
  - destruct n; try discriminate. cbn [int_of bindo]. unfold length_guard in G. apply Z.leb_le in G.
    destruct (z - Z.of_nat (List.length (fst (list_elements l))) <? 0)%Z eqn:E; [apply Z.ltb_lt in E; lia|reflexivity].
  - destruct n; try discriminate. cbn [int_of bindo]. unfold length_guard in G. apply Z.leb_le in G.
    destruct (z - Z.of_nat (List.length (@nil pterm)) <? 0)%Z eqn:E; [apply Z.ltb_lt in E; cbn [List.length] in E; lia|reflexivity].
Qed.

(* ------------------------------------------------------------------ functor / arg / =.. / compare / sort *)
Lemma functor_safe : forall t f a, is_stuck (body_functor [t; f; a]) = false.
Proof.
  intros. unfold body_functor. apply with_mode_cases; [reflexivity|]. rewrite modes_functor.
  intros i m Hn Hs. nth_cases Hn; letters Hs; cbn [Nat.eqb].
  - ints. destruct f; reflexivity.
  - rewrite (attr_ok_nonvar _ L). reflexivity.
Qed.

Lemma arg_safe : forall i t a, is_stuck (body_arg [i; t; a]) = false.
Proof.
  intros idx t a. unfold body_arg. apply with_mode_cases; [reflexivity|]. rewrite modes_arg.
  intros i m Hn Hs. nth_cases Hn; letters Hs.
  ints. rewrite (attr_ok_nonvar _ L0). cbn [bindo].
  destruct ((0 <=? z - 1)%Z && (z - 1 <? Z.of_nat (List.length match t with PApp _ a0 => a0 | _ => [] end))%Z) eqn:E; [|reflexivity].
  apply andb_prop in E. destruct E as [E1 E2]. apply Z.leb_le in E1. apply Z.ltb_lt in E2.
  destruct (nth_error match t with PApp _ a0 => a0 | _ => [] end (Z.to_nat (z - 1))) eqn:N; [reflexivity|].
  apply nth_error_None in N. lia.
Qed.

Lemma with_args0_nonvar : forall t, is_nonvar_b t = true -> class_functor t = false -> with_args0_ok t = RVal tt.
Proof. intros t NV C. destruct t; cbn in *; try discriminate; try reflexivity. rewrite C. reflexivity. Qed.
Lemma with_args0_not_stuck : forall t k, is_nonvar_b t = true -> (forall u, is_stuck (k u) = false) ->
  is_stuck (bindo (with_args0_ok t) k) = false.
Proof.
  intros t k NV K. destruct t; cbn in NV; try discriminate; cbn [with_args0_ok]; try apply K.
  destruct (class_functor (PApp f args)); [reflexivity|apply K].
Qed.

Lemma split_call_safe : forall t p, is_stuck (body_split_call [t; p]) = false.
Proof.
  intros. unfold body_split_call. apply with_mode_cases; [reflexivity|]. rewrite modes_split_call.
  intros i m Hn Hs. nth_cases Hn; letters Hs; cbn [Nat.eqb].
  - destruct (fst (list_elements p)) as [|hd [|x r]]; try reflexivity.
    destruct (is_atom_b hd) eqn:A; cbn [negb]; [|reflexivity].
    destruct (call_term_atom hd (x :: r) A) as [t' Ht]. rewrite Ht. reflexivity.
  - apply with_args0_not_stuck; [exact L|reflexivity].
  - apply with_args0_not_stuck; [exact L|reflexivity].
Qed.

(* ... and outside the special-class functors the "nv"/"nl" branches return normally (no OUnknown escape hatch) *)
Lemma split_call_decided : forall t p, class_functor t = false ->
  body_split_call [t; p] <> OUnknown.
Proof.
  intros t p C. unfold body_split_call, with_mode. rewrite modes_split_call.
  destruct (check_mode [t; p] ["vL"; "nv"; "nl"]) as [i| |] eqn:E; try discriminate.
  apply check_mode_first_match in E. destruct E as [(m & Hn & Hs) _].
  nth_cases Hn; letters Hs; cbn [Nat.eqb].
  - destruct (fst (list_elements p)) as [|hd [|x r]]; try discriminate.
    destruct (negb (is_atom_b hd)); [discriminate|]. destruct (call_term hd (x :: r)) as [u|o] eqn:CT; cbn [bindo]; [discriminate|].
    destruct hd; cbn in CT; inversion CT; discriminate.
  - rewrite (with_args0_nonvar _ L C). discriminate.
  - rewrite (with_args0_nonvar _ L C). discriminate.
Qed.

Lemma compare_safe : forall c a b, is_stuck (body_compare [c; a; b]) = false.
Proof.
  intros. unfold body_compare. apply with_mode_cases; [reflexivity|]. rewrite modes_compare.
  intros i m Hn Hs. nth_cases Hn; letters Hs; cbn [Nat.eqb].
  - rewrite (attr_ok_compare _ L). reflexivity.
  - reflexivity.
Qed.

Lemma sort_safe : forall l s, is_stuck (body_sort [l; s]) = false.
Proof.
  intros. unfold body_sort. apply with_mode_cases; [reflexivity|]. intros; reflexivity.
Qed.

(* ------------------------------------------------------------------ atom_number: safe exactly outside the special float spellings *)
Lemma atom_number_safe : forall a n,
  (forall f args, a = PApp f args -> special_float f = None) ->
  is_stuck (body_atom_number [a; n]) = false.
Proof.
  intros a n G. unfold body_atom_number. apply with_mode_cases; [reflexivity|]. rewrite modes_atom_number.
  intros i m Hn Hs. nth_cases Hn; letters Hs; cbn [Nat.eqb orb]; try reflexivity.
  destruct a; try discriminate. rewrite (G _ _ eq_refl). reflexivity.
Qed.

(* the declared mode "av" does NOT guard float()/round(): refutation witnesses are in Findings.v *)

(* numbervars: '*' admits an unbound first argument, the body calls term.apply *)
Lemma numbervars_safe : forall t s o, is_nonvar_b t = true -> is_var_b o = true -> is_stuck (body_numbervars [t; s; o]) = false.
Proof.
  intros t s o NV OV. unfold body_numbervars. apply with_mode_cases; [reflexivity|]. rewrite modes_numbervars.
  intros i m Hn Hs. nth_cases Hn; letters Hs. ints. rewrite (attr_ok_nonvar _ NV). cbn [bindo]. rewrite OV. reflexivity.
Qed.

(* ------------------------------------------------------------------ type tests *)
Lemma type_tests_total : forall name p t, In (name, p) type_tests -> p t <> None.
Proof.
  intros name p t H. unfold type_tests in H. cbn [In] in H.
  repeat (destruct H as [H|H]; [inversion H; subst; clear H; cbn [obind];
    rewrite ?py_is_var_spec, ?py_is_atom_spec, ?py_is_number_spec, ?py_is_compound_spec, ?py_is_float_spec,
            ?py_is_integer_spec, ?py_is_atomic_spec, ?py_is_term_spec, ?py_is_list_spec;
    cbn [por pnot pand]; try discriminate;
    repeat match goal with |- context [match ?b with true => _ | false => _ end] => destruct b end; try discriminate|]).
  destruct H.
Qed.

Lemma tt_safe : forall name t, is_stuck (body_tt name [t]) = false.
Proof.
  intros. unfold body_tt. destruct (find (fun r => String.eqb (fst r) name) type_tests) as [[n p]|] eqn:F; [|reflexivity].
  apply find_some in F. destruct F as [Hin _]. cbn [snd].
  pose proof (type_tests_total n p t Hin) as T. destruct (p t); [reflexivity|congruence].
Qed.

(* ------------------------------------------------------------------ arithmetic: the integer fragment *)
(* ground terms built from integer constants with the operators whose Python definition is pinned *)
Definition int_un : list string := ["-"; "+"; "\"; "abs"; "sign"; "integer"; "ceiling"; "round"; "floor"; "truncate";
                                    "float_integer_part"; "float_fractional_part"].
Definition int_bin : list string := ["+"; "-"; "*"; "//"; "mod"; "rem"; "div"; "/\"; "\/"; "xor"; "#"; "><"; ">>"; "min"; "max"].

Fixpoint int_fragment (t : pterm) : bool :=
  match t with
  | PInt _ => true
  | PApp f [x] => mem (unquote f) int_un && int_fragment x
  | PApp f [x; y] => mem (unquote f) int_bin && int_fragment x && int_fragment y
  | _ => false
  end.

Definition a_int_or_err (r : ares) : Prop := (exists z, r = AV (VI z)) \/ r = AErr.

Lemma mem_cons : forall s a l, mem s (a :: l) = String.eqb s a || mem s l.
Proof. reflexivity. Qed.

Lemma un_op_int : forall name a, mem name int_un = true -> a_int_or_err (un_op name (VI a)).
Proof.
  intros name a H. unfold un_op. unfold int_un in H. unfold mem in *. cbn [existsb] in *.
  repeat match goal with
  | |- context [String.eqb name ?s] => destruct (String.eqb name s) eqn:?; cbn [orb] in *; try (left; eexists; reflexivity)
  end. discriminate.
Qed.

Lemma bin_op_int : forall name a b, mem name int_bin = true -> a_int_or_err (bin_op name (VI a) (VI b)).
Proof.
  intros name a b H. unfold bin_op. unfold int_bin in H. unfold mem in *. cbn [existsb] in *.
  repeat match goal with
  | |- context [String.eqb name ?s] => destruct (String.eqb name s) eqn:?; cbn [orb] in *;
        try (left; eexists; reflexivity);
        try (destruct (b =? 0)%Z; [right; reflexivity|left; eexists; reflexivity]);
        try (destruct (b <? 0)%Z; [right; reflexivity|left; eexists; reflexivity]);
        try (match goal with E : String.eqb name _ = true |- _ =>
               apply String.eqb_eq in E; subst name; vm_compute in H; discriminate H end)
  end. discriminate.
Qed.

Lemma catch_int_or_err : forall r, a_int_or_err r -> a_int_or_err (catch r).
Proof. intros r [[z H]|H]; subst r; [left; eexists; reflexivity|right; reflexivity]. Qed.

Lemma aeval_int_fragment : forall t, int_fragment t = true -> a_int_or_err (aeval t).
Proof.
  induction t using pterm_ind'; cbn [int_fragment]; try discriminate.
  - intros _. left. eexists. reflexivity.
  - destruct args as [|x [|y [|z r]]]; try discriminate.
    + intro Hf. apply andb_prop in Hf. destruct Hf as [Hm Hx].
      inversion H as [|? ? Hx' _]; subst. specialize (Hx' Hx).
      cbn [aeval]. destruct (negb (known_function (unquote f) (List.length [x]))); [right; reflexivity|].
      destruct Hx' as [[z Hz]|Hz]; rewrite Hz; [apply catch_int_or_err, un_op_int; exact Hm|right; reflexivity].
    + intro Hf. apply andb_prop in Hf. destruct Hf as [Hf Hy]. apply andb_prop in Hf. destruct Hf as [Hm Hx].
      inversion H as [|? ? Hx' H2]; subst. inversion H2 as [|? ? Hy' _]; subst. specialize (Hx' Hx). specialize (Hy' Hy).
      cbn [aeval]. destruct (negb (known_function (unquote f) (List.length [x; y]))); [right; reflexivity|].
      destruct Hx' as [[z Hz]|Hz]; rewrite Hz; [|right; reflexivity].
      destruct Hy' as [[w Hw]|Hw]; rewrite Hw; [apply catch_int_or_err, bin_op_int; exact Hm|right; reflexivity].
Qed.

Lemma is_safe_int_fragment : forall a b, int_fragment b = true -> is_stuck (body_is [a; b]) = false.
Proof.
  intros a b F. unfold body_is. apply with_mode_cases; [reflexivity|]. intros i m _ _.
  destruct (aeval_int_fragment b F) as [[z Hz]|Hz]; rewrite Hz; [|reflexivity].
  destruct a; try reflexivity. destruct (z =? z0)%Z; reflexivity.
Qed.

Lemma cmp_safe_int_fragment_gen : forall pyname f a b,
  cmp_fun pyname = Some f -> known_modes (site_modes pyname) = true ->
  int_fragment a = true -> int_fragment b = true ->
  is_stuck (body_cmp pyname [a; b]) = false.
Proof.
  intros pyname f a b C K Fa Fb. unfold body_cmp. rewrite C. apply with_mode_cases; [exact K|]. intros i m _ _.
  destruct (aeval_int_fragment a Fa) as [[z Hz]|Hz]; rewrite Hz; [|reflexivity].
  destruct (aeval_int_fragment b Fb) as [[w Hw]|Hw]; rewrite Hw; reflexivity.
Qed.

Definition cmp_names : list string :=
  ["_builtin_gt"; "_builtin_lt"; "_builtin_le"; "_builtin_ge"; "_builtin_val_eq"; "_builtin_val_neq"].

Lemma cmp_safe_int_fragment : forall pyname a b, In pyname cmp_names ->
  int_fragment a = true -> int_fragment b = true -> is_stuck (body_cmp pyname [a; b]) = false.
Proof.
  intros pyname a b H Fa Fb. unfold cmp_names in H. cbn [In] in H.
  repeat (destruct H as [H|H]; [subst pyname; eapply cmp_safe_int_fragment_gen; [reflexivity|reflexivity|exact Fa|exact Fb]|]).
  destruct H.
Qed.

(* the declared mode 'g' (ground) does NOT guard arithmetic on strings: refutation witnesses are in Findings.v *)
