(* C04 — the documented unbuffered / rc-first / random evaluation orders agree
   with the default one.  Only statements, closed by `exact`.
   On the abstract machine of C03/ModelTabling.v the engine modes are
   strategies (state -> index of the pending item to process):
     depth_first      MessageOrderD   (plain LIFO, the --unbuffered flag)
     rc_first         MessageOrderDrc (pending r/c traffic first, then newest e)
     random_order rnd MessageOrder1 of docs/source/engine.rst (r/c first, then an
                      arbitrary e message; rnd is any function of the state)
     permuted_lifo    the C03 hook (default order perturbed arbitrarily)
   Every strategy run is a schedule run, so agreement is an instance of
   C03_schedule_independent.  The unbuffered branches of EvalOr/EvalDefine,
   cycle detection and findall inside the real engine are NOT modelled; the
   tie is sampled (harness/props/C04.py) and, on the pinned tree, exposes
   genuine disagreements of the real engine (notes/C04.md). *)
From Coq Require Import List Arith Bool QArith.
From PL.C03 Require Import ModelTabling ProofsTabling ProofsTermination.
Import ListNotations.
Local Close Scope Q_scope.
Local Open Scope nat_scope.

Theorem C04_strategy_is_schedule : forall (P : program) (f : strategy) (fuel : nat) (st : state),
  exists sched : schedule, length sched <= fuel /\ run P sched st = run_strategy P f fuel st.
Proof. exact strategy_is_schedule. Qed.
Print Assumptions C04_strategy_is_schedule.

Theorem C04_strategies_agree : forall (P : program) (Q : list atom) (f1 f2 : strategy) (n1 n2 : nat),
  terminated (run_strategy P f1 n1 (init Q)) -> terminated (run_strategy P f2 n2 (init Q)) ->
  (forall a, In a (goals (run_strategy P f1 n1 (init Q))) <-> In a (goals (run_strategy P f2 n2 (init Q)))) /\
  (forall c, In c (edges (run_strategy P f1 n1 (init Q))) <-> In c (edges (run_strategy P f2 n2 (init Q)))).
Proof. exact strategies_agree. Qed.
Print Assumptions C04_strategies_agree.

(* the three documented modes against the default-like depth-first order, with
   values, probabilities and the must-reject verdict *)
Theorem C04_modes_agree_with_depth_first :
  forall (P : program) (Q : list atom) (rnd : state -> nat) (f : strategy) (n1 n2 : nat),
  f = depth_first \/ f = rc_first \/ f = random_order rnd ->
  terminated (run_strategy P depth_first n1 (init Q)) -> terminated (run_strategy P f n2 (init Q)) ->
  (forall a, In a (goals (run_strategy P depth_first n1 (init Q))) <-> In a (goals (run_strategy P f n2 (init Q)))) /\
  (forall c, In c (edges (run_strategy P depth_first n1 (init Q))) <-> In c (edges (run_strategy P f n2 (init Q)))) /\
  (forall U n m w a, wf_value U n m (edges (run_strategy P depth_first n1 (init Q))) w a
                     = wf_value U n m (edges (run_strategy P f n2 (init Q))) w a) /\
  (forall U n m W q, prob U n m (edges (run_strategy P depth_first n1 (init Q))) W q
                     = prob U n m (edges (run_strategy P f n2 (init Q))) W q) /\
  (has_neg_cycle (in_list (edges (run_strategy P depth_first n1 (init Q)))) <->
   has_neg_cycle (in_list (edges (run_strategy P f n2 (init Q))))).
Proof. exact modes_agree_with_depth_first. Qed.
Print Assumptions C04_modes_agree_with_depth_first.

(* ---- without termination hypotheses (C03/ProofsTermination.v): EVERY strategy
   (any function of the state, not only the three documented ones) empties the
   worklist within bound P Q = |Q| + 2|P| + number of body literals steps *)
Theorem C04_strategy_terminates : forall (P : program) (Q : list atom) (f : strategy) (n : nat),
  bound P Q <= n -> terminated (run_strategy P f n (init Q)).
Proof. exact run_strategy_terminates. Qed.
Print Assumptions C04_strategy_terminates.

Theorem C04_strategies_agree_total : forall (P : program) (Q : list atom) (f1 f2 : strategy) (n1 n2 : nat),
  bound P Q <= n1 -> bound P Q <= n2 ->
  (forall a, In a (goals (run_strategy P f1 n1 (init Q))) <-> In a (goals (run_strategy P f2 n2 (init Q)))) /\
  (forall c, In c (edges (run_strategy P f1 n1 (init Q))) <-> In c (edges (run_strategy P f2 n2 (init Q)))).
Proof. exact strategies_agree_total. Qed.
Print Assumptions C04_strategies_agree_total.

(* with enough fuel every strategy computes exactly the relevant ground program *)
Theorem C04_strategy_result_is_relevant_subprogram :
  forall (P : program) (Q : list atom) (f : strategy) (n : nat), bound P Q <= n ->
  (forall a, In a (goals (run_strategy P f n (init Q))) <-> reach P Q a) /\
  (forall c, In c (edges (run_strategy P f n (init Q))) <-> (In c P /\ reach P Q (head c))).
Proof. exact strategy_result_is_relevant_subprogram. Qed.
Print Assumptions C04_strategy_result_is_relevant_subprogram.

Theorem C04_modes_agree_with_depth_first_total :
  forall (P : program) (Q : list atom) (f : strategy) (n1 n2 : nat),
  bound P Q <= n1 -> bound P Q <= n2 ->
  (forall a, In a (goals (run_strategy P depth_first n1 (init Q))) <-> In a (goals (run_strategy P f n2 (init Q)))) /\
  (forall c, In c (edges (run_strategy P depth_first n1 (init Q))) <-> In c (edges (run_strategy P f n2 (init Q)))) /\
  (forall U n m w a, wf_value U n m (edges (run_strategy P depth_first n1 (init Q))) w a
                     = wf_value U n m (edges (run_strategy P f n2 (init Q))) w a) /\
  (forall U n m W q, prob U n m (edges (run_strategy P depth_first n1 (init Q))) W q
                     = prob U n m (edges (run_strategy P f n2 (init Q))) W q) /\
  (has_neg_cycle (in_list (edges (run_strategy P depth_first n1 (init Q)))) <->
   has_neg_cycle (in_list (edges (run_strategy P f n2 (init Q))))).
Proof. exact modes_agree_with_depth_first_total. Qed.
Print Assumptions C04_modes_agree_with_depth_first_total.

(* ---- non-vacuity on the example program of C03 *)
Definition exP : program :=
  [ mkClause 0 [Pos 1; Neg 4]; mkClause 1 [Pos 2]; mkClause 1 [Pos 3]; mkClause 2 [Pos 1];
    mkClause 4 [Pos 3; Pos 2]; mkClause 5 [Pos 0] ].
Definition ex_rnd : state -> nat := fun st => length (goals st) * 7 + length (edges st) * 3 + 1.

Example C04_ex_all_terminate :
  terminatedb (run_strategy exP depth_first 40 (init [0])) = true /\
  terminatedb (run_strategy exP rc_first 40 (init [0])) = true /\
  terminatedb (run_strategy exP (random_order ex_rnd) 40 (init [0])) = true.
Proof. vm_compute. repeat split; reflexivity. Qed.

Example C04_ex_orders_differ :
  map head (edges (run_strategy exP depth_first 40 (init [0]))) = [1; 1; 2; 4; 0] /\
  map head (edges (run_strategy exP (random_order ex_rnd) 40 (init [0]))) = [4; 2; 1; 1; 0].
Proof. vm_compute. split; reflexivity. Qed.

Example C04_ex_bound : bound exP [0] = 21.
Proof. vm_compute. reflexivity. Qed.
