(* C13 — the tabled evaluation of a ground definite program computes the least
   Herbrand model on the atoms relevant to the queries (C13_tabled_is_lfp for
   the abstract machine of C03).

   1. [lm] is the least model (closed under the clauses, contained in every
      closed set).
   2. Restricting a program to the clauses whose head is reachable from the
      queries does not change the least model on the reachable atoms.
   3. The Kleene iteration [lfp_true U E] (C03's [gamma], |U|+1 rounds) is the
      least model of E whenever U contains the heads of E: the chain of
      iterates grows inside the finite set U, so it is stationary after at most
      |U| rounds (counting argument, no NoDup needed), a stationary iterate is
      closed under the clauses, and every iterate is inside the least model.
   4. With C03's invariant and termination theorem: after ANY schedule of length
      >= bound P Q the answer of the machine is  reach P Q a /\ lm P a. *)
From Coq Require Import List Arith Bool QArith Lia.
From PL.C03 Require Import ModelTabling ProofsTabling ProofsTermination.
From PL.C13 Require Import ProofsTabledModel.
Import ListNotations.
Local Close Scope Q_scope.
Local Open Scope nat_scope.

(* ------------------------------------------------------------------ definite programs *)
Lemma gdefinite_body : forall P, gdefinite P = true ->
  forall c, In c P -> forall l, In l (body c) -> exists b, l = Pos b.
Proof.
  intros P H c Hc l Hl. unfold gdefinite in H. rewrite forallb_forall in H.
  specialize (H c Hc). rewrite forallb_forall in H. specialize (H l Hl).
  destruct l as [b|b]; [eauto | discriminate].
Qed.

Definition definite_list (E : list clause) : Prop :=
  forall c, In c E -> forall l, In l (body c) -> exists b, l = Pos b.

Lemma definite_list_sub : forall E P, (forall c, In c E -> In c P) -> definite_list P -> definite_list E.
Proof. intros E P S D c Hc. apply D. apply S. exact Hc. Qed.

(* ------------------------------------------------------------------ 1. least model *)
Theorem lm_closed : forall E c, In c E -> (forall b, In (Pos b) (body c) -> lm E b) -> lm E (head c).
Proof. intros. apply lm_cl; assumption. Qed.

Theorem lm_least : forall E (M : atom -> Prop),
  (forall c, In c E -> (forall b, In (Pos b) (body c) -> M b) -> M (head c)) ->
  forall a, lm E a -> M a.
Proof.
  intros E M HM a H. induction H as [c Hc _ IH]. apply HM; assumption.
Qed.

Lemma lm_mono : forall E1 E2, (forall c, In c E1 -> In c E2) -> forall a, lm E1 a -> lm E2 a.
Proof.
  intros E1 E2 S a H. induction H as [c Hc _ IH]. apply lm_cl; [apply S; exact Hc | exact IH].
Qed.

Lemma lm_head : forall E a, lm E a -> exists c, In c E /\ head c = a.
Proof. intros E a H. destruct H as [c Hc _]. exists c. auto. Qed.

(* ------------------------------------------------------------------ 2. relevance *)
Lemma lm_relevant : forall P Q E,
  (forall c, In c E <-> (In c P /\ reach P Q (head c))) ->
  forall a, reach P Q a -> (lm P a <-> lm E a).
Proof.
  intros P Q E HE a R. split.
  - intros H. revert R. induction H as [c Hc _ IH]. intros R.
    apply lm_cl.
    + apply HE. auto.
    + intros b Hb. apply IH; [exact Hb|].
      apply (reach_step P Q (head c) c (Pos b) R Hc eq_refl Hb).
  - apply lm_mono. intros c Hc. apply HE in Hc. tauto.
Qed.

(* ------------------------------------------------------------------ 3. Kleene iteration *)
Lemma memo_true : forall U (I : interp) a, memo U I a = true <-> (In a U /\ I a = true).
Proof.
  intros U I a. unfold memo. rewrite mem_In, filter_In. tauto.
Qed.

Definition ile (I J : interp) : Prop := forall a, I a = true -> J a = true.

Lemma tp_true : forall E w J I a, tp E w J I a = true <->
  (w a = true \/ exists c, In c E /\ head c = a /\ forall l, In l (body c) -> lit_val I J l = true).
Proof.
  intros E w J I a. unfold tp. rewrite orb_true_iff, existsb_exists. split.
  - intros [H|[c [Hc H]]]; [auto|]. right. apply andb_true_iff in H. destruct H as [H1 H2].
    apply Nat.eqb_eq in H1. rewrite forallb_forall in H2. eauto.
  - intros [H|[c [Hc [H1 H2]]]]; [auto|]. right. exists c. split; [exact Hc|].
    apply andb_true_iff. split; [apply Nat.eqb_eq; exact H1 | apply forallb_forall; exact H2].
Qed.

Lemma tp_mono : forall E w J I1 I2, ile I1 I2 -> ile (tp E w J I1) (tp E w J I2).
Proof.
  intros E w J I1 I2 L a H. apply tp_true in H. apply tp_true.
  destruct H as [H|[c [Hc [H1 H2]]]]; [auto|]. right. exists c. repeat split; auto.
  intros l Hl. specialize (H2 l Hl). destruct l as [b|b]; simpl in *; [apply L; exact H2 | exact H2].
Qed.

Lemma memo_mono : forall U I1 I2, ile I1 I2 -> ile (memo U I1) (memo U I2).
Proof.
  intros U I1 I2 L a H. apply memo_true in H. apply memo_true. destruct H. split; auto.
Qed.

Lemma filter_len_le : forall (g : atom -> bool) l, length (filter g l) <= length l.
Proof.
  intros g l. induction l as [|x t IH]; simpl; [lia|]. destruct (g x); simpl; lia.
Qed.

Section Kleene.
  Variable U : list atom.
  Variable E : list clause.
  Let f : interp -> interp := tp E no_facts no_facts.
  Let it (k : nat) : interp := iter U k f (fun _ => false).

  Lemma it_S : forall k, it (S k) = memo U (f (it k)).
  Proof. reflexivity. Qed.

  Lemma it_in_U : forall k a, it k a = true -> In a U.
  Proof.
    intros [|k] a H; [discriminate|]. rewrite it_S in H. apply memo_true in H. tauto.
  Qed.

  Lemma it_incr : forall k, ile (it k) (it (S k)).
  Proof.
    induction k as [|k IH].
    - intros a H. discriminate.
    - rewrite (it_S (S k)), (it_S k). apply memo_mono. apply tp_mono. exact IH.
  Qed.

  (* every iterate is inside the least model *)
  Lemma it_sound : forall k a, it k a = true -> lm E a.
  Proof.
    induction k as [|k IH]; intros a H; [discriminate|].
    rewrite it_S in H. apply memo_true in H. destruct H as [_ H].
    apply tp_true in H. destruct H as [H|[c [Hc [H1 H2]]]]; [discriminate|].
    subst a. apply lm_cl; [exact Hc|]. intros b Hb. apply IH. exact (H2 _ Hb).
  Qed.

  (* a stationary iterate contains the least model *)
  Lemma stationary_complete : forall I,
    definite_list E -> (forall c, In c E -> In (head c) U) ->
    (forall a, memo U (f I) a = I a) ->
    forall a, lm E a -> I a = true.
  Proof.
    intros I D HU St a H. induction H as [c Hc _ IH].
    rewrite <- St. apply memo_true. split; [apply HU; exact Hc|].
    apply tp_true. right. exists c. repeat split; auto.
    intros l Hl. destruct (D c Hc l Hl) as [b ->]. simpl. apply IH. exact Hl.
  Qed.

  (* counting: the number of atoms of U (with multiplicity) that are still false *)
  Definition cnt (I : interp) : nat := length (filter (fun a => negb (I a)) U).

  Lemma cnt_le_len : forall I, cnt I <= length U.
  Proof. intros I. unfold cnt. apply filter_len_le. Qed.

  Lemma filter_count_mono : forall (l : list atom) (I J : interp), ile I J ->
    length (filter (fun a => negb (J a)) l) <= length (filter (fun a => negb (I a)) l).
  Proof.
    intros l I J L. induction l as [|x t IH]; simpl; [lia|].
    destruct (I x) eqn:Ix.
    - rewrite (L x Ix). simpl. exact IH.
    - simpl. destruct (J x); simpl; lia.
  Qed.

  Lemma filter_count_strict : forall (l : list atom) (I J : interp) x, ile I J ->
    In x l -> I x = false -> J x = true ->
    length (filter (fun a => negb (J a)) l) < length (filter (fun a => negb (I a)) l).
  Proof.
    intros l I J x L. induction l as [|y t IH]; simpl; intros Hin Ix Jx; [destruct Hin|].
    pose proof (filter_count_mono t I J L) as M.
    destruct Hin as [->|Hin].
    - rewrite Ix, Jx. simpl. lia.
    - specialize (IH Hin Ix Jx). destruct (I y) eqn:Iy.
      + rewrite (L y Iy). simpl. exact IH.
      + simpl. destruct (J y); simpl; lia.
  Qed.

  Lemma forallb_false_ex : forall (g : atom -> bool) l, forallb g l = false -> exists x, In x l /\ g x = false.
  Proof.
    intros g l. induction l as [|x t IH]; simpl; intros H; [discriminate|].
    destruct (g x) eqn:G.
    - simpl in H. destruct (IH H) as [y [Hy Gy]]. exists y. auto.
    - exists x. auto.
  Qed.

  Definition stat (k : nat) : Prop := forall a, it (S k) a = it k a.

  Lemma progress : forall k, stat k \/ cnt (it (S k)) < cnt (it k).
  Proof.
    intros k.
    destruct (forallb (fun a => Bool.eqb (it (S k) a) (it k a)) U) eqn:B.
    - left. intros a. rewrite forallb_forall in B.
      destruct (it (S k) a) eqn:A1.
      + pose proof (it_in_U (S k) a A1) as Ha. specialize (B a Ha). rewrite A1 in B.
        apply Bool.eqb_prop in B. exact B.
      + destruct (it k a) eqn:A2; [|reflexivity].
        pose proof (it_incr k a A2). congruence.
    - right. apply forallb_false_ex in B. destruct B as [x [Hx Bx]].
      unfold cnt. apply (filter_count_strict U (it k) (it (S k)) x (it_incr k) Hx).
      + destruct (it k x) eqn:A2; [|reflexivity].
        rewrite (it_incr k x A2) in Bx. discriminate.
      + destruct (it (S k) x) eqn:A1; [reflexivity|].
        destruct (it k x) eqn:A2; [|discriminate]. pose proof (it_incr k x A2). congruence.
  Qed.

  Lemma some_stat : forall k, (exists j, j <= k /\ stat j) \/ cnt (it k) + k <= length U.
  Proof.
    induction k as [|k IH].
    - right. pose proof (cnt_le_len (it 0)). lia.
    - destruct IH as [[j [Hj St]]|IH].
      + left. exists j. split; [lia | exact St].
      + destruct (progress k) as [St|L].
        * left. exists k. split; [lia | exact St].
        * right. lia.
  Qed.

  Lemma f_ext : forall I1 I2, ieq I1 I2 -> ieq (f I1) (f I2).
  Proof.
    intros I1 I2 H. unfold f. apply tp_ext; [intros c; tauto | intros a; reflexivity | exact H].
  Qed.

  Lemma stat_forever : forall j, stat j -> forall d, ieq (it (j + d)) (it j).
  Proof.
    intros j St d. induction d as [|d IH].
    - rewrite Nat.add_0_r. intros a. reflexivity.
    - rewrite Nat.add_succ_r. rewrite it_S. intros a.
      rewrite (memo_ext U _ _ (f_ext _ _ IH) a). rewrite <- it_S. apply St.
  Qed.

  Lemma stat_late : stat (S (length U)).
  Proof.
    destruct (some_stat (S (length U))) as [[j [Hj St]]|L]; [|lia].
    intros a.
    pose proof (stat_forever j St (S (S (length U)) - j) a) as E1.
    pose proof (stat_forever j St (S (length U) - j) a) as E2.
    replace (j + (S (S (length U)) - j)) with (S (S (length U))) in E1 by lia.
    replace (j + (S (length U) - j)) with (S (length U)) in E2 by lia.
    rewrite E1, E2. reflexivity.
  Qed.

  Theorem lfp_true_is_lm :
    definite_list E -> (forall c, In c E -> In (head c) U) ->
    forall a, lfp_true U E a = true <-> lm E a.
  Proof.
    intros D HU a. change (lfp_true U E a) with (it (S (length U)) a). split.
    - apply it_sound.
    - apply stationary_complete; try assumption.
      intros b. rewrite <- it_S. apply stat_late.
  Qed.
End Kleene.

(* ------------------------------------------------------------------ 4. the machine *)
Theorem tabled_true_is_lfp : forall P Q st,
  gdefinite P = true -> Inv P Q st -> terminated st ->
  forall a, tabled_true st a = true <-> (reach P Q a /\ lm P a).
Proof.
  intros P Q st D I T a.
  pose proof (terminated_edges P Q st I T) as HE. unfold relevant in HE.
  assert (DE : definite_list (edges st)).
  { apply (definite_list_sub _ P); [intros c Hc; apply HE in Hc; tauto|].
    exact (gdefinite_body P D). }
  assert (HU : forall c, In c (edges st) -> In (head c) (goals st)).
  { intros c Hc. apply (inv_edges P Q st I c Hc). }
  unfold tabled_true. rewrite (lfp_true_is_lm (goals st) (edges st) DE HU a).
  split.
  - intros H. assert (R : reach P Q a).
    { destruct (lm_head _ _ H) as [c [Hc <-]]. apply HE in Hc. tauto. }
    split; [exact R|]. apply (lm_relevant P Q (edges st) HE a R). exact H.
  - intros [R H]. apply (lm_relevant P Q (edges st) HE a R). exact H.
Qed.

(* the design's C13_tabled_is_lfp for the abstract machine: conditional on termination ... *)
Theorem tabled_is_lfp : forall P Q s, gdefinite P = true ->
  terminated (run P s (init Q)) ->
  forall a, tabled_answer P Q s a = true <-> (reach P Q a /\ lm P a).
Proof.
  intros P Q s D T a. unfold tabled_answer.
  apply tabled_true_is_lfp; [exact D | apply inv_run; apply inv_init | exact T].
Qed.

(* ... and unconditional: any schedule at least as long as C03's bound *)
Theorem tabled_is_lfp_total : forall P Q s, gdefinite P = true ->
  bound P Q <= length s ->
  forall a, tabled_answer P Q s a = true <-> (reach P Q a /\ lm P a).
Proof.
  intros P Q s D L. apply tabled_is_lfp; [exact D | apply run_terminates; exact L].
Qed.

(* on the queries themselves the restriction to reachable atoms is void *)
Corollary tabled_query_is_lm : forall P Q s, gdefinite P = true ->
  bound P Q <= length s ->
  forall a, In a Q -> (tabled_answer P Q s a = true <-> lm P a).
Proof.
  intros P Q s D L a Ha. rewrite (tabled_is_lfp_total P Q s D L a).
  split; [tauto|]. intros H. split; [apply reach_q; exact Ha | exact H].
Qed.

(* schedule independence of the answers, as a corollary *)
Corollary tabled_answer_schedule_free : forall P Q s1 s2, gdefinite P = true ->
  bound P Q <= length s1 -> bound P Q <= length s2 ->
  forall a, tabled_answer P Q s1 a = tabled_answer P Q s2 a.
Proof.
  intros P Q s1 s2 D L1 L2 a.
  pose proof (tabled_is_lfp_total P Q s1 D L1 a) as H1.
  pose proof (tabled_is_lfp_total P Q s2 D L2 a) as H2.
  destruct (tabled_answer P Q s1 a), (tabled_answer P Q s2 a); try reflexivity.
  - symmetry. apply H2. apply H1. reflexivity.
  - apply H1. apply H2. reflexivity.
Qed.

(* ------------------------------------------------------------------ link with C03's well-founded value:
   for a definite clause list the alternating fixpoint is two-valued and its
   true part is the Kleene iteration — [tabled_true] is C03's [wf_value] *)
Lemma existsb_ext_in : forall (A : Type) (g h : A -> bool) l,
  (forall x, In x l -> g x = h x) -> existsb g l = existsb h l.
Proof.
  intros A g h l H. induction l as [|x t IH]; simpl; [reflexivity|].
  rewrite (H x (or_introl eq_refl)), IH; [reflexivity|]. intros y Hy. apply H. right. exact Hy.
Qed.

Lemma forallb_ext_in : forall (A : Type) (g h : A -> bool) l,
  (forall x, In x l -> g x = h x) -> forallb g l = forallb h l.
Proof.
  intros A g h l H. induction l as [|x t IH]; simpl; [reflexivity|].
  rewrite (H x (or_introl eq_refl)), IH; [reflexivity|]. intros y Hy. apply H. right. exact Hy.
Qed.

Lemma tp_definite_J : forall E w J1 J2 I1 I2, definite_list E -> ieq I1 I2 ->
  ieq (tp E w J1 I1) (tp E w J2 I2).
Proof.
  intros E w J1 J2 I1 I2 D HI a. unfold tp. f_equal.
  apply existsb_ext_in. intros c Hc. f_equal.
  apply forallb_ext_in. intros l Hl. destruct (D c Hc l Hl) as [b ->]. simpl. apply HI.
Qed.

Lemma gamma_definite_J : forall U n E w J1 J2, definite_list E ->
  ieq (gamma U n E w J1) (gamma U n E w J2).
Proof.
  intros U n E w J1 J2 D. unfold gamma. induction n as [|n IH]; simpl.
  - intros a. reflexivity.
  - apply memo_ext. apply tp_definite_J; assumption.
Qed.

Theorem wf_value_definite : forall U n m E w a, definite_list E ->
  wf_value U n (S m) E w a = Some (gamma U n E w no_facts a).
Proof.
  intros U n m E w a D. unfold wf_value, wf_over. cbn [wf_under].
  rewrite (gamma_definite_J U n E w _ no_facts D a).
  rewrite (gamma_definite_J U n E w (gamma U n E w (gamma U n E w (wf_under U n m E w))) no_facts D a).
  destruct (gamma U n E w no_facts a); reflexivity.
Qed.

Theorem tabled_true_is_wf_value : forall P Q st m a,
  gdefinite P = true -> Inv P Q st ->
  wf_value (goals st) (S (length (goals st))) (S m) (edges st) no_facts a = Some (tabled_true st a).
Proof.
  intros P Q st m a D I. apply wf_value_definite.
  apply (definite_list_sub _ P); [intros c Hc; apply (inv_edges P Q st I c Hc) | exact (gdefinite_body P D)].
Qed.
