(* C13 — reference operational semantics of pure Prolog (no cut, no
   probabilities): leftmost selection, clauses in program order, depth-first,
   answers as an ordered list (duplicates kept), negation as failure on ground
   goals, findall/3, =/2, \=/2.  Executable definitions only.

   Terms, substitutions and `mgu` are those of C14 (proved there).
   Fuel bounds the *depth* of the recursion; exhaustion is an explicit
   outcome and is excluded in every theorem. *)
From Coq Require Import NArith ZArith List Bool.
From PL.C14 Require Import ModelUnify.
Import ListNotations.

Inductive goal : Type :=
| GTrue
| GFail
| GCall (t : term)
| GAnd (a b : goal)
| GOr (a b : goal)
| GNot (a : goal)
| GEq (s t : term)
| GNeq (s t : term)
| GFindall (pat : term) (g : goal) (res : term).

Definition clause := (term * goal)%type.
Definition program := list clause.

Fixpoint ginst (th : N -> term) (g : goal) : goal :=
  match g with
  | GTrue => GTrue
  | GFail => GFail
  | GCall t => GCall (inst th t)
  | GAnd a b => GAnd (ginst th a) (ginst th b)
  | GOr a b => GOr (ginst th a) (ginst th b)
  | GNot a => GNot (ginst th a)
  | GEq s t => GEq (inst th s) (inst th t)
  | GNeq s t => GNeq (inst th s) (inst th t)
  | GFindall p a r => GFindall (inst th p) (ginst th a) (inst th r)
  end.

Definition gapply (sg : subst) (g : goal) : goal := ginst (as_fun sg) g.

Fixpoint gvars (g : goal) : list N :=
  match g with
  | GTrue | GFail => []
  | GCall t => tvars t
  | GAnd a b | GOr a b => gvars a ++ gvars b
  | GNot a => gvars a
  | GEq s t | GNeq s t => tvars s ++ tvars t
  | GFindall p a r => tvars p ++ gvars a ++ tvars r
  end.

Definition shift (k : N) : N -> term := fun v => TVar (v + k)%N.

(* number of variable names a clause may use: 1 + the largest one *)
Definition clause_width (c : clause) : N :=
  N.succ (fold_right N.max 0%N (tvars (fst c) ++ gvars (snd c))).

Inductive outcome (A : Type) : Type :=
| Ans (l : list A)
| OutOfFuel
| Floundered.     (* \+ on a non-ground goal *)
Arguments Ans {A} l.
Arguments OutOfFuel {A}.
Arguments Floundered {A}.

Fixpoint obind {A B : Type} (l : list A) (f : A -> outcome B) : outcome B :=
  match l with
  | [] => Ans []
  | a :: l' =>
      match f a with
      | Ans r => match obind l' f with Ans r' => Ans (r ++ r') | e => e end
      | OutOfFuel => OutOfFuel
      | Floundered => Floundered
      end
  end.

(* list terms: the harness interns '[]' as atom 0 and '.' as atom 1 *)
Definition t_nil : term := TApp (SAtom 0) [].
Definition t_cons (h t : term) : term := TApp (SAtom 1) [h; t].
Definition mklist (l : list term) : term := fold_right t_cons t_nil l.

Definition ground_goal (g : goal) : bool :=
  match gvars g with [] => true | _ => false end.

(* an answer: the substitution computed so far and the next unused variable *)
Definition answer := (subst * N)%type.

Fixpoint solve (fuel : nat) (P : program) (g : goal) (nv : N) : outcome answer :=
  match fuel with
  | O => OutOfFuel
  | S n =>
    match g with
    | GTrue => Ans [([], nv)]
    | GFail => Ans []
    | GEq s t =>
        match mgu s t with Some sg => Ans [(sg, nv)] | None => Ans [] end
    | GNeq s t =>
        match mgu s t with Some _ => Ans [] | None => Ans [([], nv)] end
    | GAnd a b =>
        match solve n P a nv with
        | Ans l =>
            obind l (fun r1 : answer =>
              match solve n P (gapply (fst r1) b) (snd r1) with
              | Ans l2 => Ans (map (fun r2 : answer => (fst r1 ++ fst r2, snd r2)) l2)
              | OutOfFuel => OutOfFuel
              | Floundered => Floundered
              end)
        | OutOfFuel => OutOfFuel
        | Floundered => Floundered
        end
    | GOr a b =>
        match solve n P a nv with
        | Ans l1 =>
            match solve n P b nv with
            | Ans l2 => Ans (l1 ++ l2)
            | OutOfFuel => OutOfFuel
            | Floundered => Floundered
            end
        | OutOfFuel => OutOfFuel
        | Floundered => Floundered
        end
    | GNot a =>
        if ground_goal a then
          match solve n P a nv with
          | Ans [] => Ans [([], nv)]
          | Ans _ => Ans []
          | OutOfFuel => OutOfFuel
          | Floundered => Floundered
          end
        else Floundered
    | GCall t =>
        obind P (fun c : clause =>
          let h := inst (shift nv) (fst c) in
          let b := ginst (shift nv) (snd c) in
          let nv1 := (nv + clause_width c)%N in
          match mgu t h with
          | None => Ans []
          | Some sg =>
              match solve n P (gapply sg b) nv1 with
              | Ans l2 => Ans (map (fun r2 : answer => (sg ++ fst r2, snd r2)) l2)
              | OutOfFuel => OutOfFuel
              | Floundered => Floundered
              end
          end)
    | GFindall pat a res =>
        match solve n P a nv with
        | Ans l =>
            let items := map (fun r : answer => apply (fst r) pat) l in
            let nv' := fold_right N.max nv (map (fun r : answer => snd r) l) in
            match mgu res (mklist items) with
            | Some sg => Ans [(sg, nv')]
            | None => Ans []
            end
        | OutOfFuel => OutOfFuel
        | Floundered => Floundered
        end
    end
  end.

(* the ordered list of answer instances of a query term *)
Definition answers (fuel : nat) (P : program) (q : term) : outcome term :=
  match solve fuel P (GCall q) (N.succ (fold_right N.max 0%N (tvars q))) with
  | Ans l => Ans (map (fun r : answer => apply (fst r) q) l)
  | OutOfFuel => OutOfFuel
  | Floundered => Floundered
  end.
