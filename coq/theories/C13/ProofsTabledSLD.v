(* C13 — bridge between the two program representations and agreement of the
   tabled machine with the reference SLD interpreter on ground definite programs.

   Bridge.  [embed nm P] (ProofsTabledModel.v) reads a ground definite program
   over numbered atoms (C03) as a first-order program of ModelSLD.v, [nm a]
   being the ground atom with number a.  If nm yields ground terms and is
   injective, then  holds (embed nm P) (GCall (nm a))  <->  lm P a :
   the two inductively defined least models coincide.

   Agreement.  With C13's soundness/completeness of [solve] on finished runs and
   [tabled_is_lfp_total]: whenever the SLD interpreter finishes on the ground
   query nm a, its verdict (some answer / finite failure) is the answer of the
   tabled machine — under every schedule of length >= bound. *)
From Coq Require Import NArith ZArith List Bool Arith Lia.
From PL.C14 Require Import ModelUnify ProofsUnify.
From PL.C03 Require Import ModelTabling ProofsTabling ProofsTermination.
From PL.C13 Require Import ModelSLD ProofsSLD ProofsSLDMono ProofsSLDComplete.
From PL.C13 Require Import ProofsTabledModel ProofsTabledLfp.
Import ListNotations.

Section Bridge.
  Variable nm : atom -> term.
  Hypothesis nm_ground : forall a, tvars (nm a) = [].
  Hypothesis nm_inj : forall a b, nm a = nm b -> a = b.

  Lemma inst_nm : forall th a, inst th (nm a) = nm a.
  Proof.
    intros th a. apply inst_id_on. rewrite nm_ground. intros v [].
  Qed.

  Lemma ginst_embed_body : forall th ls, ginst th (embed_body nm ls) = embed_body nm ls.
  Proof.
    intros th ls. unfold embed_body. induction ls as [|l t IH]; simpl; [reflexivity|].
    rewrite inst_nm. f_equal. exact IH.
  Qed.

  Lemma embed_body_definite : forall ls, definite (embed_body nm ls) = true.
  Proof.
    unfold embed_body. induction ls as [|l t IH]; simpl; [reflexivity | exact IH].
  Qed.

  Lemma embed_definite : forall P, definite_program (embed nm P).
  Proof.
    intros P c Hc. unfold embed in Hc. apply in_map_iff in Hc. destruct Hc as [c0 [<- _]].
    simpl. apply embed_body_definite.
  Qed.

  Lemma holds_embed_body : forall P' ls,
    (forall l, In l ls -> holds P' (GCall (nm (lit_atom l)))) -> holds P' (embed_body nm ls).
  Proof.
    intros P' ls. unfold embed_body. induction ls as [|l t IH]; simpl; intros H.
    - constructor.
    - constructor; [apply H; auto | apply IH; intros; apply H; auto].
  Qed.

  (* least model of the ground program  =>  least model of its first-order reading *)
  Lemma holds_of_lm : forall P, gdefinite P = true ->
    forall a, lm P a -> holds (embed nm P) (GCall (nm a)).
  Proof.
    intros P D a H. induction H as [c Hc _ IH].
    assert (Hin : In (embed_clause nm c) (embed nm P)) by (unfold embed; apply in_map; exact Hc).
    pose proof (H_call (embed nm P) (embed_clause nm c) TVar Hin) as K.
    simpl in K. rewrite inst_TVar in K. apply K.
    rewrite ginst_embed_body. apply holds_embed_body.
    intros l Hl. destruct (gdefinite_body P D c Hc l Hl) as [b ->]. simpl. apply IH. exact Hl.
  Qed.

  (* ... and back (injectivity of the naming is used here) *)
  Lemma lm_of_holds_gen : forall P g, holds (embed nm P) g ->
    (forall a, g = GCall (nm a) -> lm P a) /\
    (forall ls, g = embed_body nm ls -> forall l, In l ls -> lm P (lit_atom l)).
  Proof.
    intros P g H. induction H as [ | g1 g2 H1 IH1 H2 IH2 | g1 g2 H1 IH1 | g1 g2 H2 IH2 | t0 | c th Hc Hb IH].
    - split; [intros a E; discriminate|].
      intros [|l r] E; [intros l []|discriminate].
    - split; [intros a E; discriminate|].
      intros [|l r] E; [discriminate|]. unfold embed_body in E. simpl in E.
      injection E as E1 E2. intros l' [<-|Hl'].
      + apply (proj1 IH1). exact E1.
      + apply (proj2 IH2 r); [exact E2 | exact Hl'].
    - split; [intros a E; discriminate|]. intros [|l r] E; discriminate.
    - split; [intros a E; discriminate|]. intros [|l r] E; discriminate.
    - split; [intros a E; discriminate|]. intros [|l r] E; discriminate.
    - unfold embed in Hc. apply in_map_iff in Hc. destruct Hc as [c0 [<- Hc0]].
      simpl in *. split.
      + intros a E. injection E as E. rewrite inst_nm in E. apply nm_inj in E. subst a.
        apply lm_cl; [exact Hc0|]. intros b Hb'.
        rewrite ginst_embed_body in IH.
        apply (proj2 IH (body c0) eq_refl (Pos b) Hb').
      + intros [|l r] E; discriminate.
  Qed.

  Theorem embed_least_models_agree : forall P, gdefinite P = true ->
    forall a, holds (embed nm P) (GCall (nm a)) <-> lm P a.
  Proof.
    intros P D a. split.
    - intros H. apply (proj1 (lm_of_holds_gen P _ H) a eq_refl).
    - apply holds_of_lm. exact D.
  Qed.

  (* answers to a ground query are the query itself *)
  Lemma answers_ground : forall n P' q l, answers n P' q = Ans l -> tvars q = [] ->
    forall x, In x l -> x = q.
  Proof.
    intros n P' q l H Hq x Hx. unfold answers in H.
    destruct (solve n P' (GCall q) (N.succ (fold_right N.max 0%N (tvars q)))) as [l'| |]; try discriminate.
    inversion H; subst l. apply in_map_iff in Hx. destruct Hx as [r [<- _]].
    rewrite apply_inst. apply inst_id_on. rewrite Hq. intros v [].
  Qed.

  (* the verdict of a finished SLD run on a ground query is membership in the least model *)
  Theorem sld_verdict_is_lm : forall P n a b, gdefinite P = true ->
    sld_verdict n (embed nm P) (nm a) = Some b -> (b = true <-> lm P a).
  Proof.
    intros P n a b D H. unfold sld_verdict in H.
    destruct (answers n (embed nm P) (nm a)) as [l| |] eqn:A; try discriminate.
    rewrite <- (embed_least_models_agree P D a).
    destruct l as [|x l]; inversion H; subst b.
    - split; [discriminate|]. intros K.
      rewrite <- (inst_TVar (nm a)) in K.
      destruct (answers_complete _ _ _ _ (embed_definite P) A TVar K) as [x [de [[] _]]].
    - split; [|reflexivity]. intros _.
      pose proof (answers_ground _ _ _ _ A (nm_ground a) x (or_introl eq_refl)) as ->.
      pose proof (answers_sound _ _ _ _ (embed_definite P) A (nm a) (or_introl eq_refl) TVar) as K.
      rewrite inst_TVar in K. exact K.
  Qed.

  (* SLD finished  =>  same verdict as the tabled machine, whatever the (long enough) schedule *)
  Theorem sld_agrees_with_tabled : forall P Q s n a b, gdefinite P = true ->
    bound P Q <= length s -> reach P Q a ->
    sld_verdict n (embed nm P) (nm a) = Some b -> tabled_answer P Q s a = b.
  Proof.
    intros P Q s n a b D L R H.
    pose proof (sld_verdict_is_lm P n a b D H) as V.
    pose proof (tabled_is_lfp_total P Q s D L a) as T.
    destruct (tabled_answer P Q s a) eqn:TA; destruct b; try reflexivity.
    - assert (K : lm P a) by (apply T; reflexivity). apply V in K. discriminate.
    - assert (K : true = true) by reflexivity. apply V in K.
      assert (K2 : false = true) by (apply T; split; assumption). discriminate.
  Qed.

  (* conversely the machine always answers: if it says true some SLD run that
     finishes must succeed, if it says false no finished SLD run succeeds *)
  Theorem tabled_decides_sld : forall P Q s a, gdefinite P = true ->
    bound P Q <= length s -> reach P Q a ->
    forall n, sld_verdict n (embed nm P) (nm a) = None \/
              sld_verdict n (embed nm P) (nm a) = Some (tabled_answer P Q s a).
  Proof.
    intros P Q s a D L R n.
    destruct (sld_verdict n (embed nm P) (nm a)) as [b|] eqn:V; [right|left; reflexivity].
    f_equal. symmetry. eapply sld_agrees_with_tabled; eauto.
  Qed.
  (* ---------------- SLD does NOT finish on left recursion, whatever the fuel *)
  Lemma mgu_nm_same : forall a, exists sg, mgu (nm a) (nm a) = Some sg.
  Proof. intros a. apply mgu_complete. exists TVar. reflexivity. Qed.

  Lemma mgu_nm_diff : forall a b, a <> b -> mgu (nm a) (nm b) = None.
  Proof.
    intros a b Hab. apply mgu_none_iff. intros [th U]. apply Hab. apply nm_inj.
    unfold unifies in U. rewrite !inst_nm in U. exact U.
  Qed.

  Lemma obind_skip : forall (A B : Type) (l1 l2 : list A) (f : A -> outcome B),
    (forall x, In x l1 -> f x = Ans []) -> obind (l1 ++ l2) f = obind l2 f.
  Proof.
    intros A B l1 l2 f. induction l1 as [|x t IH]; intros H; [reflexivity|].
    simpl. rewrite (H x (or_introl eq_refl)). rewrite IH by (intros y Hy; apply H; right; exact Hy).
    destruct (obind l2 f); reflexivity.
  Qed.

  Lemma solve_call_unfold : forall n P' t nv,
    solve (S n) P' (GCall t) nv =
    obind P' (fun c : ModelSLD.clause =>
      match mgu t (inst (shift nv) (fst c)) with
      | None => Ans []
      | Some sg =>
          match solve n P' (gapply sg (ginst (shift nv) (snd c))) (nv + clause_width c)%N with
          | Ans l2 => Ans (map (fun r2 : answer => (sg ++ fst r2, snd r2)) l2)
          | OutOfFuel => OutOfFuel
          | Floundered => Floundered
          end
      end).
  Proof. reflexivity. Qed.

  Lemma solve_and_out : forall n P' g1 g2 nv,
    (forall k, n = S k -> solve k P' g1 nv = OutOfFuel) -> solve n P' (GAnd g1 g2) nv = OutOfFuel.
  Proof.
    intros [|k] P' g1 g2 nv H; [reflexivity|]. simpl. rewrite (H k eq_refl). reflexivity.
  Qed.

  (* the first clause for a has a body starting with b, and b cannot be solved with
     the fuel that is left: then a cannot be solved either *)
  Lemma solve_first_clause : forall P pre rest a b ls n nv,
    P = pre ++ mkClause a (Pos b :: ls) :: rest ->
    (forall c, In c pre -> head c <> a) ->
    (forall k nv', n = S k -> solve k (embed nm P) (GCall (nm b)) nv' = OutOfFuel) ->
    solve (S n) (embed nm P) (GCall (nm a)) nv = OutOfFuel.
  Proof.
    intros P pre rest a b ls n nv EP Hpre Hb.
    rewrite solve_call_unfold.
    assert (EE : embed nm P = embed nm pre ++ embed_clause nm (mkClause a (Pos b :: ls)) :: embed nm rest).
    { rewrite EP. unfold embed. rewrite map_app. reflexivity. }
    rewrite EE at 1. rewrite obind_skip.
    - cbn [obind embed_clause fst snd head body].
      rewrite inst_nm. destruct (mgu_nm_same a) as [sg ->].
      unfold gapply. rewrite !ginst_embed_body.
      unfold embed_body. cbn [map gconj lit_atom].
      rewrite solve_and_out; [reflexivity|].
      intros k Ek. apply Hb. exact Ek.
    - intros x Hx. unfold embed in Hx. apply in_map_iff in Hx. destruct Hx as [c [<- Hc]].
      cbn [embed_clause fst]. rewrite inst_nm. rewrite mgu_nm_diff; [reflexivity|].
      intros E. apply (Hpre c Hc). symmetry. exact E.
  Qed.

  (* directly left-recursive first clause  a :- a, ...  : no fuel suffices *)
  Theorem left_recursion_never_finishes : forall P pre rest a ls,
    P = pre ++ mkClause a (Pos a :: ls) :: rest -> (forall c, In c pre -> head c <> a) ->
    forall n nv, solve n (embed nm P) (GCall (nm a)) nv = OutOfFuel.
  Proof.
    intros P pre rest a ls EP Hpre n. induction n as [n IH] using lt_wf_ind. intros nv.
    destruct n as [|n]; [reflexivity|].
    apply (solve_first_clause P pre rest a a ls n nv EP Hpre).
    intros k nv' Ek. apply IH. lia.
  Qed.

  (* a goal whose first clause calls a goal that never finishes never finishes *)
  Theorem calls_unfinished_never_finishes : forall P pre rest a b ls,
    P = pre ++ mkClause a (Pos b :: ls) :: rest -> (forall c, In c pre -> head c <> a) ->
    (forall n nv, solve n (embed nm P) (GCall (nm b)) nv = OutOfFuel) ->
    forall n nv, solve n (embed nm P) (GCall (nm a)) nv = OutOfFuel.
  Proof.
    intros P pre rest a b ls EP Hpre Hb [|n] nv; [reflexivity|].
    apply (solve_first_clause P pre rest a b ls n nv EP Hpre). intros k nv' _. apply Hb.
  Qed.

  Lemma verdict_of_unfinished : forall P' q,
    (forall n nv, solve n P' (GCall q) nv = OutOfFuel) -> forall n, sld_verdict n P' q = None.
  Proof. intros P' q H n. unfold sld_verdict, answers. rewrite H. reflexivity. Qed.
End Bridge.

(* ------------------------------------------------------------------ the naming of the examples *)
Lemma nm_tc_ground : forall a, tvars (nm_tc a) = [].
Proof. intros a. reflexivity. Qed.

Definition sym_id (t : term) : N := match t with TApp (SAtom k) _ => k | _ => 0%N end.
Definition arg_int (i : nat) (t : term) : Z :=
  match t with TApp _ args => match nth i args (TVar 0) with TApp (SInt z) _ => z | _ => 0%Z end | _ => 0%Z end.

Lemma mod9_mod3 : forall a, (a mod 9) mod 3 = a mod 3.
Proof.
  intros a. pose proof (Nat.div_mod a 9 ltac:(lia)) as E.
  remember (a / 9) as q. remember (a mod 9) as r. rewrite E.
  replace (9 * q + r) with (r + (3 * q) * 3) by lia.
  symmetry. apply Nat.mod_add. lia.
Qed.

Lemma nm_tc_inj : forall a b, nm_tc a = nm_tc b -> a = b.
Proof.
  intros a b H.
  pose proof (f_equal sym_id H) as H1.
  pose proof (f_equal (arg_int 0) H) as H2.
  pose proof (f_equal (arg_int 1) H) as H3.
  unfold nm_tc, node, sym_id, arg_int in H1, H2, H3.
  cbv beta iota delta [nth] in H1, H2, H3.
  apply Nat2N.inj in H1. apply Nat2Z.inj in H2. apply Nat2Z.inj in H3.
  assert (H1' : a / 9 = b / 9) by (apply (proj1 (Nat.add_cancel_l _ _ 40)); exact H1).
  clear H1 H.
  pose proof (Nat.div_mod a 9 ltac:(lia)) as A1. pose proof (Nat.div_mod b 9 ltac:(lia)) as B1.
  pose proof (Nat.div_mod (a mod 9) 3 ltac:(lia)) as A2. pose proof (Nat.div_mod (b mod 9) 3 ltac:(lia)) as B2.
  rewrite mod9_mod3 in A2, B2.
  rewrite A1, B1, A2, B2, H1', H2, H3. reflexivity.
Qed.

(* the left-recursive transitive closure: tc(0,0) :- tc(0,0), ed(0,0) is the first clause
   of the program, and the first clause for tc(0,2) is tc(0,2) :- tc(0,0), ed(0,2) *)
Lemma heads_differ : forall (pre : list ModelTabling.clause) a,
  forallb (fun c => negb (Nat.eqb (head c) a)) pre = true -> forall c, In c pre -> head c <> a.
Proof.
  intros pre a H c Hc E. rewrite forallb_forall in H. specialize (H c Hc).
  apply Nat.eqb_eq in E. rewrite E in H. discriminate.
Qed.

Theorem tc_left_never_finishes : forall n,
  sld_verdict n (embed nm_tc tc_left_chain) (nm_tc (tc 0 2)) = None /\
  sld_verdict n (embed nm_tc tc_left_cycle) (nm_tc (tc 0 2)) = None.
Proof.
  assert (G : forall edges n, sld_verdict n (embed nm_tc (tc_left_rules ++ facts edges)) (nm_tc (tc 0 2)) = None).
  { intros edges. apply verdict_of_unfinished.
    apply (calls_unfinished_never_finishes nm_tc nm_tc_ground nm_tc_inj _
             (firstn 8 tc_left_rules) (skipn 9 tc_left_rules ++ facts edges) (tc 0 2) (tc 0 0) [Pos (ed 0 2)]).
    - rewrite <- (firstn_skipn 8 tc_left_rules) at 1. rewrite <- app_assoc. reflexivity.
    - apply heads_differ. vm_compute. reflexivity.
    - apply (left_recursion_never_finishes nm_tc nm_tc_ground nm_tc_inj _
               [] (skipn 1 tc_left_rules ++ facts edges) (tc 0 0) [Pos (ed 0 0)]).
      + reflexivity.
      + intros c []. }
  intros n. split; apply G.
Qed.
