(* C13 — Deterministic programs agree with standard Prolog, including findall order.
   Statements only.  Two parts:
   (1) ClauseIndex (first-argument style indexing, problog/clausedb.py): model of
       append/find; find never loses a clause that may match; the repaired find
       returns the clauses in program order and stores nothing.
   (2) the reference SLD interpreter used as the oracle (ModelSLD.v). *)
From Coq Require Import NArith ZArith List Bool Arith Sorting.Sorted.
From PL.C14 Require Import ModelUnify ProofsUnify.
From PL.C13 Require Import ModelIndex ProofsIndex ModelSLD ProofsSLD ProofsSLDMono ProofsSLDComplete.
Import ListNotations.

(* ---------------- ClauseIndex ---------------- *)

(* find (as the code is, with its in-place union) returns a superset of the
   clauses whose keys are compatible with the ground call arguments, and keeps
   doing so after any number of earlier finds (the invariant is preserved) *)
Theorem C13_index_complete : forall st es item ks args,
  Inv st es -> In (item, ks) es -> length args <= length ks -> compatible ks args = true ->
  In item (fst (find_code args st)) /\ Inv (snd (find_code args st)) es.
Proof. exact find_code_complete. Qed.
Print Assumptions C13_index_complete.

Theorem C13_index_fixed_complete : forall st es item ks args,
  Inv st es -> In (item, ks) es -> length args <= length ks -> compatible ks args = true ->
  In item (find_fixed args st).
Proof. exact find_fixed_complete. Qed.
Print Assumptions C13_index_fixed_complete.

(* the invariant holds for every index built by loading a predicate's clauses *)
Theorem C13_index_load_inv : forall clauses,
  Inv (load 0 clauses empty) (entries_from 0 clauses) /\ SortedInv (load 0 clauses empty) (length clauses).
Proof.
  exact (fun clauses => conj (Inv_load clauses 0 empty [] Inv_empty) (SortedInv_load clauses 0 empty SortedInv_empty)).
Qed.
Print Assumptions C13_index_load_inv.

(* "compatible" is implied by unifiability of the call with the clause head:
   a ground call argument can only unify with an equal ground head argument or a non-ground one *)
Theorem C13_ground_args_unify_equal : forall th1 th2 a h,
  tvars a = [] -> tvars h = [] -> inst th1 a = inst th2 h -> a = h.
Proof. exact ground_unify_equal. Qed.
Print Assumptions C13_ground_args_unify_equal.

(* program order: the repaired find returns clause ids in increasing order
   (ids are handed out in program order) *)
Theorem C13_index_order : forall st n args, SortedInv st n -> StronglySorted le (find_fixed args st).
Proof. exact find_fixed_sorted. Qed.
Print Assumptions C13_index_order.

(* ---------------- SLD reference ---------------- *)

(* soundness for definite programs: every computed answer, under every further
   instantiation, is a consequence of the program (is in the inductively
   defined least model `holds`) *)
Theorem C13_sld_sound : forall P, definite_program P ->
  forall n g nv l, definite g = true -> solve n P g nv = Ans l ->
  forall r, In r l -> forall th, holds P (ginst th (gapply (fst r) g)).
Proof. exact solve_sound. Qed.
Print Assumptions C13_sld_sound.

Theorem C13_sld_answers_sound : forall P q n l, definite_program P ->
  answers n P q = Ans l -> forall a, In a l -> forall th, holds P (GCall (inst th a)).
Proof. exact answers_sound. Qed.
Print Assumptions C13_sld_answers_sound.

(* findall/3 returns the instances of the template in the order of the
   solutions of the goal, duplicates included (by construction of the reference) *)
Theorem C13_sld_findall_order : forall n P pat g res nv l,
  solve n P g nv = Ans l ->
  solve (S n) P (GFindall pat g res) nv =
  match mgu res (mklist (map (fun r : answer => apply (fst r) pat) l)) with
  | Some sg => Ans [(sg, fold_right N.max nv (map (fun r : answer => snd r) l))]
  | None => Ans []
  end.
Proof. exact findall_unfold. Qed.
Print Assumptions C13_sld_findall_order.

(* ---- fuel monotonicity (ProofsSLDMono.v; ALL goals, negation and findall included):
   an outcome other than OutOfFuel — an answer list or Floundered — is kept by every larger fuel *)
Theorem C13_sld_fuel_monotone : forall P n m g nv l,
  solve n P g nv = Ans l -> n <= m -> solve m P g nv = Ans l.
Proof. exact solve_mono_ans. Qed.
Print Assumptions C13_sld_fuel_monotone.

Theorem C13_sld_fuel_monotone_outcome : forall P n m g nv, n <= m ->
  solve n P g nv <> OutOfFuel -> solve m P g nv = solve n P g nv.
Proof. exact solve_mono. Qed.
Print Assumptions C13_sld_fuel_monotone_outcome.

Theorem C13_sld_answers_fuel_monotone : forall P n m q l,
  answers n P q = Ans l -> n <= m -> answers m P q = Ans l.
Proof. exact answers_mono. Qed.
Print Assumptions C13_sld_answers_fuel_monotone.

(* two finished runs agree whatever their fuels: "the answer list of g" is well defined *)
Theorem C13_sld_fuel_irrelevant : forall P n m g nv,
  solve n P g nv <> OutOfFuel -> solve m P g nv <> OutOfFuel -> solve n P g nv = solve m P g nv.
Proof. exact solve_fuel_irrelevant. Qed.
Print Assumptions C13_sld_fuel_irrelevant.

(* ---- completeness for definite programs relative to a finished run (ProofsSLDComplete.v).
   [gbound g nv]: every variable of g is below nv (the renaming-apart discipline;
   [answers] establishes it for the query).  If the run returns the list l, then
   every instance th of g that holds in the least model is an instance of a
   returned answer: some r in l and de with  de o (fst r) = th  on all variables < nv. *)
Theorem C13_sld_complete : forall P, definite_program P ->
  forall n g nv l, definite g = true -> gbound g nv -> solve n P g nv = Ans l ->
  forall th, holds P (ginst th g) ->
  exists r, In r l /\ exists de, forall v, (v < nv)%N -> inst de (apply (fst r) (TVar v)) = th v.
Proof. exact solve_complete. Qed.
Print Assumptions C13_sld_complete.

(* every instance of the query in the least model (in particular every ground
   one: the least Herbrand model) is an instance of some returned answer *)
Theorem C13_sld_answers_complete : forall P q n l, definite_program P ->
  answers n P q = Ans l ->
  forall th, holds P (GCall (inst th q)) -> exists a de, In a l /\ inst de a = inst th q.
Proof. exact answers_complete. Qed.
Print Assumptions C13_sld_answers_complete.

(* with soundness: on a finished run the instances of the answers ARE the
   instances of the query that hold in the least model — the set the
   correspondence with the tabled engine compares *)
Theorem C13_sld_answers_exact : forall P q n l, definite_program P ->
  answers n P q = Ans l ->
  forall t, (exists a de, In a l /\ t = inst de a) <->
            (holds P (GCall t) /\ exists th, t = inst th q).
Proof. exact answers_exact. Qed.
Print Assumptions C13_sld_answers_exact.

(* definite goals never flounder, so for them "finished" = "returned an answer list" *)
Theorem C13_sld_definite_never_flounders : forall P, definite_program P ->
  forall n g nv, definite g = true -> solve n P g nv <> Floundered.
Proof. exact definite_never_flounders. Qed.
Print Assumptions C13_sld_definite_never_flounders.

(* answers are well formed: fresh-variable counter grows, no variable >= it is introduced *)
Theorem C13_sld_answers_wellformed : forall P, definite_program P ->
  forall n g nv l, definite g = true -> gbound g nv -> solve n P g nv = Ans l ->
  forall r, In r l ->
  (nv <= snd r)%N /\ forall v, (v < nv)%N -> forall w, In w (tvars (apply (fst r) (TVar v))) -> (w < snd r)%N.
Proof. exact solve_wf. Qed.
Print Assumptions C13_sld_answers_wellformed.

(* NOT proved: termination criteria (when some fuel suffices), completeness with
   negation / findall / \= (not in the definite fragment).
   C13_tabled_is_lfp is proved at the end of this file for the ABSTRACT tabling machine of
   C03 on ground definite programs; the real engine is tied to this reference by
   correspondence only. *)

(* ---- non-vacuity ---- *)
Definition a_ := TApp (SAtom 10) [].
Definition i_ z := TApp (SInt z) [].
Definition p_ x y := TApp (SAtom 11) [x; y].
(* p(X,1). p(a,2). p(Y,4).   ?- findall(Y, p(a,Y), L)  gives [1,2,4] *)
Definition prog_w : program :=
  [(p_ (TVar 0) (i_ 1%Z), GTrue); (p_ a_ (i_ 2%Z), GTrue); (p_ (TVar 0) (i_ 4%Z), GTrue);
   (TApp (SAtom 12) [TVar 0], GFindall (TVar 1) (GCall (p_ a_ (TVar 1))) (TVar 0))].
Example C13_ex_findall :
  answers 10 prog_w (TApp (SAtom 12) [TVar 0]) = Ans [TApp (SAtom 12) [mklist [i_ 1%Z; i_ 2%Z; i_ 4%Z]]].
Proof. vm_compute. reflexivity. Qed.
Example C13_ex_index_fixed :
  find_fixed [Some 0%N; None] (load 0 [[None; Some 1%N]; [Some 0%N; Some 2%N]; [None; Some 4%N]] empty) = [0; 1; 2].
Proof. vm_compute. reflexivity. Qed.

(* definite, recursive, terminating: app([],L,L). app([H|T],L,[H|R]) :- app(T,L,R).
   ?- app(X,Y,[a,b]) has the three splits; app(X,[Z],[W]) returns a non-ground answer *)
Definition b_ := TApp (SAtom 13) [].
Definition app_ x y z := TApp (SAtom 14) [x; y; z].
Definition prog_app : program :=
  [(app_ t_nil (TVar 0) (TVar 0), GTrue);
   (app_ (t_cons (TVar 0) (TVar 1)) (TVar 2) (t_cons (TVar 0) (TVar 3)), GCall (app_ (TVar 1) (TVar 2) (TVar 3)))].
Example C13_ex_app_definite : definite_program prog_app.
Proof. intros c [<-|[<-|[]]]; reflexivity. Qed.
Example C13_ex_app_answers :
  answers 5 prog_app (app_ (TVar 0) (TVar 1) (mklist [a_; b_])) =
  Ans [app_ t_nil (mklist [a_; b_]) (mklist [a_; b_]);
       app_ (mklist [a_]) (mklist [b_]) (mklist [a_; b_]);
       app_ (mklist [a_; b_]) t_nil (mklist [a_; b_])] /\
  answers 3 prog_app (app_ (TVar 0) (TVar 1) (mklist [a_; b_])) = OutOfFuel.
Proof. vm_compute. split; reflexivity. Qed.
(* hence (C13_sld_answers_exact) app(X,Y,[a,b]) has exactly these three instances in the least model;
   a non-ground answer covers its ground instances: *)
Example C13_ex_app_nonground :
  exists a, answers 5 prog_app (app_ t_nil (TVar 0) (TVar 1)) = Ans [a] /\
            exists de, inst de a = app_ t_nil (mklist [b_]) (mklist [b_]).
Proof.
  eexists. split; [vm_compute; reflexivity|].
  exists (fun _ => mklist [b_]). vm_compute. reflexivity.
Qed.

(* ======================================================================================
   C13_tabled_is_lfp — the tabled evaluation computes the least Herbrand model restricted
   to the query (ProofsTabledModel.v, ProofsTabledLfp.v, ProofsTabledSLD.v).

   Subject: the abstract tabling / worklist machine of C03 (PL.C03.ModelTabling) over a
   GROUND DEFINITE program (numbered atoms, every body literal positive: [gdefinite]).
   The machine records goals and clause-instance edges, no truth values; the answer it
   gives for an atom is, as in C03, the value of the atom in the discovered graph:
     tabled_answer P Q s a = gamma (goals st) (|goals st|+1) (edges st) {} {} a,
     st = run P s (init Q)          (C03's Kleene iteration, no probabilistic fact on).
   [lm E] is the inductively defined least Herbrand model of the clause list E.
   NOT covered: the real engine (cycle_root, buffers, answer substitutions, first-order
   resolution) — that it refines the machine is tied by correspondence only, as in C03;
   non-ground programs; negation.
   ====================================================================================== *)
From PL.C03 Require ProofsTabling.
From PL.C03 Require Import ModelTabling ProofsTermination.
From PL.C13 Require Import ProofsTabledModel ProofsTabledLfp ProofsTabledSLD.

(* [lm E] is a model of E and is contained in every model of E *)
Theorem C13_lm_is_least_model : forall (E : list ModelTabling.clause),
  (forall c, In c E -> (forall b, In (Pos b) (body c) -> lm E b) -> lm E (head c)) /\
  (forall M : atom -> Prop,
     (forall c, In c E -> (forall b, In (Pos b) (body c) -> M b) -> M (head c)) ->
     forall a, lm E a -> M a).
Proof. exact (fun E => conj (lm_closed E) (lm_least E)). Qed.
Print Assumptions C13_lm_is_least_model.

(* |U|+1 rounds of the immediate-consequence operator over a universe U that contains
   the clause heads reach the least model (cyclic programs included) *)
Theorem C13_kleene_is_least_model : forall (U : list atom) (E : list ModelTabling.clause),
  gdefinite E = true -> (forall c, In c E -> In (head c) U) ->
  forall a, lfp_true U E a = true <-> lm E a.
Proof. exact (fun U E D HU => lfp_true_is_lm U E (gdefinite_body E D) HU). Qed.
Print Assumptions C13_kleene_is_least_model.

(* the design's statement, for every terminating schedule ... *)
Theorem C13_tabled_is_lfp : forall (P : ModelTabling.program) (Q : list atom) (s : schedule),
  gdefinite P = true -> terminated (run P s (init Q)) ->
  forall a, tabled_answer P Q s a = true <-> (reach P Q a /\ lm P a).
Proof. exact tabled_is_lfp. Qed.
Print Assumptions C13_tabled_is_lfp.

(* ... and with C03's termination theorem for EVERY schedule of length >= bound P Q
   (= |Q| + 2|P| + number of body literals): the atoms answered true are exactly the
   atoms reachable from the queries that are in the least model of the whole program *)
Theorem C13_tabled_is_lfp_total : forall (P : ModelTabling.program) (Q : list atom) (s : schedule),
  gdefinite P = true -> bound P Q <= length s ->
  forall a, tabled_answer P Q s a = true <-> (reach P Q a /\ lm P a).
Proof. exact tabled_is_lfp_total. Qed.
Print Assumptions C13_tabled_is_lfp_total.

Theorem C13_tabled_query_is_lm : forall (P : ModelTabling.program) (Q : list atom) (s : schedule),
  gdefinite P = true -> bound P Q <= length s ->
  forall a, In a Q -> (tabled_answer P Q s a = true <-> lm P a).
Proof. exact tabled_query_is_lm. Qed.
Print Assumptions C13_tabled_query_is_lm.

Theorem C13_tabled_answer_schedule_free : forall (P : ModelTabling.program) (Q : list atom) (s1 s2 : schedule),
  gdefinite P = true -> bound P Q <= length s1 -> bound P Q <= length s2 ->
  forall a, tabled_answer P Q s1 a = tabled_answer P Q s2 a.
Proof. exact tabled_answer_schedule_free. Qed.
Print Assumptions C13_tabled_answer_schedule_free.

(* the answer is C03's well-founded value of the discovered graph (two-valued here) *)
Theorem C13_tabled_answer_is_wf_value : forall (P : ModelTabling.program) (Q : list atom) (s : schedule) (m : nat) (a : atom),
  gdefinite P = true ->
  wf_value (goals (run P s (init Q))) (S (length (goals (run P s (init Q))))) (S m)
           (edges (run P s (init Q))) (fun _ => false) a
  = Some (tabled_answer P Q s a).
Proof.
  exact (fun P Q s m a D =>
    tabled_true_is_wf_value P Q _ m a D (ProofsTabling.inv_run P Q s _ (ProofsTabling.inv_init P Q))).
Qed.
Print Assumptions C13_tabled_answer_is_wf_value.

(* ---- bridge: a ground definite program over numbered atoms read as a first-order program
   of ModelSLD.v.  nm a = the ground first-order atom number a (any injective naming by
   ground terms);  h :- b1,...,bk  becomes (nm h, GAnd (GCall (nm b1)) (... GTrue)). *)
Theorem C13_bridge_definite : forall (nm : atom -> term) (P : ModelTabling.program),
  definite_program (embed nm P).
Proof. exact embed_definite. Qed.
Print Assumptions C13_bridge_definite.

(* the two inductively defined least models coincide *)
Theorem C13_bridge_least_models_agree : forall (nm : atom -> term),
  (forall a, tvars (nm a) = []) -> (forall a b, nm a = nm b -> a = b) ->
  forall (P : ModelTabling.program), gdefinite P = true ->
  forall a, holds (embed nm P) (GCall (nm a)) <-> lm P a.
Proof. exact embed_least_models_agree. Qed.
Print Assumptions C13_bridge_least_models_agree.

(* ---- agreement with the SLD interpreter.  sld_verdict n P' q = Some true (an answer),
   Some false (finite failure), None (OutOfFuel/Floundered).  A finished run decides
   membership in the least model (C13_sld_answers_sound + C13_sld_answers_complete) ... *)
Theorem C13_sld_verdict_is_lm : forall (nm : atom -> term),
  (forall a, tvars (nm a) = []) -> (forall a b, nm a = nm b -> a = b) ->
  forall (P : ModelTabling.program) (n : nat) (a : atom) (b : bool), gdefinite P = true ->
  sld_verdict n (embed nm P) (nm a) = Some b -> (b = true <-> lm P a).
Proof. exact sld_verdict_is_lm. Qed.
Print Assumptions C13_sld_verdict_is_lm.

(* ... hence whenever SLD finishes on a relevant ground atom its success/failure is the
   answer of the tabled machine, under every schedule of length >= bound ... *)
Theorem C13_sld_agrees_with_tabled : forall (nm : atom -> term),
  (forall a, tvars (nm a) = []) -> (forall a b, nm a = nm b -> a = b) ->
  forall (P : ModelTabling.program) (Q : list atom) (s : schedule) (n : nat) (a : atom) (b : bool),
  gdefinite P = true -> bound P Q <= length s -> reach P Q a ->
  sld_verdict n (embed nm P) (nm a) = Some b -> tabled_answer P Q s a = b.
Proof. exact sld_agrees_with_tabled. Qed.
Print Assumptions C13_sld_agrees_with_tabled.

(* ... while the machine always answers: for every fuel, SLD either does not finish or
   returns the machine's answer (the examples below have queries where it never does) *)
Theorem C13_tabled_decides_sld : forall (nm : atom -> term),
  (forall a, tvars (nm a) = []) -> (forall a b, nm a = nm b -> a = b) ->
  forall (P : ModelTabling.program) (Q : list atom) (s : schedule) (a : atom),
  gdefinite P = true -> bound P Q <= length s -> reach P Q a ->
  forall n, sld_verdict n (embed nm P) (nm a) = None \/
            sld_verdict n (embed nm P) (nm a) = Some (tabled_answer P Q s a).
Proof. exact tabled_decides_sld. Qed.
Print Assumptions C13_tabled_decides_sld.

(* ---- non-vacuity: transitive closure over the nodes {0,1,2}, all ground instances
   (38 clauses with the chain 0->1->2, 39 with the cycle 0->1->2->0);
   tc(i,j) is atom 3i+j, ed(i,j) is atom 9+3i+j, nm_tc names them tc(i,j) / ed(i,j). *)
Example C13_ex_nm_tc : (forall a, tvars (nm_tc a) = []) /\ (forall a b, nm_tc a = nm_tc b -> a = b).
Proof. exact (conj nm_tc_ground nm_tc_inj). Qed.

Example C13_ex_tc_programs :
  gdefinite tc_left_chain = true /\ gdefinite tc_right_chain = true /\
  gdefinite tc_left_cycle = true /\ gdefinite tc_right_cycle = true /\
  length tc_left_chain = 38 /\ bound tc_left_chain [tc 0 2; tc 2 0] = 141 /\
  bound tc_left_cycle [tc 0 2; tc 2 0] = 143 /\
  nm_tc (tc 0 2) = TApp (SAtom 40) [i_ 0%Z; i_ 2%Z] /\ nm_tc (ed 1 2) = TApp (SAtom 41) [i_ 1%Z; i_ 2%Z].
Proof. vm_compute. repeat split; reflexivity. Qed.

(* LEFT-RECURSIVE  tc(X,Y) :- tc(X,Z), ed(Z,Y).  tc(X,Y) :- ed(X,Y).  on the chain:
   the SLD interpreter runs out of fuel on tc(0,2) (it loops through tc(0,0) :- tc(0,0), ...),
   the tabled machine answers under a LIFO schedule and under a scrambled one, in
   different discovery orders: tc(0,2), tc(0,1), ed(0,1) true; tc(2,0), ed(1,0) false *)
Example C13_ex_left_recursion :
  sld_verdict 30 (embed nm_tc tc_left_chain) (nm_tc (tc 0 2)) = None /\
  map (tabled_answer tc_left_chain [tc 0 2; tc 2 0] (lifo 150)) [tc 0 2; tc 2 0; tc 0 1; ed 0 1; ed 1 0]
    = [true; false; true; true; false] /\
  map (tabled_answer tc_left_chain [tc 0 2; tc 2 0] (scrambled 150 1)) [tc 0 2; tc 2 0; tc 0 1; ed 0 1; ed 1 0]
    = [true; false; true; true; false] /\
  goals (run tc_left_chain (lifo 150) (init [tc 0 2; tc 2 0]))
    <> goals (run tc_left_chain (scrambled 150 1) (init [tc 0 2; tc 2 0])).
Proof. vm_compute. repeat split; try reflexivity. discriminate. Qed.

(* RIGHT-RECURSIVE  tc(X,Y) :- ed(X,Z), tc(Z,Y).  tc(X,Y) :- ed(X,Y).  on the chain: SLD finishes
   (fuel 10; 8 is not enough) with success on tc(0,2) and finite failure on tc(2,0) — and
   the machine says the same; on the cycle SLD runs out of fuel, the machine answers true *)
Example C13_ex_right_recursion :
  sld_verdict 10 (embed nm_tc tc_right_chain) (nm_tc (tc 0 2)) = Some true /\
  sld_verdict 10 (embed nm_tc tc_right_chain) (nm_tc (tc 2 0)) = Some false /\
  sld_verdict 8 (embed nm_tc tc_right_chain) (nm_tc (tc 0 2)) = None /\
  map (tabled_answer tc_right_chain [tc 0 2; tc 2 0] (lifo 150)) [tc 0 2; tc 2 0] = [true; false] /\
  sld_verdict 30 (embed nm_tc tc_right_cycle) (nm_tc (tc 0 2)) = None /\
  map (tabled_answer tc_right_cycle [tc 0 2; tc 2 0] (lifo 150)) [tc 0 2; tc 2 0; tc 0 0] = [true; true; true] /\
  map (tabled_answer tc_left_cycle [tc 0 2; tc 2 0] (scrambled 150 2)) [tc 0 2; tc 2 0; tc 0 0] = [true; true; true].
Proof. vm_compute. repeat split; reflexivity. Qed.

(* the agreement theorem applied: from the ONE finished SLD run above, the answer of the
   machine under EVERY schedule of length >= 141 — and membership in the least model *)
Example C13_ex_agreement_instance : forall s : schedule, 141 <= length s ->
  tabled_answer tc_right_chain [tc 0 2; tc 2 0] s (tc 0 2) = true /\
  tabled_answer tc_right_chain [tc 0 2; tc 2 0] s (tc 2 0) = false /\
  lm tc_right_chain (tc 0 2) /\ ~ lm tc_right_chain (tc 2 0).
Proof.
  intros s L.
  assert (D : gdefinite tc_right_chain = true) by (vm_compute; reflexivity).
  assert (B : bound tc_right_chain [tc 0 2; tc 2 0] <= length s) by (vm_compute; exact L).
  assert (V1 : sld_verdict 10 (embed nm_tc tc_right_chain) (nm_tc (tc 0 2)) = Some true) by (vm_compute; reflexivity).
  assert (V2 : sld_verdict 10 (embed nm_tc tc_right_chain) (nm_tc (tc 2 0)) = Some false) by (vm_compute; reflexivity).
  repeat split.
  - apply (C13_sld_agrees_with_tabled nm_tc nm_tc_ground nm_tc_inj _ _ s 10 _ _ D B); [|exact V1].
    apply reach_q. left. reflexivity.
  - apply (C13_sld_agrees_with_tabled nm_tc nm_tc_ground nm_tc_inj _ _ s 10 _ _ D B); [|exact V2].
    apply reach_q. right. left. reflexivity.
  - apply (C13_sld_verdict_is_lm nm_tc nm_tc_ground nm_tc_inj _ 10 _ true D V1). reflexivity.
  - intros H. apply (C13_sld_verdict_is_lm nm_tc nm_tc_ground nm_tc_inj _ 10 _ false D V2) in H. discriminate.
Qed.

(* ---- SLD does not finish on left recursion, WHATEVER the fuel: if the first clause for a is
   a :- a, ...  then every run on the ground call a ends with OutOfFuel; the same for a goal
   whose first clause starts with a call that never finishes *)
Theorem C13_sld_left_recursion_never_finishes : forall (nm : atom -> term),
  (forall a, tvars (nm a) = []) -> (forall a b, nm a = nm b -> a = b) ->
  forall (P pre rest : ModelTabling.program) (a : atom) (ls : list lit),
  P = pre ++ mkClause a (Pos a :: ls) :: rest -> (forall c, In c pre -> head c <> a) ->
  forall n nv, solve n (embed nm P) (GCall (nm a)) nv = OutOfFuel.
Proof. exact left_recursion_never_finishes. Qed.
Print Assumptions C13_sld_left_recursion_never_finishes.

Theorem C13_sld_calls_unfinished_never_finishes : forall (nm : atom -> term),
  (forall a, tvars (nm a) = []) -> (forall a b, nm a = nm b -> a = b) ->
  forall (P pre rest : ModelTabling.program) (a b : atom) (ls : list lit),
  P = pre ++ mkClause a (Pos b :: ls) :: rest -> (forall c, In c pre -> head c <> a) ->
  (forall n nv, solve n (embed nm P) (GCall (nm b)) nv = OutOfFuel) ->
  forall n nv, solve n (embed nm P) (GCall (nm a)) nv = OutOfFuel.
Proof. exact calls_unfinished_never_finishes. Qed.
Print Assumptions C13_sld_calls_unfinished_never_finishes.

(* the left-recursive transitive closure (chain and cycle): for EVERY fuel the SLD interpreter
   gives no verdict on tc(0,2); for EVERY schedule of length >= bound the machine answers true *)
Example C13_ex_left_recursion_all_fuels_all_schedules :
  (forall n, sld_verdict n (embed nm_tc tc_left_chain) (nm_tc (tc 0 2)) = None) /\
  (forall n, sld_verdict n (embed nm_tc tc_left_cycle) (nm_tc (tc 0 2)) = None) /\
  (forall s : schedule, 141 <= length s ->
     tabled_answer tc_left_chain [tc 0 2; tc 2 0] s (tc 0 2) = true /\
     tabled_answer tc_left_chain [tc 0 2; tc 2 0] s (tc 2 0) = false) /\
  (forall s : schedule, 143 <= length s ->
     tabled_answer tc_left_cycle [tc 0 2; tc 2 0] s (tc 0 2) = true /\
     tabled_answer tc_left_cycle [tc 0 2; tc 2 0] s (tc 2 0) = true).
Proof.
  split; [intros n; apply (tc_left_never_finishes n)|].
  split; [intros n; apply (tc_left_never_finishes n)|].
  split; intros s L.
  - assert (D : gdefinite tc_left_chain = true) by (vm_compute; reflexivity).
    assert (B : bound tc_left_chain [tc 0 2; tc 2 0] <= length s) by (vm_compute; exact L).
    assert (B' : bound tc_left_chain [tc 0 2; tc 2 0] <= length (lifo 150)) by (vm_compute; repeat constructor).
    rewrite !(C13_tabled_answer_schedule_free _ _ s (lifo 150) D B B').
    vm_compute. split; reflexivity.
  - assert (D : gdefinite tc_left_cycle = true) by (vm_compute; reflexivity).
    assert (B : bound tc_left_cycle [tc 0 2; tc 2 0] <= length s) by (vm_compute; exact L).
    assert (B' : bound tc_left_cycle [tc 0 2; tc 2 0] <= length (lifo 150)) by (vm_compute; repeat constructor).
    rewrite !(C13_tabled_answer_schedule_free _ _ s (lifo 150) D B B').
    vm_compute. split; reflexivity.
Qed.
