(* C13 — Deterministic programs agree with standard Prolog, including findall order.
   Statements only.  Two parts:
   (1) ClauseIndex (first-argument style indexing, problog/clausedb.py): model of
       append/find; find never loses a clause that may match; the repaired find
       returns the clauses in program order and stores nothing.
   (2) the reference SLD interpreter used as the oracle (ModelSLD.v). *)
From Coq Require Import NArith ZArith List Bool Arith Sorting.Sorted.
From PL.C14 Require Import ModelUnify ProofsUnify.
From PL.C13 Require Import ModelIndex ProofsIndex ModelSLD ProofsSLD.
Import ListNotations.

(* ---------------- ClauseIndex ---------------- *)

(* find (as the code is, with its in-place union) returns a superset of the
   clauses whose keys are compatible with the ground call arguments, and keeps
   doing so after any number of earlier finds (the invariant is preserved) *)
Theorem C13_index_complete : forall st es item ks args,
  Inv st es -> In (item, ks) es -> length args <= length ks -> compatible ks args = true ->
  In item (fst (find_code args st)) /\ Inv (snd (find_code args st)) es.
Proof. exact find_code_complete. Qed.
Print Assumptions C13_index_complete.

Theorem C13_index_fixed_complete : forall st es item ks args,
  Inv st es -> In (item, ks) es -> length args <= length ks -> compatible ks args = true ->
  In item (find_fixed args st).
Proof. exact find_fixed_complete. Qed.
Print Assumptions C13_index_fixed_complete.

(* the invariant holds for every index built by loading a predicate's clauses *)
Theorem C13_index_load_inv : forall clauses,
  Inv (load 0 clauses empty) (entries_from 0 clauses) /\ SortedInv (load 0 clauses empty) (length clauses).
Proof.
  exact (fun clauses => conj (Inv_load clauses 0 empty [] Inv_empty) (SortedInv_load clauses 0 empty SortedInv_empty)).
Qed.
Print Assumptions C13_index_load_inv.

(* "compatible" is implied by unifiability of the call with the clause head:
   a ground call argument can only unify with an equal ground head argument or a non-ground one *)
Theorem C13_ground_args_unify_equal : forall th1 th2 a h,
  tvars a = [] -> tvars h = [] -> inst th1 a = inst th2 h -> a = h.
Proof. exact ground_unify_equal. Qed.
Print Assumptions C13_ground_args_unify_equal.

(* program order: the repaired find returns clause ids in increasing order
   (ids are handed out in program order) *)
Theorem C13_index_order : forall st n args, SortedInv st n -> StronglySorted le (find_fixed args st).
Proof. exact find_fixed_sorted. Qed.
Print Assumptions C13_index_order.

(* ---------------- SLD reference ---------------- *)

(* soundness for definite programs: every computed answer, under every further
   instantiation, is a consequence of the program (is in the inductively
   defined least model `holds`) *)
Theorem C13_sld_sound : forall P, definite_program P ->
  forall n g nv l, definite g = true -> solve n P g nv = Ans l ->
  forall r, In r l -> forall th, holds P (ginst th (gapply (fst r) g)).
Proof. exact solve_sound. Qed.
Print Assumptions C13_sld_sound.

Theorem C13_sld_answers_sound : forall P q n l, definite_program P ->
  answers n P q = Ans l -> forall a, In a l -> forall th, holds P (GCall (inst th a)).
Proof. exact answers_sound. Qed.
Print Assumptions C13_sld_answers_sound.

(* findall/3 returns the instances of the template in the order of the
   solutions of the goal, duplicates included (by construction of the reference) *)
Theorem C13_sld_findall_order : forall n P pat g res nv l,
  solve n P g nv = Ans l ->
  solve (S n) P (GFindall pat g res) nv =
  match mgu res (mklist (map (fun r : answer => apply (fst r) pat) l)) with
  | Some sg => Ans [(sg, fold_right N.max nv (map (fun r : answer => snd r) l))]
  | None => Ans []
  end.
Proof. exact findall_unfold. Qed.
Print Assumptions C13_sld_findall_order.

(* ---- non-vacuity ---- *)
Definition a_ := TApp (SAtom 10) [].
Definition i_ z := TApp (SInt z) [].
Definition p_ x y := TApp (SAtom 11) [x; y].
(* p(X,1). p(a,2). p(Y,4).   ?- findall(Y, p(a,Y), L)  gives [1,2,4] *)
Definition prog_w : program :=
  [(p_ (TVar 0) (i_ 1%Z), GTrue); (p_ a_ (i_ 2%Z), GTrue); (p_ (TVar 0) (i_ 4%Z), GTrue);
   (TApp (SAtom 12) [TVar 0], GFindall (TVar 1) (GCall (p_ a_ (TVar 1))) (TVar 0))].
Example C13_ex_findall :
  answers 10 prog_w (TApp (SAtom 12) [TVar 0]) = Ans [TApp (SAtom 12) [mklist [i_ 1%Z; i_ 2%Z; i_ 4%Z]]].
Proof. vm_compute. reflexivity. Qed.
Example C13_ex_index_fixed :
  find_fixed [Some 0%N; None] (load 0 [[None; Some 1%N]; [Some 0%N; Some 2%N]; [None; Some 4%N]] empty) = [0; 1; 2].
Proof. vm_compute. reflexivity. Qed.
