(* C13 — Deterministic programs agree with standard Prolog, including findall order.
   Statements only.  Two parts:
   (1) ClauseIndex (first-argument style indexing, problog/clausedb.py): model of
       append/find; find never loses a clause that may match; the repaired find
       returns the clauses in program order and stores nothing.
   (2) the reference SLD interpreter used as the oracle (ModelSLD.v). *)
From Coq Require Import NArith ZArith List Bool Arith Sorting.Sorted.
From PL.C14 Require Import ModelUnify ProofsUnify.
From PL.C13 Require Import ModelIndex ProofsIndex ModelSLD ProofsSLD ProofsSLDMono ProofsSLDComplete.
Import ListNotations.

(* ---------------- ClauseIndex ---------------- *)

(* find (as the code is, with its in-place union) returns a superset of the
   clauses whose keys are compatible with the ground call arguments, and keeps
   doing so after any number of earlier finds (the invariant is preserved) *)
Theorem C13_index_complete : forall st es item ks args,
  Inv st es -> In (item, ks) es -> length args <= length ks -> compatible ks args = true ->
  In item (fst (find_code args st)) /\ Inv (snd (find_code args st)) es.
Proof. exact find_code_complete. Qed.
Print Assumptions C13_index_complete.

Theorem C13_index_fixed_complete : forall st es item ks args,
  Inv st es -> In (item, ks) es -> length args <= length ks -> compatible ks args = true ->
  In item (find_fixed args st).
Proof. exact find_fixed_complete. Qed.
Print Assumptions C13_index_fixed_complete.

(* the invariant holds for every index built by loading a predicate's clauses *)
Theorem C13_index_load_inv : forall clauses,
  Inv (load 0 clauses empty) (entries_from 0 clauses) /\ SortedInv (load 0 clauses empty) (length clauses).
Proof.
  exact (fun clauses => conj (Inv_load clauses 0 empty [] Inv_empty) (SortedInv_load clauses 0 empty SortedInv_empty)).
Qed.
Print Assumptions C13_index_load_inv.

(* "compatible" is implied by unifiability of the call with the clause head:
   a ground call argument can only unify with an equal ground head argument or a non-ground one *)
Theorem C13_ground_args_unify_equal : forall th1 th2 a h,
  tvars a = [] -> tvars h = [] -> inst th1 a = inst th2 h -> a = h.
Proof. exact ground_unify_equal. Qed.
Print Assumptions C13_ground_args_unify_equal.

(* program order: the repaired find returns clause ids in increasing order
   (ids are handed out in program order) *)
Theorem C13_index_order : forall st n args, SortedInv st n -> StronglySorted le (find_fixed args st).
Proof. exact find_fixed_sorted. Qed.
Print Assumptions C13_index_order.

(* ---------------- SLD reference ---------------- *)

(* soundness for definite programs: every computed answer, under every further
   instantiation, is a consequence of the program (is in the inductively
   defined least model `holds`) *)
Theorem C13_sld_sound : forall P, definite_program P ->
  forall n g nv l, definite g = true -> solve n P g nv = Ans l ->
  forall r, In r l -> forall th, holds P (ginst th (gapply (fst r) g)).
Proof. exact solve_sound. Qed.
Print Assumptions C13_sld_sound.

Theorem C13_sld_answers_sound : forall P q n l, definite_program P ->
  answers n P q = Ans l -> forall a, In a l -> forall th, holds P (GCall (inst th a)).
Proof. exact answers_sound. Qed.
Print Assumptions C13_sld_answers_sound.

(* findall/3 returns the instances of the template in the order of the
   solutions of the goal, duplicates included (by construction of the reference) *)
Theorem C13_sld_findall_order : forall n P pat g res nv l,
  solve n P g nv = Ans l ->
  solve (S n) P (GFindall pat g res) nv =
  match mgu res (mklist (map (fun r : answer => apply (fst r) pat) l)) with
  | Some sg => Ans [(sg, fold_right N.max nv (map (fun r : answer => snd r) l))]
  | None => Ans []
  end.
Proof. exact findall_unfold. Qed.
Print Assumptions C13_sld_findall_order.

(* ---- fuel monotonicity (ProofsSLDMono.v; ALL goals, negation and findall included):
   an outcome other than OutOfFuel — an answer list or Floundered — is kept by every larger fuel *)
Theorem C13_sld_fuel_monotone : forall P n m g nv l,
  solve n P g nv = Ans l -> n <= m -> solve m P g nv = Ans l.
Proof. exact solve_mono_ans. Qed.
Print Assumptions C13_sld_fuel_monotone.

Theorem C13_sld_fuel_monotone_outcome : forall P n m g nv, n <= m ->
  solve n P g nv <> OutOfFuel -> solve m P g nv = solve n P g nv.
Proof. exact solve_mono. Qed.
Print Assumptions C13_sld_fuel_monotone_outcome.

Theorem C13_sld_answers_fuel_monotone : forall P n m q l,
  answers n P q = Ans l -> n <= m -> answers m P q = Ans l.
Proof. exact answers_mono. Qed.
Print Assumptions C13_sld_answers_fuel_monotone.

(* two finished runs agree whatever their fuels: "the answer list of g" is well defined *)
Theorem C13_sld_fuel_irrelevant : forall P n m g nv,
  solve n P g nv <> OutOfFuel -> solve m P g nv <> OutOfFuel -> solve n P g nv = solve m P g nv.
Proof. exact solve_fuel_irrelevant. Qed.
Print Assumptions C13_sld_fuel_irrelevant.

(* ---- completeness for definite programs relative to a finished run (ProofsSLDComplete.v).
   [gbound g nv]: every variable of g is below nv (the renaming-apart discipline;
   [answers] establishes it for the query).  If the run returns the list l, then
   every instance th of g that holds in the least model is an instance of a
   returned answer: some r in l and de with  de o (fst r) = th  on all variables < nv. *)
Theorem C13_sld_complete : forall P, definite_program P ->
  forall n g nv l, definite g = true -> gbound g nv -> solve n P g nv = Ans l ->
  forall th, holds P (ginst th g) ->
  exists r, In r l /\ exists de, forall v, (v < nv)%N -> inst de (apply (fst r) (TVar v)) = th v.
Proof. exact solve_complete. Qed.
Print Assumptions C13_sld_complete.

(* every instance of the query in the least model (in particular every ground
   one: the least Herbrand model) is an instance of some returned answer *)
Theorem C13_sld_answers_complete : forall P q n l, definite_program P ->
  answers n P q = Ans l ->
  forall th, holds P (GCall (inst th q)) -> exists a de, In a l /\ inst de a = inst th q.
Proof. exact answers_complete. Qed.
Print Assumptions C13_sld_answers_complete.

(* with soundness: on a finished run the instances of the answers ARE the
   instances of the query that hold in the least model — the set the
   correspondence with the tabled engine compares *)
Theorem C13_sld_answers_exact : forall P q n l, definite_program P ->
  answers n P q = Ans l ->
  forall t, (exists a de, In a l /\ t = inst de a) <->
            (holds P (GCall t) /\ exists th, t = inst th q).
Proof. exact answers_exact. Qed.
Print Assumptions C13_sld_answers_exact.

(* definite goals never flounder, so for them "finished" = "returned an answer list" *)
Theorem C13_sld_definite_never_flounders : forall P, definite_program P ->
  forall n g nv, definite g = true -> solve n P g nv <> Floundered.
Proof. exact definite_never_flounders. Qed.
Print Assumptions C13_sld_definite_never_flounders.

(* answers are well formed: fresh-variable counter grows, no variable >= it is introduced *)
Theorem C13_sld_answers_wellformed : forall P, definite_program P ->
  forall n g nv l, definite g = true -> gbound g nv -> solve n P g nv = Ans l ->
  forall r, In r l ->
  (nv <= snd r)%N /\ forall v, (v < nv)%N -> forall w, In w (tvars (apply (fst r) (TVar v))) -> (w < snd r)%N.
Proof. exact solve_wf. Qed.
Print Assumptions C13_sld_answers_wellformed.

(* NOT proved: termination criteria (when some fuel suffices), completeness with
   negation / findall / \= (not in the definite fragment), and
   C13_tabled_is_lfp (the tabled engine is tied to this reference by correspondence only). *)

(* ---- non-vacuity ---- *)
Definition a_ := TApp (SAtom 10) [].
Definition i_ z := TApp (SInt z) [].
Definition p_ x y := TApp (SAtom 11) [x; y].
(* p(X,1). p(a,2). p(Y,4).   ?- findall(Y, p(a,Y), L)  gives [1,2,4] *)
Definition prog_w : program :=
  [(p_ (TVar 0) (i_ 1%Z), GTrue); (p_ a_ (i_ 2%Z), GTrue); (p_ (TVar 0) (i_ 4%Z), GTrue);
   (TApp (SAtom 12) [TVar 0], GFindall (TVar 1) (GCall (p_ a_ (TVar 1))) (TVar 0))].
Example C13_ex_findall :
  answers 10 prog_w (TApp (SAtom 12) [TVar 0]) = Ans [TApp (SAtom 12) [mklist [i_ 1%Z; i_ 2%Z; i_ 4%Z]]].
Proof. vm_compute. reflexivity. Qed.
Example C13_ex_index_fixed :
  find_fixed [Some 0%N; None] (load 0 [[None; Some 1%N]; [Some 0%N; Some 2%N]; [None; Some 4%N]] empty) = [0; 1; 2].
Proof. vm_compute. reflexivity. Qed.

(* definite, recursive, terminating: app([],L,L). app([H|T],L,[H|R]) :- app(T,L,R).
   ?- app(X,Y,[a,b]) has the three splits; app(X,[Z],[W]) returns a non-ground answer *)
Definition b_ := TApp (SAtom 13) [].
Definition app_ x y z := TApp (SAtom 14) [x; y; z].
Definition prog_app : program :=
  [(app_ t_nil (TVar 0) (TVar 0), GTrue);
   (app_ (t_cons (TVar 0) (TVar 1)) (TVar 2) (t_cons (TVar 0) (TVar 3)), GCall (app_ (TVar 1) (TVar 2) (TVar 3)))].
Example C13_ex_app_definite : definite_program prog_app.
Proof. intros c [<-|[<-|[]]]; reflexivity. Qed.
Example C13_ex_app_answers :
  answers 5 prog_app (app_ (TVar 0) (TVar 1) (mklist [a_; b_])) =
  Ans [app_ t_nil (mklist [a_; b_]) (mklist [a_; b_]);
       app_ (mklist [a_]) (mklist [b_]) (mklist [a_; b_]);
       app_ (mklist [a_; b_]) t_nil (mklist [a_; b_])] /\
  answers 3 prog_app (app_ (TVar 0) (TVar 1) (mklist [a_; b_])) = OutOfFuel.
Proof. vm_compute. split; reflexivity. Qed.
(* hence (C13_sld_answers_exact) app(X,Y,[a,b]) has exactly these three instances in the least model;
   a non-ground answer covers its ground instances: *)
Example C13_ex_app_nonground :
  exists a, answers 5 prog_app (app_ t_nil (TVar 0) (TVar 1)) = Ans [a] /\
            exists de, inst de a = app_ t_nil (mklist [b_]) (mklist [b_]).
Proof.
  eexists. split; [vm_compute; reflexivity|].
  exists (fun _ => mklist [b_]). vm_compute. reflexivity.
Qed.
