(* C13 — completeness of the reference SLD interpreter for definite programs,
   relative to a run that ends without OutOfFuel:
     if [solve n P g nv = Ans l] then every instance of g that holds in the least
     model is an instance of one of the returned answers (lifting lemma, by
     induction on the fuel — no induction on the derivation is needed because a
     finished run has explored every clause at every call).
   Ingredients: [mgu_absorbs] of C14 (every unifier th satisfies th o mgu = th),
   a semantic proof that the mgu introduces no variable that is not in its
   inputs ([mgu_range_lt]), and the renaming-apart discipline of [solve]
   (variables of the current goal < nv, clause variables shifted by nv). *)
From Coq Require Import NArith ZArith List Bool Lia.
From PL.C14 Require Import ModelUnify ProofsUnify.
From PL.C13 Require Import ModelSLD ProofsSLD ProofsSLDMono.
Import ListNotations.
Local Open Scope N_scope.

(* ------------------------------------------------------------------ variables of instances *)
Lemma tvars_inst : forall t th w,
  In w (tvars (inst th t)) <-> exists v, In v (tvars t) /\ In w (tvars (th v)).
Proof.
  induction t as [x|f args IH] using term_ind'; intros th w; simpl.
  - split.
    + intros H. exists x. auto.
    + intros [v [[<-|[]] H]]. exact H.
  - rewrite Forall_forall in IH. rewrite in_flat_map. split.
    + intros [a' [Ha' Hw]]. apply in_map_iff in Ha'. destruct Ha' as [a [<- Ha]].
      apply (IH a Ha) in Hw. destruct Hw as [v [Hv Hw]].
      exists v. split; [|exact Hw]. apply in_flat_map. exists a. auto.
    + intros [v [Hv Hw]]. apply in_flat_map in Hv. destruct Hv as [a [Ha Hv]].
      exists (inst th a). split; [apply in_map; exact Ha|].
      apply (IH a Ha). exists v. auto.
Qed.

Lemma gvars_ginst : forall g th w,
  In w (gvars (ginst th g)) -> exists v, In v (gvars g) /\ In w (tvars (th v)).
Proof.
  assert (T : forall t th w (Q : N -> Prop), (forall v, In v (tvars t) -> Q v) ->
              In w (tvars (inst th t)) -> exists v, Q v /\ In w (tvars (th v))).
  { intros t th w Q HQ H. apply tvars_inst in H. destruct H as [v [Hv Hw]]. exists v. auto. }
  induction g; intros th w H; simpl in H; simpl gvars.
  - destruct H.
  - destruct H.
  - eapply T; [|exact H]. auto.
  - apply in_app_or in H. destruct H as [H|H].
    + destruct (IHg1 _ _ H) as [v [Hv Hw]]. exists v. split; [apply in_or_app; auto|exact Hw].
    + destruct (IHg2 _ _ H) as [v [Hv Hw]]. exists v. split; [apply in_or_app; auto|exact Hw].
  - apply in_app_or in H. destruct H as [H|H].
    + destruct (IHg1 _ _ H) as [v [Hv Hw]]. exists v. split; [apply in_or_app; auto|exact Hw].
    + destruct (IHg2 _ _ H) as [v [Hv Hw]]. exists v. split; [apply in_or_app; auto|exact Hw].
  - apply IHg. exact H.
  - apply in_app_or in H. destruct H as [H|H]; (eapply T; [|exact H]); intros; apply in_or_app; auto.
  - apply in_app_or in H. destruct H as [H|H]; (eapply T; [|exact H]); intros; apply in_or_app; auto.
  - apply in_app_or in H. destruct H as [H|H]; [|apply in_app_or in H; destruct H as [H|H]].
    + eapply T; [|exact H]. intros; apply in_or_app; auto.
    + destruct (IHg _ _ H) as [v [Hv Hw]]. exists v. split; [|exact Hw].
      apply in_or_app; right; apply in_or_app; auto.
    + eapply T; [|exact H]. intros; apply in_or_app; right; apply in_or_app; auto.
Qed.

Lemma ginst_ext_in : forall g th th',
  (forall v, In v (gvars g) -> th v = th' v) -> ginst th g = ginst th' g.
Proof.
  induction g; intros th th' H; simpl in *; auto.
  - f_equal. apply inst_ext_in. auto.
  - f_equal; [apply IHg1 | apply IHg2]; intros; apply H; apply in_or_app; auto.
  - f_equal; [apply IHg1 | apply IHg2]; intros; apply H; apply in_or_app; auto.
  - f_equal. apply IHg. auto.
  - f_equal; apply inst_ext_in; intros; apply H; apply in_or_app; auto.
  - f_equal; apply inst_ext_in; intros; apply H; apply in_or_app; auto.
  - f_equal; [apply inst_ext_in | apply IHg | apply inst_ext_in]; intros; apply H;
      apply in_or_app; auto; right; apply in_or_app; auto.
Qed.

(* two instances of t are equal only if the substitutions agree on the variables of t *)
Lemma inst_eq_agree : forall t th th', inst th t = inst th' t ->
  forall v, In v (tvars t) -> th v = th' v.
Proof.
  induction t as [x|f args IH] using term_ind'; intros th th' H v Hv; simpl in *.
  - destruct Hv as [<-|[]]. exact H.
  - apply in_flat_map in Hv. destruct Hv as [a [Ha Hv]].
    rewrite Forall_forall in IH. apply (IH a Ha th th'); auto.
    injection H as H1.
    assert (G : forall l, map (inst th) l = map (inst th') l -> forall a, In a l -> inst th a = inst th' a).
    { induction l as [|b l IHl]; simpl; intros E c Hc; [destruct Hc|].
      inversion E as [[E1 E2]]. destruct Hc as [<-|Hc]; [exact E1|]. apply IHl; auto. }
    apply (G args H1 a Ha).
Qed.

Lemma fold_max_ge : forall l v, In v l -> v <= fold_right N.max 0 l.
Proof.
  induction l as [|a l IH]; simpl; intros v H; [destruct H|].
  destruct H as [->|H]; [lia|]. specialize (IH v H). lia.
Qed.

(* ------------------------------------------------------------------ bounded variables *)
Definition tbound (t : term) (k : N) : Prop := forall v, In v (tvars t) -> v < k.
Definition gbound (g : goal) (k : N) : Prop := forall v, In v (gvars g) -> v < k.

Lemma tbound_inst : forall t th k k',
  tbound t k -> (forall v, v < k -> tbound (th v) k') -> tbound (inst th t) k'.
Proof.
  intros t th k k' Ht Hth w Hw. apply tvars_inst in Hw. destruct Hw as [v [Hv Hw]].
  apply (Hth v (Ht v Hv) w Hw).
Qed.

Lemma tbound_apply : forall s t k k',
  tbound t k -> (forall v, v < k -> tbound (apply s (TVar v)) k') -> tbound (apply s t) k'.
Proof. intros s t k k' Ht Hs. rewrite apply_inst. eapply tbound_inst; eauto. Qed.

Lemma gbound_gapply : forall s g k k',
  gbound g k -> (forall v, v < k -> tbound (apply s (TVar v)) k') -> gbound (gapply s g) k'.
Proof.
  intros s g k k' Hg Hs w Hw. unfold gapply in Hw. apply gvars_ginst in Hw.
  destruct Hw as [v [Hv Hw]]. apply (Hs v (Hg v Hv) w Hw).
Qed.

(* the mgu mentions no variable beyond those of the two terms: proved from the
   absorption property alone (a unifier can be changed at a variable outside
   the inputs, and absorption then forces that variable out of the range) *)
Lemma mgu_range_lt : forall s t sg k, mgu s t = Some sg ->
  tbound s k -> tbound t k -> forall x, x < k -> tbound (apply sg (TVar x)) k.
Proof.
  intros s t sg k H Hs Ht x Hx z Hz.
  destruct (N.ltb_spec z k) as [L|L]; [exact L|]. exfalso.
  set (th := as_fun sg).
  set (th' := fun v => if N.eqb v z then TApp (SAtom 0) [th z] else th v).
  assert (A : forall u, tbound u k -> inst th' u = inst th u).
  { intros u Hu. apply inst_ext_in. intros v Hv. unfold th'.
    destruct (N.eqb_spec v z) as [->|]; [|reflexivity]. specialize (Hu z Hv). lia. }
  assert (U : unifies th s t).
  { unfold unifies, th. rewrite <- !apply_inst. eapply mgu_sound; eauto. }
  assert (U' : unifies th' s t).
  { unfold unifies. rewrite (A s Hs), (A t Ht). exact U. }
  pose proof (mgu_absorbs s t sg H th U (TVar x)) as E1.
  pose proof (mgu_absorbs s t sg H th' U' (TVar x)) as E2.
  simpl in E1, E2.
  assert (E3 : th' x = th x).
  { unfold th'. destruct (N.eqb_spec x z) as [->|]; [lia|reflexivity]. }
  assert (E : inst th (apply sg (TVar x)) = inst th' (apply sg (TVar x))) by congruence.
  pose proof (inst_eq_agree _ _ _ E z Hz) as Ez.
  unfold th' in Ez. rewrite N.eqb_refl in Ez.
  apply (f_equal tsize) in Ez. simpl in Ez. lia.
Qed.

(* ------------------------------------------------------------------ renaming apart at a call *)
Lemma shift_tbound : forall c nv, tbound (inst (shift nv) (fst c)) (nv + clause_width c).
Proof.
  intros c nv w Hw. apply tvars_inst in Hw. destruct Hw as [v [Hv Hw]].
  unfold shift in Hw. simpl in Hw. destruct Hw as [<-|[]].
  unfold clause_width.
  assert (v <= fold_right N.max 0 (tvars (fst c) ++ gvars (snd c))).
  { apply fold_max_ge. apply in_or_app. auto. }
  lia.
Qed.

Lemma shift_gbound : forall c nv, gbound (ginst (shift nv) (snd c)) (nv + clause_width c).
Proof.
  intros c nv w Hw. apply gvars_ginst in Hw. destruct Hw as [v [Hv Hw]].
  unfold shift in Hw. simpl in Hw. destruct Hw as [<-|[]].
  unfold clause_width.
  assert (v <= fold_right N.max 0 (tvars (fst c) ++ gvars (snd c))).
  { apply fold_max_ge. apply in_or_app. auto. }
  lia.
Qed.

Lemma tbound_weaken : forall t k k', tbound t k -> k <= k' -> tbound t k'.
Proof. intros t k k' H L v Hv. specialize (H v Hv). lia. Qed.

Lemma clause_width_pos : forall c, 0 < clause_width c.
Proof. intros. unfold clause_width. lia. Qed.

Lemma call_mgu_range : forall t c nv sg, tbound t nv ->
  mgu t (inst (shift nv) (fst c)) = Some sg ->
  forall v, v < nv + clause_width c -> tbound (apply sg (TVar v)) (nv + clause_width c).
Proof.
  intros t c nv sg Ht Em. eapply mgu_range_lt; eauto.
  - eapply tbound_weaken; eauto. lia.
  - apply shift_tbound.
Qed.

Lemma call_sub_gbound : forall t c nv sg, tbound t nv ->
  mgu t (inst (shift nv) (fst c)) = Some sg ->
  gbound (gapply sg (ginst (shift nv) (snd c))) (nv + clause_width c).
Proof.
  intros t c nv sg Ht Em. eapply gbound_gapply.
  - apply shift_gbound.
  - eapply call_mgu_range; eauto.
Qed.

(* ------------------------------------------------------------------ well-formed answers *)
Definition abound (nv : N) (r : answer) : Prop :=
  nv <= snd r /\ forall v, v < nv -> tbound (apply (fst r) (TVar v)) (snd r).

Lemma tbound_var : forall v k, v < k -> tbound (TVar v) k.
Proof. intros v k H w [<-|[]]. exact H. Qed.

Theorem solve_wf : forall P, definite_program P ->
  forall n g nv l, definite g = true -> gbound g nv ->
  solve n P g nv = Ans l -> forall r, In r l -> abound nv r.
Proof.
  intros P HP. induction n as [|n IH]; intros g nv l Hd Hg Hs r Hr; [discriminate|].
  destruct g; simpl in Hd; try discriminate; simpl in Hs.
  - (* true *) inversion Hs; subst. destruct Hr as [<-|[]]. split; simpl; [lia|].
    intros v Hv. apply tbound_var. exact Hv.
  - (* fail *) inversion Hs; subst. destruct Hr.
  - (* call *)
    destruct (obind_in _ _ _ _ _ _ Hs Hr) as [c [r' [Hc [Hf Hr']]]].
    destruct (mgu t (inst (shift nv) (fst c))) as [sg|] eqn:Em; [|inversion Hf; subst; destruct Hr'].
    destruct (solve n P (gapply sg (ginst (shift nv) (snd c))) (nv + clause_width c)) as [l2| |] eqn:E2; try discriminate.
    inversion Hf; subst. apply in_map_iff in Hr'. destruct Hr' as [r2 [<- Hr2]].
    assert (Ht : tbound t nv) by exact Hg.
    assert (Hdb : definite (gapply sg (ginst (shift nv) (snd c))) = true).
    { unfold gapply. rewrite !definite_ginst. apply HP. auto. }
    destruct (IH _ _ _ Hdb (call_sub_gbound t c nv sg Ht Em) E2 r2 Hr2) as [B1 B2].
    pose proof (clause_width_pos c) as W.
    split; simpl; [lia|].
    intros v Hv. rewrite apply_app_list.
    apply (tbound_apply (fst r2) _ (nv + clause_width c)); [|exact B2].
    apply (call_mgu_range t c nv sg Ht Em). lia.
  - (* and *)
    apply andb_true_iff in Hd. destruct Hd as [Hd1 Hd2].
    destruct (solve n P g1 nv) as [l1| |] eqn:E1; try discriminate.
    destruct (obind_in _ _ _ _ _ _ Hs Hr) as [r1 [r' [Hr1 [Hf Hr']]]].
    destruct (solve n P (gapply (fst r1) g2) (snd r1)) as [l2| |] eqn:E2; try discriminate.
    inversion Hf; subst. apply in_map_iff in Hr'. destruct Hr' as [r2 [<- Hr2]].
    assert (Hg1 : gbound g1 nv) by (intros v Hv; apply Hg; simpl; apply in_or_app; auto).
    assert (Hg2 : gbound g2 nv) by (intros v Hv; apply Hg; simpl; apply in_or_app; auto).
    destruct (IH _ _ _ Hd1 Hg1 E1 r1 Hr1) as [A1 A2].
    assert (Hdb : definite (gapply (fst r1) g2) = true) by (unfold gapply; rewrite definite_ginst; auto).
    destruct (IH _ _ _ Hdb (gbound_gapply _ _ _ _ Hg2 A2) E2 r2 Hr2) as [B1 B2].
    split; simpl; [lia|].
    intros v Hv. rewrite apply_app_list.
    apply (tbound_apply (fst r2) _ (snd r1)); [|exact B2]. apply A2. exact Hv.
  - (* or *)
    apply andb_true_iff in Hd. destruct Hd as [Hd1 Hd2].
    destruct (solve n P g1 nv) as [l1| |] eqn:E1; try discriminate.
    destruct (solve n P g2 nv) as [l2| |] eqn:E2; try discriminate.
    inversion Hs; subst.
    assert (Hg1 : gbound g1 nv) by (intros v Hv; apply Hg; simpl; apply in_or_app; auto).
    assert (Hg2 : gbound g2 nv) by (intros v Hv; apply Hg; simpl; apply in_or_app; auto).
    apply in_app_or in Hr. destruct Hr as [Hr|Hr].
    + apply (IH _ _ _ Hd1 Hg1 E1 r Hr).
    + apply (IH _ _ _ Hd2 Hg2 E2 r Hr).
  - (* = *)
    destruct (mgu s t) as [sg|] eqn:Em; inversion Hs; subst; [|destruct Hr].
    destruct Hr as [<-|[]]. split; simpl; [lia|].
    assert (Hs' : tbound s nv) by (intros v Hv; apply Hg; simpl; apply in_or_app; auto).
    assert (Ht' : tbound t nv) by (intros v Hv; apply Hg; simpl; apply in_or_app; auto).
    apply (mgu_range_lt s t sg nv Em Hs' Ht').
Qed.

(* ------------------------------------------------------------------ completeness *)
Lemma obind_complete : forall (A B : Type) (l : list A) (f : A -> outcome B) r,
  obind l f = Ans r -> forall a, In a l -> exists ra, f a = Ans ra /\ (forall x, In x ra -> In x r).
Proof.
  induction l as [|b l IH]; intros f r H a Ha; [destruct Ha|].
  simpl in H. destruct (f b) as [rb| |] eqn:E; try discriminate.
  destruct (obind l f) as [rl| |] eqn:E2; try discriminate.
  inversion H; subst. destruct Ha as [<-|Ha].
  - exists rb. split; [exact E|]. intros x Hx. apply in_or_app. auto.
  - destruct (IH f rl E2 a Ha) as [ra [F I]]. exists ra. split; [exact F|].
    intros x Hx. apply in_or_app. auto.
Qed.

(* th is recovered from the answer r on all the variables below nv *)
Definition factors (nv : N) (th : N -> term) (r : answer) : Prop :=
  exists de, forall v, v < nv -> inst de (apply (fst r) (TVar v)) = th v.

(* goal variables (< nv) follow th, renamed clause variables follow th' *)
Definition glue_at (nv : N) (th th' : N -> term) : N -> term :=
  fun v => if v <? nv then th v else th' (v - nv).

Lemma glue_at_low : forall nv th th' t, tbound t nv -> inst (glue_at nv th th') t = inst th t.
Proof.
  intros nv th th' t Ht. apply inst_ext_in. intros v Hv. unfold glue_at.
  specialize (Ht v Hv). destruct (N.ltb_spec v nv); [reflexivity|lia].
Qed.

Lemma glue_at_shift : forall nv th th' v, inst (glue_at nv th th') (shift nv v) = th' v.
Proof.
  intros. unfold shift, glue_at. simpl. destruct (N.ltb_spec (v + nv) nv); [lia|]. f_equal. lia.
Qed.

Theorem solve_complete : forall P, definite_program P ->
  forall n g nv l, definite g = true -> gbound g nv -> solve n P g nv = Ans l ->
  forall th, holds P (ginst th g) -> exists r, In r l /\ factors nv th r.
Proof.
  intros P HP. induction n as [|n IH]; intros g nv l Hd Hg Hs th Hh; [discriminate|].
  destruct g; simpl in Hd; try discriminate; simpl in Hs; simpl in Hh.
  - (* true *) inversion Hs; subst. exists ([], nv). split; [left; reflexivity|].
    exists th. intros v _. reflexivity.
  - (* fail *) inversion Hh.
  - (* call *)
    inversion Hh as [ | | | | | c th' Hc Hb Heq]. subst.
    assert (Ht : tbound t nv) by exact Hg.
    destruct (obind_complete _ _ _ _ _ Hs c Hc) as [ra [Hf Hin]]. cbv zeta in Hf.
    set (th1 := glue_at nv th th').
    assert (U : unifies th1 t (inst (shift nv) (fst c))).
    { unfold unifies, th1. rewrite (glue_at_low nv th th' t Ht). rewrite inst_comp.
      rewrite (inst_ext (fst c) _ th' (glue_at_shift nv th th')). symmetry. exact Heq. }
    destruct (mgu t (inst (shift nv) (fst c))) as [sg|] eqn:Em;
      [|exfalso; apply (mgu_none_not_unifiable _ _ Em); exists th1; exact U].
    destruct (solve n P (gapply sg (ginst (shift nv) (snd c))) (nv + clause_width c)) as [l2| |] eqn:E2; try discriminate.
    inversion Hf; subst ra. clear Hf.
    assert (Hdb : definite (gapply sg (ginst (shift nv) (snd c))) = true).
    { unfold gapply. rewrite !definite_ginst. apply HP. auto. }
    assert (Hh2 : holds P (ginst th1 (gapply sg (ginst (shift nv) (snd c))))).
    { unfold gapply. rewrite !ginst_comp.
      rewrite (ginst_ext (snd c) _ th'); [exact Hb|].
      intros v. change (inst th1 (apply sg (shift nv v)) = th' v).
      rewrite (mgu_absorbs _ _ _ Em th1 U). apply glue_at_shift. }
    destruct (IH _ _ _ Hdb (call_sub_gbound t c nv sg Ht Em) E2 th1 Hh2) as [r2 [Hr2 [de Hde]]].
    exists (sg ++ fst r2, snd r2). split.
    { apply Hin. apply in_map_iff. exists r2. auto. }
    exists de. intros v Hv. simpl fst. rewrite apply_app_list.
    pose proof (clause_width_pos c) as W.
    assert (Hv1 : v < nv + clause_width c) by lia.
    pose proof (call_mgu_range t c nv sg Ht Em v Hv1) as Hrange.
    rewrite (apply_inst (fst r2)). rewrite inst_comp.
    rewrite (inst_ext_in (apply sg (TVar v)) _ th1).
    + rewrite (mgu_absorbs _ _ _ Em th1 U). simpl. unfold th1, glue_at.
      destruct (N.ltb_spec v nv); [reflexivity|lia].
    + intros w Hw. unfold as_fun. apply Hde. apply Hrange. exact Hw.
  - (* and *)
    apply andb_true_iff in Hd. destruct Hd as [Hd1 Hd2].
    inversion Hh as [ |a0 b0 Ha Hb| | | | ]. subst.
    assert (Hg1 : gbound g1 nv) by (intros v Hv; apply Hg; simpl; apply in_or_app; auto).
    assert (Hg2 : gbound g2 nv) by (intros v Hv; apply Hg; simpl; apply in_or_app; auto).
    destruct (solve n P g1 nv) as [l1| |] eqn:E1; try discriminate.
    destruct (IH _ _ _ Hd1 Hg1 E1 th Ha) as [r1 [Hr1 [de1 Hde1]]].
    destruct (solve_wf P HP _ _ _ _ Hd1 Hg1 E1 r1 Hr1) as [A1 A2].
    destruct (obind_complete _ _ _ _ _ Hs r1 Hr1) as [ra [Hf Hin]].
    destruct (solve n P (gapply (fst r1) g2) (snd r1)) as [l2| |] eqn:E2; try discriminate.
    inversion Hf; subst ra. clear Hf.
    assert (Hdb : definite (gapply (fst r1) g2) = true) by (unfold gapply; rewrite definite_ginst; auto).
    assert (Hh2 : holds P (ginst de1 (gapply (fst r1) g2))).
    { unfold gapply. rewrite ginst_comp. rewrite (ginst_ext_in g2 _ th); [exact Hb|].
      intros v Hv. unfold as_fun. apply Hde1. apply Hg2. exact Hv. }
    destruct (IH _ _ _ Hdb (gbound_gapply _ _ _ _ Hg2 A2) E2 de1 Hh2) as [r2 [Hr2 [de2 Hde2]]].
    exists (fst r1 ++ fst r2, snd r2). split.
    { apply Hin. apply in_map_iff. exists r2. auto. }
    exists de2. intros v Hv. simpl fst. rewrite apply_app_list.
    rewrite (apply_inst (fst r2)). rewrite inst_comp.
    rewrite (inst_ext_in (apply (fst r1) (TVar v)) _ de1).
    + apply Hde1. exact Hv.
    + intros w Hw. unfold as_fun. apply Hde2. apply (A2 v Hv). exact Hw.
  - (* or *)
    apply andb_true_iff in Hd. destruct Hd as [Hd1 Hd2].
    assert (Hg1 : gbound g1 nv) by (intros v Hv; apply Hg; simpl; apply in_or_app; auto).
    assert (Hg2 : gbound g2 nv) by (intros v Hv; apply Hg; simpl; apply in_or_app; auto).
    destruct (solve n P g1 nv) as [l1| |] eqn:E1; try discriminate.
    destruct (solve n P g2 nv) as [l2| |] eqn:E2; try discriminate.
    inversion Hs; subst l. clear Hs.
    inversion Hh as [ | |a0 b0 Ha|a0 b0 Hb| | ]; subst.
    + destruct (IH _ _ _ Hd1 Hg1 E1 th Ha) as [r [Hr F]]. exists r. split; [apply in_or_app; auto|exact F].
    + destruct (IH _ _ _ Hd2 Hg2 E2 th Hb) as [r [Hr F]]. exists r. split; [apply in_or_app; auto|exact F].
  - (* = *)
    assert (U : unifies th s t) by (unfold unifies; inversion Hh; congruence).
    destruct (mgu s t) as [sg|] eqn:Em;
      [|exfalso; apply (mgu_none_not_unifiable _ _ Em); exists th; exact U].
    inversion Hs; subst l. exists (sg, nv). split; [left; reflexivity|].
    exists th. intros v _. simpl fst. apply (mgu_absorbs _ _ _ Em th U (TVar v)).
Qed.

(* ------------------------------------------------------------------ the query interface *)
Theorem answers_complete : forall P q n l, definite_program P ->
  answers n P q = Ans l ->
  forall th, holds P (GCall (inst th q)) -> exists a de, In a l /\ inst de a = inst th q.
Proof.
  intros P q n l HP H th Hh. unfold answers in H.
  set (nv := N.succ (fold_right N.max 0 (tvars q))) in *.
  destruct (solve n P (GCall q) nv) as [l'| |] eqn:E; try discriminate.
  inversion H; subst l. clear H.
  assert (Hg : gbound (GCall q) nv).
  { intros v Hv. simpl in Hv. apply fold_max_ge in Hv. unfold nv. lia. }
  destruct (solve_complete P HP n (GCall q) nv l' eq_refl Hg E th Hh) as [r [Hr [de Hde]]].
  exists (apply (fst r) q), de. split.
  - apply in_map_iff. exists r. auto.
  - rewrite apply_inst, inst_comp. apply inst_ext_in. intros v Hv.
    unfold as_fun. apply Hde. apply Hg. exact Hv.
Qed.

(* on a finished run the instances of the returned answers are EXACTLY the
   instances of the query that hold in the least model *)
Theorem answers_exact : forall P q n l, definite_program P ->
  answers n P q = Ans l ->
  forall t, (exists a de, In a l /\ t = inst de a) <->
            (holds P (GCall t) /\ exists th, t = inst th q).
Proof.
  intros P q n l HP H t. split.
  - intros [a [de [Ha ->]]]. split.
    + eapply answers_sound; eauto.
    + unfold answers in H.
      destruct (solve n P (GCall q) (N.succ (fold_right N.max 0 (tvars q)))) as [l'| |]; try discriminate.
      inversion H; subst l. apply in_map_iff in Ha. destruct Ha as [r [<- _]].
      exists (fun v => inst de (as_fun (fst r) v)). rewrite apply_inst, inst_comp. reflexivity.
  - intros [Hh [th ->]].
    destruct (answers_complete P q n l HP H th Hh) as [a [de [Ha E]]].
    exists a, de. auto.
Qed.

(* definite goals never flounder: for them "ends without OutOfFuel" = "returns an answer list" *)
Lemma obind_not_floundered : forall (A B : Type) (l : list A) (f : A -> outcome B),
  (forall a, In a l -> f a <> Floundered) -> obind l f <> Floundered.
Proof.
  induction l as [|a l IH]; intros f H; simpl; [discriminate|].
  pose proof (H a (or_introl eq_refl)) as Ha.
  destruct (f a); try congruence.
  pose proof (IH f (fun a' Ha' => H a' (or_intror Ha'))) as Hl.
  destruct (obind l f); congruence.
Qed.

Theorem definite_never_flounders : forall P, definite_program P ->
  forall n g nv, definite g = true -> solve n P g nv <> Floundered.
Proof.
  intros P HP. induction n as [|n IH]; intros g nv Hd; [discriminate|].
  destruct g; simpl in Hd; try discriminate; simpl.
  - apply obind_not_floundered. intros c Hc.
    destruct (mgu t (inst (shift nv) (fst c))) as [sg|]; [|discriminate].
    assert (Hdb : definite (gapply sg (ginst (shift nv) (snd c))) = true).
    { unfold gapply. rewrite !definite_ginst. apply HP. auto. }
    pose proof (IH (gapply sg (ginst (shift nv) (snd c))) (nv + clause_width c) Hdb) as N.
    destruct (solve n P (gapply sg (ginst (shift nv) (snd c))) (nv + clause_width c)); congruence.
  - apply andb_true_iff in Hd. destruct Hd as [Hd1 Hd2].
    pose proof (IH g1 nv Hd1) as N1.
    destruct (solve n P g1 nv) as [l1| |]; try congruence.
    apply obind_not_floundered. intros r1 _.
    assert (Hdb : definite (gapply (fst r1) g2) = true) by (unfold gapply; rewrite definite_ginst; auto).
    pose proof (IH (gapply (fst r1) g2) (snd r1) Hdb) as N2.
    destruct (solve n P (gapply (fst r1) g2) (snd r1)); congruence.
  - apply andb_true_iff in Hd. destruct Hd as [Hd1 Hd2].
    pose proof (IH g1 nv Hd1) as N1. pose proof (IH g2 nv Hd2) as N2.
    destruct (solve n P g1 nv); try congruence. destruct (solve n P g2 nv); congruence.
  - destruct (mgu s t); discriminate.
Qed.
