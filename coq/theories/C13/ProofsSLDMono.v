(* C13 — fuel monotonicity of the reference SLD interpreter (ALL goals, including
   negation and findall): once a run ends with an outcome other than OutOfFuel
   (an answer list or Floundered), every larger fuel gives the same outcome. *)
From Coq Require Import NArith ZArith List Bool Lia.
From PL.C14 Require Import ModelUnify.
From PL.C13 Require Import ModelSLD.
Import ListNotations.

(* one unfolding of [solve] with the recursive calls abstracted *)
Definition solve_body (rec : goal -> N -> outcome answer) (P : program) (g : goal) (nv : N) : outcome answer :=
  match g with
  | GTrue => Ans [([], nv)]
  | GFail => Ans []
  | GEq s t =>
      match mgu s t with Some sg => Ans [(sg, nv)] | None => Ans [] end
  | GNeq s t =>
      match mgu s t with Some _ => Ans [] | None => Ans [([], nv)] end
  | GAnd a b =>
      match rec a nv with
      | Ans l =>
          obind l (fun r1 : answer =>
            match rec (gapply (fst r1) b) (snd r1) with
            | Ans l2 => Ans (map (fun r2 : answer => (fst r1 ++ fst r2, snd r2)) l2)
            | OutOfFuel => OutOfFuel
            | Floundered => Floundered
            end)
      | OutOfFuel => OutOfFuel
      | Floundered => Floundered
      end
  | GOr a b =>
      match rec a nv with
      | Ans l1 =>
          match rec b nv with
          | Ans l2 => Ans (l1 ++ l2)
          | OutOfFuel => OutOfFuel
          | Floundered => Floundered
          end
      | OutOfFuel => OutOfFuel
      | Floundered => Floundered
      end
  | GNot a =>
      if ground_goal a then
        match rec a nv with
        | Ans [] => Ans [([], nv)]
        | Ans _ => Ans []
        | OutOfFuel => OutOfFuel
        | Floundered => Floundered
        end
      else Floundered
  | GCall t =>
      obind P (fun c : clause =>
        let h := inst (shift nv) (fst c) in
        let b := ginst (shift nv) (snd c) in
        let nv1 := (nv + clause_width c)%N in
        match mgu t h with
        | None => Ans []
        | Some sg =>
            match rec (gapply sg b) nv1 with
            | Ans l2 => Ans (map (fun r2 : answer => (sg ++ fst r2, snd r2)) l2)
            | OutOfFuel => OutOfFuel
            | Floundered => Floundered
            end
        end)
  | GFindall pat a res =>
      match rec a nv with
      | Ans l =>
          let items := map (fun r : answer => apply (fst r) pat) l in
          let nv' := fold_right N.max nv (map (fun r : answer => snd r) l) in
          match mgu res (mklist items) with
          | Some sg => Ans [(sg, nv')]
          | None => Ans []
          end
      | OutOfFuel => OutOfFuel
      | Floundered => Floundered
      end
  end.

Lemma solve_unfold : forall n P g nv, solve (S n) P g nv = solve_body (solve n P) P g nv.
Proof. intros. destruct g; reflexivity. Qed.

(* [obind] only looks at f on the elements of the list, and stops at the first
   outcome that is not an answer list *)
Lemma obind_mono : forall (A B : Type) (l : list A) (f g : A -> outcome B),
  (forall a, In a l -> f a <> OutOfFuel -> g a = f a) ->
  obind l f <> OutOfFuel -> obind l g = obind l f.
Proof.
  induction l as [|a l IH]; intros f g H N; [reflexivity|].
  simpl in *.
  destruct (f a) as [ra| |] eqn:E.
  - rewrite (H a (or_introl eq_refl)) by congruence. rewrite E.
    assert (N' : obind l f <> OutOfFuel) by (destruct (obind l f); congruence).
    rewrite (IH f g (fun a' Ha' => H a' (or_intror Ha')) N'). reflexivity.
  - congruence.
  - rewrite (H a (or_introl eq_refl)) by congruence. rewrite E. reflexivity.
Qed.

(* the body is monotone in the recursive-call function *)
Lemma solve_body_mono : forall (rec1 rec2 : goal -> N -> outcome answer),
  (forall g nv, rec1 g nv <> OutOfFuel -> rec2 g nv = rec1 g nv) ->
  forall P g nv, solve_body rec1 P g nv <> OutOfFuel -> solve_body rec2 P g nv = solve_body rec1 P g nv.
Proof.
  intros rec1 rec2 H P g nv N. destruct g; cbn [solve_body] in *; try reflexivity.
  - (* call *)
    apply obind_mono; [|exact N]. intros c _ Nc. cbv zeta in *.
    destruct (mgu t (inst (shift nv) (fst c))) as [sg|]; [|reflexivity].
    destruct (rec1 (gapply sg (ginst (shift nv) (snd c))) (nv + clause_width c)%N) as [l2| |] eqn:E;
      try congruence; rewrite (H _ _) by congruence; rewrite E; reflexivity.
  - (* and *)
    destruct (rec1 g1 nv) as [l| |] eqn:E1; try congruence;
      rewrite (H g1 nv) by congruence; rewrite E1; [|reflexivity].
    apply obind_mono; [|exact N]. intros r1 _ Nr.
    destruct (rec1 (gapply (fst r1) g2) (snd r1)) as [l2| |] eqn:E2;
      try congruence; rewrite (H _ _) by congruence; rewrite E2; reflexivity.
  - (* or *)
    destruct (rec1 g1 nv) as [l1| |] eqn:E1; try congruence;
      rewrite (H g1 nv) by congruence; rewrite E1; [|reflexivity].
    destruct (rec1 g2 nv) as [l2| |] eqn:E2; try congruence;
      rewrite (H g2 nv) by congruence; rewrite E2; reflexivity.
  - (* not *)
    destruct (ground_goal g); [|reflexivity].
    destruct (rec1 g nv) as [l| |] eqn:E1; try congruence;
      rewrite (H g nv) by congruence; rewrite E1; reflexivity.
  - (* findall *)
    destruct (rec1 g nv) as [l| |] eqn:E1; try congruence;
      rewrite (H g nv) by congruence; rewrite E1; reflexivity.
Qed.

Lemma solve_mono_S : forall P n g nv, solve n P g nv <> OutOfFuel -> solve (S n) P g nv = solve n P g nv.
Proof.
  intros P. induction n as [|n IH]; intros g nv N.
  - exfalso. apply N. reflexivity.
  - rewrite (solve_unfold (S n)), (solve_unfold n) in *.
    apply solve_body_mono; [|exact N]. intros g' nv' N'. apply IH. exact N'.
Qed.

Theorem solve_mono : forall P n m g nv, n <= m ->
  solve n P g nv <> OutOfFuel -> solve m P g nv = solve n P g nv.
Proof.
  intros P n m g nv L N. induction L as [|m L IH]; [reflexivity|].
  rewrite solve_mono_S; rewrite IH; auto.
Qed.

Theorem solve_mono_ans : forall P n m g nv l, solve n P g nv = Ans l -> n <= m -> solve m P g nv = Ans l.
Proof.
  intros P n m g nv l H L. rewrite (solve_mono P n m g nv L); [exact H|]. rewrite H. discriminate.
Qed.

Theorem solve_mono_floundered : forall P n m g nv,
  solve n P g nv = Floundered -> n <= m -> solve m P g nv = Floundered.
Proof.
  intros P n m g nv H L. rewrite (solve_mono P n m g nv L); [exact H|]. rewrite H. discriminate.
Qed.

Theorem answers_mono : forall P n m q l, answers n P q = Ans l -> n <= m -> answers m P q = Ans l.
Proof.
  intros P n m q l H L. unfold answers in *.
  destruct (solve n P (GCall q) (N.succ (fold_right N.max 0%N (tvars q)))) as [l'| |] eqn:E; try discriminate.
  rewrite (solve_mono_ans P n m _ _ l' E L). exact H.
Qed.

(* two runs that both end without OutOfFuel agree, whatever their fuels *)
Theorem solve_fuel_irrelevant : forall P n m g nv,
  solve n P g nv <> OutOfFuel -> solve m P g nv <> OutOfFuel -> solve n P g nv = solve m P g nv.
Proof.
  intros P n m g nv Nn Nm. destruct (Nat.le_ge_cases n m) as [L|L].
  - symmetry. apply solve_mono; assumption.
  - apply solve_mono; assumption.
Qed.
