(* C13 — soundness of the reference SLD interpreter for definite programs. *)
From Coq Require Import NArith ZArith List Bool Lia.
From PL.C14 Require Import ModelUnify ProofsUnify.
From PL.C13 Require Import ModelSLD.
Import ListNotations.

Fixpoint definite (g : goal) : bool :=
  match g with
  | GTrue | GFail | GCall _ | GEq _ _ => true
  | GAnd a b | GOr a b => definite a && definite b
  | GNot _ | GNeq _ _ | GFindall _ _ _ => false
  end.

Definition definite_program (P : program) : Prop := forall c, In c P -> definite (snd c) = true.

(* the least model, as an inductive definition: `holds P g` iff g follows from P
   (closed under instantiation; ground atoms t with holds P (GCall t) form the
   least Herbrand model) *)
Inductive holds (P : program) : goal -> Prop :=
| H_true : holds P GTrue
| H_and : forall a b, holds P a -> holds P b -> holds P (GAnd a b)
| H_orl : forall a b, holds P a -> holds P (GOr a b)
| H_orr : forall a b, holds P b -> holds P (GOr a b)
| H_eq : forall t, holds P (GEq t t)
| H_call : forall c th, In c P -> holds P (ginst th (snd c)) -> holds P (GCall (inst th (fst c))).

Lemma ginst_ext : forall g th th', (forall v, th v = th' v) -> ginst th g = ginst th' g.
Proof.
  induction g; intros th th' H; simpl; auto;
    try (rewrite (IHg1 th th' H), (IHg2 th th' H); auto);
    try (rewrite (IHg th th' H)); repeat rewrite (inst_ext _ th th' H); auto.
Qed.

Lemma ginst_comp : forall g th rho, ginst th (ginst rho g) = ginst (fun v => inst th (rho v)) g.
Proof.
  induction g; intros; simpl; auto;
    try (rewrite IHg1, IHg2; auto); try rewrite IHg; repeat rewrite inst_comp; auto.
Qed.

Lemma definite_ginst : forall g th, definite (ginst th g) = definite g.
Proof. induction g; intros; simpl; auto. rewrite IHg1, IHg2; auto. rewrite IHg1, IHg2; auto. Qed.

Lemma apply_app_list : forall s1 s2 t, apply (s1 ++ s2) t = apply s2 (apply s1 t).
Proof. induction s1 as [|[x u] s1 IH]; intros; simpl; auto. Qed.

Lemma gapply_app : forall s1 s2 g, gapply (s1 ++ s2) g = gapply s2 (gapply s1 g).
Proof.
  intros. unfold gapply. rewrite ginst_comp. apply ginst_ext. intros v.
  unfold as_fun at 1. rewrite apply_app_list. rewrite apply_inst. reflexivity.
Qed.

Lemma obind_in : forall (A B : Type) (l : list A) (f : A -> outcome B) r x,
  obind l f = Ans r -> In x r -> exists a r', In a l /\ f a = Ans r' /\ In x r'.
Proof.
  induction l as [|a l IH]; intros f r x H Hx; simpl in H.
  - inversion H; subst. destruct Hx.
  - destruct (f a) as [ra| |] eqn:E; try discriminate.
    destruct (obind l f) as [rl| |] eqn:E2; try discriminate.
    inversion H; subst. apply in_app_or in Hx. destruct Hx as [Hx|Hx].
    + exists a, ra. simpl. auto.
    + destruct (IH f rl x E2 Hx) as [a' [r' [H1 [H2 H3]]]]. exists a', r'. simpl. auto.
Qed.

(* th o s2 o sg as one parallel substitution *)
Definition chain (th : N -> term) (s2 sg : subst) : N -> term :=
  fun v => inst th (apply s2 (apply sg (TVar v))).

Lemma chain_inst : forall th s2 sg t, inst th (apply s2 (apply sg t)) = inst (chain th s2 sg) t.
Proof.
  intros. rewrite (apply_inst s2), (apply_inst sg), !inst_comp. apply inst_ext. intros v.
  unfold chain. rewrite (apply_inst s2), (apply_inst sg). simpl. rewrite inst_comp. reflexivity.
Qed.

Lemma chain_ginst : forall th s2 sg g, ginst th (gapply s2 (gapply sg g)) = ginst (chain th s2 sg) g.
Proof.
  intros. unfold gapply. rewrite !ginst_comp. apply ginst_ext. intros v.
  unfold chain. rewrite (apply_inst s2), (apply_inst sg). simpl. rewrite inst_comp. reflexivity.
Qed.

Theorem solve_sound : forall P, definite_program P ->
  forall n g nv l, definite g = true -> solve n P g nv = Ans l ->
  forall r, In r l -> forall th, holds P (ginst th (gapply (fst r) g)).
Proof.
  intros P HP. induction n as [|n IH]; intros g nv l Hd Hs r Hr th; [discriminate|].
  destruct g; simpl in Hd; try discriminate; simpl in Hs.
  - (* true *) inversion Hs; subst. constructor.
  - (* fail *) inversion Hs; subst. destruct Hr.
  - (* call *)
    destruct (obind_in _ _ _ _ _ _ Hs Hr) as [c [r' [Hc [Hf Hr']]]].
    destruct (mgu t (inst (shift nv) (fst c))) as [sg|] eqn:Em; [|inversion Hf; subst; destruct Hr'].
    destruct (solve n P (gapply sg (ginst (shift nv) (snd c))) (nv + clause_width c)) as [l2| |] eqn:E2; try discriminate.
    inversion Hf; subst. apply in_map_iff in Hr'. destruct Hr' as [r2 [<- Hr2]]. simpl fst.
    assert (Hdb : definite (gapply sg (ginst (shift nv) (snd c))) = true).
    { unfold gapply. rewrite !definite_ginst. apply HP. auto. }
    pose proof (IH _ _ _ Hdb E2 r2 Hr2 th) as Hb.
    unfold gapply at 1. simpl. rewrite <- apply_inst. rewrite apply_app_list.
    rewrite (mgu_sound _ _ _ Em).
    rewrite chain_inst. rewrite inst_comp.
    rewrite chain_ginst in Hb. rewrite ginst_comp in Hb.
    apply (H_call P c _ Hc Hb).
  - (* and *)
    apply andb_true_iff in Hd. destruct Hd as [Hd1 Hd2].
    destruct (solve n P g1 nv) as [l1| |] eqn:E1; try discriminate.
    destruct (obind_in _ _ _ _ _ _ Hs Hr) as [r1 [r' [Hr1 [Hf Hr']]]].
    destruct (solve n P (gapply (fst r1) g2) (snd r1)) as [l2| |] eqn:E2; try discriminate.
    inversion Hf; subst. apply in_map_iff in Hr'. destruct Hr' as [r2 [<- Hr2]]. simpl fst.
    rewrite gapply_app. unfold gapply at 2. simpl. fold (gapply (fst r1) g1). fold (gapply (fst r1) g2).
    unfold gapply at 1. simpl. constructor.
    + rewrite ginst_comp. apply (IH _ _ _ Hd1 E1 r1 Hr1).
    + fold (gapply (fst r2) (gapply (fst r1) g2)).
      assert (Hdb : definite (gapply (fst r1) g2) = true) by (unfold gapply; rewrite definite_ginst; auto).
      apply (IH _ _ _ Hdb E2 r2 Hr2 th).
  - (* or *)
    apply andb_true_iff in Hd. destruct Hd as [Hd1 Hd2].
    destruct (solve n P g1 nv) as [l1| |] eqn:E1; try discriminate.
    destruct (solve n P g2 nv) as [l2| |] eqn:E2; try discriminate.
    inversion Hs; subst. unfold gapply. simpl. apply in_app_or in Hr. destruct Hr as [Hr|Hr].
    + apply H_orl. apply (IH _ _ _ Hd1 E1 r Hr th).
    + apply H_orr. apply (IH _ _ _ Hd2 E2 r Hr th).
  - (* = *)
    destruct (mgu s t) as [sg|] eqn:Em; inversion Hs; subst; [|destruct Hr].
    destruct Hr as [<-|[]]. unfold gapply. simpl. rewrite <- !apply_inst.
    rewrite (mgu_sound _ _ _ Em). constructor.
Qed.

Theorem answers_sound : forall P q n l, definite_program P ->
  answers n P q = Ans l -> forall a, In a l -> forall th, holds P (GCall (inst th a)).
Proof.
  intros P q n l HP H a Ha th. unfold answers in H.
  destruct (solve n P (GCall q) (N.succ (fold_right N.max 0%N (tvars q)))) as [l'| |] eqn:E; try discriminate.
  inversion H; subst. apply in_map_iff in Ha. destruct Ha as [r [<- Hr]].
  pose proof (solve_sound P HP n (GCall q) _ l' eq_refl E r Hr th) as S.
  unfold gapply in S. simpl in S. rewrite apply_inst. exact S.
Qed.

Lemma findall_unfold : forall n P pat g res nv l,
  solve n P g nv = Ans l ->
  solve (S n) P (GFindall pat g res) nv =
  match mgu res (mklist (map (fun r : answer => apply (fst r) pat) l)) with
  | Some sg => Ans [(sg, fold_right N.max nv (map (fun r : answer => snd r) l))]
  | None => Ans []
  end.
Proof. intros. simpl. rewrite H. reflexivity. Qed.

Lemma ground_unify_equal : forall th1 th2 a h,
  tvars a = [] -> tvars h = [] -> inst th1 a = inst th2 h -> a = h.
Proof.
  intros th1 th2 a h Ha Hh E.
  rewrite (inst_id_on a th1) in E by (rewrite Ha; intros ? []).
  rewrite (inst_id_on h th2) in E by (rewrite Hh; intros ? []). exact E.
Qed.
