(* C13 — the tabled evaluation of GROUND DEFINITE programs: definitions only
   (no proofs in this file; the proofs are in ProofsTabledLfp.v and
   ProofsTabledSLD.v).

   Subject: the abstract tabling / worklist machine of PL.C03.ModelTabling
   (state = goals, edges, completed, opened, worklist).  That machine records
   which goals were called and which clause instances were answered (the edges
   of the ground and-or graph); it does not store truth values.  The ANSWER of
   the tabled evaluation for an atom is therefore defined, as in C03, as the
   value of the atom in the discovered graph: here, for definite programs, the
   Kleene iteration [gamma] of C03 over the discovered goals, with no
   probabilistic facts switched on (facts are clauses with an empty body).

   Also: the bridge between the two program representations — C03's ground
   clauses over numbered atoms and C13's first-order clauses (term * goal). *)
From Coq Require Import List Arith Bool NArith ZArith.
From PL.C03 Require Import ModelTabling.
From PL.C14 Require Import ModelUnify.
From PL.C13 Require Import ModelSLD.
Import ListNotations.

(* ---------------- ground definite programs (C03 representation) *)
Definition is_pos (l : lit) : bool := match l with Pos _ => true | Neg _ => false end.

Definition gdefinite (P : ModelTabling.program) : bool :=
  forallb (fun c => forallb is_pos (body c)) P.

(* the least Herbrand model of a ground definite program: an atom is in it iff
   it is the head of a clause all of whose body atoms are in it (inductively).
   The constructor only looks at positive literals; every theorem about [lm] is
   stated under [gdefinite], where there are no other literals. *)
Inductive lm (E : list ModelTabling.clause) : atom -> Prop :=
| lm_cl : forall c, In c E -> (forall b, In (Pos b) (body c) -> lm E b) -> lm E (head c).

(* ---------------- the answer of the tabled evaluation *)
Definition no_facts : interp := fun _ => false.

(* Kleene iteration of the immediate-consequence operator of the clause list E,
   tabulated over the universe U, |U|+1 rounds (C03's [gamma]) *)
Definition lfp_true (U : list atom) (E : list ModelTabling.clause) : interp :=
  gamma U (S (length U)) E no_facts no_facts.

(* the value of atom a in the graph discovered by the machine *)
Definition tabled_true (st : state) (a : atom) : bool := lfp_true (goals st) (edges st) a.

(* run the machine under schedule s on queries Q, then read off a *)
Definition tabled_answer (P : ModelTabling.program) (Q : list atom) (s : schedule) (a : atom) : bool :=
  tabled_true (run P s (init Q)) a.

(* ---------------- bridge: a ground definite C03 program as a C13 program.
   [nm] names the atoms: nm a is the ground first-order atom with number a.
   A clause  h :- b1, ..., bk  becomes (nm h, GAnd (GCall (nm b1)) (... (GAnd (GCall (nm bk)) GTrue))). *)
Fixpoint gconj (gs : list goal) : goal :=
  match gs with [] => GTrue | g :: r => GAnd g (gconj r) end.

Definition embed_body (nm : atom -> term) (ls : list lit) : goal :=
  gconj (map (fun l => GCall (nm (lit_atom l))) ls).

Definition embed_clause (nm : atom -> term) (c : ModelTabling.clause) : ModelSLD.clause :=
  (nm (head c), embed_body nm (body c)).

Definition embed (nm : atom -> term) (P : ModelTabling.program) : ModelSLD.program :=
  map (embed_clause nm) P.

(* the verdict of the SLD interpreter on a ground query: Some true = at least
   one answer, Some false = finite failure, None = did not finish (fuel) or floundered *)
Definition sld_verdict (n : nat) (P : ModelSLD.program) (q : term) : option bool :=
  match answers n P q with
  | Ans [] => Some false
  | Ans (_ :: _) => Some true
  | OutOfFuel => None
  | Floundered => None
  end.

(* ---------------- example: transitive closure over the nodes {0,1,2}.
   Atom numbers: tc(i,j) = 3i+j, ed(i,j) = 9+3i+j; nm_tc names atom number n as
   the first-order atom  f_{n/9}(i,j)  with i = (n mod 9)/3, j = n mod 3
   (f_0 = tc, f_1 = ed; injective on all of nat). *)
Definition node (i : nat) : term := TApp (SInt (Z.of_nat i)) [].
Definition nm_tc (n : nat) : term :=
  TApp (SAtom (N.of_nat (40 + n / 9))) [node ((n mod 9) / 3); node (n mod 3)].
Definition tc (i j : nat) : atom := 3 * i + j.
Definition ed (i j : nat) : atom := 9 + 3 * i + j.
Definition nodes : list nat := [0; 1; 2].

(* all ground instances of a two-clause schema over the nodes *)
Definition ground_rules (rec_body : nat -> nat -> nat -> list lit) : ModelTabling.program :=
  flat_map (fun x => flat_map (fun y =>
     map (fun z => mkClause (tc x y) (rec_body x y z)) nodes ++ [mkClause (tc x y) [Pos (ed x y)]]) nodes) nodes.

(* tc(X,Y) :- tc(X,Z), ed(Z,Y).   tc(X,Y) :- ed(X,Y).      (left recursive) *)
Definition tc_left_rules : ModelTabling.program :=
  ground_rules (fun x y z => [Pos (tc x z); Pos (ed z y)]).
(* tc(X,Y) :- ed(X,Z), tc(Z,Y).   tc(X,Y) :- ed(X,Y).      (right recursive) *)
Definition tc_right_rules : ModelTabling.program :=
  ground_rules (fun x y z => [Pos (ed x z); Pos (tc z y)]).

Definition facts (l : list atom) : ModelTabling.program := map (fun a => mkClause a []) l.

(* chain 0 -> 1 -> 2 and the cycle 0 -> 1 -> 2 -> 0 *)
Definition chain_edges : list atom := [ed 0 1; ed 1 2].
Definition cycle_edges : list atom := [ed 0 1; ed 1 2; ed 2 0].

Definition tc_left_chain : ModelTabling.program := tc_left_rules ++ facts chain_edges.
Definition tc_left_cycle : ModelTabling.program := tc_left_rules ++ facts cycle_edges.
Definition tc_right_chain : ModelTabling.program := tc_right_rules ++ facts chain_edges.
Definition tc_right_cycle : ModelTabling.program := tc_right_rules ++ facts cycle_edges.

(* a LIFO schedule and an arbitrary other one, both longer than the bound *)
Definition lifo (n : nat) : schedule := repeat 0 n.
Fixpoint scrambled (n seed : nat) : schedule :=
  match n with 0 => [] | S n' => seed :: scrambled n' ((seed * 5 + n') mod 13) end.
