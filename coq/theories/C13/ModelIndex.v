(* C13 — hand model of problog.clausedb.ClauseIndex (append / find) with the
   OrderedSet operations exactly as collections.abc.MutableSet/Set define them:
     a |= b      adds the elements of b to a, in b's order, IN PLACE (returns a)
     a & b       new set from (x for x in b if x in a): b's order
   Executable definitions only.

   key = None  : the clause's argument at that position is not ground
   key = Some k: it is the ground term interned as k
   A call argument is None when it is not ground (no restriction). *)
From Coq Require Import NArith List Bool Arith Sorting.Mergesort.
Import ListNotations.

Definition key := option N.
Definition key_eqb (a b : key) : bool :=
  match a, b with
  | None, None => true
  | Some x, Some y => N.eqb x y
  | _, _ => false
  end.

Definition oset := list nat.      (* insertion ordered, duplicate free *)
Definition mem (x : nat) (s : oset) : bool := existsb (Nat.eqb x) s.
Definition oset_add (s : oset) (x : nat) : oset := if mem x s then s else s ++ [x].
Definition oset_ior (a b : oset) : oset := fold_left oset_add b a.        (* a |= b *)
Definition oset_and (a b : oset) : oset := filter (fun x => mem x a) b.   (* a & b *)

Definition index := nat -> key -> option oset.   (* position -> key -> bucket (absent = None) *)
Definition bucket (ix : index) (i : nat) (k : key) : oset :=
  match ix i k with Some b => b | None => [] end.
Definition upd (ix : index) (i : nat) (k : key) (b : oset) : index :=
  fun i' k' => if Nat.eqb i' i && key_eqb k' k then Some b else ix i' k'.

Record state : Type := mk_state { items : list nat; idx : index }.
Definition empty : state := mk_state [] (fun _ _ => None).

(* ClauseIndex.append: list.append + index[i][key_i].add(item) for every position *)
Definition append (keys : list key) (item : nat) (st : state) : state :=
  mk_state (items st ++ [item])
    (fun i k =>
       match nth_error keys i with
       | Some ki => if key_eqb ki k then Some (oset_add (bucket (idx st) i k) item) else idx st i k
       | None => idx st i k
       end).

Definition is_empty (s : oset) : bool := match s with [] => true | _ => false end.

(* ClauseIndex.find AS IT IS at the pinned commit: `curr |= none` mutates the
   stored bucket and puts the ground-key clauses first.  Returns the result
   and the index after the call. *)
Fixpoint find_code_loop (i : nat) (args : list key) (res : option oset) (ix : index)
  : option oset * index :=
  match args with
  | [] => (res, ix)
  | None :: args' => find_code_loop (S i) args' res ix
  | Some k :: args' =>
      let none := bucket ix i None in
      let '(curr, ix') :=
        match ix i (Some k) with
        | None => (none, ix)
        | Some c => let c' := oset_ior c none in (c', upd ix i (Some k) c')
        end in
      let res' := match res with None => curr | Some r => oset_and r curr end in
      if is_empty res' then (Some [], ix') else find_code_loop (S i) args' (Some res') ix'
  end.

Definition find_code (args : list key) (st : state) : oset * state :=
  let '(r, ix') := find_code_loop 0 args None (idx st) in
  (match r with None => items st | Some s => s end, mk_state (items st) ix').

(* the repaired find: union of the two buckets by merging (both are in clause
   order, i.e. increasing clause id), nothing is stored *)
Definition merge := NatSort.merge.

Fixpoint find_fixed_loop (i : nat) (args : list key) (res : option oset) (ix : index) : option oset :=
  match args with
  | [] => res
  | None :: args' => find_fixed_loop (S i) args' res ix
  | Some k :: args' =>
      let none := bucket ix i None in
      let curr := match ix i (Some k) with None => none | Some c => merge c none end in
      let res' := match res with None => curr | Some r => oset_and r curr end in
      if is_empty res' then Some [] else find_fixed_loop (S i) args' (Some res') ix
  end.

Definition find_fixed (args : list key) (st : state) : oset :=
  match find_fixed_loop 0 args None (idx st) with None => items st | Some s => s end.

(* building a predicate's index from its clauses' keys, clause ids = first, first+1, ... *)
Fixpoint load (first : nat) (clauses : list (list key)) (st : state) : state :=
  match clauses with
  | [] => st
  | ks :: rest => load (S first) rest (append ks first st)
  end.

(* a clause with these keys may match a call with these (ground-or-None) arguments *)
Fixpoint compatible (keys args : list key) : bool :=
  match keys, args with
  | _, [] => true
  | [], _ => true
  | k :: keys', a :: args' =>
      (match a, k with
       | None, _ => true
       | Some _, None => true
       | Some x, Some y => N.eqb x y
       end) && compatible keys' args'
  end.
