(* Refutation witnesses for problog.clausedb.ClauseIndex.find AS IT IS at the
   pinned commit (model find_code); outside the cone of Props.v. *)
From Coq Require Import NArith List Bool Arith Sorting.Sorted.
From PL.C13 Require Import ModelIndex ProofsIndex.
Import ListNotations.

(* p(X,1). p(a,2). p(Y,4).  called as p(a,_): the code returns clause 1 first *)
Definition st_w := load 0 [[None; Some 1%N]; [Some 0%N; Some 2%N]; [None; Some 4%N]] empty.

Theorem C13_index_order_code_refuted :
  exists st n args, SortedInv st n /\ ~ StronglySorted le (fst (find_code args st)).
Proof.
  exists st_w, 3, [Some 0%N; None]. split.
  - apply (SortedInv_load [[None; Some 1%N]; [Some 0%N; Some 2%N]; [None; Some 4%N]] 0 empty SortedInv_empty).
  - vm_compute. intros H. inversion H as [|? ? ? Hf]; subst. inversion Hf as [|? ? Hle]; subst. inversion Hle.
Qed.

(* ... and find changes the index: a second, different, lookup sees the mutated bucket *)
Theorem C13_index_find_mutates_code_refuted :
  exists st args, bucket (idx (snd (find_code args st))) 0 (Some 0%N) <> bucket (idx st) 0 (Some 0%N).
Proof. exists st_w, [Some 0%N; None]. vm_compute. discriminate. Qed.
