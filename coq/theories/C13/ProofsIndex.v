(* C13 — proofs about the ClauseIndex model. *)
From Coq Require Import NArith List Bool Arith Lia Sorting.Sorted Sorting.Mergesort Sorting.Permutation RelationClasses.
From PL.C13 Require Import ModelIndex.
Import ListNotations.

Lemma mem_In : forall x s, mem x s = true <-> In x s.
Proof.
  intros. unfold mem. rewrite existsb_exists. split.
  - intros [y [H E]]. apply Nat.eqb_eq in E. subst. auto.
  - intros H. exists x. split; auto. apply Nat.eqb_refl.
Qed.

Lemma In_oset_add : forall s y x, In x (oset_add s y) <-> In x s \/ x = y.
Proof.
  intros. unfold oset_add. destruct (mem y s) eqn:E.
  - apply mem_In in E. split; auto. intros [H| ->]; auto.
  - rewrite in_app_iff. simpl. intuition.
Qed.

Lemma In_oset_ior : forall b a x, In x (oset_ior a b) <-> In x a \/ In x b.
Proof.
  unfold oset_ior. induction b as [|y b IH]; intros a x; simpl.
  - intuition.
  - rewrite IH, In_oset_add. intuition.
Qed.

Lemma In_oset_and : forall a b x, In x (oset_and a b) <-> In x a /\ In x b.
Proof. intros. unfold oset_and. rewrite filter_In, mem_In. tauto. Qed.

Lemma In_merge : forall a b x, In x (merge a b) <-> In x a \/ In x b.
Proof.
  intros. unfold merge. pose proof (NatSort.Permuted_merge a b) as P. split.
  - intros H. apply Permutation_sym in P. apply (Permutation_in _ P) in H. apply in_app_or; auto.
  - intros H. apply (Permutation_in _ P). apply in_or_app; auto.
Qed.

Lemma key_eqb_eq : forall a b, key_eqb a b = true <-> a = b.
Proof.
  intros [x|] [y|]; simpl; split; intros H; try discriminate; auto.
  - apply N.eqb_eq in H. congruence.
  - inversion H. apply N.eqb_refl.
Qed.

Lemma bucket_upd_same : forall ix i k b, bucket (upd ix i k b) i k = b.
Proof.
  intros. unfold bucket, upd. rewrite Nat.eqb_refl.
  assert (key_eqb k k = true) by (apply key_eqb_eq; auto). rewrite H. auto.
Qed.

Lemma bucket_upd_other : forall ix i k b i' k', (i', k') <> (i, k) -> bucket (upd ix i k b) i' k' = bucket ix i' k'.
Proof.
  intros. unfold bucket, upd. destruct (Nat.eqb_spec i' i); simpl; auto.
  destruct (key_eqb k' k) eqn:E; auto. apply key_eqb_eq in E. subst. congruence.
Qed.

(* ------------------------------------------------------------------ *)
(* what the index knows about the loaded clauses *)
Definition entries := list (nat * list key).

Definition Has (ix : index) (es : entries) : Prop :=
  forall item ks i k, In (item, ks) es -> nth_error ks i = Some k -> In item (bucket ix i k).

Definition Inv (st : state) (es : entries) : Prop :=
  (forall item ks, In (item, ks) es -> In item (items st)) /\ Has (idx st) es.

Lemma Inv_empty : Inv empty [].
Proof. split; [intros ? ? []| intros ? ? ? ? []]. Qed.

Lemma Inv_append : forall st es ks item, Inv st es -> Inv (append ks item st) (es ++ [(item, ks)]).
Proof.
  intros st es ks item [H1 H2]. split.
  - intros it ks' H. simpl. apply in_app_or in H. apply in_or_app. destruct H as [H|[H|[]]].
    + left. eauto.
    + inversion H; subst. right. simpl. auto.
  - intros it ks' i k H Hn. unfold bucket. simpl.
    apply in_app_or in H. destruct H as [H|[H|[]]].
    + specialize (H2 it ks' i k H Hn). destruct (nth_error ks i) as [ki|]; auto.
      destruct (key_eqb ki k); auto. apply In_oset_add. auto.
    + inversion H; subst. rewrite Hn.
      assert (E : key_eqb k k = true) by (apply key_eqb_eq; auto). rewrite E.
      apply In_oset_add. auto.
Qed.

Fixpoint entries_from (first : nat) (clauses : list (list key)) : entries :=
  match clauses with [] => [] | ks :: rest => (first, ks) :: entries_from (S first) rest end.

Lemma Inv_load : forall clauses first st es, Inv st es -> Inv (load first clauses st) (es ++ entries_from first clauses).
Proof.
  induction clauses as [|ks rest IH]; intros first st es H; simpl.
  - rewrite app_nil_r. auto.
  - specialize (IH (S first) _ _ (Inv_append st es ks first H)).
    rewrite <- app_assoc in IH. exact IH.
Qed.

(* ------------------------------------------------------------------ *)
(* completeness of find: a compatible clause is never filtered out *)
Definition keeps (r : option oset) (item : nat) : Prop :=
  match r with None => True | Some s => In item s end.

Lemma compatible_cons : forall k ksuf a args,
  compatible (k :: ksuf) (a :: args) = true ->
  compatible ksuf args = true /\
  (forall x, a = Some x -> k = None \/ k = Some x).
Proof.
  intros k ksuf a args H. simpl in H. apply andb_true_iff in H. destruct H as [H1 H2].
  split; auto. intros x ->. destruct k as [y|]; auto. apply N.eqb_eq in H1. subst. auto.
Qed.

Lemma find_code_loop_complete : forall es item ks, In (item, ks) es ->
  forall args ksuf i res ix,
  (forall j, nth_error ksuf j = nth_error ks (i + j)) ->
  length args <= length ksuf ->
  compatible ksuf args = true ->
  Has ix es -> keeps res item ->
  Has (snd (find_code_loop i args res ix)) es /\ keeps (fst (find_code_loop i args res ix)) item.
Proof.
  intros es item ks Hin. induction args as [|a args IH]; intros ksuf i res ix Hk Hl Hc HH Hr; simpl.
  - auto.
  - destruct ksuf as [|k ksuf]; [simpl in Hl; lia|].
    apply compatible_cons in Hc. destruct Hc as [Hc Hk0].
    assert (Hk' : forall j, nth_error ksuf j = nth_error ks (S i + j)).
    { intros j. specialize (Hk (S j)). simpl in Hk. rewrite Hk. f_equal. lia. }
    assert (Hki : nth_error ks i = Some k).
    { specialize (Hk 0). simpl in Hk. rewrite Nat.add_0_r in Hk. auto. }
    simpl in Hl.
    destruct a as [x|].
    + destruct (Hk0 x eq_refl) as [-> | ->].
      * (* clause argument not ground: the clause sits in the None bucket *)
        pose proof (HH item ks i None Hin Hki) as Hb.
        destruct (ix i (Some x)) as [c|] eqn:E.
        -- set (c' := oset_ior c (bucket ix i None)).
           assert (Hc' : In item c') by (apply In_oset_ior; auto).
           assert (HH' : Has (upd ix i (Some x) c') es).
           { intros it ks' i' k' H1 H2. destruct (Nat.eq_dec i' i) as [-> |Ne].
             - destruct k' as [y|].
               + destruct (N.eq_dec y x) as [-> |Ne'].
                 * rewrite bucket_upd_same. apply In_oset_ior. left.
                   specialize (HH it ks' i (Some x) H1 H2). unfold bucket in HH. rewrite E in HH. auto.
                 * rewrite bucket_upd_other; [eauto|congruence].
               + rewrite bucket_upd_other; [eauto|congruence].
             - rewrite bucket_upd_other; [eauto|congruence]. }
           destruct res as [r|]; simpl in Hr.
           ++ assert (Hi : In item (oset_and r c')) by (apply In_oset_and; auto).
              destruct (oset_and r c') eqn:Eo; [destruct Hi|]. simpl. rewrite <- Eo in *.
              apply (IH ksuf (S i)); auto; try lia.
           ++ destruct c' eqn:Eo; [destruct Hc'|]. simpl. rewrite <- Eo in *.
              apply (IH ksuf (S i)); auto; try lia.
        -- destruct res as [r|]; simpl in Hr.
           ++ assert (Hi : In item (oset_and r (bucket ix i None))) by (apply In_oset_and; auto).
              destruct (oset_and r (bucket ix i None)) eqn:Eo; [destruct Hi|]. simpl. rewrite <- Eo in *.
              apply (IH ksuf (S i)); auto; try lia.
           ++ destruct (bucket ix i None) eqn:Eo; [destruct Hb|]. simpl. rewrite <- Eo in *.
              apply (IH ksuf (S i)); auto; try lia.
      * (* same ground key *)
        pose proof (HH item ks i (Some x) Hin Hki) as Hb.
        destruct (ix i (Some x)) as [c|] eqn:E; [|unfold bucket in Hb; rewrite E in Hb; destruct Hb].
        assert (Hcb : In item c) by (unfold bucket in Hb; rewrite E in Hb; auto).
        set (c' := oset_ior c (bucket ix i None)).
        assert (Hc' : In item c') by (apply In_oset_ior; auto).
        assert (HH' : Has (upd ix i (Some x) c') es).
        { intros it ks' i' k' H1 H2. destruct (Nat.eq_dec i' i) as [-> |Ne].
          - destruct k' as [y|].
            + destruct (N.eq_dec y x) as [-> |Ne'].
              * rewrite bucket_upd_same. apply In_oset_ior. left.
                specialize (HH it ks' i (Some x) H1 H2). unfold bucket in HH. rewrite E in HH. auto.
              * rewrite bucket_upd_other; [eauto|congruence].
            + rewrite bucket_upd_other; [eauto|congruence].
          - rewrite bucket_upd_other; [eauto|congruence]. }
        destruct res as [r|]; simpl in Hr.
        -- assert (Hi : In item (oset_and r c')) by (apply In_oset_and; auto).
           destruct (oset_and r c') eqn:Eo; [destruct Hi|]. simpl. rewrite <- Eo in *.
           apply (IH ksuf (S i)); auto; try lia.
        -- destruct c' eqn:Eo; [destruct Hc'|]. simpl. rewrite <- Eo in *.
           apply (IH ksuf (S i)); auto; try lia.
    + apply (IH ksuf (S i)); auto; lia.
Qed.

Theorem find_code_complete : forall st es item ks args,
  Inv st es -> In (item, ks) es -> length args <= length ks -> compatible ks args = true ->
  In item (fst (find_code args st)) /\ Inv (snd (find_code args st)) es.
Proof.
  intros st es item ks args [H1 H2] Hin Hl Hc. unfold find_code.
  pose proof (find_code_loop_complete es item ks Hin args ks 0 None (idx st) (fun j => eq_refl) Hl Hc H2 I) as [A B].
  destruct (find_code_loop 0 args None (idx st)) as [r ix'] eqn:E. simpl in *.
  split.
  - destruct r as [s|]; simpl in B; eauto.
  - split; simpl; auto.
Qed.

Lemma find_fixed_loop_complete : forall es item ks, In (item, ks) es ->
  forall ix, Has ix es ->
  forall args ksuf i res,
  (forall j, nth_error ksuf j = nth_error ks (i + j)) ->
  length args <= length ksuf ->
  compatible ksuf args = true ->
  keeps res item ->
  keeps (find_fixed_loop i args res ix) item.
Proof.
  intros es item ks Hin ix HH. induction args as [|a args IH]; intros ksuf i res Hk Hl Hc Hr; simpl; auto.
  destruct ksuf as [|k ksuf]; [simpl in Hl; lia|].
  apply compatible_cons in Hc. destruct Hc as [Hc Hk0].
  assert (Hk' : forall j, nth_error ksuf j = nth_error ks (S i + j)).
  { intros j. specialize (Hk (S j)). simpl in Hk. rewrite Hk. f_equal. lia. }
  assert (Hki : nth_error ks i = Some k).
  { specialize (Hk 0). simpl in Hk. rewrite Nat.add_0_r in Hk. auto. }
  simpl in Hl.
  destruct a as [x|]; [|apply (IH ksuf (S i)); auto; lia].
  set (curr := match ix i (Some x) with Some c => merge c (bucket ix i None) | None => bucket ix i None end).
  assert (Hcur : In item curr).
  { unfold curr. destruct (Hk0 x eq_refl) as [-> | ->].
    - pose proof (HH item ks i None Hin Hki). destruct (ix i (Some x)); auto. apply In_merge. auto.
    - pose proof (HH item ks i (Some x) Hin Hki) as Hb. unfold bucket in Hb at 1.
      destruct (ix i (Some x)); [apply In_merge; auto|destruct Hb]. }
  destruct res as [r|]; simpl in Hr.
  - assert (Hi : In item (oset_and r curr)) by (apply In_oset_and; auto).
    destruct (oset_and r curr) eqn:Eo; [destruct Hi|]. simpl. rewrite <- Eo in *.
    apply (IH ksuf (S i)); auto; lia.
  - destruct curr eqn:Eo; [destruct Hcur|]. simpl. rewrite <- Eo in *.
    apply (IH ksuf (S i)); auto; lia.
Qed.

Theorem find_fixed_complete : forall st es item ks args,
  Inv st es -> In (item, ks) es -> length args <= length ks -> compatible ks args = true ->
  In item (find_fixed args st).
Proof.
  intros st es item ks args [H1 H2] Hin Hl Hc. unfold find_fixed.
  pose proof (find_fixed_loop_complete es item ks Hin (idx st) H2 args ks 0 None (fun j => eq_refl) Hl Hc I) as B.
  destruct (find_fixed_loop 0 args None (idx st)); simpl in B; eauto.
Qed.

(* ------------------------------------------------------------------ *)
(* order: with clause ids increasing in program order, the repaired find
   returns its clauses in program order *)
Definition inc (l : list nat) : Prop := StronglySorted le l.

Lemma leb_le : forall x y, is_true (NatOrder.leb x y) <-> x <= y.
Proof.
  induction x as [|x IH]; destruct y as [|y]; simpl; unfold is_true in *; split; intros H; auto; try lia; try discriminate.
  - apply IH in H. lia.
  - apply IH. lia.
Qed.

Lemma inc_merge : forall a b, inc a -> inc b -> inc (merge a b).
Proof.
  intros a b Ha Hb. unfold inc in *.
  assert (T : forall l, StronglySorted le l -> LocallySorted (fun x y => is_true (NatOrder.leb x y)) l).
  { intros l H. apply StronglySorted_Sorted in H. apply Sorted_LocallySorted_iff.
    induction H as [|x l Hs IH Hd]; constructor; auto.
    destruct Hd; constructor. apply leb_le. auto. }
  pose proof (NatSort.Sorted_merge a b (T a Ha) (T b Hb)) as S.
  apply Sorted_LocallySorted_iff in S.
  apply Sorted_StronglySorted.
  - intros x y z; lia.
  - unfold merge. induction S as [|x l Hs IH Hd]; constructor; auto.
    destruct Hd; constructor. apply leb_le. auto.
Qed.

Lemma inc_filter : forall f l, inc l -> inc (filter f l).
Proof.
  intros f l H. unfold inc in *. induction H as [|x l Hs IH Hf]; simpl; [constructor|].
  destruct (f x); auto. constructor; auto.
  rewrite Forall_forall in *. intros y Hy. apply filter_In in Hy. apply Hf. tauto.
Qed.

Definition SortedInv (st : state) (n : nat) : Prop :=
  inc (items st) /\ (forall x, In x (items st) -> x < n) /\
  (forall i k, inc (bucket (idx st) i k) /\ forall x, In x (bucket (idx st) i k) -> x < n).

Lemma inc_snoc : forall l n, inc l -> (forall x, In x l -> x < n) -> inc (l ++ [n]).
Proof.
  intros l n H Hb. unfold inc in *. induction H as [|x l Hs IH Hf]; simpl.
  - constructor; constructor.
  - constructor.
    + apply IH. intros y Hy. apply Hb. simpl. auto.
    + rewrite Forall_forall in *. intros y Hy. apply in_app_or in Hy. destruct Hy as [Hy|[<-|[]]]; auto.
      assert (x < n) by (apply Hb; simpl; auto). lia.
Qed.

Lemma SortedInv_empty : SortedInv empty 0.
Proof.
  split; [constructor|]. split; [intros ? []|]. intros i k. split; [constructor|intros ? []].
Qed.

Lemma bucket_append : forall ks n st i k,
  bucket (idx (append ks n st)) i k =
  match nth_error ks i with
  | Some ki => if key_eqb ki k then oset_add (bucket (idx st) i k) n else bucket (idx st) i k
  | None => bucket (idx st) i k
  end.
Proof.
  intros. unfold bucket at 1. simpl. destruct (nth_error ks i) as [ki|]; [destruct (key_eqb ki k)|]; reflexivity.
Qed.

Lemma SortedInv_append : forall st n ks, SortedInv st n -> SortedInv (append ks n st) (S n).
Proof.
  intros st n ks [H1 [H2 H3]]. split; [|split].
  - simpl. apply inc_snoc; auto.
  - simpl. intros x Hx. apply in_app_or in Hx. destruct Hx as [Hx|[<-|[]]]; auto.
    specialize (H2 x Hx). lia.
  - intros i k. destruct (H3 i k) as [A B]. rewrite bucket_append.
    destruct (nth_error ks i) as [ki|]; [destruct (key_eqb ki k)|].
    + unfold oset_add. destruct (mem n (bucket (idx st) i k)).
      * split; auto. intros x Hx. specialize (B x Hx). lia.
      * split; [apply inc_snoc; auto|].
        intros x Hx. apply in_app_or in Hx. destruct Hx as [Hx|[<-|[]]]; auto. specialize (B x Hx). lia.
    + split; auto. intros x Hx. specialize (B x Hx). lia.
    + split; auto. intros x Hx. specialize (B x Hx). lia.
Qed.

Lemma SortedInv_load : forall clauses first st, SortedInv st first ->
  SortedInv (load first clauses st) (first + length clauses).
Proof.
  induction clauses as [|ks rest IH]; intros first st H; simpl.
  - rewrite Nat.add_0_r. auto.
  - replace (first + S (length rest)) with (S first + length rest) by lia.
    apply IH. apply SortedInv_append. auto.
Qed.

Lemma find_fixed_loop_sorted : forall ix, (forall i k, inc (bucket ix i k)) ->
  forall args i (res : option oset), (match res with Some r => inc r | None => True end) ->
  match find_fixed_loop i args res ix with Some r => inc r | None => True end.
Proof.
  intros ix Hb. induction args as [|a args IH]; intros i res Hr; simpl; auto.
  destruct a as [x|]; [|apply IH; auto].
  set (curr := match ix i (Some x) with Some c => merge c (bucket ix i None) | None => bucket ix i None end).
  assert (Hc : inc curr).
  { unfold curr. pose proof (Hb i (Some x)) as H1. unfold bucket in H1 at 1.
    destruct (ix i (Some x)); auto. apply inc_merge; auto. }
  destruct res as [r|].
  - assert (Hr' : inc (oset_and r curr)) by (unfold oset_and; apply inc_filter; auto).
    destruct (is_empty (oset_and r curr)); [simpl; unfold inc; constructor|]. apply IH. auto.
  - destruct (is_empty curr); [simpl; unfold inc; constructor|]. apply IH. auto.
Qed.

Theorem find_fixed_sorted : forall st n args, SortedInv st n -> inc (find_fixed args st).
Proof.
  intros st n args [H1 [H2 H3]]. unfold find_fixed.
  pose proof (find_fixed_loop_sorted (idx st) (fun i k => proj1 (H3 i k)) args 0 None I) as H.
  destruct (find_fixed_loop 0 args None (idx st)); [exact H|exact H1].
Qed.

(* the repaired find never returns a clause that is not in the predicate *)
Lemma find_fixed_loop_sub : forall ix (P : nat -> Prop), (forall i k x, In x (bucket ix i k) -> P x) ->
  forall args i (res : option oset), (match res with Some r => forall x, In x r -> P x | None => True end) ->
  match find_fixed_loop i args res ix with Some r => forall x, In x r -> P x | None => True end.
Proof.
  intros ix P Hb. induction args as [|a args IH]; intros i res Hr; simpl; auto.
  destruct a as [x|]; [|apply IH; auto].
  set (curr := match ix i (Some x) with Some c => merge c (bucket ix i None) | None => bucket ix i None end).
  assert (Hc : forall y, In y curr -> P y).
  { unfold curr. intros y Hy. pose proof (Hb i (Some x) y) as H1. unfold bucket in H1 at 1.
    destruct (ix i (Some x)); [|eauto]. apply In_merge in Hy. destruct Hy; eauto. }
  destruct res as [r|].
  - assert (Hr' : forall y, In y (oset_and r curr) -> P y).
    { intros y Hy. apply In_oset_and in Hy. apply Hc. tauto. }
    destruct (is_empty (oset_and r curr)); [simpl; intros ? []|]. apply IH. auto.
  - destruct (is_empty curr); [simpl; intros ? []|]. apply IH. auto.
Qed.
