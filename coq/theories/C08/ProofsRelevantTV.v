(* C08/ProofsRelevantTV.v — C08_relevant without a syntactic condition on negation: for a program with
   well-formed weights (0 <= p, sum p <= 1) that is not rejected as NotTwoValued, the relevant ground program is
   not rejected either and has the same value.
   1. an atom that is undefined in the well-founded model has an undefined body atom (`undef_body`);
   2. hence in a world of the restricted program (all rule bodies inside the cone) "some atom undefined" implies
      "some atom of the cone undefined", which is a local indicator (ProofsRelevant.wsum_ind_undef_restrict);
   3. world sums are monotone in the indicator when the weights are non-negative. *)
From Coq Require Import NArith QArith List Bool Permutation Lia Lqa.
From PL.Sem Require Import Program Sem SemFast SemBasics PermProofs StratProofs FuelProofs RelProofs.
From PL.C08 Require Import ProofsRelevant.
Import ListNotations.

Section TV.
Variable A : Type.
Variable eqb : A -> A -> bool.
Hypothesis eqb_spec : forall x y, eqb x y = true <-> x = y.

Notation nrule := (nrule A).
Notation mem := (mem A eqb).
Notation subset := (subset A eqb).

(* ------------------------------------------------------------------ 1. undefinedness propagates downwards *)
Lemma undef_body R U T Uk x : wfm A eqb R U = Some (T, Uk) -> In x Uk -> ~ In x T ->
  exists b c, In (x, b) R /\ In c (map lit_atom b) /\ In c Uk /\ ~ In c T.
Proof.
  intros H HxU HxT.
  destruct (wfm_seq A eqb eqb_spec R U T Uk H) as [m [HT [HUk Hst]]].
  pose proof (proj1 (HUk x) HxU) as D. unfold UP in D.
  destruct D as [x b HxUn Hin Hp Hn].
  set (test := fun l : lit A => match l with Pos c => negb (mem c T) | Neg c => mem c Uk end).
  destruct (existsb test b) eqn:E.
  - apply existsb_exists in E. destruct E as [l [Hl Ht]]. exists b.
    destruct l as [c|c]; simpl in Ht.
    + exists c. split; [exact Hin|]. split; [apply in_map_iff; exists (Pos c); auto|]. split.
      * apply HUk. apply Hp. exact Hl.
      * apply negb_true_iff in Ht. apply (mem_false A eqb eqb_spec). exact Ht.
    + exists c. split; [exact Hin|]. split; [apply in_map_iff; exists (Neg c); auto|]. split.
      * apply (mem_spec A eqb eqb_spec). exact Ht.
      * intro K. apply (Hn c Hl). apply HT. exact K.
  - exfalso. apply HxT. apply HT. apply Hst. cbn [TP].
    assert (forall l, In l b -> test l = false) as Hall.
    { intros l Hl. destruct (test l) eqn:Et; [|reflexivity].
      assert (existsb test b = true) as K by (apply existsb_exists; exists l; auto). congruence. }
    apply (derivP_intro A R U _ x b HxUn Hin).
    + intros c Hc. pose proof (Hall _ Hc) as K. simpl in K. apply negb_false_iff in K.
      apply (mem_spec A eqb eqb_spec) in K. apply HT in K. apply (TP_mono A R U m c K).
    + intros c Hc K. pose proof (Hall _ Hc) as K'. simpl in K'.
      apply (mem_false A eqb eqb_spec) in K'. apply K'. apply HUk. exact K.
Qed.

(* ------------------------------------------------------------------ 2. per-world bounds *)
Variable inS : A -> bool.
(* a rule whose body lies inside S (every rule of a kept clause, when S is closed) *)
Definition body_in (r : nrule) : Prop := forall l, In l (snd r) -> inS (lit_atom l) = true.

Lemma b2q_le b b' : (b = true -> b' = true) -> b2q b <= b2q b'.
Proof. destruct b, b'; simpl; intro H; try (specialize (H eq_refl); discriminate); unfold Qle; simpl; lia. Qed.

Lemma ind_undef_all_le_S R U : Forall body_in R ->
  ind_undef A eqb U (fun _ => true) R <= ind_undef A eqb U inS R.
Proof.
  intro HB. unfold ind_undef. destruct (wfm A eqb R U) as [[T Uk]|] eqn:E; [|apply Qle_refl]. simpl.
  apply b2q_le. intro H1. apply negb_true_iff in H1. apply negb_true_iff.
  destruct (subset (filter inS Uk) T) eqn:E2; [|reflexivity]. exfalso.
  apply (subset_spec A eqb eqb_spec) in E2.
  assert (subset (filter (fun _ => true) Uk) T = true) as K; [|congruence].
  apply (subset_spec A eqb eqb_spec). intros x Hx. apply filter_In in Hx. destruct Hx as [Hx _].
  destruct (mem x T) eqn:Em; [apply (mem_spec A eqb eqb_spec); exact Em|]. exfalso.
  apply (mem_false A eqb eqb_spec) in Em.
  destruct (undef_body R U T Uk x E Hx Em) as [b [c [Hin [Hc [HcU HcT]]]]].
  apply HcT. apply E2. apply filter_In. split; [exact HcU|].
  apply in_map_iff in Hc. destruct Hc as [l [<- Hl]].
  apply (proj1 (Forall_forall _ _) HB (x, b) Hin l Hl).
Qed.

Lemma ind_undef_S_le_all R U : ind_undef A eqb U inS R <= ind_undef A eqb U (fun _ => true) R.
Proof.
  unfold ind_undef. destruct (wfm A eqb R U) as [[T Uk]|]; [|apply Qle_refl]. simpl.
  apply b2q_le. intro H1. apply negb_true_iff in H1. apply negb_true_iff.
  destruct (subset (filter (fun _ => true) Uk) T) eqn:E2; [|reflexivity]. exfalso.
  apply (subset_spec A eqb eqb_spec) in E2.
  assert (subset (filter inS Uk) T = true) as K; [|congruence].
  apply (subset_spec A eqb eqb_spec). intros x Hx. apply filter_In in Hx. apply E2. apply filter_In. tauto.
Qed.

Lemma ind_undef_nonneg R U rel : 0 <= ind_undef A eqb U rel R.
Proof.
  unfold ind_undef. destruct (wfm A eqb R U) as [m|]; [|apply Qle_refl].
  change 0 with (b2q false). apply b2q_le. discriminate.
Qed.

(* ------------------------------------------------------------------ 3. monotone world sums *)
Definition wfw (cs : list (clause A)) : Prop := forall c, In c cs -> wf_clause c = true.

Lemma lsum_le {X} (hs : list (Q * X)) f g :
  (forall ph, In ph hs -> 0 <= fst ph) -> (forall ph, In ph hs -> f (snd ph) <= g (snd ph)) ->
  lsum hs f <= lsum hs g.
Proof.
  induction hs as [|[p x] hs IH]; simpl; intros Hp Hfg; [apply Qle_refl|].
  apply Qplus_le_compat.
  - rewrite (Qmult_comm p (f x)), (Qmult_comm p (g x)). apply Qmult_le_compat_r.
    + apply (Hfg (p, x)). left. reflexivity.
    + apply (Hp (p, x)). left. reflexivity.
  - apply IH; intros ph Hph; [apply Hp | apply Hfg]; right; exact Hph.
Qed.

Lemma expect_le {X} (hs : list (Q * X)) f g :
  (forall ph, In ph hs -> 0 <= fst ph) -> sum_p hs <= 1 ->
  (forall ph, In ph hs -> f (Some (snd ph)) <= g (Some (snd ph))) -> f None <= g None ->
  expect hs f <= expect hs g.
Proof.
  intros Hp Hs Hfg Hn. unfold expect. apply Qplus_le_compat.
  - apply lsum_le; assumption.
  - rewrite (Qmult_comm _ (f None)), (Qmult_comm _ (g None)). apply Qmult_le_compat_r; [exact Hn|]. lra.
Qed.

Lemma wf_AD hs b : wf_clause (AD hs b : clause A) = true ->
  (forall ph, In ph hs -> 0 <= fst ph) /\ sum_p hs <= 1.
Proof.
  simpl. intro H. apply andb_true_iff in H. destruct H as [H1 H2]. split.
  - intros ph Hph. rewrite forallb_forall in H1. specialize (H1 ph Hph). unfold prob_ok in H1.
    apply andb_true_iff in H1. destruct H1 as [H1 _]. apply Qle_bool_iff. exact H1.
  - apply Qle_bool_iff. exact H2.
Qed.

Section Mono.
Variable Pinv : nrule -> Prop.
Variables F G : list nrule -> Q.
Hypothesis HFG : forall acc, Forall Pinv acc -> F acc <= G acc.

Lemma wsum_le : forall cs, wfw cs ->
  (forall c, In c cs -> forall h, In h (clause_heads c) -> Pinv (h, clause_body c)) ->
  forall acc, Forall Pinv acc -> wsum A F cs acc <= wsum A G cs acc.
Proof.
  induction cs as [|c cs IH]; intros Hw Hcs acc Pa; simpl; [apply HFG; exact Pa|].
  assert (wfw cs) as Hw' by (intros c0 Hc0; apply Hw; right; exact Hc0).
  assert (forall c0, In c0 cs -> forall h, In h (clause_heads c0) -> Pinv (h, clause_body c0)) as Hcs'
    by (intros c0 Hc0; apply Hcs; right; exact Hc0).
  assert (forall h, In h (clause_heads c) -> Pinv (h, clause_body c)) as Hc by (apply Hcs; left; reflexivity).
  specialize (IH Hw' Hcs').
  destruct c as [h b|hs b].
  - apply IH. constructor; [apply (Hc h); left; reflexivity | exact Pa].
  - rewrite !ad_sum_expect.
    destruct (wf_AD hs b (Hw _ (or_introl eq_refl))) as [Hp Hs].
    apply expect_le; try assumption.
    + intros ph Hph. simpl. apply IH. constructor; [|exact Pa]. apply (Hc (snd ph)). simpl. apply in_map. exact Hph.
    + simpl. apply IH. exact Pa.
Qed.
End Mono.

Lemma wsum_nonneg F cs : wfw cs -> (forall acc, 0 <= F acc) -> 0 <= wsum A F cs [].
Proof.
  intros Hw HF.
  assert (wsum A (fun _ => 0) cs [] == 0) as Z by (apply (wsum_zero A); intros; reflexivity).
  rewrite <- Z. apply (wsum_le (fun _ => True) (fun _ => 0) F); auto.
Qed.

(* ------------------------------------------------------------------ 4. the restricted program is two-valued *)
Theorem restricted_two_valued cs :
  wfw cs -> Forall (closed_clause A inS) cs ->
  wsum A (ind_undef A eqb (universe A eqb cs) (fun _ => true)) cs [] == 0 ->
  wsum A (ind_undef A eqb (universe A eqb (filter (keeph A inS) cs)) (fun _ => true)) (filter (keeph A inS) cs) [] == 0.
Proof.
  intros Hw Hcl Hz.
  set (cs' := filter (keeph A inS) cs). set (U := universe A eqb cs). set (U' := universe A eqb cs').
  assert (wfw cs') as Hw' by (intros c Hc; apply Hw; apply filter_In in Hc; tauto).
  apply Qle_antisym; [|apply wsum_nonneg; [exact Hw' | intro; apply ind_undef_nonneg]].
  apply (Qle_trans _ (wsum A (ind_undef A eqb U' inS) cs' [])).
  - apply (wsum_le body_in); [intros acc Pa; apply ind_undef_all_le_S; exact Pa | exact Hw' | | constructor].
    intros c Hc h Hh l Hl. simpl in Hl. apply filter_In in Hc. destruct Hc as [Hc Hk].
    unfold keeph in Hk. apply existsb_exists in Hk. destruct Hk as [h0 [Hh0 Hs0]].
    apply (proj1 (Forall_forall _ _) Hcl c Hc h0 Hh0 Hs0 l Hl).
  - unfold U', cs'. rewrite <- (wsum_ind_undef_restrict A eqb eqb_spec inS cs Hcl). fold U.
    rewrite <- Hz. apply (wsum_le (fun _ => True)); auto. intros acc _. apply ind_undef_S_le_all.
Qed.

Theorem prob_gen_relevant_wf cs ev q :
  wfw cs -> Forall (closed_clause A inS) cs ->
  inS q = true -> (forall e, In e ev -> inS (fst e) = true) ->
  prob_gen A eqb cs ev q <> NotTwoValued ->
  prob_gen A eqb (filter (keeph A inS) cs) ev q = prob_gen A eqb cs ev q.
Proof.
  intros Hw Hcl Hq Hev Hn.
  apply (prob_gen_relevant_tv A eqb eqb_spec inS cs ev q Hcl Hq Hev Hn).
  assert (wsum A (ind_undef A eqb (universe A eqb cs) (fun _ => true)) cs [] == 0) as Hz.
  { unfold prob_gen in Hn.
    pose proof (wsum_fuel_zero A eqb eqb_spec cs (universe A eqb cs)) as F1. apply Qeq_bool_iff in F1.
    rewrite F1 in Hn. cbn [negb] in Hn.
    destruct (Qeq_bool (wsum A (ind_undef A eqb (universe A eqb cs) (fun _ => true)) cs []) 0) eqn:E;
      [apply Qeq_bool_iff; exact E | exfalso; apply Hn; reflexivity]. }
  pose proof (restricted_two_valued cs Hw Hcl Hz) as Hz'.
  unfold prob_gen.
  pose proof (wsum_fuel_zero A eqb eqb_spec (filter (keeph A inS) cs) (universe A eqb (filter (keeph A inS) cs))) as F2.
  apply Qeq_bool_iff in F2, Hz'. rewrite F2, Hz'. cbn [negb].
  match goal with |- (if ?c then _ else _) <> _ => destruct c end; discriminate.
Qed.
End TV.

Section ConeTV.
Variable A : Type.
Variable eqb : A -> A -> bool.
Hypothesis eqb_spec : forall x y, eqb x y = true <-> x = y.

Theorem prob_gen_restrict_wf cs goals cs' ev q :
  (forall c, In c cs -> wf_clause c = true) ->
  restrict A eqb cs goals = Some cs' -> In q goals -> (forall e, In e ev -> In (fst e) goals) ->
  prob_gen A eqb cs ev q <> NotTwoValued ->
  prob_gen A eqb cs' ev q = prob_gen A eqb cs ev q.
Proof.
  intro Hw. unfold restrict. destruct (cone A eqb (edges A cs) goals) as [C|] eqn:EC; [|discriminate].
  intros H Hq Hev. inversion H; subst cs'. clear H.
  pose proof (cone_closed A eqb eqb_spec cs goals C EC) as Hcl. destruct (cone_spec A eqb eqb_spec _ _ _ EC) as [Hg _].
  apply (prob_gen_relevant_wf A eqb eqb_spec (fun a => Sem.mem A eqb a C) cs ev q Hw Hcl).
  - apply (mem_spec A eqb eqb_spec). apply Hg. exact Hq.
  - intros e He. apply (mem_spec A eqb eqb_spec). apply Hg. apply Hev. exact He.
Qed.
End ConeTV.
